"""C06 — version negotiation settles on min(client max, reader max) and sticks to it."""
import json, os
from vlib import core

THEOREMS = ['consts', 'src_negotiate', 'src_classes_wf', 'src_picks_min', 'frames_eq', 'no_negotiation', 'picks_min', 'picks_min_ok', 'unsupported_is_1_0_1', 'set_only_if_needed',
            'negotiation_frames_v1_1', 'set_payload_denotes_version', 'supported_reply_decodes', 'failures_fail',
            'supported_none_iff', 'accepted_false_iff', 'after_version', 'result_version', 'stamped_after',
            # about the go2seq translation of the write loop, for every behaviour of the environment
            'src_stamping']
MODULES = ['LLRP.Proofs.SeqWriteLoop', 'LLRP.Model.Negotiate', 'LLRP.Model.GoSeq', 'LLRP.Proofs.SeqNegotiate', 'LLRP.Model.WriteSide', 'LLRP.Proofs.WriteSide', 'LLRP.Oracle.C06']
RULE = ('scripted independent reader over net.Pipe (frames built and parsed by hand): client maxima {1.0.1, 1.1} x reader (current, max) in '
        '{0..7}x{0..7} (plus whole-byte values beyond 3 bits and the shifted form 0x20/0x40) x first reaction {success, GetSupportedVersionResponse '
        'with error status, ERROR_MESSAGE with status 110/0/100/101/401/65535, wrong type (57, 4, 12, 1023), undecodable (6 shapes), oversize, '
        'connection lost} x second reaction {success, refused (110/101/401), ERROR_MESSAGE, wrong type, undecodable, oversize, lost} x keep-alives '
        'injected after GetSupportedVersion / after SetProtocolVersion / after the first later request. Compared line by line with the model: '
        'every frame the reader sees (version bits, type, id, payload), Connect proceeding or failing, Client.version, and the header version of a '
        'later request and of a later keep-alive acknowledgement. distinct = distinct scripts; non-trivial = scripts in which negotiation '
        'messages are sent')
ASSUMPTIONS = [
    'the negotiation model (LLRP.Model.Negotiate) is proved equal to the go2seq translation of Client.negotiate / getSupportedVersion / Message.isResponseTo '
    '(src_negotiate; the meaning of the calls they make is SeqGlue.negEnv / gsvEnv / isrEnv: hand-written); the write-side fold (LLRP.Model.WriteSide) is hand-written; '
    'both are tied to the real code by this differential run',
    'replies are classified by the codec model over the regenerated table (verb negotiate) and over the pinned specification table '
    '(verb negotiate-spec); the real client must agree with both',
    'an ERROR_MESSAGE whose status is Success is treated by the code like VersionUnsupported (reader taken to be 1.0.1); modelled as it is',
    'the client accepts whatever minimum results, including version 0 when the reader claims max 0 (then asks the reader to switch to 0); '
    'the property asks for min(client max, reader max), so this is modelled, not flagged',
    '"connection lost" is exercised with a client timeout (400 ms): without one Connect waits for ever (C09, owned by the lifecycle check)',
]
TRUSTED = ['hand-built reader frames and LLRPStatus TLVs in harness/llrp/zz_verif_c06_test.go']


def _run(tier, seed, only=None):
    binp, out = core.build_harness('llrp')
    if not binp:
        raise RuntimeError('harness build failed:\n' + out[-3000:])
    extra = {'VERIF_C06_ONLY': only} if only else None
    path, rc, out = core.run_harness(binp, 'TestVerifC06', tier, seed, extra_env=extra, timeout=600)
    if rc != 0:
        raise RuntimeError('harness run failed rc=%d:\n%s' % (rc, out[-3000:]))
    return core.read_cases(path)


def key_of(r):
    p = r.split(' ')
    return 'negotiate:' + ':'.join(p[1:])


def describe(r, o, i):
    p = r.split(' ')
    return ('client max %s, reader answers GetSupportedVersion with [%s] and SetProtocolVersion with [%s], keep-alives %s: '
            'code gives {%s}; the property (negotiation model over the specification table) requires {%s}' % (p[1], p[2], p[3], p[4], o, i))


def judge(res, reqs, obs):
    exp = core.oracle(reqs)
    intended = core.oracle([r.replace('negotiate ', 'negotiate-spec ', 1) for r in reqs])
    bad = []
    for r, e, i, o in zip(reqs, exp, intended, obs):
        res.evaluations += 1
        res.count('clientMax=' + r.split(' ')[1])
        res.count('result:' + (o.split(' result=')[1].split(' ')[0] if ' result=' in o else o))
        res.count('ka=' + r.split(' ')[4])
        if ':46:' in i:
            res.distinct.add(r)
        if o != i or o != e:
            bad.append((len(r), r, e, i, o))
    bad.sort()
    for _, r, e, i, o in bad:
        res.count('mismatch')
        if o != i:
            res.violation(key_of(r), describe(r, o, i), 'history', True, case=[r], expected=[i], observed=[o], model_of_source=[e])
        else:
            res.violation(key_of(r), 'script [%s]: code gives {%s} (as the property requires) but the model of the current source gives {%s}' % (r, o, e),
                          'correspondence', False, case=[r], expected=[e], observed=[o])
    return exp


def correspond(res, tier, seed):
    reqs, obs = _run(tier, seed)
    exp = judge(res, reqs, obs)
    n = len(reqs)
    res.exhaustive = True
    res.samples = [dict(request=reqs[i], oracle=exp[i], observed=obs[i]) for i in (0, n // 5, n // 3, n // 2, 2 * n // 3, n - 1) if 0 <= i < n]
    res.extra['scripts'] = n
    res.extra['traces_validated_against_impl'] = n


def explain(res, name, reason):
    """a broken codec obligation is witnessed by the correspondence: the scripts in which the reader reports (1,2)"""
    if name in ('set_payload_denotes_version', 'supported_reply_decodes'):
        have = [v['key'] for v in res.violations if v['found_input']] + [k for k, _ in res.known_hits]
        hits = [k for k in have if k.startswith('negotiate:2:56=x0102')]
        return hits or None
    return None


def replay(res, path):
    body = json.load(open(path))
    case = body.get('case') or []
    if not case:
        raise RuntimeError('replay has no case lines')
    reqs, obs = _run('quick', body.get('seed', 1), only=case[0])
    judge(res, reqs, obs)
    res.samples = [dict(request=r, observed=o) for r, o in zip(reqs, obs)]
