"""C18 — retry and back-off obey their limits for all inputs."""
import json, os, re
from vlib import core

THEOREMS = [
    # nextWait (stated over the go2lean translation LLRP.Gen.retry_nextWait)
    'wait_bounds', 'wait_nojitter', 'wait_jitter', 'wait_jitter_exact', 'nextWait_safe',
    'raw_edges', 'raw_negative_base_witness', 'api_wait_bounds', 'monitor_accepts', 'feasible_sound', 'feasible_complete',
    # RetryWithCtx: LLRP.Retry.run, proved equal to the go2seq translation of ExpBackOff.RetryWithCtx (src_retry), and
    # additionally tied by the differential run
    'src_retry',
    'runs_total', 'runs_exhaust', 'below_one_is_one', 'terminates', 'stops_at_once', 'success_iff_last_ok',
    'failure_reason', 'entry_is_vacuous', 'kept_errors', 'waits_are_nextWait', 'waits_bounded', 'deadline_respects_max',
]
MODULES = ['LLRP.Model.Retry', 'LLRP.Model.GoInt', 'LLRP.Model.GoSeq', 'LLRP.Proofs.Retry', 'LLRP.Proofs.SeqRetry', 'LLRP.Oracle.C18']
RULE = ('nextWait: n in -2..70 and 5 extreme n x (base, max) in {0, 1, 1ms, 1s, 1min, 2^62, 2^63-1, 3 random, -1, -2^63, random negative}^2 '
        'without jitter (value compared with the translated function, and judged by the Lean pause monitor for base, max >= 1), with jitter for base >= 0 (each observed value must be feasible for some draw 0 <= s < 2^n, '
        'decided arithmetically by the Lean model). RetryWithCtx: every outcome sequence over {ok, recoverable, fatal} of length <= 6 '
        'x retries {-5..5 incl. Forever} x KeepErrs {0,1,2,10,-3} on a live context; the wrappers RetrySome and Retry on sequences of length <= 4; context ended at entry; context ending '
        '(Canceled / DeadlineExceeded) at each wait position of every sequence of length <= 6, 3 trials each which must agree; waits of an '
        'hour cut short by the context; wait-exceeds-deadline at each wait position; elapsed time >= sum of the model waits; '
        '15 policies whose pauses are microseconds or hours under a context whose deadline lies 30 min ahead (the deadline check shows the magnitude of the pause of the policy as configured). '
        'Compared: call count, nil/non-nil, MainErr class, errors.Is against ErrRetriesExceeded/Canceled/DeadlineExceeded/'
        'ErrWaitExceedsDeadline/every operation error, len(Others) and its content, Attempts. '
        'distinct = distinct request lines; non-trivial = nextWait requests with n >= 1 and non-zero base and max, '
        'retry requests in which the operation is called at least twice or the context intervenes')
ASSUMPTIONS = ['rand.Int63n(k) returns a value in [0, k) (theorems about jitter take 0 <= rnd < 2^attempts as hypothesis)',
               'BackOff, Max and attempts are int64 values (range hypotheses of the nextWait theorems)',
               'the RetryWithCtx model (LLRP.Model.Retry) is proved equal (src_retry) to the go2seq translation of ExpBackOff.RetryWithCtx '
               '(loop on fuel); what stays hand-written is the meaning of the calls it makes (SeqGlue.retryEnv: the scripted operation and '
               'context, timers without effect, newFError/addErr as Retry.newFError/FErr.addErr); those and the translator are validated by the differential run; '
               'nextWait is the go2lean translation of the source',
               'a wait is abstracted to one of: timer fires first / ctx.Done observed first / deadline check fails; '
               'timer accuracy and the scheduler are runtime behaviour (elapsed >= sum of waits is measured, not proved)',
               'Retry/RetrySome only wrap RetryWithCtx in a context cancelled by SIGINT/SIGTERM; they are exercised without signals',
               'Attempts saturation at MaxInt and the attempt counter overflow under Forever need 2^63 calls and are modelled but not exercised']
TRUSTED = ['go2lean subset semantics (LLRP.Model.GoInt)', 'Go runtime: timers, select, context, math/rand']


def nontrivial(r):
    p = r.split(' ')
    if p[0] == 'nextwait':
        return p[1] != '0' and p[2] != '0' and not p[4].startswith('-') and p[4] != '0'
    if p[0] == 'wait-spec':
        return not p[4].startswith('-') and p[4] != '0'
    if p[0] == 'nextwait-feasible':
        return p[1] != '0' and p[2] != '0' and not p[3].startswith('-') and p[3] != '0'
    if p[0] == 'retry-probe':
        return True
    if p[0] in ('retry', 'retry-elapsed'):
        outs, ctx = p[3], p[4]
        return outs.startswith('r') or len(ctx) > 1 or ctx[0] in 'CD'
    return False


def correspond(res, tier, seed, only=None):
    binp, out = core.build_harness('retry')
    if not binp:
        raise RuntimeError('harness build failed:\n' + out[-3000:])
    path, rc, out = core.run_harness(binp, 'TestVerifC18', tier, seed, pkg='retry', timeout=600,
                                     extra_env={'VERIF_C18_TRIALS': '16'} if only is not None else None)
    if rc != 0:
        raise RuntimeError('harness run failed rc=%d:\n%s' % (rc, out[-3000:]))
    reqs, obs = core.read_cases(path)
    exp = core.oracle(reqs)
    seen = set()
    first = {}
    groups = {}
    for i, (r, e, o) in enumerate(zip(reqs, exp, obs)):
        res.evaluations += 1
        verb = r.split(' ')[0]
        res.count(verb)
        if verb == 'retry':
            ctx = r.split(' ')[4]
            res.count('retry:ctx=' + ('live' if len(ctx) == 1 and ctx in '-h' else 'entry-ended' if ctx[0] in 'CD' else
                                      'ends-at-wait' if ctx[-1] in 'cx' else 'wait-exceeds-deadline'))
        first.setdefault(verb, i)
        if r not in seen:
            seen.add(r)
            if nontrivial(r):
                res.distinct.add(r)
        if e != o:
            res.count('mismatch')
            if only is None or r in only:
                groups.setdefault(clause_of(r, e, o), []).append((r, e, o))
    # one violation per (verb, clause) and input shape: the smallest failing inputs, with the number of others
    for cl in sorted(groups):
        g = sorted(groups[cl], key=lambda t: (len(t[0]), t[0]))
        for r, e, o in (g if only is not None else g[:2]):
            report(res, r, e, o, cl, len(g))
    res.exhaustive = False
    picks = sorted(set(list(first.values()) + [len(reqs) // 5, len(reqs) // 2, len(reqs) - 1200, len(reqs) - 700, len(reqs) - 1]))
    res.samples = [dict(request=reqs[i], oracle=exp[i], observed=obs[i]) for i in picks if 0 <= i < len(reqs)]
    res.extra['traces_validated_against_impl'] = sum(1 for r in reqs if r.startswith('retry'))


def field(s, name):
    m = re.search(r'\b%s=(\S+)' % name, s)
    return m.group(1) if m else None


def clause_of(r, e, o):
    """which clause of the property the observation contradicts (the model's answer e is proved to satisfy all)"""
    parts = r.split(' ')
    verb = parts[0]
    if verb == 'retry-probe':
        return 'deadline_respects_max' if 'main=W' in o and 'main=W' not in e else 'waits_are_nextWait'
    if verb != 'retry':
        return verb
    ctx = parts[4]
    if o.startswith('nondeterministic'):
        return 'stops_at_once' if ctx[-1] in 'cx' else 'deterministic'
    if o in ('timeout', 'panic'):
        return o
    if field(e, 'calls') != field(o, 'calls'):
        oc = int(field(o, 'calls') or 0)
        # calls made although the context had ended at entry / after the wait at which it ended or the deadline check failed
        after_ctx = (ctx[0] in 'CD' and oc > 0) or (ctx[-1] in 'cxd' and oc > len(ctx) - 1)
        return 'stops_at_once' if after_ctx else 'runs_total'
    if field(e, 'result') != field(o, 'result'):
        return 'success_iff_last_ok'
    if field(e, 'main') != field(o, 'main') or field(e, 'is') != field(o, 'is'):
        return 'failure_reason'
    if field(e, 'kept') != field(o, 'kept') or field(e, 'others') != field(o, 'others'):
        return 'kept_errors'
    return 'attempts'


def report(res, r, e, o, clause, n_same):
    """a disagreement between the real code and the model (which is proved to have the property)"""
    parts = r.split(' ')
    verb = parts[0]
    more = '' if n_same <= 1 else ' [%d inputs of this run fail this clause]' % n_same
    if verb == 'nextwait':
        b, m, j, n = parts[1:5]
        what = 'nextWait(BackOff=%s, Max=%s, Jitter=false, attempts=%s) = %s; the proved model gives %s' % (b, m, n, o, e)
        try:
            if o != 'panic' and int(b) >= 1 and int(m) >= 1 and not (0 <= int(o) <= int(m)):
                what += ' (outside [0, Max])'
        except ValueError:
            pass
        res.violation('nextwait:%s:%s:0:%s' % (b, m, n), what + more, 'input', True, case=[r], expected=[e], observed=[o])
    elif verb == 'wait-spec':
        b, m, j, n, w = parts[1:6]
        res.violation('wait-spec:%s:%s:%s:%s' % (b, m, j, n),
                      'nextWait(BackOff=%s, Max=%s, Jitter=%s, attempts=%s) returned %s: %s' % (b, m, 'true' if j == '1' else 'false', n, w,
                      'it panics' if w == 'panic' else 'not the pause the property prescribes (closed form without jitter; within [0, min(Max, BackOff*(2^n-1))] and Max or a multiple of BackOff with jitter)') + more,
                      'input', True, case=[r], expected=[e], observed=[o])
    elif verb == 'nextwait-feasible':
        b, m, n, w = parts[1:5]
        res.violation('nextwait:%s:%s:1:%s' % (b, m, n),
                      'nextWait(BackOff=%s, Max=%s, Jitter=true, attempts=%s) returned %s, which no draw 0 <= s < 2^attempts yields in the proved model (%s)%s'
                      % (b, m, n, w, o if o != 'yes' else e, more),
                      'input', True, case=[r], expected=[e], observed=[o])
    elif verb == 'retry-probe':
        res.violation('retry-probe:%s:%s' % (clause, ' '.join(parts[1:4])),
                      'RetryWithCtx(cfg=BackOff,Max,KeepErrs,Jitter=%s, retries=%s, outcomes=%s) under a context whose deadline lies %s ns ahead: observed [%s]; '
                      'with the pauses of the policy as configured the proved model gives [%s] (the pause compared with the deadline is not min(Max, BackOff*2^(n-1)))%s'
                      % (parts[1], parts[2], parts[3], parts[4], o, e, more),
                      'input', True, case=[r], expected=[e], observed=[o])
    elif verb == 'retry-elapsed':
        res.violation('retry-elapsed:' + ' '.join(parts[1:5]), 'RetryWithCtx returned after %s ns: %s (the waits were not slept through)%s' % (parts[5], e, more),
                      'input', True, case=[r], expected=[e], observed=[o])
    else:
        key = 'retry:%s:%s' % (clause, ' '.join(parts[1:]))
        res.violation(key, 'RetryWithCtx(cfg=BackOff,Max,KeepErrs,Jitter=%s, retries=%s, outcomes=%s, ctx=%s): observed [%s]; the proved model gives [%s] (clause %s)%s'
                      % (parts[1], parts[2], parts[3], parts[4], o, e, clause, more),
                      'input', True, case=[r], expected=[e], observed=[o])


def replay(res, path):
    body = json.load(open(path))
    case = body.get('case') or []
    if not case:
        raise RuntimeError('replay has no case lines')
    # re-run the correspondence and report only the replayed request lines
    correspond(res, 'quick', body.get('seed', 1), only=set(case))
