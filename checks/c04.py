"""C04 — the inbound stream stays frame-aligned whatever handlers do."""
import json, os, re
from vlib import core

THEOREMS = ['consts_match', 'rd_wire', 'aligned', 'starts_get', 'starts_length', 'delivered_once', 'entitled_exactly_once',
            'specRun_unhandled', 'panic_survives', 'chunking_irrelevant',
            # ReadSide.dispatch proved equal to the go2seq translation of Client.passToHandler
            'src_dispatch']
MODULES = ['LLRP.Model.GoSeq', 'LLRP.Proofs.SeqDispatchEq', 'LLRP.Model.ReadSide', 'LLRP.Model.ReadStages', 'LLRP.Proofs.ReadSide', 'LLRP.Oracle.C04']
RULE = ('scripted sessions against the real Client (1.0.1, after the greeting): random sessions of 2-30 frames (types with a registered '
        'handler, with only the default handler, with none; payload 0..70000; ids of outstanding callers, of answered or cancelled '
        'callers, of nobody; callers registered and cancelled between batches); payloads of limit-1, limit, limit+1, limit+2, 2*limit+3 '
        'and 2-5 MiB on each of the six dispatch paths (awaited, awaited+handler, awaited+default, handler, default, nobody) followed '
        'by a small frame; handlers reading 0, 1, n/2, n-1, n, n+5 bytes or panicking after 0, n/2, n, streamed and buffered. Every '
        'session is run under 2-4 segmentations of the same stream (one write, random chunks with 1-4 byte chunks around frame '
        'boundaries, split exactly at header/payload boundaries, over net.Pipe and loopback TCP). Compared with the oracle: offset '
        'and fields of every header parsed, every handler call (frame, party, bytes read and their hash, panic), discarded frames, '
        'every caller\'s SendMessage result, Connect\'s result. distinct = distinct (session, segmentation); all non-trivial')
ASSUMPTIONS = [
    'the read-side model (LLRP.Model.ReadSide) is hand-written; it is tied to reader.go by this differential run',
    'the await set at each lookup is an input of the model (registrations / cancellations per frame); which frames may be correlated with an '
    'awaiting caller is the id-only rule of the current passToHandler (C03 owns that rule; replies in these sessions carry reply types)',
    'a frame offset is observed as (bytes the client has read from the connection) - 10 at the ReceivedMsg logger hook',
]
TRUSTED = ['ClientLogger hooks as observation points of the read loop']


def _run(tier, seed, only=None):
    binp, out = core.build_harness('llrp')
    if not binp:
        raise RuntimeError('harness build failed:\n' + out[-3000:])
    extra = {'VERIF_C04_ONLY': only} if only else None
    path, rc, out = core.run_harness(binp, 'TestVerifC04', tier, seed, extra_env=extra, timeout=1700)
    if rc != 0:
        cur = path + '.cur'
        if 'panic:' in out and os.path.exists(cur):
            raise Crash(open(cur).read().strip(), out[out.index('panic:'):][:1500])
        raise RuntimeError('harness run failed rc=%d:\n%s' % (rc, out[-3000:]))
    return core.read_cases(path)


class Crash(Exception):
    def __init__(self, tag, text):
        Exception.__init__(self, tag)
        self.tag, self.text = tag, text


def crashed(res, c):
    res.count('process-crash')
    res.violation(c.tag, 'session %s: a panic escaped a goroutine of the client and ended the process (a panicking handler must not end '
                  'the connection): %s' % (c.tag, c.text[:300].replace('\n', ' | ')), 'history', True,
                  case=['c04-crash #' + c.tag], expected=['the loop keeps serving'], observed=[c.text])


def tag_of(r):
    return r.rsplit('#', 1)[1] if '#' in r else r[:80]


def first_diff(e, o):
    fe = dict(x.split('=', 1) for x in e.split(' ') if '=' in x)
    fo = dict(x.split('=', 1) for x in o.split(' ') if '=' in x)
    for k in ('hdrs', 'deliv', 'unh', 'callers', 'fin'):
        if fe.get(k) != fo.get(k):
            a, b = (fe.get(k) or '').split(','), (fo.get(k) or '').split(',')
            for i in range(max(len(a), len(b))):
                x = a[i] if i < len(a) else '(none)'
                y = b[i] if i < len(b) else '(none)'
                if x != y:
                    return '%s[%d]: model %s, code %s' % (k, i, x, y)
    return 'observation %r' % o[:200]


def judge(res, reqs, obs):
    exp = core.oracle(reqs)
    for r, e, o in zip(reqs, exp, obs):
        res.evaluations += 1
        tag = tag_of(r)
        res.distinct.add(tag)
        res.count('family:' + re.sub(r'\d+', '', tag.split('/')[0].split(':')[0]))
        res.count('segmentation:' + '/'.join(tag.split('/')[1:]))
        if e != o:
            res.count('mismatch')
            res.violation(tag, 'session %s: %s' % (tag, first_diff(e, o)), 'history', True,
                          case=[r[:20000]], expected=[e[:5000]], observed=[o[:5000]])
    return exp


def correspond(res, tier, seed):
    try:
        reqs, obs = _run(tier, seed)
    except Crash as c:
        return crashed(res, c)
    exp = judge(res, reqs, obs)
    n = len(reqs)
    res.samples = [dict(request=reqs[i][:300], oracle=exp[i][:300], observed=obs[i][:300]) for i in (0, n // 5, n // 3, n // 2, 2 * n // 3, n - 1) if 0 <= i < n]
    res.extra['sessions'] = n
    res.extra['frames'] = sum(e.count(':') // 4 for e in [x.split(' ')[0] for x in exp])
    res.extra['traces_validated_against_impl'] = n


def replay(res, path):
    body = json.load(open(path))
    tag = body.get('key')
    try:
        reqs, obs = _run(body.get('tier', 'quick'), body.get('seed', 1), only=tag)
    except Crash as c:
        return crashed(res, c)
    judge(res, reqs, obs)
    res.samples = [dict(request=r[:300], observed=o[:300]) for r, o in zip(reqs, obs)]
