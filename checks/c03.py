"""C03 — replies are delivered to the request that caused them, and only to it."""
import json, os
from vlib import core

THEOREMS = ['type_codes', 'reply_matches', 'no_double_delivery', 'only_to_owner', 'unsolicited_never_delivered',
            'no_fabricated_reply', 'wire_id', 'distinct_callers_distinct_frames', 'no_panic', 'monitor_sound',
            # about the go2seq translation of the source, for every environment
            'src_unsolicited_never_matched', 'src_unsolicited_consts']
MODULES = ['LLRP.Proofs.SeqDispatch', 'LLRP.Model.GoSeq', 'LLRP.Model.ClientLTS', 'LLRP.Model.ClientMon', 'LLRP.Proofs.ClientLTS', 'LLRP.Proofs.ClientLTS2', 'LLRP.Oracle.LTSim', 'LLRP.Oracle.C03']
RULE = ('deterministic scripts over the real Client on net.Pipe (prologue: no negotiation / 1.0.1 reader / 1.1 reader; then random '
        'sequences of: issue a request, reply to a random outstanding request, unsolicited KeepAlive/ROAccessReport/ReaderEventNotification '
        'whose id COLLIDES with an outstanding request, cancel a caller, replies nobody waits for (cancelled / completed / unknown id); close) '
        'compared line by line with the run of the LTS; concurrent stress (2..16 callers, thorough ..64; replies permuted; colliding unsolicited '
        'frames; 20% of callers cancel) judged by the Lean monitor check-c03. distinct = distinct request lines; non-trivial = all')
ASSUMPTIONS = [
    'the client LTS (LLRP.Model.ClientLTS) is hand-written; it is tied to reader.go by the deterministic scripts (every script is played '
    'under three schedules by the oracle, which answers nondet when the observation depends on the schedule) and by the monitor on real concurrent runs',
    'fewer than 2^32 requests per connection: message ids are modelled as unbounded naturals (the write loop numbers requests 0,1,2,... '
    'and the uint32 counter wraps after 2^32 requests; every message passed through the public API has id 0 = unset, so assigned ids are the counter values)',
    'select semantics: a rendezvous on sendQueue cannot happen after done is closed; two ready cases are a free choice',
    'the stress observation identifies frames by harness-chosen payload tokens (the monitor rejects an observation whose peer tokens are not distinct)',
    'real schedules are sampled, not enumerated (the theorems cover all schedules of the model)',
]
TRUSTED = ['script executor harness/llrp/zz_verif_lts_test.go (hand-built headers, net.Pipe)']


def _run(tier, seed, only=None, race=False):
    binp, out = core.build_harness('llrp', race=race)
    if not binp:
        raise RuntimeError('harness build failed:\n' + out[-3000:])
    extra = {'VERIF_C03_ONLY': only} if only else None
    path, rc, out = core.run_harness(binp, 'TestVerifC03', 'quick' if race else tier, seed, extra_env=extra, timeout=1200,
                                     outname='cases_TestVerifC03_race.txt' if race else None)
    if rc != 0:
        if race and 'DATA RACE' in out:
            return None, out
        raise RuntimeError('harness run failed rc=%d:\n%s' % (rc, out[-3000:]))
    return core.read_cases(path)


def judge(res, reqs, obs):
    exp = core.oracle([r.split(' #')[0] for r in reqs])
    for r, e, o in zip(reqs, exp, obs):
        res.evaluations += 1
        verb = r.split(' ')[0]
        res.count(verb)
        res.distinct.add(r)
        if verb == 'lts':
            script = r[4:]
            if e.startswith('nondet') or e == 'bad-op':
                res.violation('script:' + script, 'the oracle cannot predict script [%s]: %s' % (script, e), 'correspondence', False,
                              case=[r], expected=[e], observed=[o])
            elif e != o:
                res.count('mismatch')
                res.violation('lts:' + script, 'script [%s]: the client gives %s; the LTS (proved to have the property) gives %s' % (script, o, e),
                              'history', True, case=[r], expected=[e], observed=[o])
        else:
            tag = r.split(' #')[1] if ' #' in r else 'stress'
            res.count('callers=%s' % tag.split(':')[1])
            if o != 'accept':
                res.violation(tag + ':' + o, 'concurrent run %s: %s' % (tag, o), 'history', True, case=[r], expected=['accept'], observed=[o])
            elif e != 'accept':
                res.count('mismatch')
                res.violation(tag + ':' + e.replace(' ', '-'), 'concurrent run %s: the monitor says %s for the recorded observation' % (tag, e),
                              'history', True, case=[r], expected=['accept'], observed=[e])
    return exp


def correspond(res, tier, seed):
    reqs, obs = _run(tier, seed)
    exp = judge(res, reqs, obs)
    n = len(reqs)
    res.exhaustive = False
    res.samples = [dict(request=reqs[i][:400], oracle=exp[i], observed=obs[i]) for i in (0, n // 4, n // 2, n - 1) if 0 <= i < n]
    res.extra['scripts'] = sum(1 for r in reqs if r.startswith('lts '))
    res.extra['stress_runs'] = sum(1 for r in reqs if r.startswith('check-c03 '))
    res.extra['traces_validated_against_impl'] = n
    if tier == 'thorough':
        # the same scripts and stress runs under the race detector
        r2, o2 = _run(tier, seed, race=True)
        if r2 is None:
            res.violation('race:TestVerifC03', 'the race detector reports a data race in the correlation scenarios: ' + o2[o2.find('DATA RACE'):][:600],
                          'history', True, case=['race TestVerifC03'], observed=[o2[-2000:]])
        else:
            judge(res, r2, o2)
            res.extra['race_build_cases'] = len(r2)


def replay(res, path):
    body = json.load(open(path))
    case = body.get('case') or []
    if not case:
        raise RuntimeError('replay has no case lines')
    line = case[0]
    if line.startswith('lts '):
        reqs, obs = _run('quick', body.get('seed', 1), only=line[4:])
    else:
        tag = line.split(' #')[1]
        _, n, idx = tag.split(':')[:3]
        reqs, obs = _run('quick', body.get('seed', 1), only='stress %s %s' % (n, idx))
    judge(res, reqs, obs)
    res.samples = [dict(request=r[:400], observed=o) for r, o in zip(reqs, obs)]
