"""C10 — a hostile or broken peer cannot crash, wedge or balloon the client."""
import json, os, re
from vlib import core

THEOREMS = ['rd_no_panic', 'rd_total', 'ends_with_error', 'wait_only_when_closing', 'alloc_bounded', 'stage_no_panic',
            'stage_alloc_bounded', 'data_alloc_bounded', 'viaData_is_msgData', 'ack_handler_nonblocking', 'handle_guarded_recovers',
            'oversize_is_error', 'reply_complete_or_error', 'connect_ends_with_error',
            'old_gsv_panics', 'old_oversize_empty_success',
            # about the go2seq translation of the source, for every environment
            'src_read_loop_never_nil', 'src_read_error_ends_loop',
            # ReadSide.dispatch proved equal to the go2seq translation of Client.passToHandler
            'src_dispatch']
MODULES = ['LLRP.Proofs.SeqDispatchEq', 'LLRP.Proofs.SeqReadLoop', 'LLRP.Model.GoSeq', 'LLRP.Model.ReadSide', 'LLRP.Model.ReadStages', 'LLRP.Proofs.ReadSide', 'LLRP.Oracle.C04', 'LLRP.Oracle.C10']
RULE = ('[device-service leg: 1-4 real LLRPDevices fed UTC- and uptime-stamped reports and events, truncated reports and garbage by scripted readers (the C13 traffic); judged: no goroutine of the service panics] [trickle: a reply whose payload arrives after its caller gave up, then an ordinary exchange] '
        'two valid session transcripts (1.0.1: greeting, two request/reply exchanges, keep-alive, tag report; 1.1: greeting, '
        'GetSupportedVersion and SetProtocolVersion exchanges, keep-alive), each frame of each transcript mutated: truncation at header '
        'bytes and payload bytes (thorough: every byte), declared length 0..9, real+-1, limit, limit+1, limit+2, 2^31, 2^32-1 (with and '
        'without the rest of the session), real payloads of limit and limit+1.. bytes, 14 type codes, flipped payload bytes, random tails, '
        'garbage; handler variants (default handler reading everything, panicking handlers; handlers that call msg.data() / '
        'msg.UnmarshalTo on unsolicited and awaited+handled frames declaring limit-1, limit, limit+1, 2^28, 2^32-1 with 32 real bytes then EOF, '
        'or the whole payload); flood then hang-up (1-20 KeepAlives, alone or mixed with reports, while the peer reads nothing, then EOF; 1.0.1 and '
        'after a 1.1 negotiation); six local-Shutdown scenarios. Each scenario runs the real Client in a child process; observed: child survival, Connect result class, every caller\'s '
        'SendMessage result, runtime.MemStats.TotalAlloc delta against 4*(limit+bytes sent)+1MiB. distinct = distinct scenarios; all non-trivial')
ASSUMPTIONS = [
    'the read-side model (LLRP.Model.ReadSide/ReadStages) is hand-written; it is tied to reader.go/messages.go by this differential run and by C04',
    'the inbound stream is the complete byte sequence the peer sends before closing its side; a local Close/Shutdown is not part of these runs',
    '1.1 scenarios run with a 600 ms client timeout: without one, a connection that ends during negotiation leaves Connect blocked (C09 finding 7)',
    'real heap usage is measured per scenario (TotalAlloc), not proved; decoder allocations are bounded by C11',
]
TRUSTED = ['child-process supervision of the harness (a crashed child = observation panic)']


def _run(tier, seed, only=None):
    binp, out = core.build_harness('llrp')
    if not binp:
        raise RuntimeError('harness build failed:\n' + out[-3000:])
    extra = {'VERIF_C10_ONLY': only} if only else None
    path, rc, out = core.run_harness(binp, 'TestVerifC10', tier, seed, extra_env=extra, timeout=1700)
    if rc != 0:
        raise RuntimeError('harness run failed rc=%d:\n%s' % (rc, out[-3000:]))
    return core.read_cases(path)


def name_of(r):
    if r.startswith('c10-crash '):
        return r.split(' ', 1)[1]
    return r.rsplit('#', 1)[1] if '#' in r else r[:80]


def forbidden(e, o, r=''):
    """does the observation break the property itself (not merely differ from the model)?"""
    if o.startswith('panic') or 'panic' in o:
        return 'a goroutine of the client panicked'
    m = re.match(r'connect=(\S+) callers=(\S+) alloc=(\S+)', o)
    if not m:
        return None
    me = re.match(r'connect=(\S+) callers=(\S+) alloc=(\S+)', e)
    if m.group(3) != 'ok':
        return 'allocation not bounded by the buffering limit: ' + m.group(3)
    local = ' sd=' in r      # a local Shutdown is in progress: waiting for the local Close / returning ErrClientClosed is the contract
    if m.group(1) != 'error' and not (local and me and me.group(1) == m.group(1) and m.group(1) in ('blocked', 'closed')):
        return 'the serving call did not return an error after the stream ended: ' + m.group(1)
    if me:
        exp = dict(x.split('=') for x in me.group(2).split(',') if '=' in x)
        for x in m.group(2).split(','):
            if '=' in x:
                k, v = x.split('=')
                if exp.get(k) == 'err' and v.startswith('ok'):
                    return 'caller %s got a success (%s) for a reply that must be an error' % (k, v)
                if v == 'timeout' and not k.startswith('sd'):
                    return 'caller %s stayed blocked' % k
    return None


def judge(res, reqs, obs):
    exp = core.oracle(reqs)
    for r, e, o in zip(reqs, exp, obs):
        res.evaluations += 1
        name = name_of(r)
        res.distinct.add(name)
        parts = name.split(':')
        res.count('transcript:' + parts[0])
        if len(parts) > 1:
            res.count('stage:' + parts[1].split('@')[0])
        if len(parts) > 2:
            res.count('mutation:' + re.sub(r'\d+', '', parts[2]))
        why = forbidden(e, o, r)
        if e != o or why:
            res.count('mismatch')
            if why:
                res.violation(name, 'scenario %s: %s (observed %s; the model, proved to have the property, gives %s)' % (name, why, o, e),
                              'history', True, case=[r], expected=[e], observed=[o])
            else:
                res.violation(name, 'scenario %s: code gives %s, model gives %s' % (name, o, e), 'correspondence', False,
                              case=[r], expected=[e], observed=[o])
    return exp


def driver_leg(res, tier, seed):
    """the device service's own handlers on inbound traffic (device.go is an anchor of this property): real LLRPDevices fed
    well-formed but unusual and damaged reports / events by scripted readers (the C13 traffic generator: UTC- and
    uptime-stamped reports and events, truncated reports, garbage payloads); here only survival is judged"""
    binp, out = core.build_harness('driver')
    if not binp:
        raise RuntimeError('driver harness build failed:\n' + out[-3000:])
    path, rc, out = core.run_harness(binp, 'TestVerifC13', tier, seed, pkg='driver', timeout=900, outname='cases_c10_driver.txt')
    res.evaluations += 1
    res.count('driver-leg')
    crash = core.crash_summary(out) if rc != 0 else None
    if crash:
        head, frames, trace = crash
        res.violation('driver:crash:' + (frames[0] if frames else head), 'a goroutine of the device service panicked on inbound traffic (%s in %s): the process died'
                      % (head, ' <- '.join(frames) or '?'), 'history', True, case=['TestVerifC13 seed=%s tier=%s' % (seed, tier)], expected=['no panic'], observed=[trace])
    elif rc != 0:
        raise RuntimeError('driver harness run failed rc=%d:\n%s' % (rc, out[-3000:]))


def correspond(res, tier, seed):
    reqs, obs = _run(tier, seed)
    exp = judge(res, reqs, obs)
    driver_leg(res, tier, seed)
    n = len(reqs)
    res.samples = [dict(request=reqs[i][:300], oracle=exp[i], observed=obs[i]) for i in (0, n // 5, n // 3, n // 2, 2 * n // 3, n - 1) if 0 <= i < n]
    res.extra['scenarios'] = n
    res.extra['traces_validated_against_impl'] = n


def replay(res, path):
    body = json.load(open(path))
    case = body.get('case') or []
    if not case:
        raise RuntimeError('replay has no case lines')
    name = name_of(case[0])
    reqs, obs = _run(body.get('tier', 'quick'), body.get('seed', 1), only=name)
    judge(res, reqs, obs)
    res.samples = [dict(request=r[:300], observed=o) for r, o in zip(reqs, obs)]
