"""C05 — outbound stream is a sequence of whole, correctly sized frames."""
import json, os
from vlib import core

THEOREMS = ['consts', 'single_writer', 'src_frame_header', 'failed_stream_is_prefix', 'out_is_frames', 'frames_parse_back', 'ids_exact', 'ids_distinct', 'each_request_once',
            'token_has_frame', 'nothing_after_close', 'close_is_whole', 'monitor_sound']
MODULES = ['LLRP.Model.WriteSide', 'LLRP.Proofs.HeaderGen', 'LLRP.Model.WriteMonitor', 'LLRP.Proofs.WriteSide', 'LLRP.Oracle.C05']
RULE = ('A: deterministic dequeue orders (one item at a time, each waiting for its frame) of requests via SendMessage / SendNoWait with payload sizes '
        '0,1,2,3,9,10,11,255,256,1023,4096,65535,65536, MaxBufferedPayloadSz, +1 (thorough: 4 MiB, 20 random orders), keep-alive acks with ids '
        '0, 2^31, 2^32-1 between them, CloseConnection with and without payload last; the raw stream the peer recorded is split by hand and compared '
        'frame by frame (version, type, id, length, FNV-32 of payload, stray bytes) with the write-side fold. '
        "A': local Close() while a 40 KB - 4 MiB payload is in flight on a healthy connection (the peer has taken the header and 0 - 70000 payload bytes and pauses during Close): the raw stream is judged by the monitor. "
        "A'': a client with a 250 ms write deadline whose peer takes 1-12 bytes of a request frame and stops reading for 1.5 deadlines while it keeps sending notifications (the read side stays alive), then reads on: what the peer received must be a prefix of the frame the fold writes (wr-prefix, theorem failed_stream_is_prefix). "
        'B: concurrent stress over net.Pipe and loopback TCP: 1,2,4,8,16 (thorough 32,64) senders x 5-12 messages, SendMessage and SendNoWait, '
        'contexts cancelled after 0-5 ms, one request in seven never answered, 6-16 (thorough 40) keep-alives injected at random moments (ids 0,1,2^31,2^32-1, '
        'a duplicate, random), graceful Shutdown racing with late senders; the RAW byte stream is judged by the Lean monitor checkWrite '
        '(proved to accept every model run). distinct = distinct request lines; non-trivial = all')
ASSUMPTIONS = [
    'the write-side fold (LLRP.Model.WriteSide) is hand-written; it is tied to handleOutgoing by the deterministic runs (exact frames and ids) and the stress runs (monitor)',
    'the order in which the single write goroutine dequeues items is arbitrary input of every theorem; that there is a single writer is decided over the regenerated writer table',
    'a Message is submitted once: re-sending a Message whose streaming payload was consumed, or a Message built inside the package with payloadLen different from its reader\'s length, is outside the domain (WItem.WF)',
    'ids: a caller-preset non-zero id is kept and can collide with an assigned one; the exported constructors always leave id 0 (AllFresh); after 2^32 requests ids repeat (ids_exact)',
    '"must appear" in the stress runs = SendMessage returned a reply, or SendNoWait returned nil (the rendezvous with the write loop happened)',
]
TRUSTED = ['hand-written frame splitter and payload generator in harness/llrp/zz_verif_c05_test.go; go-side FNV-32']


def _run(tier, seed, only=None):
    binp, out = core.build_harness('llrp')
    if not binp:
        raise RuntimeError('harness build failed:\n' + out[-3000:])
    extra = {'VERIF_C05_ONLY': only} if only else None
    path, rc, out = core.run_harness(binp, 'TestVerifC05', tier, seed, extra_env=extra, timeout=900)
    if rc != 0:
        raise RuntimeError('harness run failed rc=%d:\n%s' % (rc, out[-3000:]))
    return core.read_cases(path)


def judge(res, reqs, obs, seed, first_stress=0):
    exp = core.oracle(reqs)
    k = first_stress
    for r, e, o in zip(reqs, exp, obs):
        res.evaluations += 1
        verb = r.split(' ', 1)[0]
        res.count(verb)
        if verb == 'wr-seq':
            res.distinct.add(r)
            if e != o:
                res.count('mismatch')
                prop = True     # the model provably has the property and these scripts are in its domain
                res.violation('seq:' + r.split(' ', 1)[1], 'dequeue order [%s]: code wrote {%s}; the write-side model (which has the property) writes {%s}' % (r.split(' ', 1)[1], o, e),
                              'history', prop, case=[r], expected=[e], observed=[o])
        else:
            parts = r.split(' ')
            if parts[-1].startswith('#'):
                tag = parts.pop()[1:]
            else:
                tag = 'stress:%d' % k
                k += 1
            res.distinct.add(tag)
            res.count('stress-bytes', (len(parts[1]) - 1) // 2)
            res.count('stress-requests', len(parts) - 4)
            if e != o:
                res.count('mismatch')
                short = ' '.join([parts[0], parts[1][:200] + ('…' if len(parts[1]) > 200 else '')] + parts[2:])
                res.violation(tag + ':' + e.replace(' ', '-'), 'run %s (seed %s): the Lean monitor judges the raw stream the peer recorded: %s' % (tag, seed, e),
                              'history', True, case=[tag], expected=['accept'], observed=[e], monitor_input=[short[:4000]])
    return exp


def correspond(res, tier, seed):
    reqs, obs = _run(tier, seed)
    exp = judge(res, reqs, obs, seed)
    n = len(reqs)
    res.exhaustive = False
    res.samples = [dict(request=reqs[i][:300], oracle=exp[i], observed=obs[i]) for i in (0, 1, 2, n // 2, n - 1) if 0 <= i < n]
    res.extra['traces_validated_against_impl'] = n


def replay(res, path):
    body = json.load(open(path))
    case = body.get('case') or []
    if not case:
        raise RuntimeError('replay has no case lines')
    line = case[0]
    reqs, obs = _run('quick', body.get('seed', 1), only=line)
    first = int(line.split(':')[1]) if line.startswith('stress:') else 0
    judge(res, reqs, obs, body.get('seed', 1), first_stress=first)
    res.samples = [dict(request=r[:300], observed=o) for r, o in zip(reqs, obs)]
