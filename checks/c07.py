"""C07 — every keep-alive is acknowledged exactly once."""
import json, os
from vlib import core

THEOREMS = ['consts', 'ack_conservation', 'ack_fifo', 'ka_outcome', 'no_drop_within_backlog', 'only_acks_for_keepalives',
            'ack_frames_are_acks', 'ack_priority', 'pickReq_returns_to_top', 'drain_writes_all',
            # about the go2seq translation of the write loop, for every behaviour of the environment
            'src_acks']
MODULES = ['LLRP.Model.GoSeq', 'LLRP.Proofs.SeqWriteLoop', 'LLRP.Model.ClientLTS', 'LLRP.Oracle.LTSim', 'LLRP.Model.AckLTS', 'LLRP.Model.WriteSide', 'LLRP.Model.WriteMonitor', 'LLRP.Proofs.WriteSide', 'LLRP.Oracle.C07', 'LLRP.Oracle.C05']
RULE = ('deterministic environment scripts against the real client over net.Pipe with a peer whose reads can be stalled and resumed (each event waits for its '
        'observable through a ClientLogger: handler returned / header about to be written): keep-alives before, after and between requests '
        '(every position of a 4-request script), ids 0, 1, 2^31, 2^32-1, random, duplicates and ids equal to outstanding request ids; after '
        'CloseConnection; with 8 and 64 requests outstanding and unanswered; bursts of 1..8 while the peer stalls its reads (idle write loop: one ack in '
        'flight + 5 queued, the 7th and 8th are the documented drop) and bursts of 1..7 while the write loop is blocked writing a request (the queue '
        'alone takes 5); thorough: 30 random scripts. Compared with the acknowledgement LTS under its deterministic scheduler: frames written '
        '(type:id in order, from the RAW stream), ids dropped (handler panic), ids left queued. Plus: keep-alive as the very first message '
        '(nothing may be written); keep-alives during version negotiation with a slow reader and with 64/16 requests outstanding in bursts of up to 5, '
        'judged by the Lean monitor checkWrite with mustAck = every keep-alive sent. Whole-client scripts judged by the client LTS: keep-alives after a caller gave up while its reply was half-way in; '
        'keep-alives every 150 ms during application silence longer than the client timeout (400 ms). Device-service leg: the same event language on a real LLRPDevice whose tag-report / reader-event handlers run while EdgeX takes no readings (unbuffered channel, nobody reading). distinct = distinct request lines; non-trivial = all')
ASSUMPTIONS = [
    'the acknowledgement LTS (LLRP.Model.AckLTS) is hand-written; it is tied to ackHandler/handleOutgoing by the scripted runs',
    'that a queued acknowledgement is eventually written needs a fair Go scheduler and a peer that keeps reading; the model proves enabledness and '
    'the bound (drain_writes_all), the harness observes the real thing',
    'the guarantee is for keep-alives that find fewer than ackQueueSz (5) acknowledgements queued (no_drop_within_backlog, ka_outcome). Read literally '
    '("no more than five earlier ones still unacknowledged") the property also covers a keep-alive that finds exactly five queued while the write loop '
    'is blocked writing a request; that one is dropped (script S r k k k k k k R). Following the design (documented backlog of 5, drop is modelled) '
    'this is reported as an observation, not a violation',
    'ids equal to an outstanding request id: the read side hands such a keep-alive to the waiting caller as well (C03, owned by the read-side check); '
    'the acknowledgement is written regardless',
    'a keep-alive as the very first message is enqueued by checkInitialMessage but the write loop is never started; only observed here (C08)',
]
TRUSTED = ['ClientLogger callbacks as synchronisation points; gated peer reader in harness/llrp/zz_verif_c07_test.go']


def _run(tier, seed, only=None):
    binp, out = core.build_harness('llrp')
    if not binp:
        raise RuntimeError('harness build failed:\n' + out[-3000:])
    extra = {'VERIF_C07_ONLY': only} if only else None
    path, rc, out = core.run_harness(binp, 'TestVerifC07', tier, seed, extra_env=extra, timeout=900)
    if rc != 0:
        raise RuntimeError('harness run failed rc=%d:\n%s' % (rc, out[-3000:]))
    reqs, obs = core.read_cases(path)
    if only is None or only.startswith('ack-script'):
        # the device service's handlers run on the read goroutine: the same event language on a real LLRPDevice whose
        # readings EdgeX does not take
        binp, out = core.build_harness('driver')
        if not binp:
            raise RuntimeError('driver harness build failed:\n' + out[-3000:])
        path, rc, out = core.run_harness(binp, 'TestVerifC07Driver', tier, seed, pkg='driver', timeout=600)
        if rc != 0:
            raise RuntimeError('driver harness run failed rc=%d:\n%s' % (rc, out[-3000:]))
        r2, o2 = core.read_cases(path)
        if only is not None:
            keep = [i for i, r in enumerate(r2) if r == only]
            r2, o2 = [r2[i] for i in keep], [o2[i] for i in keep]
        reqs, obs = reqs + r2, obs + o2
    return reqs, obs


def judge(res, reqs, obs, seed):
    exp = core.oracle(reqs)
    k = 0
    for r, e, o in zip(reqs, exp, obs):
        res.evaluations += 1
        verb = r.split(' ', 1)[0]
        res.count(verb)
        if verb == 'check-write':
            tag = 'monitor:%d' % k
            k += 1
            res.distinct.add(tag)
            if e != o:
                res.count('mismatch')
                parts = r.split(' ')
                short = ' '.join([parts[0], parts[1][:200] + '…'] + parts[2:])
                res.violation(tag + ':' + e.replace(' ', '-'), 'run %s (seed %s): the Lean monitor judges the raw stream (every keep-alive sent must be acknowledged exactly once): %s' % (tag, seed, e),
                              'history', True, case=['monitor'], expected=['accept'], observed=[e], monitor_input=[short[:4000]])
            continue
        res.distinct.add(r)
        if verb == 'ack-script':
            res.count('events', len(r.split(' ')) - 2)
            if 'dropped= ' not in e:
                res.count('scripts-with-drop')
        if e != o:
            res.count('mismatch')
            res.violation('%s:%s' % (verb, r.split(' ', 1)[1]), 'script [%s]: code gives {%s}; the acknowledgement model (which has the property) gives {%s}' % (r, o, e),
                          'history', True, case=[r], expected=[e], observed=[o])
    return exp


def correspond(res, tier, seed):
    reqs, obs = _run(tier, seed)
    exp = judge(res, reqs, obs, seed)
    n = len(reqs)
    res.exhaustive = False
    res.samples = [dict(request=reqs[i][:300], oracle=exp[i], observed=obs[i]) for i in (0, 1, n // 3, n // 2, n - 6, n - 1) if 0 <= i < n]
    res.extra['traces_validated_against_impl'] = n


def replay(res, path):
    body = json.load(open(path))
    case = body.get('case') or []
    if not case:
        raise RuntimeError('replay has no case lines')
    reqs, obs = _run('quick', body.get('seed', 1), only=case[0])
    judge(res, reqs, obs, body.get('seed', 1))
    res.samples = [dict(request=r[:300], observed=o) for r, o in zip(reqs, obs)]
