"""C20 — Client and device supervisor are free of data races.

obligations: policy_sound (all traces) + sites_conform / calls_conform (decide over the regenerated access and call
tables). correspondence: (1) the oracle's executable happens-before on hand-made traces, (2) the policy witnesses
(`sites-nonconforming`, `calls-nonconforming`, `sites-exceptions`), (3) concurrency scenarios of the real code run
under the Go race detector, one scenario per process; a detector report is a concrete failing schedule."""
import json, os, re, subprocess, time
from vlib import core

THEOREMS = ['policy_sound', 'sites_conform', 'calls_conform', 'exceptions_are_sites', 'table_covers',
            'hb_decided', 'race_decided', 'wf_checked', 'conflict_spec', 'hb_forward', 'hb_trans']
MODULES = ['LLRP.Model.Race', 'LLRP.Model.RacePolicy', 'LLRP.Proofs.Race']
RULE = ('static: every extracted access site of a field of Client/LLRPDevice/Driver and every call site of their methods '
        '(exhaustive over the regenerated tables). dynamic: each scenario (keep-alives during negotiation, concurrent '
        'senders with permuted replies and cancellation, Close/Shutdown against senders and traffic, handlers reading '
        'payloads, failing negotiation; device side: reconnects, address updates, stop) runs N iterations with a seeded '
        'random schedule under -race, one process per scenario and GOMAXPROCS value. distinct = distinct request lines '
        '(scenario x GOMAXPROCS, model traces, table entries); non-trivial = all of them')
ASSUMPTIONS = ['the trace model (LLRP.Model.Race) is the Go memory model restricted to Mutex/RWMutex, go, join, channel send/receive/close and sync/atomic',
               'static-to-dynamic link: every dynamic access to a tracked field comes from a listed site with the syntactically held locks '
               '(lock scopes are syntactic; a mutex is identified by its field name; all instances of a type follow one policy)',
               'option closures With...$1 run only inside NewClient; Connect / Initialize run once before the object is shared',
               'the race detector only sees the schedules that occur in the runs (seeded random delays, GOMAXPROCS sweep in the thorough tier)']
TRUSTED = ['access extractor translators/vx/accesses.go (syntactic lock scopes, go-statement order)', 'Go race detector (ThreadSanitizer runtime)']

QUICK = [('llrp', 'neg-keepalive', 400), ('llrp', 'senders', 300), ('llrp', 'close-shutdown', 400), ('llrp', 'handlers', 300), ('llrp', 'neg-fail', 200)]
THOROUGH_EXTRA = []
DRIVER_QUICK = [('driver', 'device-lifecycle', 8)]
DRIVER_THOROUGH = [('driver', 'device-lifecycle', 40)]


# ------------------------------------------------------------------ detector reports

def parse_races(out):
    """[(locA, locB, text)] for every 'WARNING: DATA RACE' block: the first frame of each of the two access stacks that
    lies in the repository (not in the injected harness), else the top frame."""
    res = []
    for blk in out.split('WARNING: DATA RACE')[1:]:
        blk = blk.split('==================')[0]
        stacks = re.split(r'\n\s*\n', blk.strip('\n'))
        locs = []
        for st in stacks[:2]:
            frames = re.findall(r'^\s+(\S+?\.go):(\d+)(?: \+0x[0-9a-f]+)?\s*$', st, flags=re.M)
            pick = None
            for f, l in frames:
                if f.startswith(core.REPO) and 'zz_verif_' not in f:
                    pick = (f, l)
                    break
            if pick is None and frames:
                pick = frames[0]
            if pick:
                locs.append('%s:%s' % (os.path.relpath(pick[0], core.REPO) if pick[0].startswith(core.REPO) else os.path.basename(pick[0]), pick[1]))
        if len(locs) == 2:
            a, b = sorted(locs)
            res.append((a, b, 'WARNING: DATA RACE' + blk[:2500]))
    return res


def run_scenario(binp, pkg, name, iters, tier, seed, procs=None):
    env = {'VERIF_C20_SCENARIO': name, 'VERIF_C20_ITERS': str(iters), 'GORACE': 'halt_on_error=0 exitcode=66 history_size=3'}
    if procs:
        env['GOMAXPROCS'] = str(procs)
    test = 'TestVerifC20' if pkg == 'llrp' else 'TestVerifC20Driver'
    path, rc, out = core.run_harness(binp, test, tier, seed, extra_env=env, timeout=170, outname='cases_C20_%s_%s_%s.txt' % (pkg, name, procs or 0), pkg=pkg)
    reqs, obs = ([], [])
    if os.path.exists(path):
        reqs, obs = core.read_cases(path)
    return rc, out, reqs, obs


def judge_scenario(res, pkg, name, iters, procs, rc, out, reqs, obs, seed):
    req = reqs[0] if reqs else 'race-scenario %s' % name
    label = '%s procs=%s' % (req, procs or 'default')
    res.evaluations += 1
    res.distinct.add(label)
    res.count('scenario:' + name)
    races = parse_races(out)
    replay_env = dict(pkg=pkg, scenario=name, iters=iters, procs=procs, seed=seed)
    seen = set()
    for a, b, text in races:
        key = 'race:%s|%s' % (a, b)
        if key in seen:
            continue
        seen.add(key)
        res.count('race-report')
        res.violation(key, 'data race between %s and %s (scenario %s)' % (a, b, name), 'input', True,
                      case=[req], expected=['clean'], observed=['race %s %s' % (a, b)], run=replay_env, report=text)
    if races:
        return 'race'
    o = obs[0] if obs else None
    if rc != 0 or o is None:
        cls = 'timeout' if rc == 124 else ('panic' if 'panic:' in out else 'crash')
        m = re.findall(r'^\s+(\S+?\.go):(\d+)', out, flags=re.M)
        where = ''
        for f, l in m:
            if f.startswith(core.REPO) and 'zz_verif_' not in f:
                where = '%s:%s' % (os.path.relpath(f, core.REPO), l)
                break
        res.violation('scenario:%s:%s:%s' % (name, cls, where), 'scenario %s ended with %s (rc=%d) %s' % (name, cls, rc, where), 'input', True,
                      case=[req], expected=['clean'], observed=[cls], run=replay_env, report=out[-3000:])
        return cls
    exp = core.oracle([req])[0]
    if o != exp:
        res.violation('scenario:%s:%s' % (name, o.replace(' ', '-')), 'scenario %s: observed %r, expected %r' % (name, o, exp), 'input', True,
                      case=[req], expected=[exp], observed=[o], run=replay_env)
    return o


# ------------------------------------------------------------------ static witnesses

def parse_sites(line):
    if line in ('none', ''):
        return []
    out = []
    for tok in line.split(' '):
        parts = tok.split('@')
        if len(parts) >= 4:
            out.append(dict(field=parts[0], func=parts[1], pos=parts[2], kind=parts[3], held=parts[4] if len(parts) > 4 else '', raw=tok))
    return out


def static_witnesses(res):
    bad, exc, calls = core.oracle(['sites-nonconforming', 'sites-exceptions', 'calls-nonconforming'])
    nsites = len(json.load(open(os.path.join(core.BUILD, 'facts.json')))['accesses'])
    res.evaluations += nsites
    res.count('access-sites', nsites)
    res.extra['access_sites'] = nsites
    for s in parse_sites(bad):
        res.count('nonconforming-site')
        res.violation('site:%s@%s' % (s['field'], s['pos']),
                      'access site %s of %s in %s (%s, locks held %s) is not admitted by the protection policy of the field' % (s['pos'], s['field'], s['func'], s['kind'], s['held']),
                      'input', True, case=['sites-nonconforming'], expected=['none'], observed=[s['raw']])
    # sites the lock discipline cannot express but that are ordered for a reason argued in RacePolicy.exceptions
    # (fork + hand-off under the lock): part of the policy, recorded in the evidence, not a finding
    res.extra['policy_exceptions'] = [s['raw'] for s in parse_sites(exc)]
    res.count('policy-exception', len(parse_sites(exc)))
    if calls not in ('none', ''):
        for tok in calls.split(' '):
            res.count('nonconforming-call')
            parts = tok.split('@')
            res.violation('call:%s@%s' % (parts[0], parts[2] if len(parts) > 2 else '?'),
                          'call site %s does not satisfy the calling convention the policy assumes for %s' % (tok, parts[0]),
                          'input', True, case=['calls-nonconforming'], expected=['none'], observed=[tok])
    return parse_sites(bad)


def self_test(res, binp, tier, seed):
    path, rc, out = core.run_harness(binp, 'TestVerifC20', tier, seed, extra_env={'VERIF_C20_SCENARIO': 'selftest'}, outname='cases_C20_selftest.txt')
    if rc != 0:
        raise RuntimeError('self-test harness failed rc=%d:\n%s' % (rc, out[-2000:]))
    reqs, obs = core.read_cases(path)
    exp = core.oracle(reqs)
    for r, e, o in zip(reqs, exp, obs):
        res.evaluations += 1
        res.distinct.add(r)
        res.count('model-trace')
        if e != o:
            res.violation('model:%s' % r[:80], 'race model disagrees with the hand-made verdict on %r: oracle %r, expected %r' % (r, e, o), 'correspondence', False,
                          case=[r], expected=[o], observed=[e])
    res.samples += [dict(request=r, oracle=e, observed=o) for r, e, o in list(zip(reqs, exp, obs))[:4]]


def scenario_plan(tier):
    plan = []
    if tier == 'quick':
        for pkg, name, iters in QUICK + DRIVER_QUICK:
            plan.append((pkg, name, iters, None))
    else:
        for procs in (1, 2, 4, 16):
            for pkg, name, iters in QUICK + THOROUGH_EXTRA:
                plan.append((pkg, name, iters * 4, procs))
        for procs in (1, 2, 16):
            for pkg, name, iters in DRIVER_THOROUGH:
                plan.append((pkg, name, iters, procs))
        plan.append(('driver', 'config-debounce', 2, None))
    return plan


def correspond(res, tier, seed):
    static_witnesses(res)
    bins = {}
    for pkg in ('llrp', 'driver'):
        if not os.path.exists(os.path.join(core.HARNESS, pkg, 'zz_verif_c20_test.go')):
            continue
        binp, out = core.build_harness(pkg, race=True)
        if not binp:
            raise RuntimeError('race harness build failed (%s):\n%s' % (pkg, out[-3000:]))
        bins[pkg] = binp
    self_test(res, bins['llrp'], tier, seed)
    t0 = time.time()
    outcomes = {}
    for pkg, name, iters, procs in scenario_plan(tier):
        if pkg not in bins:
            continue
        rc, out, reqs, obs = run_scenario(bins[pkg], pkg, name, iters, tier, seed, procs)
        o = judge_scenario(res, pkg, name, iters, procs, rc, out, reqs, obs, seed)
        outcomes['%s/%s/procs=%s' % (pkg, name, procs or 'default')] = (reqs[0] if reqs else name) + ' -> ' + str(o)
        res.samples.append(dict(request=(reqs[0] if reqs else name), oracle='clean', observed=str(o), procs=procs))
    res.extra['scenarios'] = outcomes
    res.extra['scenario_wall_s'] = round(time.time() - t0, 1)
    res.extra['programs'] = len(outcomes)


def explain(res, name, reason):
    """a failing table obligation is explained by the witnesses the oracle printed (reported by static_witnesses) and,
    where a -race scenario reproduced it, by that detector report"""
    have = [v['key'] for v in res.violations] + [k for k, _ in res.known_hits]
    if name == 'sites_conform':
        sites = [k for k in have if k.startswith('site:')]
        if not sites:
            return None
        lines = {k.split('@')[-1] for k in sites}
        dyn = [k for k in have if k.startswith('race:') and any(l in k for l in lines)]
        if dyn:
            res.notes.append('sites_conform witnesses %s; reproduced by the detector: %s' % (sorted(sites), dyn))
        else:
            res.notes.append('sites_conform witnesses %s; no -race scenario reproduced them in this run' % sorted(sites))
        return sites + dyn
    if name == 'calls_conform':
        return [k for k in have if k.startswith('call:')] or None
    if name in ('exceptions_are_sites', 'table_covers'):
        return [k for k in have if k.startswith('site:')] or None
    return None


def replay(res, path):
    body = json.load(open(path))
    run = body.get('run')
    if not run:
        # a static witness: re-evaluate the tables
        static_witnesses(res)
        return
    binp, out = core.build_harness(run['pkg'], race=True)
    if not binp:
        raise RuntimeError('race harness build failed:\n' + out[-3000:])
    rc, out, reqs, obs = run_scenario(binp, run['pkg'], run['scenario'], run['iters'], 'quick', run.get('seed', 1), run.get('procs'))
    judge_scenario(res, run['pkg'], run['scenario'], run['iters'], run.get('procs'), rc, out, reqs, obs, run.get('seed', 1))
