"""C16 — discovery enumerates exactly the host addresses of each configured subnet."""
import json, os, re
from vlib import core

THEOREMS = ['hosts_exact', 'hosts_nodup', 'hosts_inside', 'hosts_31_32', 'estimate_exact', 'cancel_stops',
            'bounds_arith', 'hosts_0_1', 'netsz_table', 'slice_count_sound', 'unguarded_send_blocks',
            # the model is what the go2seq translation of ipGenerator sends (loop on fuel, select decided by the environment)
            'src_ipGenerator', 'src_hosts', 'src_cancel_stops']
MODULES = ['LLRP.Model.Discover', 'LLRP.Proofs.Discover', 'LLRP.Proofs.SeqDiscover', 'LLRP.Model.GoInt', 'LLRP.Model.GoSeq', 'LLRP.Oracle.C16']
RULE = ('real ipGenerator on net.ParseCIDR(a/len) for every prefix length 0..32 x 40 base addresses (corners, x.y.z.255, 255.255.255.x, '
        'octet crossings, unaligned, random from the seed): complete enumeration for len >= 20 (all bases), len 16-19 (8 bases; thorough all) '
        'and, thorough, len 12-15 (6 bases); first/last 4096 + count by draining for len 10-15 (4 bases; thorough also len 8-9 = full /8s); '
        'first 4096 then cancel for the rest; computeNetSz(-5..40); cancellation scenarios (prefix x channel cap/occupancy x receiver x '
        'cancelled before / after the generator is stuck / never); whole runs of the real autoDiscover over 6 lists of configured networks inside 127/8 (nested, same network number with different prefix lengths, repeated, adjacent, /31, /32) with every dial recorded by a wildcard listener, and with a context cancelled before the start / after 20 ms. distinct = distinct request lines; non-trivial = expected reply is not '
        '[] / 0 / blocked / panic')
ASSUMPTIONS = ['hosts/gen (LLRP.Model.Discover) is proved to be what the go2seq translation of ipGenerator sends (src_ipGenerator, src_hosts, src_cancel_stops); '
               'hand-written there: the meaning of the calls (SeqGlue.genEnv: a 4-byte IPNet, To4 = identity on it, OnesCount32 = number of one bits, a send appends to a list, '
               'select decided by a stop predicate); x == nil on the result of To4 is read as len(x) == 0; those and the translator are validated by this differential run',
               'computeNetSz is the go2lean translation of the source (Gen.driver_computeNetSz); estimate_exact is stated about it',
               'net.ParseCIDR masks the address (IPNet.IP = a & mask): trusted Go library behaviour, exercised by every case',
               'the send-loop LTS models a select between <-ctx.Done() and the channel send; real blocking is observed with a deadline '
               '(returned within 1.5 s / 5 s, else blocked)']
TRUSTED = ['go2lean subset semantics (LLRP.Model.GoInt)', 'Go runtime select/channel semantics']


def fmt_ip(n):
    return '%d.%d.%d.%d' % (n >> 24 & 255, n >> 16 & 255, n >> 8 & 255, n & 255)


def first_diff(e, o):
    """first differing element of two '[a b c]' lists (for the message)"""
    if not (e.startswith('[') and o.startswith('[')):
        return ''
    ea, oa = e[1:-1].split(), o[1:-1].split()
    for i in range(max(len(ea), len(oa))):
        x = ea[i] if i < len(ea) else None
        y = oa[i] if i < len(oa) else None
        if x != y:
            fx = fmt_ip(int(x)) if x else 'nothing'
            fy = fmt_ip(int(y)) if y else 'nothing'
            return ' first difference at offset %d: model %s, code %s (model sends %d addresses in this slice, code %d)' % (i, fx, fy, len(ea), len(oa))
    return ''


def short(s, n=160):
    return s if len(s) <= n else s[:n] + '…(%d chars)' % len(s)


def correspond(res, tier, seed, only=None):
    binp, out = core.build_harness('driver')
    if not binp:
        raise RuntimeError('harness build failed:\n' + out[-3000:])
    path, rc, out = core.run_harness(binp, 'TestVerifC16', tier, seed, pkg='driver', timeout=1500 if tier == 'thorough' else 600)
    reqs, obs = core.read_cases(path) if os.path.exists(path) else ([], [])
    if rc != 0 and not reqs:
        raise RuntimeError('harness run failed rc=%d:\n%s' % (rc, out[-3000:]))
    exp = core.oracle(reqs)
    seen = set()
    addrs = 0
    for r, e, o in zip(reqs, exp, obs):
        if only is not None and r not in only:
            continue
        res.evaluations += 1
        parts = r.split(' ')
        verb = parts[0]
        res.count(verb)
        if verb == 'hosts':
            res.count('len=%s' % parts[2])
            addrs += o.count(' ') + (1 if len(o) > 2 else 0)
        if r not in seen:
            seen.add(r)
            if e not in ('[]', '0', 'blocked', 'panic'):
                res.distinct.add(r)
        if e != o:
            res.count('mismatch')
            report(res, r, e, o)
    if rc != 0:
        raise RuntimeError('harness run failed rc=%d after %d cases:\n%s' % (rc, len(reqs), out[-3000:]))
    res.exhaustive = False
    idx = [i for i in (0, len(reqs) // 4, len(reqs) // 2, len(reqs) - 300, len(reqs) - 1) if 0 <= i < len(reqs)]
    res.samples = [dict(request=reqs[i], oracle=short(exp[i]), observed=short(obs[i])) for i in idx]
    res.extra['addresses_compared'] = addrs
    res.extra['programs'] = 2
    res.extra['traces_validated_against_impl'] = len(reqs)


def report(res, r, e, o):
    parts = r.split(' ')
    verb = parts[0]
    if verb in ('hosts', 'hosts-count'):
        a, l = int(parts[1]), int(parts[2])
        cidr = '%s/%d' % (fmt_ip(a), l)
        key = 'enum:/%d' % l
        if verb == 'hosts':
            what = 'ipGenerator(%s) enumerates other addresses than the hosts of the network (slice %s):%s' % (cidr, ' '.join(parts[3:]), first_diff(e, o))
        else:
            what = 'ipGenerator(%s) sent %s addresses, the network has %s usable host addresses' % (cidr, o, e)
        res.violation(key, what, 'input', True, case=[r], cidr=cidr, expected=[short(e, 2000)], observed=[short(o, 2000)])
    elif verb == 'auto':
        nets = ['%s/%s' % (fmt_ip(int(t.split('/')[0])), t.split('/')[1]) for t in parts[1:]]
        what = ('autoDiscover over the configured networks %s %s' % (', '.join(nets), 'did not return' if o == 'blocked' else
                'did not dial exactly the host addresses of every configured network:' + first_diff(e, o)))
        res.violation('auto:' + ','.join(nets), what, 'input', True, case=[r], expected=[short(e, 2000)], observed=[short(o, 2000)])
    elif verb == 'auto-cancelled':
        res.violation('auto-cancelled:' + parts[1], 'autoDiscover whose context is cancelled (%s) did not return: %s' % (parts[1], o), 'input', True,
                      case=[r], expected=[e], observed=[o])
    elif verb == 'netsz':
        key = 'netsz:%s' % parts[1]
        prop = 2 <= int(parts[1]) <= 32
        res.violation(key, 'computeNetSz(%s) = %s but the translated definition gives %s' % (parts[1], o, e), 'input' if prop else 'correspondence', prop,
                      case=[r], expected=[e], observed=[o])
    elif verb in ('estimate', 'estimate-check'):
        a, l = int(parts[1]), int(parts[2])
        cidr = '%s/%d' % (fmt_ip(a), l)
        if verb == 'estimate':
            what = 'computeNetSz(%d) = %s but %s has %s usable host addresses (model enumeration)' % (l, o, cidr, e)
        else:
            what = 'computeNetSz(%d) = %s but ipGenerator(%s) sent %s addresses (%s)' % (l, parts[4], cidr, parts[3], e)
        res.violation('estimate:/%d' % l, what, 'input', True, case=[r], cidr=cidr, expected=[e], observed=[o])
    elif verb in ('cancel', 'cancel-late'):
        a, l, cap, occ = int(parts[1]), int(parts[2]), int(parts[3]), int(parts[4])
        cidr = '%s/%d' % (fmt_ip(a), l)
        single = 'single' if l >= 31 else 'loop'
        key = 'cancel:%s:%s' % (single, 'recv' if (verb == 'cancel' and parts[5] == '1') else 'norecv')
        how = 'cancelled after it was waiting on the channel' if verb == 'cancel-late' else ('context cancelled' if parts[6] == '1' else 'context not cancelled')
        recv = 'a receiver' if (verb == 'cancel' and parts[5] == '1') else 'no receiver'
        prop = e == 'returned'   # the property demands a return; code returning where the model waits is a model mismatch
        if not prop:
            key += ':unexpected-' + o
        res.violation(key, 'ipGenerator(%s), channel cap %d holding %d, %s, %s: generator goroutine %s (model: %s)' % (cidr, cap, occ, recv, how, o, e),
                      'input' if prop else 'correspondence', prop, case=[r], cidr=cidr, expected=[e], observed=[o])
    else:
        res.violation('%s:%s' % (verb, ' '.join(parts[1:])[:60]), '%s: code %r, model %r' % (r, o, e), 'correspondence', False, case=[r], expected=[e], observed=[o])


def explain(res, name, reason):
    """a broken estimate obligation is explained by the estimate lines of the correspondence"""
    if name in ('netsz_table', 'estimate_exact'):
        have = [v['key'] for v in res.violations if v['key'].startswith('estimate:')] + [k for k, _ in res.known_hits if k.startswith('estimate:')]
        return have or None
    return None


def replay(res, path):
    body = json.load(open(path))
    case = body.get('case') or []
    if not case:
        raise RuntimeError('replay has no case lines')
    # the harness is deterministic in (tier, seed): re-run it and judge only the replayed request lines
    correspond(res, body.get('tier', 'quick'), body.get('seed', 1), only=set(case))
    if res.evaluations == 0:
        raise RuntimeError('replayed case lines were not produced by the harness: %r' % case)
