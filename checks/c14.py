"""C14 — device commands map to the right LLRP request; keep-alive spec is enforced."""
import json, os, re
from vlib import core

THEOREMS = ['follows_doc', 'follows_doc_read', 'doc_covered', 'malformed_rejected', 'wellformed_accepted', 'wellFormed_iff_accepted',
            'never_request_on_reject', 'wire_length', 'ka_enforced', 'ka_enforced_value', 'ka_on_every_write', 'ka_nowhere_else', 'ka_idempotent',
            'ka_only_setreaderconfig', 'ka_is_half_timeout', 'switch_matches_model', 'cases_tables_agree', 'read_default_iff', 'write_default_iff',
            'action_default_iff', 'codes_defined',
            # about the go2seq translation of LLRPDevice.TrySend
            'src_ka_enforced', 'src_other_requests_untouched']
MODULES = ['LLRP.Proofs.SeqTrySend', 'LLRP.Model.GoSeq', 'LLRP.Model.Command']
RULE = ('real HandleReadCommands/HandleWriteCommands against a scripted reader recording every frame: reads = every list of 0-3 names '
        'out of 12 (8 known, custom, empty, wrong case, Action); writes = 12 resources x 19 first-parameter kinds x 17 second request/parameter '
        'kinds x attributes x count mismatches; 2 ID resources x 9 actions x 5 ids; custom: 24x24 vendor/subtype attribute kinds x payload kinds; '
        'ReaderConfig documents x 11 KeepAliveSpecs, ROSpec/AccessSpec documents, undecodable documents; TrySend on hand-built SetReaderConfig; '
        'real device path on loopback TCP incl. the service\'s own SetReaderConfig. distinct = distinct request lines; '
        'non-trivial = request whose expected reply is not reject')
ASSUMPTIONS = ['the command model (LLRP.Model.Command) is hand-written; it is tied to driver.go/device.go by the differential run and by switch_matches_model over the regenerated switch tables',
               'parameters are built with the SDK constructors (Type and Value agree, or Value is nil); nil *CommandValue elements are outside the domain',
               'README.md section "Device Profiles, Custom LLRP Messages, and Service Limitations" is transcribed by hand as LLRP.Command.Doc',
               'the payload comparison uses the repository\'s binary codec (verified under C01/C02) and encoding/json on typed documents']
TRUSTED = ['encoding/json, encoding/base64, strconv.ParseUint; EdgeX SDK CommandValue constructors and accessors']


def correspond(res, tier, seed):
    binp, out = core.build_harness('driver')
    if not binp:
        raise RuntimeError('harness build failed:\n' + out[-3000:])
    path, rc, out = core.run_harness(binp, 'TestVerifC14', tier, seed, pkg='driver', timeout=600)
    if rc != 0:
        raise RuntimeError('harness run failed rc=%d:\n%s' % (rc, out[-3000:]))
    reqs, obs = core.read_cases(path)
    if len(reqs) < 1000:
        raise RuntimeError('harness produced only %d cases:\n%s' % (len(reqs), out[-2000:]))
    exp = core.oracle(reqs)
    seen = set()
    mism = []
    for r, e, o in zip(reqs, exp, obs):
        res.evaluations += 1
        res.count(r.split(' ')[0])
        res.count('expect:' + e.split(' ')[0])
        if r not in seen:
            seen.add(r)
            if e != 'reject':
                res.distinct.add(r)
        if e != o:
            res.count('mismatch')
            mism.append((r, e, o))
    # shortest failing command of each class first: it becomes the replay
    for r, e, o in sorted(mism, key=lambda m: (m[0].count('null'), len(m[0]), m[0])):
        report(res, r, e, o)
    res.exhaustive = False
    idx = sorted({0, len(reqs) // 5, len(reqs) // 3, len(reqs) // 2, 2 * len(reqs) // 3, len(reqs) - 30, len(reqs) - 1})
    res.samples = [dict(request=reqs[i], oracle=exp[i], observed=obs[i]) for i in idx if 0 <= i < len(reqs)]
    res.extra['traces_validated_against_impl'] = len(reqs)


def shape(r):
    """key of a failing command: verb, resource names and the kinds (not the values) of attributes and parameters"""
    out = []
    for t in r.split(' '):
        if t.startswith('p:'):
            name, _, v = t[2:].partition('=')
            parts = v.split(':')
            if parts[0] == 'str':
                v = 'str:%s:%s' % (parts[1], ':'.join(parts[2:]) if name == 'Action' else '*')
            elif parts[0] == 'u32':
                v = 'u32'
            elif parts[0] == 'obj':
                v = 'obj:%s' % parts[1]
            out.append('p:%s=%s' % (name, v))
        elif t.startswith('a:'):
            k, _, v = t[2:].partition('=')
            out.append('a:%s=%s' % (k, v.split(':')[0]))
        else:
            out.append(t)
    return ' '.join(out)


ID_RES = ('ROSpecID', 'AccessSpecID')


def defect_class(r, e, o):
    """stable key for the recurring ways in which a handler can leave the documented mapping"""
    toks = r.split(' ')
    verb, ofirst = toks[0], o.split(' ')[0]
    names = [t[2:] for t in toks if t.startswith('r:')]
    params = [t for t in toks if t.startswith('p:')]
    if verb == 'cmd-read' and e == 'reject' and ofirst == 'reject-after':
        return 'read:requests-sent-before-unknown-resource-rejected'
    if verb == 'cmd-write' and ofirst == 'reject' and e.startswith('req ') and names:
        return 'write:%s:documented-command-rejected' % names[0]
    if verb == 'cmd-read' and e.startswith('req ') and ofirst in ('req', 'reject-after'):
        ef, of = e.split(' ; '), o.replace('reject-after ', '').split(' ; ')
        for i, n in enumerate(names):
            if i >= len(of) or i >= len(ef) or ef[i] != of[i]:
                return 'read:%s:wrong-request' % n
    if verb == 'cmd-write' and e.startswith('req ') and ofirst in ('req', 'reject-after') and names:
        act = [p.split(':')[-1] for p in params[1:2] if p.startswith('p:Action=str:')] if names[0] in ID_RES else []
        ka = lambda x: [t for t in x.split(' ') if t.startswith('ka=')]
        strip = lambda x: ' '.join(t for t in x.replace('reject-after ', '').split(' ') if not t.startswith(('ka=', 'payload=')))
        if names[0] == 'ReaderConfig' and strip(e) == strip(o) and ka(e) != ka(o):
            return 'write:ReaderConfig:keepalive-not-enforced'
        return 'write:%s:wrong-request' % ':'.join(names[:1] + act)
    if verb == 'cmd-write' and e == 'reject' and o.startswith('req 1023 ') and names and names[0] in ('ReaderConfig', 'ROSpec', 'AccessSpec') + ID_RES:
        return 'write:%s:handled-as-custom-message' % names[0]
    if verb == 'cmd-write' and e == 'reject' and ofirst == 'req' and names:
        if len(names) >= 2 and names[0] not in ID_RES and len(names) == len(params):
            return 'write:extra-resources-silently-ignored'
        if len(names) == 1 and len(params) == 1 and params[0].endswith('=null'):
            return 'write:null-object-sent-as-empty-message'
    return None


def report(res, r, e, o):
    verb = r.split(' ')[0]
    ofirst = o.split(' ')[0]
    cls = defect_class(r, e, o)
    if verb == 'enforce-ka':
        res.violation('ka:' + r, 'SetReaderConfig with KeepAliveSpec %s left the service with KeepAliveSpec %s, the property demands %s' % (r.split(' ')[-1], o, e),
                      'input', True, case=[r], expected=[e], observed=[o])
        return
    if ofirst in ('panic', 'timeout'):
        what = '%s: the real code ended in %s; the model expects %s' % (r, ofirst, e)
    elif e == 'reject' and ofirst in ('req', 'reject-after', 'ok-nothing-sent'):
        what = '%s: malformed command was not rejected cleanly: observed %r' % (r, o)
    elif ofirst == 'reject':
        what = '%s: documented command was rejected; expected %s' % (r, e)
    else:
        what = '%s: wrong LLRP request: observed %r, documented/model %r' % (r, o, e)
    res.violation(cls or ('cmd:' + shape(r)[:200]), what, 'input', True, case=[r], expected=[e], observed=[o])


def explain(res, name, reason):
    """a broken switch tie is explained by the failing commands that name the resource / action of a differing case"""
    if name != 'switch_matches_model':
        return None
    diff = core.oracle(['switch-diff'])[0]
    res.notes.append('switch_matches_model: ' + diff)
    labels = set(re.findall(r'\|"([^"|]*)"\|', diff)) | set(re.findall(r'/"([^"|]*)"\|', diff))
    have = [v for v in res.violations if v['found_input']]
    hits = []
    for v in have:
        body = json.load(open(v['replay']))
        line = ' '.join(body.get('case') or [])
        if any(('r:%s' % l) in line.split(' ') or line.endswith(':' + l) or (':%s ' % l) in line for l in labels):
            hits.append(v['key'])
    hits += [k for k, _ in res.known_hits if any(l in k for l in labels)]
    return hits or None


def replay(res, path):
    body = json.load(open(path))
    case = body.get('case') or []
    if not case:
        raise RuntimeError('replay has no case lines')
    # the sweep is cheap: run it again and report only the replayed request lines
    want = set(case)
    binp, out = core.build_harness('driver')
    if not binp:
        raise RuntimeError('harness build failed:\n' + out[-3000:])
    p, rc, out = core.run_harness(binp, 'TestVerifC14', 'thorough', body.get('seed', 1), pkg='driver', timeout=900)
    reqs, obs = core.read_cases(p)
    exp = core.oracle(reqs)
    hit = False
    for r, e, o in zip(reqs, exp, obs):
        if r in want:
            hit = True
            res.evaluations += 1
            if e != o:
                report(res, r, e, o)
    if not hit:
        raise RuntimeError('replayed case was not produced by the generator')
