"""C02 — encoded bytes follow the LLRP layout (pinned table), lengths exact."""
import json, os, subprocess, tempfile, shutil, sys
from vlib import core
from checks import codec_common as cc

THEOREMS = ['table_unchanged', 'param_consts', 'tv_tlv_ranges', 'header_kind', 'tv_params_fixed', 'tlv_length_exact', 'tv_header',
            'layout_wf', 'encode_eq_layout', 'encode_eq_layout_gen', 'implSize_exact', 'implSize_lt', 'fits_length_lt', 'implSize_mod', 'oversized_rejected',
            'tlv_lengths_exact', 'tlv_lengths_exact_param', 'tlv_lengths_exact_encode', 'tlv_lengths_exact_fits', 'tlv_lengths_exact_fits_param', 'decode_layout_of_roundtrip']
MODULES = ['LLRP.Model.Layout', 'LLRP.Model.LayoutWF', 'LLRP.Model.Codec', 'LLRP.Model.Schema', 'LLRP.Model.Bytes',
           'LLRP.Proofs.Bytes', 'LLRP.Proofs.LayoutFields', 'LLRP.Proofs.LayoutParam', 'LLRP.Proofs.LayoutBlocks']
RULE = ('per type (169): random well-formed values (generator of C01, own seed stream): Go MarshalBinary bytes must equal the declarative layout over the PINNED table; '
        'the 15 real-reader recordings of testdata/: Go decode = model decode, value lays out to the recorded bytes; '
        'plus the regeneration check: generated_*.go = generate_param_code.py(messages.yaml). distinct = distinct request lines; non-trivial = value with a sub-parameter or variable field')
ASSUMPTIONS = ['the pinned table /verif/pinned/messages.yaml is the LLRP layout (its agreement with the standard is trusted; erratum noted in DESIGN.md C02/C06)',
               'layout spec LLRP.Layout.layout is hand-written and shares no code with encode/decode']
TRUSTED = ['reflection walker (harness)', 'python3 + PyYAML running the repository\'s own generator for the regeneration check']


def classify(res, r, e, o):
    parts = r.split(' ')
    verb, ty = parts[0], parts[1] if len(parts) > 1 else '?'
    key = '%s-differs:%s' % (verb, ty)
    res.violation(key, '%s of %s: real code gives %s, layout spec gives %s' % (verb, ty, o[:80], e[:80]), 'input', True,
                  case=[r[:4000]], expected=[e[:2000]], observed=[o[:2000]])


def correspond(res, tier, seed):
    cc.regen_check(res)
    cc.run_stream(res, 'TestVerifC02', tier, seed, classify, lambda r, e: ('x' in r and '((' in r))
    res.extra['programs'] = res.extra.get('types_covered')


def replay(res, path):
    correspond(res, 'quick', json.load(open(path)).get('seed', 1))
