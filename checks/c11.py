"""C11 — decoding arbitrary bytes terminates with a value or an error (adversarial correspondence + progress theorems)."""
import json
from vlib import core
from checks import codec_common as cc

THEOREMS = ['decParam_progress', 'decParam_suffix', 'fuel_mono', 'fuel_mono_groups', 'fuel_mono_singles', 'fuel_mono_choice',
            'fuel_mono_loop', 'fuel_mono_param', 'decode_of_decBody', 'decode_fuel', 'decode_fuel_bound', 'decode_error_genuine',
            'gen_maxSlots', 'fuel_needs_table', 'decParam_nodes', 'decoded_params_le']
MODULES = ['LLRP.Model.Codec', 'LLRP.Model.Schema', 'LLRP.Model.Bytes', 'LLRP.Proofs.DecodeFuel', 'LLRP.Proofs.DecodeSize']
RULE = ('per type: valid encodings of generated values, every truncation point (sampled when > 80 bytes in quick), every plausible TLV length '
        'field set to 0,1,2,3,4,len-1,len+1,len+4,0xffff, type codes flipped (neighbour, TV-for-TLV, reserved bit), 16-bit fields forced to '
        '0/1/0xffff/len/len+1 at random offsets, byte corruption, trailing junk, short TV/TLV shaped inputs, random strings; plus 64 KiB random '
        'inputs with time/allocation measured; per type a valid encoding with each 16-bit position (first 64) forced to 0xffff and cut shortly after, and short all-0xff inputs, with the allocation of the UnmarshalBinary call alone measured (bound 48 x input + 16 KiB). Outcome class AND decoded value must equal the model. distinct = distinct (type, bytes); '
        'non-trivial = input that is not a plain valid encoding (model answers err) or decodes to a value with sub-parameters')
ASSUMPTIONS = ['decode model = unmarshal templates with every read guarded (LLRP.Model.Codec), derived attributes computed by the generator\'s rules',
               'wall-clock and heap are measured on the explored inputs (5 s watchdog per decode; TotalAlloc on 64 KiB inputs), not proved']
TRUSTED = ['reflection walker between Go structs and the canonical value text (harness/llrp/zz_verif_codec_test.go)']


def classify(res, r, e, o):
    ty, n = cc.shape_key(r)
    if r.startswith('resource-bound') and o.startswith('balloon'):
        ty = r.split(' ')[1]
        res.violation('decode-balloon:%s' % ty, 'decoder of %s allocates out of proportion to its input: %s' % (ty, o[:300]), 'input', True,
                      case=[r], expected=[e], observed=[o[:2000]])
        return
    if o in ('panic', 'timeout', 'modified-input', 'balloon', 'slow'):
        key = 'decode-%s:%s' % (o, ty)
        res.violation(key, 'decoder of %s: %s on a %d-byte input (model: %s)' % (ty, o, n, e.split(' ')[0]), 'input', True,
                      case=[r], expected=[e[:500]], observed=[o])
    else:
        key = 'decode-differs:%s' % ty
        res.violation(key, 'decoder of %s disagrees with the model on a %d-byte input: code %s, model %s' % (ty, n, o.split(' ')[0], e.split(' ')[0]),
                      'correspondence', False, case=[r], expected=[e[:500]], observed=[o[:500]])


def correspond(res, tier, seed):
    cc.regen_check(res)   # the generated codec files are what the generator produces from the table
    cc.run_stream(res, 'TestVerifC11', tier, seed, classify, lambda r, e: e == 'err' or e.count('(') > 6)
    res.extra['programs'] = res.extra.get('types_covered')


def replay(res, path):
    body = json.load(open(path))
    binp, out = core.build_harness('llrp')
    for r in body.get('case', []):
        p, rc, o = core.run_harness(binp, 'TestVerifDebug', 'quick', 1, extra_env={'VERIF_DEBUG': r})
        exp = core.oracle([r])[0]
        print('replay', r[:200], '\n  model:', exp[:200], '\n  code :', o[:400])
        obs = 'panic' if 'PANIC' in o else ('err' if 'RESULT: <nil>' not in o else 'ok')
        res.evaluations += 1
        if obs.split(' ')[0] != exp.split(' ')[0]:
            classify(res, r, exp, obs)
