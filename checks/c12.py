"""C12 — LLRP status codes become errors faithfully (SendFor's reply handling)."""
import json
from vlib import core
from checks import codec_common as cc

THEOREMS = ['src_sendFor', 'src_sendFor_value', 'src_status_err', 'success_iff', 'status_exposed', 'error_message', 'other_type', 'no_success_on_wrong_type', 'statusable_complete', 'error_message_type']
MODULES = ['LLRP.Model.GoSeq', 'LLRP.Proofs.SeqSendFor', 'LLRP.Proofs.SeqInitial', 'LLRP.Model.SendFor', 'LLRP.Model.Codec', 'LLRP.Model.Schema', 'LLRP.Model.Bytes']
RULE = ('a scripted peer (hand-built frames) answers real Client.SendFor calls: all 43x43 (expected type, reply type) pairs over the types a caller can be handed (KeepAlive, ROAccessReport, ReaderEventNotification are never delivered as replies: C03) with generated payloads plus reserved/zero type codes; '
        'status codes 0..65535 (every 7th in quick, all in thorough) through status-only responses and through ERROR_MESSAGE, with descriptions and nested FieldError/ParameterError shapes; '
        'responses with fields around the status and truncated payloads. Each observation (nil | status <LLRPStatus value> | err, and the caller\'s response value afterwards) is judged by the Lean monitor check-sendfor. '
        'distinct = distinct request lines; non-trivial = the model outcome is not typeerr')
ASSUMPTIONS = ['the SendFor model (LLRP.Model.SendFor) is proved to give the error class and response value of the go2seq translation of Client.SendFor / LLRPStatus.Err (src_sendFor, src_sendFor_value; the meaning of the calls they make is SeqGlue.sfEnv: hand-written) and is tied to the real code by this differential run; reply payloads are decoded with the verified codec model over the regenerated table',
               'Statusable = has an LLRPStatus parameter (statusable_complete ties it to the Status() methods extracted from the source)']
TRUSTED = ['scripted peer and reflection walker (harness)']


def classify(res, r, e, o):
    parts = r.split(' ')
    ty, rt = parts[1], parts[2]
    model = e[len('reject model='):].split(' ')[0] if e.startswith('reject') else e
    obs = parts[4] if len(parts) > 4 else '?'
    code = ''
    if model == 'status':
        # status code = first number of the printed LLRPStatus value
        try:
            code = e.split('((')[1].split(' ')[0]
        except Exception:
            code = '?'
    key = 'sendfor:%s:%s->%s' % ('errormessage' if rt == '100' and model == 'status' else ('same' if model in ('success', 'status') else 'other'), model + (code and '(%s)' % code), obs)
    res.violation(key, 'SendFor expecting %s, reply type %s: real code reports %s, model %s' % (ty, rt, obs, e[:160]), 'input', True,
                  case=[r[:3000]], expected=['accept'], observed=[e[:1000]])


def correspond(res, tier, seed):
    cc.run_stream(res, 'TestVerifC12', tier, seed, classify, lambda r, e: True, timeout=1200)
    # distribution of model outcomes needs the plain verb
    res.extra['programs'] = 1


def replay(res, path):
    body = json.load(open(path))
    for r in body.get('case', []):
        print('replay', r[:300], '->', core.oracle([r])[0][:300])
    correspond(res, 'quick', body.get('seed', 1))
