"""C13 — every tag report and reader event reaches EdgeX exactly once."""
import json
from vlib import core

THEOREMS = ['count_exact', 'per_device', 'interleaving_irrelevant', 'attribution', 'content_is_decoded', 'only_reports_and_events', 'bad_message_skipped', 'type_codes']
MODULES = ['LLRP.Model.Forward', 'LLRP.Model.Codec', 'LLRP.Model.Schema', 'LLRP.Model.Bytes']
RULE = ('rounds with 1-4 real LLRPDevices (Driver.getDevice -> NewLLRPDevice) connected to scripted loopback readers; per device 60 (thorough 200) frames: '
        'tag reports (EPC96/EPCData, optional TVs, UTC- and uptime-stamped), reader events (5 kinds), keep-alives, truncated reports, garbage payloads, all readers writing '
        'concurrently while HandleReadCommands runs on every device; every reading arriving on the SDK async channel is collected; for each pushed frame the number of readings '
        'with its (device, resource, canonical content) must equal the model\'s (1 or none) and no unmatched reading may remain. distinct = distinct frames; non-trivial = frame the model publishes')
ASSUMPTIONS = ['Forward model hand-written (LLRP.Model.Forward), content canonicalised as the re-encoding of the decoded message (codec verified under C01/C02)',
               'readerStart is never assigned in device.go, so uptime->UTC rewriting is dead code (the model publishes the decoded message unchanged); a change there shows as a content mismatch',
               'goroutine hand-off timing: the harness waits for a per-device sentinel report plus 150 ms before judging "lost"']
TRUSTED = ['scripted loopback reader and multiset judge in harness/driver/zz_verif_c13_test.go', 'SDK mock / async channel']


def correspond(res, tier, seed):
    binp, out = core.build_harness('driver')
    if not binp:
        raise RuntimeError('harness build failed:\n' + out[-3000:])
    path, rc, out = core.run_harness(binp, 'TestVerifC13', tier, seed, pkg='driver', timeout=900)
    crash = core.crash_summary(out) if rc != 0 else None
    if crash:
        # a goroutine of the service panicked while forwarding: the process is gone and with it every later reading
        head, frames, trace = crash
        res.evaluations += 1
        res.violation('forward:crash:' + (frames[0] if frames else head), 'the device service died (%s in %s) while forwarding the frames of seed %s: every reading after that point is lost'
                      % (head, ' <- '.join(frames) or '?', seed), 'history', True, case=['TestVerifC13 seed=%s tier=%s' % (seed, tier)], expected=['every frame forwarded once'], observed=[trace])
        return
    if rc != 0:
        raise RuntimeError('harness run failed rc=%d:\n%s' % (rc, out[-3000:]))
    reqs, obs = core.read_cases(path)
    exp = core.oracle(reqs)
    for r, e, o in zip(reqs, exp, obs):
        res.evaluations += 1
        parts = r.split(' ')
        res.count(parts[0] + (':' + parts[2] if parts[0] == 'publish' else ''))
        res.count('model:' + e.split(' ')[0])
        if e.startswith('some'):
            res.distinct.add(r[:200])
        if e != o:
            if parts[0] == 'publish':
                typ = parts[2]
                if o == 'setup-timeout':
                    key = 'forward:setup-timeout'
                elif e.startswith('some') and o.endswith('count=0'):
                    key = 'forward:lost:%s' % typ
                elif e.startswith('some') and o.startswith('some') and o.split(' ')[1:3] == e.split(' ')[1:3]:
                    key = 'forward:duplicated:%s' % typ
                elif e.startswith('some') and o.startswith('some'):
                    key = 'forward:content:%s' % typ
                else:
                    key = 'forward:%s->%s:%s' % (e.split(' ')[0], o.split(' ')[0], typ)
                res.violation(key, 'frame type %s on device %s: model publishes %s, service delivered %s' % (typ, parts[1], e[:80], o[:80]), 'input', True,
                              case=[r[:3000]], expected=[e[:2000]], observed=[o[:2000]])
            else:
                what = ('%s device update(s) (UpdateAddr with the unchanged address) did not return within 3 s while reports were flowing: the device is wedged' % o) if 'stuck' in r else \
                    ('%s readings reached EdgeX that no received frame accounts for (wrong device, duplicate or altered content)' % o)
                res.violation('forward:' + ('stuck-updates' if 'stuck' in r else 'extra-readings'), what, 'input', True,
                              case=[r], expected=[e], observed=[o])
    step = max(1, len(reqs) // 5)
    res.samples = [dict(request=reqs[i][:300], oracle=exp[i][:200], observed=obs[i][:200]) for i in range(0, len(reqs), step)][:6]
    res.extra['traces_validated_against_impl'] = len(reqs)


def replay(res, path):
    body = json.load(open(path))
    for r in body.get('case', []):
        print('replay', r[:300], '->', core.oracle([r])[0][:300])
    correspond(res, 'quick', body.get('seed', 1))
