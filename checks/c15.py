"""C15 — connection supervision: retry forever, Down after two failures, Up on reconnect."""
import json, os
from vlib import core

THEOREMS = ['source_shape', 'attempt_rule', 'stop_recognised', 'never_gives_up', 'failure_count', 'reports_exact', 'down_after_two', 'up_on_reconnect',
            'reports_alternate', 'reports_follow_state', 'no_dial_after_stop', 'stop_is_silent', 'next_dial_uses_latest_addr',
            'retry_calls_bounded', 'trysend_retries', 'trysend_stops']
MODULES = ['LLRP.Model.Supervisor', 'LLRP.Oracle.C15']
RULE = ('supervisor: every sequence of attempt outcomes {refused, bad handshake (EOF / wrong message / failed-attempt event), '
        'handshake then drop, handshake then local close} of length 1..4 (thorough: ..5, sampled 6, plus accept-then-silent) '
        'x initial state Up/Down, each also with Stop / UpdateAddr(new) / UpdateAddr(same) inserted into the wait after every failing '
        'attempt and with every connection replaced by one during which Stop / UpdateAddr arrives; played against the real '
        'supervisor goroutine of NewLLRPDevice on loopback listeners; compared: address of every dial, sequence of '
        'UpdateDeviceOperatingState calls, whether it dials again (and where) / stays silent after Stop. '
        'TrySend: all 4^5 sequences of per-attempt outcomes {ok, closed, nil client, other error}; compared: attempts, SendFor calls, result. '
        'distinct = distinct request lines; non-trivial = all (every script dials)')
ASSUMPTIONS = [
    'the supervisor model (LLRP.Model.Supervisor) is hand-written; its loop shape, retry counts and the form of the cancellation test are '
    'regenerated from device.go (Gen/Sup.lean) and it is tied to the code by the differential run',
    'a dial is atomic with respect to Stop/UpdateAddr (loopback dials take microseconds). A Stop that lands inside a dial makes that dial '
    'fail; if it is the second consecutive failure the code reports Down although Stop was already called (not modelled, not exercised)',
    'onConnect (read isUp, report Up, set isUp) is treated as atomic and as happening at the connection-success event; two connection-success '
    'events closer together than one UpdateDeviceOperatingState call could both report Up (not modelled)',
    'an onConnect whose SetReaderConfig fails (connection dropped before the reply) calls resetConn up to 20-40 s later on whatever client '
    'is current by then; scripts finish within a second and the scripted reader always answers SetReaderConfig, so this is not exercised',
    'control events are placed in the retry wait by timing (6 ms after the provoked failure, waits of 40 ms) and validated with the next '
    "attempt's timestamp; unvalidated runs are repeated",
    'the 60 s read timeout (accept-then-silent) is exercised in the thorough tier only',
]
SUP_VERBS = ('supervisor', 'supervisor-slowsdk', 'supervisor-rejcfg', 'supervisor-start', 'supervisor-long', 'supervisor-refuse')
TRUSTED = ['harness net.Addr whose Network() call marks the start of an attempt; llrp.TestDevice as the scripted reader; testify mock SDK']


def _run(tier, seed, only=None):
    binp, out = core.build_harness('driver')
    if not binp:
        raise RuntimeError('harness build failed:\n' + out[-3000:])
    extra = {'VERIF_C15_ONLY': only} if only else None
    path, rc, out = core.run_harness(binp, 'TestVerifC15', tier, seed, extra_env=extra, timeout=1500, pkg='driver')
    if rc != 0:
        raise RuntimeError('harness run failed rc=%d:\n%s' % (rc, out[-3000:]))
    return core.read_cases(path)


def _only_of(line):
    only = line.split(' ', 1)[1]
    if line.startswith('supervisor-slowsdk '):
        only = 'slow ' + only
    if line.startswith('supervisor-rejcfg '):
        only = 'rej ' + only
    if line.startswith('supervisor-start '):
        only = 'start ' + only
    if line.startswith('supervisor-long '):
        only = 'long ' + only
    if line.startswith('supervisor-refuse '):
        only = 'refuse ' + only
    return only


def judge(res, reqs, obs, seed=1, confirm=True):
    exp = core.oracle(reqs)
    def to_intended(r):
        v, _, rest = r.partition(' ')
        return 'supervisor-intended ' + rest if v in SUP_VERBS else ('trysend-intended ' + rest if v == 'trysend' else r)
    intended = core.oracle([to_intended(r) for r in reqs])
    bad = []
    for r, e, i, o in zip(reqs, exp, intended, obs):
        res.evaluations += 1
        verb = r.split(' ')[0]
        res.count(verb)
        res.distinct.add(r)
        if verb in SUP_VERBS:
            toks = r.split(' ')[2:]
            res.count('len=%d' % sum(1 for t in toks if t[:2] not in ('st', 'ua')))
            for t in toks:
                res.count('ev:' + t.split(':')[0])
        if o.startswith('inconclusive'):
            res.count('inconclusive')
        if o != i:
            bad.append((len(r), r, e, i, o))
        elif o != e:
            bad.append((len(r), r, e, i, o))
    bad.sort()
    if confirm and 0 < len(bad) <= 12:
        # The scripts run 48 at a time and place their control events inside 40 ms waits: on a loaded machine a script can be
        # played wrongly (a connection dropped before the service finished setting it up, an address update that lands after
        # the next attempt has read the address). A history that disagrees is therefore played again ALONE, twice; it is a
        # finding only if it disagrees again (a change that breaks the property does so every time it is played).
        confirmed = []
        for n, r, e, i, o in bad:
            if r.split(' ')[0] not in SUP_VERBS:
                confirmed.append((n, r, e, i, o))
                continue
            again = []
            for k in range(2):
                r2, o2 = _run('quick', seed, only=_only_of(r))
                again.append(o2[0] if o2 else 'no-observation')
                if again[-1] == i and again[-1] == e:
                    break
            if again[-1] == i and again[-1] == e:
                res.count('unstable-under-load')
                res.notes.append('history [%s] first gave %s in the parallel run and the required %s when played alone' % (r, o, i))
            else:
                confirmed.append((n, r, e, i, again[-1]))
        bad = confirmed
    for _, r, e, i, o in bad:
        res.count('mismatch')
        script = r.split(' ', 1)[1]
        key = '%s:%s' % (r.split(' ')[0], script)
        if o != i:
            # the real code departs from the model that provably has the property
            what = ('history [%s]: code gives %s; the property (intended model) requires %s' % (script, o, i))
            res.violation(key, what, 'history', True, case=[r], expected=[i], observed=[o], model_of_source=[e])
        else:
            what = ('history [%s]: code gives %s (as the property requires) but the model of the current source gives %s' % (script, o, e))
            res.violation(key, what, 'correspondence', False, case=[r], expected=[e], observed=[o])
    return exp


def correspond(res, tier, seed):
    reqs, obs = _run(tier, seed)
    exp = judge(res, reqs, obs, seed=seed)
    res.exhaustive = True
    n = len(reqs)
    res.samples = [dict(request=reqs[i], oracle=exp[i], observed=obs[i]) for i in (0, n // 5, n // 3, n // 2, 2 * n // 3, n - 1) if 0 <= i < n]
    res.extra['supervisor_scripts'] = sum(1 for r in reqs if r.split(' ')[0] in SUP_VERBS)
    res.extra['trysend_scripts'] = sum(1 for r in reqs if r.startswith('trysend '))
    res.extra['traces_validated_against_impl'] = n


def replay(res, path):
    body = json.load(open(path))
    case = body.get('case') or []
    if not case:
        raise RuntimeError('replay has no case lines')
    line = case[0]
    if line.split(' ')[0] in SUP_VERBS:
        reqs, obs = _run('quick', body.get('seed', 1), only=_only_of(line))
    else:
        reqs, obs = _run('quick', body.get('seed', 1))
        keep = [k for k, r in enumerate(reqs) if r == line]
        reqs, obs = [reqs[k] for k in keep], [obs[k] for k in keep]
    judge(res, reqs, obs, confirm=False)
    res.samples = [dict(request=r, observed=o) for r, o in zip(reqs, obs)]
