"""C19 — header codec and message-type tables."""
import json, os, re
from vlib import core

THEOREMS = ['hdr_decode', 'hdr_short', 'hdr_encode_decode', 'hdr_decode_encode', 'marshal_refuses', 'writeHeader_eq_marshal',
            'validate_iff', 'isValid_iff', 'newInstance_type', 'newInstance_total', 'msg_consts',
            'src_unmarshal', 'src_marshal', 'src_writeTo', 'src_writeHeader', 'src_round_trip',
            'mirror_functional', 'mirror_symm', 'mirror_injective', 'mirror_covers_table', 'mirror_covers', 'mirror_valid']
MODULES = ['LLRP.Model.Header', 'LLRP.Model.Bytes', 'LLRP.Model.GoInt', 'LLRP.Proofs.Bytes', 'LLRP.Proofs.HeaderGen']
RULE = ('exhaustive: all 2^16 values of the first two header bytes x boundary/random lengths x ids through Header.UnmarshalBinary; '
        'versions 0-7 x type codes 0-1100 x boundary payload lengths through MarshalBinary, WriteTo and Client.writeHeader; '
        'type codes 0-2047 through IsValid, Converse, NewInstance().Type(). distinct = distinct request lines; '
        'non-trivial = request whose expected reply is not err/none/false')
ASSUMPTIONS = ['the header model (LLRP.Model.Header) is proved equal (src_unmarshal, src_marshal, src_writeTo, src_writeHeader) to go2lean\'s translation of Header.UnmarshalBinary / MarshalBinary / WriteTo and Client.writeHeader, regenerated from the source on every run; the exhaustive differential run validates the translator',
               'validateHeader / IsValid are go2lean translations of the source',
               'pairing spec: message XResponse answers message X (names from messages.yaml)']
TRUSTED = ['go2lean subset semantics (LLRP.Model.GoInt)']


def classify(req):
    v = req.split(' ')[0]
    return v


def correspond(res, tier, seed):
    binp, out = core.build_harness('llrp')
    if not binp:
        raise RuntimeError('harness build failed:\n' + out[-3000:])
    path, rc, out = core.run_harness(binp, 'TestVerifC19', tier, seed)
    if rc != 0:
        raise RuntimeError('harness run failed rc=%d:\n%s' % (rc, out[-3000:]))
    reqs, obs = core.read_cases(path)
    exp = core.oracle(reqs)
    seen = set()
    for r, e, o in zip(reqs, exp, obs):
        res.evaluations += 1
        verb = classify(r)
        res.count(verb)
        if r not in seen:
            seen.add(r)
            if e not in ('err', 'none', 'false', 'accept'):
                res.distinct.add(r)
        if e != o:
            res.count('mismatch')
            report(res, r, e, o)
    res.exhaustive = True
    res.samples = [dict(request=reqs[i], oracle=exp[i], observed=obs[i]) for i in (0, len(reqs) // 3, len(reqs) // 2, len(reqs) - 5000, len(reqs) - 1) if 0 <= i < len(reqs)]
    res.extra['programs'] = 6
    res.extra['traces_validated_against_impl'] = len(reqs)


def report(res, r, e, o):
    parts = r.split(' ')
    verb = parts[0]
    if verb == 'check-converse':
        key = 'converse:%s' % parts[1]
        res.violation(key, 'MessageType(%s).Converse() = %s but the table pairs it: %s' % (parts[1], ' '.join(parts[2:]), e),
                      'input', True, case=[r], expected=['accept'], observed=[e])
    else:
        # model and code disagree: the model no longer describes the code on this input
        key = '%s:%s' % (verb, ' '.join(parts[1:])[:60])
        prop_violation = verb in ('hdr-dec', 'hdr-enc', 'hdr-write', 'isvalid', 'newinstance', 'ctor-accepts')
        res.violation(key, '%s: code gives %r, model (proved to have the property) gives %r' % (r, o, e), 'input' if prop_violation else 'correspondence',
                      prop_violation, case=[r], expected=[e], observed=[o])


def explain(res, name, reason):
    """witnesses for table obligations that fail"""
    if name in ('mirror_covers_table', 'mirror_covers'):
        gaps = core.oracle(['mirror-gaps'])[0]
        pairs = re.findall(r'\((\d+), (\d+)\)', gaps)
        if not pairs:
            return None
        # each gap was (or will be) reported by the check-converse lines of the correspondence; make sure of it
        keys = []
        for a, b in pairs:
            for t in (a, b):
                keys.append('converse:' + t)
        have = {v['key'] for v in res.violations} | {k for k, _ in res.known_hits}
        return [k for k in keys if k in have] or None
    return None


def replay(res, path):
    body = json.load(open(path))
    case = body.get('case') or []
    if not case:
        raise RuntimeError('replay has no case lines')
    # re-run the whole (cheap, exhaustive) correspondence and report only the replayed lines
    correspond(res, 'quick', body.get('seed', 1))
