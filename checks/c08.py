"""C08 — nothing is sent before a successful connection event; requests wait for setup."""
import json, os
from vlib import core

THEOREMS = ['accept_iff', 'src_checkInitialMessage', 'src_accept_iff', 'payloadOk_iff', 'initial_refines', 'silent_on_reject', 'reject_is_final', 'gated', 'served_after_negotiation',
            'early_callers_fail', 'setup_failure_returns', 'gate_sites', 'first_message_once']
MODULES = ['LLRP.Model.ClientLTS', 'LLRP.Model.Initial', 'LLRP.Model.GoSeq', 'LLRP.Proofs.SeqInitial', 'LLRP.Proofs.ClientLTS', 'LLRP.Proofs.ClientLTS2', 'LLRP.Proofs.ClientLive', 'LLRP.Oracle.LTSim', 'LLRP.Oracle.C08']
RULE = ('initial: the real checkInitialMessage on a recorded connection for each of the 46 message types x ConnectionAttemptEvent status '
        '0..5, 255, 65535 (thorough 0..255) x {well-formed, empty, truncated stream, declared too long / too short, oversize claim, garbage}; '
        'for ReaderEventNotification also: no ConnectionAttemptEvent, additional events, every single-byte corruption and every prefix of the '
        'good payload, damage that comes only after a well-formed success event (stray bytes after / inside the data parameter, a following parameter with an overrunning length, every corruption and cut of a second event); EOF at every header offset, malformed header, silent peer with WithTimeout; compared: verdict, bytes written (0), ack queued. '
        'lts: whole Connect against the scripted peer with the first message of every type (x payload ok/not) and callers issued before Connect / '
        'during the initial read / during each negotiation step (1.0.1 and 1.1 readers), negotiation failing at each step (wrong type, error status, '
        'EOF, cut frame, local close), SendNoWait / Shutdown / cancelled early callers; 160 repetitions (thorough 1600) of failing negotiation with 8 parked callers and 6 callers spinning on a cancelled context (nothing of theirs may reach the wire, none may be accepted); compared: every frame the peer receives in order, '
        'each caller\'s result class, Connect\'s result. distinct = distinct request lines; non-trivial = all')
ASSUMPTIONS = [
    'the pure model of checkInitialMessage (LLRP.Model.Initial) is proved equal to the go2seq translation of reader.go\'s function (src_checkInitialMessage; '
    'the meaning of the calls it makes is SeqGlue.initEnv); the client LTS is hand-written; the payload decision uses the verified '
    'codec model (decode Gen.schema m_ReaderEventNotification); both are also tied to reader.go by the differential runs named in the rule',
    'early-caller timing: "before Connect / during the initial read / during negotiation" is established by a 3 ms pause after starting the '
    'caller goroutine; the model predicts the same observation whether or not the caller had reached its select, and the oracle answers nondet '
    'when a script\'s observation depends on the schedule',
    'user handlers for the first message other than the default KeepAlive ack handler are not modelled',
    'select semantics: a rendezvous on sendQueue cannot happen after done is closed; two ready cases are a free choice',
]
TRUSTED = ['script executor harness/llrp/zz_verif_lts_test.go (hand-built headers, net.Pipe; net.Pipe is synchronous, so a frame the peer has sent has been consumed)']


def _run(tier, seed, only=None):
    binp, out = core.build_harness('llrp')
    if not binp:
        raise RuntimeError('harness build failed:\n' + out[-3000:])
    extra = {'VERIF_C08_ONLY': only} if only else None
    path, rc, out = core.run_harness(binp, 'TestVerifC08', tier, seed, extra_env=extra, timeout=1500)
    if rc != 0:
        raise RuntimeError('harness run failed rc=%d:\n%s' % (rc, out[-3000:]))
    return core.read_cases(path)


def judge(res, reqs, obs):
    exp = core.oracle([r.split(' #')[0] for r in reqs])
    for r, e, o in zip(reqs, exp, obs):
        res.evaluations += 1
        verb = r.split(' ')[0]
        res.count(verb)
        res.distinct.add(r)
        tag = r.split(' #')[1] if ' #' in r else ''
        if tag:
            res.count('family=' + tag.split(':')[0])
        if verb == 'lts':
            script = r[4:].split(' #')[0]
            if e.startswith('nondet') or e == 'bad-op':
                res.violation('script:' + script, 'the oracle cannot predict script [%s]: %s' % (script, e), 'correspondence', False,
                              case=[r], expected=[e], observed=[o])
            elif e != o:
                res.count('mismatch')
                res.violation('lts:' + script, 'script [%s]: the client gives %s; the LTS (proved to have the property) gives %s' % (script, o, e),
                              'history', True, case=[r], expected=[e], observed=[o])
        elif verb == 'initial':
            if e != o:
                res.count('mismatch')
                args = r.split(' ', 1)[1]
                res.violation('initial:' + args[:120], 'first message [%s]: checkInitialMessage gives %s; the model (proved to have the property) gives %s' % (args[:200], o, e),
                              'input', True, case=[r], expected=[e], observed=[o])
        else:
            if e != 'accept' or o != 'accept':
                res.count('mismatch')
                res.violation('session:' + tag + ':' + (e if e != 'accept' else o).replace(' ', '-'),
                              'session %s: monitor %s, harness %s' % (tag, e, o), 'history', True, case=[r], expected=['accept'], observed=[e, o])
    return exp


def correspond(res, tier, seed):
    reqs, obs = _run(tier, seed)
    exp = judge(res, reqs, obs)
    n = len(reqs)
    res.exhaustive = False
    res.samples = [dict(request=reqs[i][:400], oracle=exp[i], observed=obs[i]) for i in (0, n // 4, n // 2, 3 * n // 4, n - 1) if 0 <= i < n]
    res.extra['scripts'] = sum(1 for r in reqs if r.startswith('lts '))
    res.extra['traces_validated_against_impl'] = n


def replay(res, path):
    body = json.load(open(path))
    case = body.get('case') or []
    if not case:
        raise RuntimeError('replay has no case lines')
    line = case[0]
    if line.startswith('lts '):
        reqs, obs = _run('quick', body.get('seed', 1), only=line[4:].split(' #')[0])
    else:
        reqs, obs = _run('quick', body.get('seed', 1))
        keep = [k for k, r in enumerate(reqs) if r == line]
        reqs, obs = [reqs[k] for k in keep], [obs[k] for k in keep]
    judge(res, reqs, obs)
    res.samples = [dict(request=r[:400], observed=o) for r, o in zip(reqs, obs)]
