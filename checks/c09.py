"""C09 — close, shutdown, failure and cancellation never leave a caller stuck."""
import json, os
from vlib import core

THEOREMS = ['closed_callers_enabled', 'cancelled_caller_enabled', 'caller_variant', 'caller_bound', 'connect_returns', 'connect_setup_returns',
            'connect_result', 'late_sends_fail', 'late_send_first_step', 'second_close', 'nothing_after_close', 'cancel_isolated',
            'cancelled_reply_unsolicited', 'no_panic', 'monitor_sound',
            'unrequested_close_response_fails', 'chan_caps', 'deliver_never_blocks', 'deliver_after_cancel', 'errs_never_full',
            # about the go2seq translation of the source, for every environment
            'src_send_closed', 'src_send_success_only_by_reply', 'src_read_loop_done', 'src_read_loop_failure',
            # about the go2seq translation of the write loop, for every behaviour of the environment
            'src_parks_after_close', 'src_write_loop_never_nil']
MODULES = ['LLRP.Proofs.SeqWriteLoop', 'LLRP.Proofs.SeqSend', 'LLRP.Proofs.SeqReadLoop', 'LLRP.Model.GoSeq', 'LLRP.Model.ClientLTS', 'LLRP.Model.ClientMon', 'LLRP.Proofs.ClientLTS', 'LLRP.Proofs.ClientLTS2', 'LLRP.Proofs.ClientLive', 'LLRP.Oracle.LTSim', 'LLRP.Oracle.C09']
RULE = ('fault scripts over the real Client on net.Pipe, compared line by line with the run of the LTS: a session script (greeting, '
        'negotiation with a 1.0.1 / 1.1 reader or none, requests with replies, keep-alive, report) in which the peer vanishes at every '
        'frame boundary and inside frames (header / payload offsets; thorough: every byte offset), in both directions; Close / Shutdown / '
        'context cancellation injected at every script position with 0..4 callers blocked in each phase (before ready, queued, awaiting a '
        'reply); the peer pausing INSIDE a reply (header + part of the payload sent, the awaiting caller cancelled / the client closed, the rest sent) '
        'followed by another exchange, a keep-alive and Connect\'s return; 1..3 KeepAlives crossing the CloseConnection while the peer has stopped reading '
        '(write loop blocked writing CloseConnection, or the request before it); observed: result class of every call and its return within the deadline, Connect\'s result, frames on the wire (nothing '
        'after CloseConnection), results of repeated Close. distinct = distinct scripts; non-trivial = all')
ASSUMPTIONS = [
    'the channel capacities the step function relies on (reply channel 1, token channel 1, errs 2, sendQueue 0, ackQueue ackQueueSz) are '
    'regenerated from the make(chan ...) expressions of reader.go (vx facts chanCaps -> Gen/Chans.lean) and checked by the theorem chan_caps',
    'the client LTS (LLRP.Model.ClientLTS) is hand-written; it is tied to reader.go by the deterministic scripts (each played under three '
    'schedules by the oracle, which answers nondet when the observation depends on the schedule)',
    'runtime residue not exhibited by the model: fairness of the Go scheduler (an enabled step is eventually taken), net.Conn unblocking a '
    'blocked Read/Write when the connection is closed or its deadline passes, timer delivery for contexts and deadlines. The model proves '
    'enabledness and a bounded variant; the harness measures return within 1.5 s on the explored scripts',
    'Connect returns only when both loops have exited: after a local Close on a healthy connection that is when the connection ends '
    '(the owner closes the net.Conn, as the device service does) — the property\'s "once the connection ends"',
    'when a loop error and the local close are both pending at Connect\'s final select, either result is possible (Go picks at random); '
    'scripts avoid that state',
    'select semantics: a rendezvous on sendQueue cannot happen after done is closed; two ready cases are a free choice',
    'fewer than 2^32 requests per connection',
]
TRUSTED = ['script executor harness/llrp/zz_verif_lts_test.go (hand-built headers, net.Pipe; net.Pipe is synchronous, so a frame the peer has sent has been consumed)']


def _run(tier, seed, only=None):
    binp, out = core.build_harness('llrp')
    if not binp:
        raise RuntimeError('harness build failed:\n' + out[-3000:])
    extra = {'VERIF_C09_ONLY': only} if only else None
    path, rc, out = core.run_harness(binp, 'TestVerifC09', tier, seed, extra_env=extra, timeout=1500)
    if rc != 0:
        raise RuntimeError('harness run failed rc=%d:\n%s' % (rc, out[-3000:]))
    return core.read_cases(path)


def judge(res, reqs, obs):
    exp = core.oracle([r.split(' #')[0] for r in reqs])
    for r, e, o in zip(reqs, exp, obs):
        res.evaluations += 1
        verb = r.split(' ')[0]
        res.count(verb)
        res.distinct.add(r)
        tag = r.split(' #')[1] if ' #' in r else ''
        if tag:
            res.count('family=' + tag.split(':')[0])
        if verb == 'lts':
            script = r[4:].split(' #')[0]
            if e.startswith('nondet') or e == 'bad-op':
                res.violation('script:' + script, 'the oracle cannot predict script [%s]: %s' % (script, e), 'correspondence', False,
                              case=[r], expected=[e], observed=[o])
            elif e != o:
                res.count('mismatch')
                res.violation('lts:' + script, 'script [%s]: the client gives %s; the LTS (proved to have the property) gives %s' % (script, o, e),
                              'history', True, case=[r], expected=[e], observed=[o])
        else:
            if e != 'accept' or o != 'accept':
                res.count('mismatch')
                res.violation('session:' + tag + ':' + (e if e != 'accept' else o).replace(' ', '-'),
                              'session %s: monitor %s, harness %s' % (tag, e, o), 'history', True, case=[r], expected=['accept'], observed=[e, o])
    return exp


def correspond(res, tier, seed):
    reqs, obs = _run(tier, seed)
    exp = judge(res, reqs, obs)
    n = len(reqs)
    res.exhaustive = False
    res.samples = [dict(request=reqs[i][:400], oracle=exp[i], observed=obs[i]) for i in (0, n // 4, n // 2, 3 * n // 4, n - 1) if 0 <= i < n]
    res.extra['scripts'] = sum(1 for r in reqs if r.startswith('lts '))
    res.extra['traces_validated_against_impl'] = n


def replay(res, path):
    body = json.load(open(path))
    case = body.get('case') or []
    if not case:
        raise RuntimeError('replay has no case lines')
    line = case[0]
    if not line.startswith('lts '):
        raise RuntimeError('only script cases can be replayed')
    reqs, obs = _run('quick', body.get('seed', 1), only=line[4:].split(' #')[0])
    judge(res, reqs, obs)
    res.samples = [dict(request=r[:400], observed=o) for r, o in zip(reqs, obs)]
