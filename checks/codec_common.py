"""Shared driver for the codec properties (C01, C02, C11): run one TestVerif* of the llrp harness, compare with the
Lean oracle, classify mismatches."""
import collections, os, re, shutil, sys, tempfile
from vlib import core


def run_stream(res, test, tier, seed, classify, nontrivial, timeout=1500):
    binp, out = core.build_harness('llrp')
    if not binp:
        raise RuntimeError('harness build failed:\n' + out[-3000:])
    path, rc, out = core.run_harness(binp, test, tier, seed, timeout=timeout)
    if rc != 0:
        raise RuntimeError('harness run failed rc=%d:\n%s' % (rc, out[-3000:]))
    reqs, obs = core.read_cases(path)
    exp = core.oracle(reqs)
    per_type = collections.Counter()
    for r, e, o in zip(reqs, exp, obs):
        res.evaluations += 1
        parts = r.split(' ', 2)
        verb = parts[0]
        ty = parts[1] if len(parts) > 1 else ''
        res.count(verb)
        res.count('outcome:' + e.split(' ')[0])
        per_type[ty] += 1
        if nontrivial(r, e):
            res.distinct.add(r if len(r) < 200 else hash(r))
        if e != o:
            res.count('mismatch')
            classify(res, r, e, o)
    res.extra['types_covered'] = len([t for t in per_type if t and not t.startswith('x')])
    res.extra['cases_per_type_min'] = min(per_type.values()) if per_type else 0
    step = max(1, len(reqs) // 6)
    res.samples += [dict(request=reqs[i][:400], oracle=exp[i][:300], observed=obs[i][:300]) for i in range(0, len(reqs), step)][:6]
    res.extra['traces_validated_against_impl'] = len(reqs)
    return reqs, exp, obs


def shape_key(r):
    """type + coarse shape of a `dec` input: used to key panics/hangs by decoder and input class"""
    parts = r.split(' ')
    ty = parts[1] if len(parts) > 1 else '?'
    hx = parts[2][1:] if len(parts) > 2 else ''
    return ty, len(hx) // 2


def regen_check(res):
    """each generated encoder/decoder is the generator's output for the current table (programs validated against the table)"""
    src = os.path.join(core.REPO, 'pkg/llrp')
    tmp = tempfile.mkdtemp(prefix='regen', dir=core.BUILD)
    try:
        for f in ('generate_param_code.py', 'messages.yaml'):
            shutil.copy(os.path.join(src, f), tmp)
        names = dict(s='generated_structs.go', t='binary_test.go', m='generated_marshal.go', u='generated_unmarshal.go', e='generated_encoder.go')
        cmd = [sys.executable, 'generate_param_code.py', '-i', 'messages.yaml']
        for k, v in names.items():
            cmd += ['-' + k, v]
        rc, out = core.run(cmd, cwd=tmp, env=core.GOENV)
        if rc != 0:
            res.ob_failures.append(('regen:generator', out[-1500:]))
            return
        def body(p):
            lines = open(p).read().split('\n')
            # drop the licence banner (leading comment lines up to the first blank line) if present
            i = 0
            if lines and lines[0].startswith('//') and not lines[0].startswith('// Code generated'):
                while i < len(lines) and lines[i].startswith('//'):
                    i += 1
                while i < len(lines) and lines[i] == '':
                    i += 1
            return '\n'.join(lines[i:]).strip()
        n = 0
        for v in names.values():
            if v == 'binary_test.go':
                continue
            n += 1
            if body(os.path.join(src, v)) != body(os.path.join(tmp, v)):
                res.ob_failures.append(('regen:' + v, 'pkg/llrp/%s is not what generate_param_code.py produces from messages.yaml' % v))
        res.extra['regenerated_files_compared'] = n
    finally:
        shutil.rmtree(tmp, ignore_errors=True)
