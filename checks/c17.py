"""C17 — discovery names readers by rule, skips live devices, ends in bounded time."""
import json, os, re
from vlib import core

THEOREMS = ['name_rule', 'name_mac', 'name_other', 'prefix_table', 'id_doc', 'name_doc', 'name_deterministic', 'metadata_as_received',
            'skip_rule', 'reported_identified', 'unidentified_not_reported', 'probe_bounded', 'stalling_hosts_bounded',
            'gen_after_cancel', 'run_bounded', 'probe_limits', 'run_bound_sites', 'skip_cond']
MODULES = ['LLRP.Gen.ProbeFacts', 'LLRP.Model.Probe', 'LLRP.Model.Discover', 'LLRP.Proofs.Discover', 'LLRP.Oracle.C17']
RULE = ('real probe() against a scripted loopback LLRP host (hand-written frames, payloads from the repo marshalers): vendors {Impinj, Alien, Zebra, '
        '0, 50, Impinj+-1, random} x models {9 table models, neighbours, 0, 0x32, 2^32-1, random} x id types {0,1,2,255,random} x reader ids of '
        'length 0..16 x firmware strings, identification / capabilities present or missing; every observed name is compared with the '
        'code-following rule (name), the README table (name-doc) and the whole probe result (probe); host behaviours byeRefused (CloseConnection refused, connection kept), busyMidExchange (thorough: keep-alives instead of an answer, bounded by sendTimeout), refuse, closeAfterAccept, '
        'acceptSilent, stallPartialHello, garbage, helloRefused, helloWrongType, stallMidHandshake, garbageMidHandshake, stallMidExchange, '
        'closeMidExchange, configRefused, stallCaps, capsRefused, correct (thorough: closeMidHandshake): outcome and wall-clock of probe(); '
        'skip rule through the mock SDK Devices() (absent / Up / Down / other port / other host / among others / Up or Down with AdminState LOCKED / UNLOCKED / unknown operating state) and real autoDiscover; '
        'autoDiscover(max duration 500 ms, probe timeout 400 ms, 3 workers, 9 addresses) against 8 behaviours and with an expired context. '
        'distinct = distinct request lines; non-trivial = expected reply other than none')
ASSUMPTIONS = ['deviceName / devicePrefix use the go2lean translation of HostnamePrefix and the extracted constants; the suffix rule, skip rule, probe '
               'automaton and run skeleton are hand-written models tied to discover.go by this differential run',
               'Doc.prefixTable / Doc.docId transcribe README.md "EdgeX Device Naming" by hand',
               'wall-clock: a timeout period is the probe timeout; 1000 ms slack is added to every bound (scheduling, loopback, graceful shutdown); '
               'the model counts periods, the harness measures the real time on the explored behaviours only',
               'a host that keeps the read side alive (e.g. KeepAlives) without answering is bounded by the 20 s sendTimeout of probe, not by the '
               'probe timeout: not exercised',
               'closeMidHandshake relies on the probing client having a timeout (C17 repair); for a client without timeout it is the Connect hang '
               'of property C09 in pkg/llrp/reader.go, repaired elsewhere: thorough tier only']
TRUSTED = ['go2lean subset semantics (LLRP.Model.GoInt)', 'Go net / timers', 'EdgeX SDK mock (mocks.DeviceServiceSDK)']


def short(s, n=200):
    return s if len(s) <= n else s[:n] + '…'


def correspond(res, tier, seed, only=None):
    binp, out = core.build_harness('driver')
    if not binp:
        raise RuntimeError('harness build failed:\n' + out[-3000:])
    path, rc, out = core.run_harness(binp, 'TestVerifC17', tier, seed, pkg='driver', timeout=1500 if tier == 'thorough' else 400)
    reqs, obs = core.read_cases(path) if os.path.exists(path) else ([], [])
    if rc != 0 and not reqs:
        raise RuntimeError('harness run failed rc=%d:\n%s' % (rc, out[-3000:]))
    exp = core.oracle(reqs)
    seen = set()
    for r, e, o in zip(reqs, exp, obs):
        if only is not None and r not in only:
            continue
        res.evaluations += 1
        parts = r.split(' ')
        verb = parts[0]
        res.count(verb)
        if verb in ('probe', 'probe-time-check', 'run-check'):
            res.count('host=' + parts[1])
        if r not in seen:
            seen.add(r)
            if e != 'none':
                res.distinct.add(r)
        if e != o:
            res.count('mismatch')
            report(res, r, e, o)
    if rc != 0:
        raise RuntimeError('harness run failed rc=%d after %d cases:\n%s' % (rc, len(reqs), out[-3000:]))
    res.exhaustive = False
    idx = [i for i in (0, len(reqs) // 3, len(reqs) // 2, len(reqs) - 40, len(reqs) - 12, len(reqs) - 1) if 0 <= i < len(reqs)]
    res.samples = [dict(request=reqs[i], oracle=short(exp[i]), observed=short(obs[i])) for i in idx]
    res.extra['programs'] = 4
    res.extra['traces_validated_against_impl'] = len(reqs)


def report(res, r, e, o):
    parts = r.split(' ')
    verb = parts[0]
    if verb in ('name', 'name-doc'):
        v, m, t, rid = parts[1:5]
        which = 'the README naming table/rule' if verb == 'name-doc' else 'the naming rule'
        # group by what differs: prefix or id part
        ep, _, es = e.partition('-')
        op, _, os_ = o.partition('-')
        kind = 'prefix' if ep != op else 'id'
        key = '%s:%s:vendor=%s:model=%s' % (verb, kind, v, m) if kind == 'prefix' else '%s:id:type=%s:len=%d' % (verb, t, (len(rid) - 1) // 2)
        res.violation(key, 'reader vendor=%s model=%s idType=%s readerID=%s is named %r by discovery, %s gives %r' % (v, m, t, rid, o, which, e),
                      'input', True, case=[r], expected=[e], observed=[o])
    elif verb == 'probe':
        beh = parts[1]
        key = 'probe:%s' % beh
        if beh == 'correct':
            key += ':id=%s,type=%s,len=%d:caps=%s' % (parts[2], parts[3], (len(parts[4]) - 1) // 2, parts[5])
        res.violation(key, 'probe of a %s host (%s): code reports %r, model %r' % (beh, ' '.join(parts[2:]), o, e), 'input', True,
                      case=[r], expected=[e], observed=[o])
    elif verb == 'skip':
        key = 'skip:registered=%s:up=%s' % (parts[1], parts[2])
        res.violation(key, 'address of a device (registered=%s, operating state up=%s): discovery did %r, rule says %r' % (parts[1], parts[2], o, e),
                      'input', True, case=[r], expected=[e], observed=[o])
    elif verb == 'probe-time-check':
        beh, tms, el = parts[1:4]
        key = 'probe-time:%s' % beh
        res.violation(key, 'probe(timeout %s ms) of a %s host: %s; %s' % (tms, beh, 'did not return (blocked)' if el == 'blocked' else 'returned after %s ms' % el, e),
                      'input', True, case=[r], expected=['accept'], observed=[e])
    elif verb == 'probe-busy-check':
        el = parts[1]
        res.violation('probe-time:busyMidExchange', 'probe of a host that never answers GetReaderConfig but keeps sending keep-alives: %s; %s' % (
            'did not return (blocked)' if el == 'blocked' else 'returned after %s ms' % el, e), 'input', True, case=[r], expected=['accept'], observed=[e])
    elif verb == 'run-check':
        beh, dms, tms, el = parts[1:5]
        key = 'run-time:%s:%s' % (beh, 'expired' if dms == '0' else 'limited')
        res.violation(key, 'autoDiscover(max duration %s ms, probe timeout %s ms) against %s hosts: %s; %s' % (
            dms, tms, beh, 'did not return (blocked)' if el == 'blocked' else 'returned after %s ms' % el, e),
            'input', True, case=[r], expected=['accept'], observed=[e])
    else:
        res.violation('%s:%s' % (verb, ' '.join(parts[1:])[:60]), '%s: code %r, model %r' % (r, o, e), 'correspondence', False, case=[r], expected=[e], observed=[o])


def explain(res, name, reason):
    """a broken naming obligation is explained by the name / name-doc lines of the correspondence"""
    if name in ('prefix_table', 'name_doc', 'id_doc', 'name_mac', 'name_other', 'name_rule'):
        have = [v['key'] for v in res.violations if v['key'].startswith('name')] + [k for k, _ in res.known_hits if k.startswith('name')]
        return have or None
    return None


def replay(res, path):
    body = json.load(open(path))
    case = body.get('case') or []
    if not case:
        raise RuntimeError('replay has no case lines')
    # the harness is deterministic in (tier, seed) up to measured times: re-run it and judge the replayed requests
    # (time checks are matched on verb + behaviour, their measured value differs from run to run)
    want = set(case)
    heads = {' '.join(c.split(' ')[:2]) for c in case if c.split(' ')[0] in ('probe-time-check', 'run-check', 'probe-busy-check')}
    binp, out = core.build_harness('driver')
    if not binp:
        raise RuntimeError('harness build failed:\n' + out[-3000:])
    tier = body.get('tier', 'quick')
    path2, rc, out = core.run_harness(binp, 'TestVerifC17', tier, body.get('seed', 1), pkg='driver', timeout=1500 if tier == 'thorough' else 400)
    reqs, obs = core.read_cases(path2)
    exp = core.oracle(reqs)
    for r, e, o in zip(reqs, exp, obs):
        if r in want or ' '.join(r.split(' ')[:2]) in heads:
            res.evaluations += 1
            if e != o:
                report(res, r, e, o)
    if res.evaluations == 0:
        raise RuntimeError('replayed case lines were not produced by the harness: %r' % case)
