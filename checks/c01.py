"""C01 — binary codec round trip (+ JSON form)."""
import json
from vlib import core
from checks import codec_common as cc

THEOREMS = ['decode_encode', 'reencode', 'schema_wf', 'decode_encode_gen', 'decode_of_fuel', 'json_safe', 'no_custom_json']
MODULES = ['LLRP.Model.Codec', 'LLRP.Model.Schema', 'LLRP.Model.Bytes', 'LLRP.Model.Sexp', 'LLRP.Model.SchemaWF', 'LLRP.Model.FieldsWF']
RULE = ('per type (169): type-directed random values — every optional slot present/absent, repeatables 0-3, each member of every choice group, '
        'numbers at 0/1/max/max-1/sign boundary/random, arrays/strings of length 0,1,2,3,7,8,9,… (thorough: up to 1000), bit arrays of 0,1,7,8,9,15,16,17,… bits; '
        'for each value: Go MarshalBinary = model encode; Go UnmarshalBinary = model decode; the property monitor rt (decode∘encode = id, re-encode = bytes, '
        'JSON marshal/unmarshal = id) on the real code. distinct = distinct request lines; non-trivial = value with a variable-length field or a sub-parameter')
ASSUMPTIONS = ['well-formed = LLRP.fits (ranges, counts < 2^16, bit-array byte length, choice group: exactly one member that passes the encoder\'s present-test, TLV < 2^16)',
               'losslessness of encoding/json for the JSON-safe struct shapes (json_safe) is the standard library\'s documented behaviour; sampled by the JSON leg']
TRUSTED = ['reflection walker between Go structs and the canonical value text (harness/llrp/zz_verif_codec_test.go)', 'encoding/json']


def classify(res, r, e, o):
    parts = r.split(' ')
    verb, ty = parts[0], parts[1]
    if verb == 'rt':
        if e == 'unfit':
            # generated on purpose: the value is well-formed by the property's words but outside `fits`
            why = 'choice-zero' if '(b 0 x)' in r else 'unfit'
            key = 'roundtrip:%s:%s' % (ty, why)
            res.violation(key, 'round trip fails on the real code for a %s whose choice-group member is a 0-bit EPCData (%s)' % (ty, o), 'input', True,
                          case=[r[:2000]], expected=['ok (property)'], observed=[o])
        else:
            key = 'roundtrip:%s:%s' % (ty, o)
            res.violation(key, 'round trip of a well-formed %s: real code %s, model %s' % (ty, o, e), 'input', True, case=[r[:4000]], expected=[e], observed=[o])
    else:
        key = '%s-differs:%s' % (verb, ty)
        res.violation(key, '%s of %s: real code gives %s, model gives %s' % (verb, ty, o[:80], e[:80]), 'input' if o in ('panic', 'err') else 'correspondence',
                      o in ('panic', 'err'), case=[r[:4000]], expected=[e[:2000]], observed=[o[:2000]])


def correspond(res, tier, seed):
    cc.regen_check(res)   # the generated codec files are what the generator produces from the table
    cc.run_stream(res, 'TestVerifC01', tier, seed, classify, lambda r, e: ('x' in r and '((' in r))
    res.extra['programs'] = res.extra.get('types_covered')


def replay(res, path):
    body = json.load(open(path))
    reqs = body.get('case', [])
    print('replay:', reqs, core.oracle(reqs))
    correspond(res, 'quick', body.get('seed', 1))
