import LLRP.Model.SchemaWF
import LLRP.Gen.Schema
open LLRP
theorem schema_wf : SchemaWF Gen.schema = true := by decide +kernel
