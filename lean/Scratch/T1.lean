import LLRP.Model.SchemaWF
import LLRP.Gen.Schema
open LLRP
def S := Gen.schema
#eval (S.filter fun c => fixedSize S c && !c.slots.isEmpty).map (·.name)
#eval (S.filter fun c => !groupsOK S c.groups).map (·.name)
#eval (S.map fun c => groupsCost c.groups).foldl max 0
#eval (S.filter fun c => groupsCost c.groups > 7).map (fun c => (c.name, groupsCost c.groups, c.groups.length))
#eval (S.filter fun c => !(minSize S c ≤ lower S c)).map (fun c => (c.name, minSize S c, lower S c))
#eval (S.filter fun c => !c.isMsg && c.isTLV && c.typeId ≥ 1024).map (·.name)
#eval (S.filter fun c => !c.isMsg && !c.isTLV && !(1 ≤ c.typeId && c.slots.isEmpty && c.fields.all (·.kind.isFixed))).map (·.name)
#eval (S.filter fun c => c.slots.any fun s => s.repeatable && !s.optional).map (fun c => (c.name, (c.slots.filter fun s => s.repeatable && !s.optional).map (·.ty)))
#eval (S.filter fun c => hasRest c.fields).map (fun c => (c.name, c.slots.length, c.fields.map (·.name)))
#eval (S.flatMap fun c => c.fields.filterMap fun f => match f.kind with | .scalar size bits bit part signed isBool => if bits != 8 then some (size,bits,bit,part,signed,isBool) else none | _ => none).eraseDups
#eval (S.flatMap fun c => c.fields.filterMap fun f => match f.kind with | .scalar size bits bit part signed isBool => if bits == 8 then some (size,signed,isBool, part) else none | _ => none).eraseDups
#eval (S.flatMap fun c => c.fields.filterMap fun f => match f.kind with | .scalar .. => none | k => some k).eraseDups
#eval (S.filter fun c => c.isMsg && c.slots.any (·.isChoice)).map (·.name)
#eval (S.filter fun c => c.slots.any (fun s => s.group.isSome && !s.isChoice)).map (·.name)
#eval (S.filter fun c => !c.isMsg && S.param? c.name != some c).map (·.name)
#eval (S.filter fun c => !wfContainer S c).map (·.name)
#eval SchemaWF S
