import LLRP.Oracle.Common
import LLRP.Oracle.C19
import LLRP.Oracle.Codec
import LLRP.Oracle.C18
import LLRP.Oracle.C16
import LLRP.Oracle.C17
import LLRP.Oracle.C14
import LLRP.Oracle.C15
import LLRP.Oracle.C12
import LLRP.Oracle.C13
import LLRP.Oracle.C20
import LLRP.Oracle.C06
import LLRP.Oracle.C05
import LLRP.Oracle.C07
import LLRP.Oracle.C03
import LLRP.Oracle.C09
import LLRP.Oracle.C08
import LLRP.Oracle.C04
import LLRP.Oracle.C10
/-!
`oracle`: line-protocol driver of the executable models (one request per line on stdin, one reply per line on
stdout). Imports only `LLRP.Model.*`, `LLRP.Gen.*` and `LLRP.Oracle.*` (never Mathlib, never proofs) so that it
links as a `lean_exe`. Unknown verbs answer `bad-op`; nothing is defaulted.
To add a property: write `LLRP/Oracle/Cxx.lean` with `def handleCxx : Handler`, import it here, add it to `handlers`.
-/
open LLRP LLRP.Oracle

def handlers : List Handler := [
  handleC19,
  handleCodec,
  handleC18,
  handleC16,
  handleC17,
  handleC14,
  handleC15,
  handleC12,
  handleC13,
  handleC20,
  handleC06,
  handleC05,
  handleC07,
  handleC03,
  handleC09,
  handleC08,
  handleC04,
  handleC10
]

def handle (line : String) : String :=
  let args := (line.trimAscii.toString.splitOn " ").filter (· ≠ "")
  match handlers.findSome? (fun h => h args) with
  | some r => r
  | none => "bad-op"

partial def loop (hin hout : IO.FS.Stream) : IO Unit := do
  let line ← hin.getLine
  if line.isEmpty then return ()
  hout.putStrLn (handle line)
  loop hin hout

def main : IO Unit := do
  let hin ← IO.getStdin
  let hout ← IO.getStdout
  loop hin hout
  hout.flush
