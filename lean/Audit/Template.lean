import Lean
import LLRP.Props.CXX
/-! Audit: print every theorem of the property namespace with the axioms it depends on. -/
open Lean Elab Command

run_cmd do
  let env ← getEnv
  let ns : Name := `LLRP.CXX
  let mut names : Array Name := #[]
  for (n, ci) in env.constants.map₁.toList do
    if ns.isPrefixOf n && !n.isInternal then
      if let .thmInfo _ := ci then
        names := names.push n
  for n in names.qsort (fun a b => a.toString < b.toString) do
    let axs ← liftCoreM (collectAxioms n)
    IO.println s!"THEOREM {n} AXIOMS {axs.toList}"
