/-!
Go integer semantics over `Int`, used by the definitions that `go2lean` emits.
Values of a Go integer type are kept inside that type's range; every arithmetic result is
passed through the matching `wrap`.
-/
namespace LLRP.GoInt

/-- reduce into `[0, 2^bits)` — Go's unsigned wrap-around -/
def wrapU (bits : Nat) (x : Int) : Int := x % (2 : Int) ^ bits

/-- reduce into `[-2^(bits-1), 2^(bits-1))` — Go's signed (two's complement) wrap-around -/
def wrapS (bits : Nat) (x : Int) : Int := (x + (2 : Int) ^ (bits - 1)) % (2 : Int) ^ bits - (2 : Int) ^ (bits - 1)

def wrap (bits : Nat) (signed : Bool) (x : Int) : Int := if signed then wrapS bits x else wrapU bits x

/-- Go's `/` truncates toward zero (division by zero panics in Go: see the `_safe` companion definitions) -/
def goDiv (a b : Int) : Int := Int.tdiv a b
def goMod (a b : Int) : Int := Int.tmod a b

/-- `a << k` on a `bits`-wide type; a count ≥ bits gives 0, a negative count panics in Go (see `_safe`) -/
def goShl (bits : Nat) (signed : Bool) (a k : Int) : Int := wrap bits signed (a * (2 : Int) ^ k.toNat)

/-- `a >> k`: arithmetic for signed, logical for unsigned operands; both are floor division on in-range values -/
def goShr (a k : Int) : Int := a / (2 : Int) ^ k.toNat

def goNot (bits : Nat) (signed : Bool) (a : Int) : Int :=
  if signed then -a - 1 else (2 : Int) ^ bits - 1 - a

/-- bitwise operators through the unsigned representation -/
def bitop (f : Nat → Nat → Nat) (bits : Nat) (signed : Bool) (a b : Int) : Int :=
  wrap bits signed (Int.ofNat (f (wrapU bits a).toNat (wrapU bits b).toNat))
def goAnd := bitop Nat.land
def goOr := bitop Nat.lor
def goXor := bitop Nat.xor

end LLRP.GoInt
