/-!
Go integer semantics over `Int`, used by the definitions that `go2lean` emits.
Values of a Go integer type are kept inside that type's range; every arithmetic result is
passed through the matching `wrap`.
-/
namespace LLRP.GoInt

/-- reduce into `[0, 2^bits)` — Go's unsigned wrap-around -/
def wrapU (bits : Nat) (x : Int) : Int := x % (2 : Int) ^ bits

/-- reduce into `[-2^(bits-1), 2^(bits-1))` — Go's signed (two's complement) wrap-around -/
def wrapS (bits : Nat) (x : Int) : Int := (x + (2 : Int) ^ (bits - 1)) % (2 : Int) ^ bits - (2 : Int) ^ (bits - 1)

def wrap (bits : Nat) (signed : Bool) (x : Int) : Int := if signed then wrapS bits x else wrapU bits x

/-- Go's `/` truncates toward zero (division by zero panics in Go: see the `_safe` companion definitions) -/
def goDiv (a b : Int) : Int := Int.tdiv a b
def goMod (a b : Int) : Int := Int.tmod a b

/-- `a << k` on a `bits`-wide type; a count ≥ bits gives 0, a negative count panics in Go (see `_safe`) -/
def goShl (bits : Nat) (signed : Bool) (a k : Int) : Int := wrap bits signed (a * (2 : Int) ^ k.toNat)

/-- `a >> k`: arithmetic for signed, logical for unsigned operands; both are floor division on in-range values -/
def goShr (a k : Int) : Int := a / (2 : Int) ^ k.toNat

def goNot (bits : Nat) (signed : Bool) (a : Int) : Int :=
  if signed then -a - 1 else (2 : Int) ^ bits - 1 - a

/-- bitwise operators through the unsigned representation -/
def bitop (f : Nat → Nat → Nat) (bits : Nat) (signed : Bool) (a b : Int) : Int :=
  wrap bits signed (Int.ofNat (f (wrapU bits a).toNat (wrapU bits b).toNat))
def goAnd := bitop Nat.land
def goOr := bitop Nat.lor
def goXor := bitop Nat.xor


/-! byte buffers (`[]byte` as `List Int` with entries in 0..255) for the byte-buffer functions go2lean translates -/

/-- `buf[i]` (an out-of-range index panics in Go: see the `_safe` companions; here it reads 0) -/
def byteAt (l : List Int) (i : Nat) : Int := l.getD i 0
/-- `binary.BigEndian.Uint16(buf[i:])` -/
def be16At (l : List Int) (i : Nat) : Int := byteAt l i * 256 + byteAt l (i + 1)
/-- `binary.BigEndian.Uint32(buf[i:])` -/
def be32At (l : List Int) (i : Nat) : Int :=
  ((byteAt l i * 256 + byteAt l (i + 1)) * 256 + byteAt l (i + 2)) * 256 + byteAt l (i + 3)
/-- `binary.BigEndian.PutUint16(buf[i:], v)` for `0 ≤ v < 2^16` -/
def putBE16 (l : List Int) (i : Nat) (v : Int) : List Int := (l.set i (v / 256 % 256)).set (i + 1) (v % 256)
/-- `binary.BigEndian.PutUint32(buf[i:], v)` for `0 ≤ v < 2^32` -/
def putBE32 (l : List Int) (i : Nat) (v : Int) : List Int :=
  (((l.set i (v / 16777216 % 256)).set (i + 1) (v / 65536 % 256)).set (i + 2) (v / 256 % 256)).set (i + 3) (v % 256)

end LLRP.GoInt

/-- closes goals of the form `f x = true ↔ <linear condition>` (or conjunctions of them) after `unfold f`, for a translated
Boolean function built from comparisons, `&&`, `||`, `!` and `if`: independent of how the source orders or nests its
conditions, so that an equivalent rewrite of the source re-proves without editing the proof -/
macro "go_bool_arith" : tactic => `(tactic| (
  (try simp only [Bool.and_eq_true, Bool.or_eq_true, decide_eq_true_eq, Bool.not_eq_true', Bool.and_eq_false_iff,
    Bool.or_eq_false_iff, decide_eq_false_iff_not, Bool.not_eq_eq_eq_not, Bool.not_true, Bool.not_false,
    Bool.false_eq_true, Bool.true_eq_false, ite_eq_left_iff, ite_eq_right_iff]);
  (repeat' split) <;> (try simp_all) <;> (try omega)))
