import LLRP.Model.WriteSide
/-!
Monitor for the client's outbound byte stream (C05, shared with C07): given the RAW bytes a peer received, what the
callers issued and which keep-alives the peer sent, decide whether the stream is one the write side may produce.
The judge of the concurrent stress runs is this Lean definition; `C05.monitor_sound` proves that it accepts every
run of the write-side model.
-/
namespace LLRP

/-- a request some caller issued: type, payload, and whether it MUST be on the wire (its caller obtained a reply,
or `SendNoWait` reported it handed to the write loop) -/
structure Issued where
  typ : Nat
  payload : Bytes
  must : Bool
deriving DecidableEq, Repr

def Issued.sig (r : Issued) : Nat × Bytes := (r.typ, r.payload)

/-- `xs` is contained in `ys` as a multiset -/
def countLe {α} [BEq α] (xs ys : List α) : Bool := xs.all fun x => decide (xs.count x ≤ ys.count x)

/-- nothing follows a CloseConnection frame -/
def noneAfterClose : List Frame → Bool
  | [] => true
  | f :: rest => if f.typ = tCloseConnection then rest.isEmpty else noneAfterClose rest

inductive Verdict where
  | accept
  | reject (clause : String)
deriving DecidableEq, Repr

def isAckFrame (f : Frame) : Bool := f.typ == tKeepAliveAck
def isReqFrame (f : Frame) : Bool := f.typ != tKeepAliveAck

/-- `kaIds`: ids of the keep-alives the peer sent; `mustAck`: ids that must have been acknowledged -/
def checkWrite (stream : Bytes) (issued : List Issued) (kaIds mustAck : List Nat) : Verdict :=
  match parseStream stream with
  | none => .reject "frames"                                     -- not a concatenation of whole frames
  | some fs =>
    let reqs := fs.filter isReqFrame
    let acks := fs.filter isAckFrame
    if !(acks.all fun f => f.payload.isEmpty) then .reject "ack-payload"
    else if !(countLe (acks.map (·.id)) kaIds) then .reject "ack-unsolicited-or-repeated"
    else if !(countLe mustAck (acks.map (·.id))) then .reject "ack-missing"
    else if !(countLe (reqs.map Frame.sig) (issued.map Issued.sig)) then .reject "request-unknown-or-repeated"
    else if !(countLe ((issued.filter (·.must)).map Issued.sig) (reqs.map Frame.sig)) then .reject "request-missing"
    else if !(decide (reqs.map (·.id)).Nodup) then .reject "ids-repeat"
    else if !(noneAfterClose fs) then .reject "after-close"
    else .accept

/-- deterministic test payload both sides can generate: byte i = (seed + 131·i + ⌊i/251⌋) mod 256 -/
def genPayload (seed len : Nat) : Bytes := (List.range len).map fun i => byte (seed + 131 * i + i / 251)

end LLRP
