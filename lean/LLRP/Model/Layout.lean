import LLRP.Model.Codec
/-!
`layout`: the LLRP binary layout of a value, written as a declarative specification that shares no code with
`encode`/`decode`: fields at their table offsets and bit positions in network byte order, sub-parameters in table
order, each TLV as `type(16 bits, upper 6 zero) ‖ length ‖ body` where the length is computed from the body actually
produced (4 + body length), each TV as `0x80|type ‖ body`. (C02's independent reference; instantiated with the pinned
table `LLRP.Pinned.schema`.)
-/
namespace LLRP.Layout
open LLRP

/-- big-endian digits of `n`, exactly `size` bytes (most significant first) -/
def beBytes : Nat → Nat → Bytes
  | 0, _ => []
  | size+1, n => byte (n / 256 ^ size) :: beBytes size n

/-- two's complement representative of an integer in `size` bytes -/
def twos (size : Nat) (v : Int) : Nat := (v % ((256 : Int) ^ size)).toNat

/-- one byte assembled from the bit parts that share it: a part of `bits` bits starting at bit `bit` (0 = MSB) -/
def placeBits (bits bit : Nat) (v : Nat) : Nat := (v % 2 ^ bits) * 2 ^ (8 - bit - bits)

def fields : List Field → List FVal → Nat → Bytes
  | [], _, _ => []
  | f :: fs, vs, shared =>
    match f.kind, vs with
    | .pad size, _ => List.replicate size 0 ++ fields fs vs 0
    | .scalar size bits bit part _ _, .num v :: vs' =>
      if bits = 8 then beBytes size (twos size v) ++ fields fs vs' 0
      else
        let b := shared + placeBits bits bit (twos 1 v)
        if part then fields fs vs' b else byte b :: fields fs vs' 0
    | .fixedArr _ _, .bytes b :: vs' => b ++ fields fs vs' 0
    | .arr _, .bytes b :: vs' => beBytes 2 b.length ++ b ++ fields fs vs' 0
    | .arr elem, .nums l :: vs' => beBytes 2 l.length ++ l.flatMap (beBytes elem) ++ fields fs vs' 0
    | .str, .bytes b :: vs' => beBytes 2 b.length ++ b ++ fields fs vs' 0
    | .bitArr, .bits n b :: vs' => beBytes 2 n ++ b ++ fields fs vs' 0
    | .rest, .bytes b :: vs' => b ++ fields fs vs' 0
    | _, _ => []

mutual
def param (S : Schema) : Nat → String → Val → Bytes
  | 0, _, _ => []
  | fuel+1, ty, .node fs subs =>
    match S.param? ty with
    | none => []
    | some c =>
      let body := fields c.fields fs 0 ++ slots S fuel c.slots subs none
      if c.typeId ≥ 128 then beBytes 2 c.typeId ++ beBytes 2 (4 + body.length) ++ body
      else byte (128 + c.typeId) :: body
def slots (S : Schema) : Nat → List Slot → List (List Val) → Option String → Bytes
  | 0, _, _, _ => []
  | _, [], _, _ => []
  | _, _, [], _ => []
  | fuel+1, s :: ss, vs :: vss, served =>
    if s.isChoice then
      if served == s.group || vs.isEmpty then slots S fuel ss vss served
      else params S fuel s.ty (vs.take 1) ++ slots S fuel ss vss s.group
    else params S fuel s.ty vs ++ slots S fuel ss vss none
def params (S : Schema) : Nat → String → List Val → Bytes
  | 0, _, _ => []
  | _, _, [] => []
  | fuel+1, ty, v :: vs => param S fuel ty v ++ params S fuel ty vs
end

/-- the layout of a message payload / parameter body -/
def layout (S : Schema) (c : Container) (v : Val) : Bytes :=
  match v with
  | .node fs subs => fields c.fields fs 0 ++ slots S (3 * v.size + 3) c.slots subs none

end LLRP.Layout
