import LLRP.Model.WriteSide
/-!
Keep-alive acknowledgement of the LLRP client as a labelled transition system over the write-side fold:
`ackHandler.HandleMessage` (read loop: enqueue the keep-alive's id on `ackQueue`, capacity `Gen.ackQueueSz`, DROP when
full) and `handleOutgoing`'s two-level select (outer: `done | ackQueue | default`; inner: `done | ackQueue | sendQueue`).
The write loop is at `top` when it evaluates the outer select and at `inner` once it found `ackQueue` empty there.
Hand-written; tied to the code by the C07 correspondence.
-/
namespace LLRP

inductive Pc where
  | top      -- about to evaluate the outer select
  | inner    -- blocked in the inner select (ackQueue was empty at the outer one)
deriving DecidableEq, Repr, Inhabited

structure LState where
  w : WState
  q : List Nat := []          -- `ackQueue`, oldest first
  pc : Pc := .top
  handled : List Nat := []    -- ghost: ids of the keep-alives given to ackHandler, in order
  accepted : List Nat := []   -- ghost: those that were enqueued
  dropped : List Nat := []    -- ghost: those dropped because the queue was full
deriving Repr, Inhabited

def LState.init (version : Nat) : LState := { w := WState.init version }

inductive LAct where
  /-- read loop: a KeepAlive with this id reaches `ackHandler` -/
  | ka (id : Nat)
  /-- write loop: the outer select finds `ackQueue` empty and falls through to the inner select -/
  | enter
  /-- write loop: either select receives the oldest id from `ackQueue`; the acknowledgement is written -/
  | pickAck
  /-- write loop: the inner select receives a request from `sendQueue`; it is written -/
  | pickReq (it : WItem)
  /-- negotiation changes `Client.version` -/
  | setVer (v : Nat)
deriving DecidableEq, Repr, Inhabited

/-- items that arrive through `sendQueue` -/
def WItem.fromSendQueue : WItem → Bool
  | .req .. => true
  | .bad .. => true
  | _ => false

/-- `none` = the action is not enabled in `s` -/
def lstep (s : LState) : LAct → Option LState
  | .ka id =>
    if s.q.length < Gen.ackQueueSz then
      some { s with q := s.q ++ [id], handled := s.handled ++ [id], accepted := s.accepted ++ [id] }
    else some { s with handled := s.handled ++ [id], dropped := s.dropped ++ [id] }
  | .enter => if s.pc = .top ∧ s.q = [] ∧ s.w.stopped = false then some { s with pc := .inner } else none
  | .pickAck =>
    if s.w.stopped then none else
    match s.q with
    | [] => none
    | id :: rest => some { s with w := wr s.w (.ack id), q := rest, pc := .top }
  | .pickReq it =>
    if s.pc = .inner ∧ s.w.stopped = false ∧ it.fromSendQueue = true then
      some { s with w := wr s.w it, pc := .top }
    else none
  | .setVer v => some { s with w := wr s.w (.setVer v) }

/-- run an arbitrary action list; actions that are not enabled do nothing -/
def lrun (s : LState) (acts : List LAct) : LState := acts.foldl (fun s a => (lstep s a).getD s) s

/-- no keep-alive of the run finds the queue full -/
def noOverflow : LState → List LAct → Prop
  | _, [] => True
  | s, a :: rest =>
    (match a with
     | .ka _ => s.q.length < Gen.ackQueueSz
     | _ => True) ∧ noOverflow ((lstep s a).getD s) rest

/-! ### a deterministic scheduler for the scripted runs of the harness

Environment events: a keep-alive is handled, a request is offered to an idle write loop, the peer stops / resumes
reading. The write loop makes maximal progress; while the peer does not read, the first write it attempts blocks (one
item "in flight"), after which it takes nothing more until the peer resumes. -/

inductive Env where
  | ka (id : Nat)
  | req (it : WItem)
  | stall
  | resume
  /-- the peer sends some other message (not a keep-alive): no effect on the write side -/
  | other
deriving Repr

structure Sched where
  s : LState
  stalled : Bool := false
  inflight : Bool := false
  pending : List WItem := []  -- requests offered while the loop was blocked: their callers wait at `sendQueue`
  trace : List LAct := []     -- the LTS actions performed, oldest first
  bad : Bool := false         -- an action the script asked for was not enabled

def Sched.act (x : Sched) (a : LAct) : Sched :=
  match lstep x.s a with
  | some s' => { x with s := s', trace := x.trace ++ [a] }
  | none => { x with bad := true }

def Sched.blocked (x : Sched) : Bool := x.stalled && x.inflight

/-- maximal progress of the write loop: acknowledgements first (outer select), then — only when the ack queue is
empty — one waiting request, and again -/
def Sched.progress : Nat → Sched → Sched
  | 0, x => x
  | fuel+1, x =>
    if x.s.w.stopped || x.blocked then x
    else if x.s.q ≠ [] then
      let x1 := x.act .pickAck
      Sched.progress fuel (if x1.stalled then { x1 with inflight := true } else x1)
    else match x.pending with
      | [] => x
      | it :: rest =>
        let x0 := if x.s.pc = .top then x.act .enter else x
        let x1 := { (x0.act (.pickReq it)) with pending := rest }
        Sched.progress fuel (if x1.stalled then { x1 with inflight := true } else x1)

def Sched.fuel (x : Sched) : Nat := 2 * (x.s.q.length + x.pending.length) + 4

def Sched.env (x : Sched) : Env → Sched
  | .ka id => let y := x.act (.ka id); y.progress y.fuel
  | .req it => let y := { x with pending := x.pending ++ [it] }; y.progress y.fuel
  | .stall => { x with stalled := true }
  | .resume => let y := { x with stalled := false, inflight := false }; y.progress y.fuel
  | .other => x

def schedule (version : Nat) (evs : List Env) : Sched := evs.foldl Sched.env { s := LState.init version }

end LLRP
