import LLRP.Model.Codec
import LLRP.Model.ClientLTS
import LLRP.Gen.Schema
import LLRP.Gen.Consts
/-!
# `Client.checkInitialMessage` as a pure function of the first message (C08)

The first message as the client meets it: the header's type and declared payload length, and the payload bytes that
actually arrive before the stream ends or stalls (`none` = no complete header arrives: EOF, timeout, malformed header).
`checkInitial` is the accept/reject decision; `ackOnFirst` is the one side effect (the first message is passed to its
registered handler — only the `ackHandler` for KeepAlive exists by default — after the payload was read).
-/
namespace LLRP.Initial
open LLRP

structure First where
  typ : Nat
  /-- payload length announced by the header -/
  declared : Nat
  /-- payload bytes that arrive -/
  payload : Bytes
deriving Repr

def slotIndex (c : Container) (name : String) : Option Nat :=
  c.slots.findIdx? (fun s => s.name == name)

/-- `ren.ReaderEventNotificationData.ConnectionAttemptEvent`: `none` when the parameter is absent -/
def connAttempt (v : Val) : Option Int :=
  match v with
  | .node _ [[.node _ subs]] =>
    match slotIndex Gen.p_ReaderEventNotificationData "ConnectionAttemptEvent" with
    | some i =>
      match subs[i]? with
      | some [.node [.num st] _] => some st
      | _ => none
    | none => none
  | _ => none

/-- the payload is a ReaderEventNotification that reports a successful connection attempt -/
def payloadOk (b : Bytes) : Bool :=
  match decode Gen.schema Gen.m_ReaderEventNotification b with
  | some v => connAttempt v == some (Gen.ConnSuccess : Int)
  | none => false

def checkInitial : Option First → Bool
  | none => false
  | some f =>
    if f.declared > Gen.MaxBufferedPayloadSz then false
    else if f.payload.length < f.declared then false
    else if f.typ ≠ LTS.tReaderEventNotification then false
    else payloadOk (f.payload.take f.declared)

/-- the first message reaches the KeepAlive handler (an ack id is queued; it is never written when the check fails) -/
def ackOnFirst : Option First → Bool
  | none => false
  | some f => decide (f.declared ≤ Gen.MaxBufferedPayloadSz) && decide (f.declared ≤ f.payload.length) && f.typ == LTS.tKeepAlive

end LLRP.Initial
