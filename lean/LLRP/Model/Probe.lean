import LLRP.Model.Bytes
import LLRP.Model.Discover
import LLRP.Gen.Consts
import LLRP.Gen.Funcs
/-!
# Discovery, part 2 (property C17): naming, skip rule, probe automaton, run skeleton

* `deviceName` follows the tail of `probe` (discover.go): prefix from vendor/model through the *generated*
  `Gen.driver_HostnamePrefix`, suffix from id type and reader id.
* `Doc.*` is the README's naming section transcribed as data (the specification the code is compared with).
* `shouldProbe` is `ipWorker`'s skip rule.
* `probeRun` is `probe` as an automaton over what the remote host does at each stage.
* `RunSt`/`runTick` is the skeleton of `autoDiscover` after cancellation.

Core Lean only (the oracle links this module).
-/
namespace LLRP.Discover
open LLRP

/-! ## naming -/

def hexDigitUp (n : Nat) : Char := if n < 10 then Char.ofNat (48 + n) else Char.ofNat (55 + n)

/-- `%02X` -/
def upper2 (b : UInt8) : String := String.ofList [hexDigitUp (b.toNat / 16), hexDigitUp (b.toNat % 16)]

/-- `mac := rID[len(rID)-3:]; fmt.Sprintf("%02X-%02X-%02X", mac[0], mac[1], mac[2])` (only used when `len(rID) ≥ 3`) -/
def macSuffix (rid : Bytes) : String :=
  let mac := rid.drop (rid.length - 3)
  upper2 (mac.getD 0 0) ++ "-" ++ upper2 (mac.getD 1 0) ++ "-" ++ upper2 (mac.getD 2 0)

/-- `prefix` in `probe`: the model table applies to vendor Impinj only -/
def devicePrefix (vendor model : Nat) : String :=
  if vendor = Gen.drv_Impinj then Gen.driver_HostnamePrefix (model : Int) else Gen.drv_defaultDevicePrefix

/-- `suffix` in `probe` -/
def deviceSuffix (idType : Nat) (rid : Bytes) : String :=
  if idType = Gen.ID_MAC_EUI64 ∧ rid.length ≥ 3 then macSuffix rid else hexOf rid

def deviceName (vendor model idType : Nat) (rid : Bytes) : String :=
  devicePrefix vendor model ++ "-" ++ deviceSuffix idType rid

namespace Doc
/-! README.md, "EdgeX Device Naming" / "Example Device Names by Model", transcribed. Model names are the Go
constant names of `types.go` (`Gen.impinjModels` gives their numbers); the vendor is Impinj's PEN. -/

/-- "Impinj Speedway R120, R220, R420, R700 and xPortal: SpeedwayR-…", "Impinj xSpan: xSpan-…",
"Impinj xArray, xArray EAP and xArray WM: xArray-…", "Other Vendors and Unknown Models: LLRP-…" -/
def prefixTable : List (List String × String) := [
  (["SpeedwayR120", "SpeedwayR220", "SpeedwayR420", "R700", "XPortal"], "SpeedwayR"),
  (["XSpan"], "xSpan"),
  (["XArray", "XArrayEAP", "XArrayWM"], "xArray")]

def defaultPrefix : String := "LLRP"
def impinjPEN : Nat := 25882

def modelNumber (name : String) : Option Nat := (Gen.impinjModels.find? (·.1 == name)).map (·.2)

def docPrefix (vendor model : Nat) : String :=
  if vendor = impinjPEN then
    match prefixTable.find? (fun row => row.1.any (fun n => modelNumber n == some model)) with
    | some row => row.2
    | none => defaultPrefix
  else defaultPrefix

/-- "If the LLRP device returns a MAC address (ID_MAC_EUI64) … the last 3 octets of the mac address will be used in
the following format: XX-XX-XX" (upper case); otherwise "the entire value of … ReaderID is converted into lowercase
hexadecimal". ID_MAC_EUI64 is id type 0 in LLRP. A MAC-type id shorter than three octets has no "last 3 octets";
the code then falls back to the whole id in lower-case hex, which is what the property states. -/
def docId (idType : Nat) (rid : Bytes) : String :=
  if idType = 0 ∧ 3 ≤ rid.length then
    match rid.drop (rid.length - 3) with
    | [a, b, c] => upper2 a ++ "-" ++ upper2 b ++ "-" ++ upper2 c
    | _ => hexOf rid
  else hexOf rid

def docName (vendor model idType : Nat) (rid : Bytes) : String := docPrefix vendor model ++ "-" ++ docId idType rid
end Doc

/-! ## skip rule of `ipWorker` -/

/-- an address is probed unless a device is registered at `addr:scanPort` and its operating state is Up -/
def shouldProbe (registered up : Bool) : Bool := !(registered && up)

/-! ## `probe` as an automaton over host behaviour

A host reacts at each stage of the exchange the probing client drives:
TCP dial → initial ReaderEventNotification → GetSupportedVersion (→ SetProtocolVersion) → GetReaderConfig →
GetReaderCapabilities → CloseConnection. -/
inductive Reply
  | ok        -- a well-formed, successful answer, promptly
  | slow      -- a well-formed, successful answer just inside the timeout
  | stall     -- nothing (connection stays open)
  | close     -- the host closes the connection
  | garbage   -- bytes that are not an acceptable LLRP message for this stage
  | refused   -- a well-formed answer that reports failure (error status / failed connection attempt)
deriving Repr, DecidableEq

structure Ident where
  idType : Nat
  rid : Bytes
deriving Repr, DecidableEq

structure Caps where
  vendor : Nat
  model : Nat
  fw : String
deriving Repr, DecidableEq

structure Host where
  dial : Reply                 -- ok | slow: accepted; anything else: no connection
  hello : Reply                -- initial ReaderEventNotification with ConnectionAttemptEvent
  version : Reply              -- GetSupportedVersion (`refused` with VersionUnsupported is the normal 1.0.1 answer)
  setVersion : Reply           -- SetProtocolVersion, only asked when the reader offers a newer version than it runs
  needSetVersion : Bool
  config : Reply
  ident : Option Ident         -- Identification parameter of the GetReaderConfigResponse
  caps : Reply
  gdc : Option Caps            -- GeneralDeviceCapabilities of the GetReaderCapabilitiesResponse
  bye : Reply                  -- CloseConnection
deriving Repr, DecidableEq

structure Info where
  name : String
  vendor : Nat
  model : Nat
  fw : String
deriving Repr, DecidableEq

/-- outcome of a probe and the number of timeout periods it may have consumed -/
structure ProbeOut where
  info : Option Info
  timeouts : Nat
deriving Repr, DecidableEq

/-- time units a reply may take: prompt answers none; slow answers, stalls and garbage (which can announce a
length that never arrives, leaving the client waiting) one timeout period -/
def Reply.cost : Reply → Nat
  | .slow | .stall | .garbage => 1
  | _ => 0

def Reply.good : Reply → Bool
  | .ok | .slow => true
  | _ => false

def unknownVendorID : Nat := 0
def unknownModelID : Nat := 0

/-- the capabilities exchange does not break the connection (an error status is tolerated: vendor/model unknown) -/
def Reply.passes : Reply → Bool
  | .ok | .slow | .refused => true
  | _ => false

/-- vendor / model / firmware as `probe` fills them in: from GeneralDeviceCapabilities when the capabilities reply
was a success and carried it, otherwise the "unknown" values -/
def effectiveCaps (h : Host) : Caps :=
  match (if h.caps.good then h.gdc else none) with
  | some g => g
  | none => ⟨unknownVendorID, unknownModelID, ""⟩

/-- result of `probe(host, port, timeout)`: a device is reported when the connection was accepted, the initial
event was a success, version negotiation went through, GetReaderConfig was answered successfully, the capabilities
exchange did not break the connection, and the configuration reply carried an Identification.
(If CloseConnection fails the real outcome depends on which of two errors Connect sees first; the model takes the
branch that still reports, so that the "not reported" theorems cover both.) -/
def probeInfo (h : Host) : Option Info :=
  if h.dial.good && h.hello.good && h.version.good && (!h.needSetVersion || h.setVersion.good)
      && h.config.good && h.caps.passes then
    match h.ident with
    | none => none                                           -- "unable to retrieve device identification"
    | some id =>
      some ⟨deviceName (effectiveCaps h).vendor (effectiveCaps h).model id.idType id.rid,
            (effectiveCaps h).vendor, (effectiveCaps h).model, (effectiveCaps h).fw⟩
  else none

/-- timeout periods a probe may consume, with a probing client that applies `timeout` to every read and write and
to the negotiation requests (the repaired code): the stages run in sequence, each costs at most one period, and the
first stage that does not succeed ends the probe -/
def probeTime (h : Host) : Nat :=
  if !h.dial.good then max h.dial.cost 1                     -- DialTimeout: refused at once, or one timeout
  else h.dial.cost +
    (if !h.hello.good then h.hello.cost                      -- checkInitialMessage
     else h.hello.cost +
      (if !h.version.good then h.version.cost                -- GetSupportedVersion
       else h.version.cost +
        (if h.needSetVersion && !h.setVersion.good then h.setVersion.cost
         else (if h.needSetVersion then h.setVersion.cost else 0) +
          (match h.config with
           | .stall | .close | .garbage => h.config.cost     -- read side fails: Connect returns an error
           | .refused => h.config.cost + h.bye.cost          -- no second request, graceful shutdown
           | _ => h.config.cost +
              (if h.caps.passes then h.caps.cost + h.bye.cost else h.caps.cost)))))

def probeRun (h : Host) : ProbeOut := ⟨probeInfo h, probeTime h⟩

/-- number of stages that can each take one timeout period -/
def probeStages : Nat := 7

/-- the named behaviours of the property's quantifier as hosts -/
def Host.correct (id : Option Ident) (g : Option Caps) : Host :=
  { dial := .ok, hello := .ok, version := .ok, setVersion := .ok, needSetVersion := false, config := .ok, ident := id,
    caps := .ok, gdc := g, bye := .ok }
def Host.refuse : Host := { Host.correct none none with dial := .refused }
def Host.acceptSilent : Host := { Host.correct none none with hello := .stall }
def Host.garbage : Host := { Host.correct none none with hello := .garbage }
def Host.stallMidHandshake : Host := { Host.correct none none with version := .stall }
def Host.stallMidExchange (id : Option Ident) : Host := { Host.correct id none with config := .stall }
def Host.noIdentification (g : Option Caps) : Host := Host.correct none g

/-! ## `autoDiscover` after its context is cancelled

The generator is a `GenSt` (C16); `inflight` holds, per worker that is inside `probe`, the timeout periods its probe
may still take. Idle workers and workers about to start a probe see `ctx.Done()` and return without probing, so
they are not part of the state. `processResultChannel` keeps receiving until `resultCh` is closed, so delivering a
result never blocks. -/
structure RunSt where
  gen : GenSt
  inflight : List Nat
deriving Repr, DecidableEq

/-- the generator's step once cancelled: the cancel branch if addresses remain, else the normal return -/
def genAfterCancel (g : GenSt) : GenSt :=
  match gstep g .onCancel with
  | some g' => g'
  | none => match gstep g .finish with
    | some g' => g'
    | none => g

/-- one timeout period passes: the generator takes its step, every probe in flight gets one period closer to its
return; workers whose probe has returned deliver the result and leave -/
def runTick (s : RunSt) : RunSt :=
  { gen := if s.gen.returned then s.gen else genAfterCancel s.gen,
    inflight := (s.inflight.filter (· > 0)).map (· - 1) }

def runTicks : Nat → RunSt → RunSt
  | 0, s => s
  | n + 1, s => runTicks n (runTick s)

/-- `autoDiscover` returns when the generators have returned (ipCh is closed), and the workers have returned
(resultCh is closed, `processResultChannel` ends) -/
def runFinished (s : RunSt) : Bool := s.gen.returned && s.inflight.all (· == 0)

end LLRP.Discover
