import LLRP.Gen.Sup
/-!
# Connection supervisor of `Driver.NewLLRPDevice` and `LLRPDevice.TrySend` (C15)

The supervisor goroutine is

```
for ctx.Err() == nil {                                              -- (O) outer loop
  _ = retry.Slow.RetryWithCtx(ctx, retry.Forever, f₁)               -- (S) outer retry
}
f₁ = { err := retry.Quick.RetryWithCtx(ctx, maxConnAttempts, f₂)    -- (Q) inner retry
       switch err { case nil: return true, nil                      -- connection reset normally
                    case context.Canceled: return false, err }      -- device stopped (dead as written: err is an *FError)
       isEnabled := isUp; isUp = false; if isEnabled { report Down }
       return true, err }
f₂ = { addr := l.address; dial addr (fail ⇒ return true, dialErr)
       clientErr := c.Connect(conn); if errors.Is(clientErr, ErrClientClosed) { clientErr = nil }
       c = NewClient(); l.client = c; return true, clientErr }
```

`RetryWithCtx(ctx, retries, f)`: `ctx` checked at entry; `f` called once; then
`for attempt := 1; retries == Forever || attempt < retries; attempt++ { wait (ends early when ctx ends); f }`;
a nil error ends it with nil, a `false` first result ends it at once (`retryMore`, `retryLoop` below).

The model is a deterministic function of a script. One script event is either one complete connection attempt
(what the peer / the local side does with it) or a control event that arrives while the supervisor waits between
attempts. Between events the supervisor is at one of three places, encoded by the two call counters:
`qCalls = sCalls = 0` top of (O), nothing pending; `qCalls > 0` inside the wait of (Q) after `qCalls` failed calls of f₂;
`qCalls = 0 < sCalls` inside the wait of (S) after `sCalls` calls of f₁ that ended in failure.

Not modelled (atomicity assumptions, see checks/c15.py): a dial is atomic (a Stop that lands inside a dial makes that dial
fail and is then seen by the following wait); `onConnect` (read isUp, report Up, set isUp) is atomic and happens at
the connection-success event; log output; timing.
-/
namespace LLRP.Sup

abbrev Addr := Nat

/-- script events -/
inductive Ev where
  /-- attempt: the dial is refused -/
  | dialFail
  /-- attempt: dial accepted, `Connect` fails before a connection-success ReaderEventNotification was seen -/
  | handshakeFail
  /-- attempt: connection-success seen, later the peer drops the connection (`Connect` returns a non-closed error) -/
  | dropped
  /-- attempt: connection-success seen, later the client is closed locally without address or context change
      (`resetConn`): `Connect` returns `ErrClientClosed` -/
  | closedLocally
  /-- attempt: connection-success seen, then `Stop` is called (cancel, then close) -/
  | connStop
  /-- attempt: connection-success seen, then `UpdateAddr a` is called; if `a` is the current address nothing is
      closed and the peer then drops the connection -/
  | connUpdate (a : Addr)
  /-- `Stop` while no connection is open (the supervisor is waiting, or about to dial) -/
  | stop
  /-- `UpdateAddr a` while no connection is open -/
  | updateAddr (a : Addr)
deriving DecidableEq, Repr

inductive Report where
  | down | up
deriving DecidableEq, Repr

/-- what the source says about the loops (regenerated: `Gen.Sup`) -/
structure Cfg where
  innerRetries : Int
  outerRetries : Int
  forever : Int
  /-- f₁'s test for cancellation can succeed (`errors.Is`); `false` for `switch err { case context.Canceled }` -/
  stopByIs : Bool
deriving Repr

/-- the supervisor as the current source has it -/
def cfgSrc : Cfg := ⟨Gen.sup_innerRetries, Gen.sup_outerRetries, Gen.sup_Forever, Gen.sup_stopByIs⟩
/-- the supervisor the property describes, independent of the source: Down after **two** consecutive failures, retry
for ever, a cancellation test that works (the intent of the dead `case context.Canceled`) -/
def cfgIntended : Cfg := ⟨2, -1, -1, true⟩
/-- … with the pointer comparison of the unrepaired source -/
def cfgAsWritten : Cfg := { cfgSrc with stopByIs := false }

/-! ## RetryWithCtx -/

/-- loop condition of `RetryWithCtx` after `calls` calls of `f` that all asked to be retried -/
def retryMore (forever retries : Int) (calls : Nat) : Bool :=
  retries == forever || decide ((calls : Int) < retries)

/-- one call of the retried function, or the context ending before it (entry check / during the wait) -/
inductive FRes where
  | ok | again | fatal | ctxEnd
deriving DecidableEq, Repr

inductive REnd where
  | success | exhausted | fatal | cancelled | pending
deriving DecidableEq, Repr

/-- `RetryWithCtx` over a script of results: (calls made, how it ended); `pending` = the script ran out -/
def retryLoop (forever retries : Int) : Nat → List FRes → Nat × REnd
  | calls, [] => (calls, .pending)
  | calls, .ctxEnd :: _ => (calls, .cancelled)
  | calls, .ok :: _ => (calls + 1, .success)
  | calls, .fatal :: _ => (calls + 1, .fatal)
  | calls, .again :: rest =>
    if retryMore forever retries (calls + 1) then retryLoop forever retries (calls + 1) rest
    else (calls + 1, .exhausted)

/-! ## supervisor -/

structure St where
  addr : Addr
  isUp : Bool
  /-- the idle client that the next `Connect` will use has already been closed (by `UpdateAddr` while disconnected):
      that `Connect` returns `ErrClientClosed` right after the initial message -/
  poisoned : Bool := false
  qCalls : Nat := 0
  sCalls : Nat := 0
  done : Bool := false
  dials : List Addr := []
  reports : List Report := []
deriving DecidableEq, Repr

def dial (s : St) : St := { s with dials := s.dials ++ [s.addr] }

/-- `onConnect`: report Up iff not up -/
def onConnect (s : St) : St :=
  if s.isUp then s else { s with isUp := true, reports := s.reports ++ [Report.up] }

/-- `isEnabled := isUp; isUp = false; if isEnabled { report Down }` -/
def reportDown (s : St) : St :=
  if s.isUp then { s with isUp := false, reports := s.reports ++ [Report.down] } else s

/-- f₂ returned nil: (Q) returns nil, f₁ returns (true, nil), (S) returns nil, (O) tests the context -/
def afterOk (s : St) (cancelled : Bool) : St :=
  { s with poisoned := false, qCalls := 0, sCalls := 0, done := cancelled }

/-- f₂ returned (true, err) -/
def afterFail (cfg : Cfg) (s : St) : St :=
  let q := s.qCalls + 1
  if retryMore cfg.forever cfg.innerRetries q then { s with qCalls := q }
  else
    -- (Q) returns ErrRetriesExceeded; f₁ falls through its switch
    let s := reportDown s
    let sc := s.sCalls + 1
    if retryMore cfg.forever cfg.outerRetries sc then { s with qCalls := 0, sCalls := sc }
    else { s with qCalls := 0, sCalls := 0 }

/-- the context is cancelled while no connection is open -/
def onStop (cfg : Cfg) (s : St) : St :=
  if s.qCalls = 0 then { s with done := true }
  else
    -- inside (Q)'s wait: (Q) returns &FError{MainErr: context.Canceled}
    let s := if cfg.stopByIs then s else reportDown s
    { s with done := true }

def step (cfg : Cfg) (s : St) (e : Ev) : St :=
  if s.done then s else
  match e with
  | .stop => onStop cfg s
  | .updateAddr a => { s with addr := a, poisoned := s.poisoned || a != s.addr }
  | .dialFail => afterFail cfg (dial s)
  | .handshakeFail => afterFail cfg { dial s with poisoned := false }
  | .dropped =>
    let s1 := onConnect (dial s)
    if s.poisoned then afterOk s1 false else afterFail cfg s1
  | .closedLocally => afterOk (onConnect (dial s)) false
  | .connStop => afterOk (onConnect (dial s)) true
  | .connUpdate a =>
    let s1 := onConnect (dial s)
    if s.poisoned then
      -- the attempt is over before UpdateAddr: it then acts on the fresh idle client
      { afterOk s1 false with addr := a, poisoned := a != s.addr }
    else if a != s.addr then { afterOk s1 false with addr := a }
    else afterFail cfg s1

def run (cfg : Cfg) (s : St) (evs : List Ev) : St := evs.foldl (step cfg) s

def init (isUp : Bool) : St := { addr := 0, isUp := isUp }

/-! ## TrySend -/

/-- one `SendFor` of `TrySend`'s retried function -/
inductive SendOut where
  /-- reply received -/
  | ok
  /-- error wrapping `ErrClientClosed` -/
  | closed
  /-- `l.client == nil` (closed by `closeLocked`, not yet replaced) -/
  | noClient
  /-- any other error -/
  | other
deriving DecidableEq, Repr

def sendRes : SendOut → FRes
  | .ok => .ok
  | .closed => .again
  | .noClient => .again
  | .other => .fatal

def trySend (outs : List SendOut) : Nat × REnd :=
  retryLoop Gen.sup_Forever Gen.send_retries 0 (outs.map sendRes)

/-- TrySend as the property describes it: at most three attempts -/
def trySendIntended (outs : List SendOut) : Nat × REnd :=
  retryLoop (-1) 3 0 (outs.map sendRes)

end LLRP.Sup
