import LLRP.Model.Codec
import LLRP.Model.FieldsWF
/-!
`SchemaWF`: the decidable condition on the codec table under which `decode ∘ encode = id` on `fits` values
(C01 `decode_encode`). Everything here is computed from the raw table; `Props/C01.schema_wf` discharges it for the
regenerated `Gen.schema` by kernel evaluation. Core Lean only.
-/
namespace LLRP

/-- the decoder's grouping key (`decBody`) -/
def slotKey (s : Slot) : Bool × Bool × Option String := (s.optional, s.repeatable, s.group)

/-- the decoder's slot groups of a container -/
def Container.groups (c : Container) : List (List Slot) := groupRuns slotKey c.slots

/-- which decoder handles a group (`decGroups`) -/
inductive GKind where
  | singles | choice | loop
deriving DecidableEq, Repr

def groupKind (g : List Slot) : GKind :=
  match g with
  | [] => .singles
  | s :: _ =>
    if !s.repeatable && (g.length == 1 || (s.group.isNone && !s.optional)) then .singles
    else if !(s.optional || s.repeatable) then .choice
    else .loop

def groupParams (S : Schema) (g : List Slot) : List Container := g.filterMap (S.slotParam ·)

def noDupNat : List Nat → Bool
  | [] => true
  | x :: xs => !xs.contains x && noDupNat xs

/-- every slot's parameter exists; type ids inside the group are pairwise distinct -/
def groupOK (S : Schema) (g : List Slot) : Bool :=
  g.all (fun s => (S.slotParam s).isSome) && noDupNat ((groupParams S g).map (·.typeId))

/-- the group always emits at least one parameter and the decoder insists on it -/
def groupMandatory (g : List Slot) : Bool :=
  match g with
  | [] => false
  | s :: _ => !s.optional && !s.repeatable

/-- parameters that can be the first one emitted by the groups `gs` (up to and including the next mandatory group;
of a run of required singles only the first) -/
def firstParams (S : Schema) : List (List Slot) → List Container
  | [] => []
  | g :: gs =>
    if groupMandatory g then
      (if groupKind g == .singles then groupParams S (g.take 1) else groupParams S g)
    else groupParams S g ++ firstParams S gs

/-- the code under which a TV-only context sees parameter `q` (`b0 % 128`), otherwise its type id -/
def codeIn (tvOnly : Bool) (q : Container) : Nat := if tvOnly && q.isTLV then q.typeId / 256 else q.typeId

/-- FOLLOW-SET DISJOINTNESS for an optional single / loop group `g` followed by the groups `gs`: no parameter that can
come next is taken for a member of `g`; a TLV-only context (which reads a declared length first) is followed by TLVs -/
def followOK (S : Schema) (g : List Slot) (gs : List (List Slot)) : Bool :=
  let ps := groupParams S g
  let hasTV := ps.any (!·.isTLV)
  let hasTLV := ps.any (·.isTLV)
  (firstParams S gs).all fun q =>
    (hasTV || q.isTLV) && !(ps.any fun p => p.typeId == codeIn (hasTV && !hasTLV) q)

def groupsOK (S : Schema) : List (List Slot) → Bool
  | [] => true
  | g :: gs => groupOK S g && (groupMandatory g || followOK S g gs) && groupsOK S gs

/-- decoder fuel a group list needs beyond 4 per data byte; a mandatory group emits at least one byte, which pays
for 4 units of what follows -/
def groupCost (g : List Slot) : Nat := if groupKind g == .singles then g.length + 1 else 1
def groupsCost : List (List Slot) → Nat
  | [] => 1
  | g :: gs => 1 + max (groupCost g) (groupsCost gs - (if groupMandatory g then 4 else 0))

/-! ### lower bound of encoded sizes (for the decoders' minimum-length pre-checks) -/

def minList : List Nat → Nat
  | [] => 0
  | [x] => x
  | x :: xs => min x (minList xs)

/-- lower bound of what one decoder group contributes: optional groups 0, choice groups the smallest member, other
groups every member once -/
def lowerGroup (S : Schema) (sz : Container → Nat) (g : List Slot) : Nat :=
  match g with
  | [] => 0
  | s :: _ =>
    let sizes := (groupParams S g).map sz
    if s.optional then 0
    else if groupKind g == .choice then minList sizes
    else sizes.sum

/-- a lower bound of the encoded length (header included) of any well-formed value of `c`, by decoder groups -/
def lowerF (S : Schema) : Nat → Container → Nat
  | 0, c => c.headerSize + (c.fields.map (·.kind.minSize)).sum
  | k+1, c =>
    c.headerSize + (c.fields.map (·.kind.minSize)).sum + (c.groups.map (lowerGroup S (lowerF S k))).sum

def lower (S : Schema) (c : Container) : Nat := lowerF S S.fuel c

/-! ### the condition -/

def wfContainer (S : Schema) (c : Container) : Bool :=
  fieldsWF c.fields && (!hasRest c.fields || c.slots.isEmpty) &&
  -- TLV type ids fit 10 bits; TV parameters: id 1…127, fixed fields only, no sub-parameters
  (c.isMsg || (if c.isTLV then decide (c.typeId < 1024)
               else decide (1 ≤ c.typeId) && c.slots.isEmpty && c.fields.all (·.kind.isFixed))) &&
  groupsOK S c.groups && decide (groupsCost c.groups ≤ 7) &&
  -- fixed-size containers have no sub-parameters (so their length is exactly the sum of their fields)
  (!fixedSize S c || c.slots.isEmpty) &&
  -- the generator's min_size is a true lower bound
  decide (minSize S c ≤ lower S c)

def SchemaWF (S : Schema) : Bool := S.all (wfContainer S)

end LLRP
