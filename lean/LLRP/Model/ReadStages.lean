import LLRP.Model.ReadSide
import LLRP.Model.Codec
import LLRP.Model.SendFor
/-!
# The other places where the client consumes peer-controlled input (reader.go / messages.go)

* `Message.data()` — how `SendMessage`, `UnmarshalTo` and (after the repair) `getSupportedVersion` obtain a reply's payload;
* `SendMessage`'s reply path;
* `getSupportedVersion`'s treatment of the reply to the first negotiation message;
* `checkInitialMessage` — the first message of a connection, read before the loops start.

Each has an explicit outcome `ok | err | panic` and the sizes it passes to `make`. The `…Old` variants are the code as
it was before the two C10 repairs; they are kept to state the defects (`Props/C10.lean`, `old_*`) and are used by nothing else.
-/
namespace LLRP.ReadSide
open LLRP

inductive Out where
  | ok | err | panic
deriving DecidableEq, Repr, Inhabited

/-- the `payload io.Reader` of an inbound `Message` -/
inductive Payload where
  | absent                      -- nil: what `passToHandler` gives the awaiting caller of an over-limit reply
  | buffered (b : Bytes)        -- a `bytes.Buffer`
  | stream (avail : Bytes)      -- a reader that will yield `avail` and then EOF
deriving DecidableEq, Repr, Inhabited

structure Msg where
  hdr : Header
  payload : Payload
deriving Repr, Inhabited

/-- the `Message` an awaiting caller receives on its reply channel -/
def Delivery.toMsg (d : Delivery) : Msg :=
  ⟨d.hdr, match d.offered with | some b => .buffered b | none => .absent⟩

structure DataRes where
  out : Out
  data : Bytes := []
  allocs : List Nat := []
deriving Repr, Inhabited

/-- `io.ReadFull(r, make([]byte, n))` — dereferences `r` -/
def readFull (p : Payload) (n : Nat) : DataRes :=
  match p with
  | .absent => if n = 0 then { out := .ok, allocs := [n] } else { out := .panic, allocs := [n] }
  | .buffered b => if b.length < n then { out := .err, allocs := [n] } else { out := .ok, data := b.take n, allocs := [n] }
  | .stream s => if s.length < n then { out := .err, allocs := [n] } else { out := .ok, data := s.take n, allocs := [n] }

/-- `Message.data()` (repaired): the declared size is checked before anything else -/
def msgData (m : Msg) : DataRes :=
  if m.hdr.payloadLen > MaxBuf then { out := .err }
  else match m.payload with
    | .absent => { out := .ok }
    | .buffered b => { out := .ok, data := b }
    | .stream s => readFull (.stream s) m.hdr.payloadLen

/-- `Message.data()` before the repair: a nil payload is an empty success whatever the header declares -/
def msgDataOld (m : Msg) : DataRes :=
  match m.payload with
  | .absent => { out := .ok }
  | .buffered b => { out := .ok, data := b }
  | .stream s => if m.hdr.payloadLen > MaxBuf then { out := .err } else readFull (.stream s) m.hdr.payloadLen

inductive SMRes where
  | ok (typ : Nat) (data : Bytes)
  | err
  | panic
deriving DecidableEq, Repr, Inhabited

/-- what `SendMessage` returns for the reply message `send` handed it -/
def sendMessageReply (m : Msg) : SMRes × List Nat :=
  let r := msgData m
  (match r.out with
   | .ok => .ok m.hdr.typ r.data
   | .err => .err
   | .panic => .panic, r.allocs)

def sendMessageReplyOld (m : Msg) : SMRes :=
  let r := msgDataOld m
  match r.out with
  | .ok => .ok m.hdr.typ r.data
  | .err => .err
  | .panic => .panic

/-! ## getSupportedVersion -/

def typErrorMessage : Nat := 100
def typGetSupportedVersionResponse : Nat := 56
def typReaderEventNotification : Nat := 63

inductive GSVRes where
  | ok (cur max : Int)
  | err
  | panic
deriving DecidableEq, Repr, Inhabited

/-- decoding and status handling shared by both versions -/
def gsvDecode (S : Schema) (typ : Nat) (data : Bytes) : GSVRes :=
  if typ = typErrorMessage then
    match S.msg? "ErrorMessage" with
    | none => .err
    | some em => match decode S em data with
      | none => .err
      | some v => match llrpStatusOf em v with
        | some st =>
          if statusCode st = some (Int.ofNat Gen.StatusMsgVerUnsupported) ∨ statusCode st = some 0 then .ok 1 1 else .err
        | none => .err
  else if typ = typGetSupportedVersionResponse then
    match S.msg? "GetSupportedVersionResponse" with
    | none => .err
    | some c => match decode S c data with
      | none => .err
      | some v => match v, llrpStatusOf c v with
        | .node [.num cur, .num mx] _, some st => if statusCode st = some 0 then .ok cur mx else .err
        | _, _ => .err
  else .err

/-- `getSupportedVersion` from the point where `send` returned the reply (repaired: payload through `data()`) -/
def gsvReply (S : Schema) (m : Msg) : GSVRes × List Nat :=
  let r := msgData m
  (match r.out with
   | .ok => gsvDecode S m.hdr.typ r.data
   | .err => .err
   | .panic => .panic, r.allocs)

/-- before the repair: `data := make([]byte, resp.payloadLen); io.ReadFull(resp.payload, data)` -/
def gsvReplyOld (S : Schema) (m : Msg) : GSVRes × List Nat :=
  let r := readFull m.payload m.hdr.payloadLen
  (match r.out with
   | .ok => gsvDecode S m.hdr.typ r.data
   | .err => .err
   | .panic => .panic, r.allocs)

/-! ## checkInitialMessage -/

/-- the sub-values of `v` in the slot of `c` whose parameter type is `ty` -/
def subOf (c : Container) (ty : String) (v : Val) : Option (List Val) :=
  match v with
  | .node _ subs =>
    match c.slots.findIdx? (fun s => s.ty == ty) with
    | none => none
    | some i => subs[i]?

/-- the status of the ConnectionAttemptEvent of a decoded ReaderEventNotification, if it has one -/
def connAttempt (S : Schema) (ren : Container) (v : Val) : Option Int :=
  match subOf ren "ReaderEventNotificationData" v, S.param? "ReaderEventNotificationData" with
  | some [d], some dc =>
    match subOf dc "ConnectionAttemptEvent" d with
    | some [e] => statusCode e
    | _ => none
  | _, _ => none

structure InitRes where
  out : Out
  allocs : List Nat := []
  rest : Bytes := []                     -- the stream after the first message (meaningful when `out = ok`)
  hdr : Option Header := none
  handled : Option Delivery := none      -- the registered handler for the first message's type is called too
deriving Repr, Inhabited

/-- `checkInitialMessage` on the inbound stream: only a ReaderEventNotification that decodes and carries a
ConnectionAttemptEvent with status Success (0) is accepted -/
def checkInitial (S : Schema) (cfg : Cfg) (beh : Beh) (s : Bytes) : InitRes :=
  match readHeader s with
  | .eof | .short | .bad => { out := .err, allocs := [Gen.HeaderSz] }
  | .ok h rest =>
    let n := h.payloadLen
    if n > MaxBuf then { out := .err, allocs := [Gen.HeaderSz], hdr := some h }
    else if rest.length < n then { out := .err, allocs := [Gen.HeaderSz, n], hdr := some h }
    else
      let buf := rest.take n
      let handled : Option Delivery :=
        if cfg.handlers.contains h.typ then some ⟨0, .handler, h, some buf, beh.took n n, beh.isPanic⟩ else none
      let crashed := cfg.handlers.contains h.typ && guarded (callRaw beh) == .panicked
      let base : InitRes := { out := .err, allocs := [Gen.HeaderSz, n], rest := rest.drop n, hdr := some h, handled := handled }
      if crashed then { base with out := .panic }
      else if h.typ ≠ typReaderEventNotification then base
      else match S.msg? "ReaderEventNotification" with
        | none => base
        | some ren => match decode S ren buf with
          | none => base
          | some v => if connAttempt S ren v = some 0 then { base with out := .ok } else base

/-! ## a whole connection: `Connect` = `checkInitialMessage`, then the loops; negotiation runs through the loops -/

def typSetProtocolVersionResponse : Nat := 57

/-- `negotiate` from the point where `send` returned the reply to SetProtocolVersion:
`isResponseTo`, `UnmarshalTo` (through `data()`), the status -/
def spvReply (S : Schema) (m : Msg) : Out :=
  if m.hdr.typ ≠ typSetProtocolVersionResponse then .err
  else
    let r := msgData m
    match r.out with
    | .panic => .panic
    | .err => .err
    | .ok =>
      match S.msg? "SetProtocolVersionResponse" with
      | none => .err
      | some c => match decode S c r.data with
        | none => .err
        | some v => match llrpStatusOf c v with
          | some st => if statusCode st = some 0 then .ok else .err
          | none => .err

/-- how the serving call ends when the peer's stream is exhausted and nobody closes the client locally -/
inductive ConnRes where
  | error      -- returns an error that is not ErrClientClosed
  | blocked    -- does not return until the client is closed locally
  | closed     -- a local Shutdown completed: returns ErrClientClosed
  | panic
deriving DecidableEq, Repr, Inhabited

def finRes : End → ConnRes
  | .err => .error
  | .waitDone => .blocked
  | .panic => .panic
  | .fuel => .error

def typCloseConnectionResponse' : Nat := typCloseConnectionResponse

/-- `Shutdown` from the point where `SendMessage` returned the reply to CloseConnection: a CloseConnectionResponse or
ErrorMessage whose status is Success makes it call `Close` -/
def shutdownReply (S : Schema) (m : Msg) : Out :=
  let r := msgData m
  match r.out with
  | .panic => .panic
  | .err => .err
  | .ok =>
    let name := if m.hdr.typ = typCloseConnectionResponse then some "CloseConnectionResponse"
                else if m.hdr.typ = typErrorMessage then some "ErrorMessage" else none
    match name.bind S.msg? with
    | none => .err
    | some c => match decode S c r.data with
      | none => .err
      | some v => match llrpStatusOf c v with
        | some st => if statusCode st = some 0 then .ok else .err
        | none => .err

/-- the message a caller awaiting `id` is handed, if any -/
def callerDelivery (r : Result) (id : Nat) : Option Delivery :=
  r.deliveries.find? (fun d => d.party == .caller && d.hdr.id == id)

def addReg (env : Nat → Step) (j : Nat) (id : Nat) : Nat → Step :=
  fun i => if i = j then { env i with reg := id :: (env i).reg } else env i

structure ConnOut where
  res : ConnRes
  run : Option Result := none       -- the read loop's run (`none`: the loops never started)
  initAllocs : List Nat := []
deriving Repr, Inhabited

/-- a negotiation step that has not finished when the stream ends: the client's timeout ends it with an error
(without a timeout `Connect` stays blocked: that is C09's finding, not modelled here) -/
def unfinished (r : Result) : ConnRes := if r.fin = .panic then .panic else .error

/-- `Connect` on a complete inbound stream `s`, for a client configured with LLRP version `ver` (1 = 1.0.1: no
negotiation; 2 = 1.1). The write loop gives the two negotiation requests the ids 0 and 1. `env` carries the handler
behaviours and the registrations of external callers, indexed by the frames AFTER the first message. -/
def connect (S : Schema) (ver : Nat) (cfg : Cfg) (beh0 : Beh) (env : Nat → Step) (s : Bytes)
    (shutdown : Option Nat := none) : ConnOut :=
  let ini := checkInitial S cfg beh0 s
  match ini.out with
  | .panic => { res := .panic, initAllocs := ini.allocs }
  | .err => { res := .error, initAllocs := ini.allocs }
  | .ok =>
    if ver ≤ 1 then
      -- `shutdown = some id`: a local Shutdown sent CloseConnection with that id (only modelled for 1.0.1 sessions)
      let r := rd { cfg with closing := shutdown.isSome } env [] ini.rest
      let accepted : Bool := match shutdown.bind (callerDelivery r) with
        | some d => shutdownReply S d.toMsg == .ok
        | none => false
      { res := if r.fin = .panic then .panic else if accepted then .closed else finRes r.fin, run := some r, initAllocs := ini.allocs }
    else
      let env1 := addReg env 0 0
      let r1 := rd cfg env1 [] ini.rest
      match callerDelivery r1 0 with
      | none => { res := unfinished r1, run := some r1, initAllocs := ini.allocs }
      | some d =>
        match (gsvReply S d.toMsg).1 with
        | .panic => { res := .panic, run := some r1, initAllocs := ini.allocs }
        | .err => { res := unfinished r1, run := some r1, initAllocs := ini.allocs }
        | .ok cur mx =>
          let v : Int := if (ver : Int) > mx then mx else ver
          if cur = v then { res := finRes r1.fin, run := some r1, initAllocs := ini.allocs }
          else
            let env2 := addReg env1 (d.frame + 1) 1
            let r2 := rd cfg env2 [] ini.rest
            match callerDelivery r2 1 with
            | none => { res := unfinished r2, run := some r2, initAllocs := ini.allocs }
            | some d2 =>
              match spvReply S d2.toMsg with
              | .panic => { res := .panic, run := some r2, initAllocs := ini.allocs }
              | .err => { res := unfinished r2, run := some r2, initAllocs := ini.allocs }
              | .ok => { res := finRes r2.fin, run := some r2, initAllocs := ini.allocs }

end LLRP.ReadSide
