import LLRP.Model.Codec
/-!
Model of `Client.SendFor`'s treatment of a reply (reader.go): success exactly for the expected type with status
Success; an expected-type reply with another status, or an ERROR_MESSAGE, yields a status error exposing the reader's
LLRPStatus; any other type is an error and the caller's response value is not touched.
-/
namespace LLRP

/-- the value every slot/field has in a freshly allocated Go struct -/
def zeroF : FKind → Option FVal
  | .scalar .. => some (.num 0)
  | .pad _ => none
  | .fixedArr .. | .str | .rest => some (.bytes [])
  | .arr elem => some (if elem = 1 then .bytes [] else .nums [])
  | .bitArr => some (.bits 0 [])

mutual
def zeroVal (S : Schema) : Nat → Container → Val
  | 0, _ => .node [] []
  | fuel+1, c => .node (c.fields.filterMap (zeroF ·.kind)) (zeroSlots S fuel c.slots)
def zeroSlots (S : Schema) : Nat → List Slot → List (List Val)
  | 0, _ => []
  | _, [] => []
  | fuel+1, s :: ss =>
    (if s.optional || s.repeatable || s.isChoice then []
     else match S.param? s.ty with
       | some p => [zeroVal S fuel p]
       | none => []) :: zeroSlots S fuel ss
end

/-- the LLRPStatus sub-value of a decoded message, if its table entry has an `LLRPStatus` parameter -/
def llrpStatusOf (c : Container) (v : Val) : Option Val :=
  match v with
  | .node _ subs =>
    match c.slots.findIdx? (fun s => s.ty == "LLRPStatus") with
    | none => none
    | some i => match subs[i]? with
      | some [st] => some st
      | _ => none

def Container.statusable (c : Container) : Bool := c.slots.any (fun s => s.ty == "LLRPStatus")

def statusCode : Val → Option Int
  | .node (.num n :: _) _ => some n
  | _ => none

inductive SFOutcome where
  | success (v : Val)
  | status (st : Val) (inVal : Option Val)   -- the reader's LLRPStatus; `inVal` = the decoded response when the type matched
  | typeErr
  | decodeErr
deriving Repr

def errorMessageType : Nat := 100

def sendFor (S : Schema) (exp : Container) (replyT : Nat) (payload : Bytes) : SFOutcome :=
  if replyT = exp.typeId then
    match decode S exp payload with
    | none => .decodeErr
    | some v =>
      if exp.statusable then
        match llrpStatusOf exp v with
        | some st => if statusCode st = some 0 then .success v else .status st (some v)
        | none => .decodeErr
      else .success v
  else if replyT = errorMessageType then
    match S.msg? "ErrorMessage" with
    | none => .decodeErr
    | some em =>
      match decode S em payload with
      | none => .decodeErr
      | some e => match llrpStatusOf em e with
        | some st => .status st none
        | none => .decodeErr
  else .typeErr

end LLRP
