/-!
Go `error` values as the definitions emitted by `go2seq` see them (translators/vx/seqfuncs.go).

A translated function never inspects an error beyond `== nil` and `errors.Is`; it passes errors on, wraps them
(`fmt.Errorf("… %w", err)`) or makes new ones (`errors.New`, `fmt.Errorf` without `%w`). The format string identifies
a constructed error. Errors produced by code outside the translated functions are supplied by the environment
(`ext`, `status`).
-/
namespace LLRP.GoSeq

inductive GoErr where
  | nil
  /-- an error returned by code outside the translated functions -/
  | ext (tag : String)
  /-- an error returned by code outside the translated functions, identified by a number (the error returned by the
  n-th call of a function parameter) -/
  | extN (n : Nat)
  /-- a package-level error variable (`io.EOF`, `ErrClientClosed`, …) -/
  | global (name : String)
  /-- `errors.New(msg)` / `fmt.Errorf(msg, …)` without `%w` -/
  | new (msg : String)
  /-- `fmt.Errorf(msg, …, inner)` where `%w` formats `inner` -/
  | wrap (msg : String) (inner : GoErr)
  /-- a `*StatusError`: the reader's LLRPStatus with this status code, as an error -/
  | status (code : Int)
deriving DecidableEq, Repr, Inhabited

/-- `errors.Is(e, target)` along the `%w` chain -/
def GoErr.is : GoErr → GoErr → Bool
  | .wrap m i, t => (GoErr.wrap m i == t) || GoErr.is i t
  | e, t => e == t

/-- `errors.As(e, *StatusError)`: the status code of the first StatusError in the chain -/
def GoErr.statusOf : GoErr → Option Int
  | .status c => some c
  | .wrap _ i => GoErr.statusOf i
  | _ => none

def GoErr.isNil (e : GoErr) : Bool := e == .nil

@[simp] theorem GoErr.beq_nil_iff (e : GoErr) : (e == GoErr.nil) = true ↔ e = .nil := by
  simp

@[simp] theorem GoErr.new_beq_nil (s : String) : (GoErr.new s == GoErr.nil) = false := by
  rw [beq_eq_false_iff_ne]; intro h; cases h
@[simp] theorem GoErr.wrap_beq_nil (s : String) (e : GoErr) : (GoErr.wrap s e == GoErr.nil) = false := by
  rw [beq_eq_false_iff_ne]; intro h; cases h
@[simp] theorem GoErr.ext_beq_nil (s : String) : (GoErr.ext s == GoErr.nil) = false := by
  rw [beq_eq_false_iff_ne]; intro h; cases h
@[simp] theorem GoErr.extN_beq_nil (n : Nat) : (GoErr.extN n == GoErr.nil) = false := by
  rw [beq_eq_false_iff_ne]; intro h; cases h
@[simp] theorem GoErr.global_beq_nil (s : String) : (GoErr.global s == GoErr.nil) = false := by
  rw [beq_eq_false_iff_ne]; intro h; cases h
@[simp] theorem GoErr.status_beq_nil (c : Int) : (GoErr.status c == GoErr.nil) = false := by
  rw [beq_eq_false_iff_ne]; intro h; cases h
@[simp] theorem GoErr.nil_beq_nil : (GoErr.nil == GoErr.nil) = true := by simp

end LLRP.GoSeq
