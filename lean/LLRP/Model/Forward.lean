import LLRP.Model.Codec
import LLRP.Gen.Consts
import LLRP.Gen.Schema
/-!
Model of how the device service forwards a managed reader's unsolicited messages to EdgeX (device.go: newROHandler,
newReaderEventHandler, sendEdgeXEvent): each ROAccessReport / ReaderEventNotification that decodes becomes exactly one
asynchronous reading tagged with the device and the resource name, whose content is the decoded message (canonical
form: its re-encoding); anything else, and anything that fails to decode, contributes nothing.
(`readerStart` is never assigned in the code, so the uptime→UTC rewriting is dead: content = decoded message.)
-/
namespace LLRP.Forward
open LLRP

def msgROAccessReport : Nat := 61
def msgReaderEventNotification : Nat := 63

def resourceOf (typ : Nat) : Option (String × String) :=
  if typ = msgROAccessReport then some (Gen.drv_ResourceROAccessReport, "ROAccessReport")
  else if typ = msgReaderEventNotification then some (Gen.drv_ResourceReaderNotification, "ReaderEventNotification")
  else none

/-- what one inbound frame publishes: (resource name, canonical content) -/
def publish (S : Schema) (typ : Nat) (payload : Bytes) : Option (String × Bytes) :=
  match resourceOf typ with
  | none => none
  | some (res, msgName) =>
    match S.msg? msgName with
    | none => none
    | some c => (decode S c payload).map fun v => (res, encode S c v)

structure Reading where
  dev : Nat
  resource : String
  content : Bytes
deriving DecidableEq, Repr

/-- an inbound event: (device index, message type, payload) in arrival order across all devices -/
abbrev Event := Nat × Nat × Bytes

def forward (S : Schema) (evs : List Event) : List Reading :=
  evs.filterMap fun e => (publish S e.2.1 e.2.2).map fun rc => ⟨e.1, rc.1, rc.2⟩

end LLRP.Forward
