import LLRP.Model.Header
import LLRP.Gen.Consts
/-!
# Read side of the LLRP client (reader.go: `readHeader`, `handleIncoming`, `passToHandler`, `handleGuarded`)

A fold over the inbound BYTE STREAM (`Bytes`, arbitrary, possibly malformed): parse a 10-byte header
(`Header.unmarshal`, proved under C19), look the id up in the await set, choose the dispatch targets (awaited caller,
handler registered for the type or else the default handler, else discard), let the handler read `k` bytes of the
payload (or panic after `k`), drain what is left of the payload, continue.

The stream is the complete sequence of bytes the peer sends before it closes its side: running out of bytes is EOF.
What the model keeps of a run: the start offset and header of every frame parsed, the deliveries (party, header, the
bytes that party was given, how many it read), the frames discarded, the sizes passed to `make`, how the loop ended.

Hand-written; tied to the code by the C04 / C10 differential runs.
-/
namespace LLRP.ReadSide
open LLRP

/-- `MaxBufferedPayloadSz` (regenerated from reader.go) -/
def MaxBuf : Nat := Gen.MaxBufferedPayloadSz

/-- `MsgCloseConnectionResponse` (checked against the regenerated constants in Props/C04) -/
def typCloseConnectionResponse : Nat := 4

/-! ## scripts -/

/-- what a `MessageHandler` does with the message it is given: read (up to) `k` bytes from the payload reader and
return; read (up to) `k` bytes and panic; or obtain the whole payload the way the device service's handlers do,
`msg.UnmarshalTo(v)` = `msg.data()` + decode (`viaData`) -/
inductive Beh where
  | reads (k : Nat)
  | panics (k : Nat)
  | viaData
deriving DecidableEq, Repr, Inhabited

def Beh.want : Beh → Nat
  | .reads k => k
  | .panics k => k
  | .viaData => 0
def Beh.isPanic : Beh → Bool
  | .reads _ => false
  | .panics _ => true
  | .viaData => false

/-- how many payload bytes the handler consumes of a message that declares `n` bytes of which `avail` can be read.
`Message.data()` refuses a declared size over the limit before touching the reader; otherwise `io.ReadFull` takes
everything there is (and fails if that is less than declared) -/
def Beh.took (b : Beh) (n avail : Nat) : Nat :=
  match b with
  | .reads k => min k avail
  | .panics k => min k avail
  | .viaData => if n ≤ MaxBuf then avail else 0

/-- the sizes the handler's own calls pass to `make`: `data()` on a payload that is still on the connection allocates
the declared size — only if it is within the limit; on a buffered payload it returns the buffer -/
def Beh.allocs (b : Beh) (streamed : Bool) (n : Nat) : List Nat :=
  match b with
  | .viaData => if streamed && decide (n ≤ MaxBuf) then [n] else []
  | _ => []

/-- the client's handler table: the message types with a registered handler (`NewClient` always registers KeepAlive)
and whether a default handler was installed -/
structure Cfg where
  handlers : List Nat
  hasDefault : Bool
  /-- the client itself has written a CloseConnection (a local `Shutdown` is in progress) by the time the stream ends -/
  closing : Bool := false
deriving Repr, Inhabited

/-- the environment of one frame: ids the write loop registered / callers cancelled since the previous lookup
(so the await set at every lookup is arbitrary), and the behaviour of the handler if one is called -/
structure Step where
  reg : List Nat := []
  unreg : List Nat := []
  beh : Beh := .reads 0
deriving Repr, Inhabited

inductive Party where
  | caller | handler | dflt
deriving DecidableEq, Repr, Inhabited

/-- one hand-over of a message. `offered`: the payload bytes the party can obtain (`none`: a `Message` without
payload reader — what the awaiting caller of an over-limit reply gets); `took`: how many of them it read. -/
structure Delivery where
  frame : Nat
  party : Party
  hdr : Header
  offered : Option Bytes
  took : Nat
  panicked : Bool
deriving DecidableEq, Repr, Inhabited

/-! ## reading a header -/

inductive HdrRead where
  | eof                              -- no byte at all: `io.EOF`
  | short                            -- 1..9 bytes: `io.ErrUnexpectedEOF`
  | bad                              -- declared length < 10
  | ok (h : Header) (rest : Bytes)
deriving Repr

/-- `Client.readHeader` on the remaining stream: `io.ReadFull` of 10 bytes, then `Header.UnmarshalBinary` -/
def readHeader (s : Bytes) : HdrRead :=
  match s with
  | [] => .eof
  | _ :: _ =>
    if s.length < Gen.HeaderSz then .short
    else match Header.unmarshal s with
      | some h => .ok h (s.drop Gen.HeaderSz)
      | none => .bad

/-! ## one frame: `passToHandler` -/

/-- result of calling Go code that may panic -/
inductive HRes where
  | returned | panicked
deriving DecidableEq, Repr

/-- `handler.HandleMessage(c, msg)` -/
def callRaw (b : Beh) : HRes := if b.isPanic then .panicked else .returned

/-- `handleGuarded`: the deferred `recover()` turns a panic into a `HandlerPanic` log call -/
def guarded (_ : HRes) : HRes := .returned

/-- the handler `passToHandler` picks: the one registered for the type, else the default handler -/
def handlerParty (cfg : Cfg) (typ : Nat) : Option Party :=
  if cfg.handlers.contains typ then some .handler
  else if cfg.hasDefault then some .dflt
  else none

structure FrameOut where
  deliveries : List Delivery := []
  unhandled : Bool := false
  allocs : List Nat := []
  rest : Bytes                  -- the stream after `passToHandler` returned
  failed : Bool := false        -- `passToHandler` returned an error
  crashed : Bool := false       -- a panic left `passToHandler`
deriving Repr

/-- `passToHandler(hdr)` with the connection positioned after the header; `s` = remaining stream.
* nobody entitled: `io.CopyN(io.Discard, conn, n)` — an error if the stream ends first;
* awaited and `n ≤ MaxBuf`: `make([]byte, n)`, `io.ReadFull`; on success the caller gets the buffered message and the
  handler (if any) a second reader over the same bytes. If the stream ends first `ReadFull`'s error is returned but the
  deferred drain (`io.Copy(io.Discard, LimitReader(conn, n))`, which treats EOF as success) overwrites it with nil:
  nothing is delivered and the loop goes on to read the next header (and fails there);
* otherwise the payload stays on the connection behind `io.LimitReader(conn, n)`: an awaited caller gets a `Message`
  without payload, the handler reads `k` bytes through the limit reader, the deferred drain consumes what is left of
  the `n` bytes (ending early, without error, if the stream ends). -/
def dispatch (cfg : Cfg) (i : Nat) (h : Header) (awaited : Bool) (beh : Beh) (s : Bytes) : FrameOut :=
  let n := h.payloadLen
  let hp := handlerParty cfg h.typ
  if !awaited && hp.isNone then
    if s.length < n then { unhandled := true, rest := [], failed := true }
    else { unhandled := true, rest := s.drop n }
  else if awaited && decide (n ≤ MaxBuf) then
    if s.length < n then { allocs := [n], rest := [] }
    else
      let buf := s.take n
      let dc : Delivery := ⟨i, .caller, h, some buf, n, false⟩
      match hp with
      | none => { deliveries := [dc], allocs := [n], rest := s.drop n }
      | some p =>
        { deliveries := [dc, ⟨i, p, h, some buf, beh.took n n, beh.isPanic⟩], allocs := n :: beh.allocs false n, rest := s.drop n,
          crashed := guarded (callRaw beh) == .panicked }
  else
    let dcs : List Delivery := if awaited then [⟨i, .caller, h, none, 0, false⟩] else []
    let avail := s.take n
    match hp with
    | none => { deliveries := dcs, rest := s.drop n }
    | some p =>
      let k := beh.took n avail.length
      { deliveries := dcs ++ [⟨i, p, h, some avail, k, beh.isPanic⟩],
        allocs := beh.allocs true n,
        rest := (s.drop k).drop (n - k),
        crashed := guarded (callRaw beh) == .panicked }

/-! ## the loop: `handleIncoming` -/

inductive End where
  | err          -- the loop returned an error (not ErrClientClosed)
  | waitDone     -- EOF after a CloseConnectionResponse to our own CloseConnection: blocks on `c.done`, then returns ErrClientClosed
  | panic        -- a panic escaped the goroutine
  | fuel         -- model artefact, unreachable from `rd`
deriving DecidableEq, Repr, Inhabited

structure Result where
  headers : List (Nat × Header) := []    -- (start offset in the stream, header) of every frame parsed
  deliveries : List Delivery := []
  unhandled : List Nat := []             -- frames nobody was entitled to (payload discarded)
  allocs : List Nat := []                -- sizes passed to `make`
  await : List Nat := []                 -- the await set when the loop ended
  consumed : Nat := 0                    -- bytes taken from the stream
  fin : End
deriving Repr, Inhabited

/-- the await set at the lookup of frame `i`: registrations and cancellations since the last lookup applied -/
def awaitNow (await : List Nat) (st : Step) : List Nat :=
  (await ++ st.reg).filter (fun x => !st.unreg.contains x)

/-- KeepAlive, ROAccessReport and ReaderEventNotification are sent on the reader's own initiative: `passToHandler`
never matches them against the await map (C03) -/
def unsolicited (typ : Nat) : Bool := typ == 62 || typ == 61 || typ == 63

/-- the lookup `c.awaiting[hdr.id]`, made only for frames that can be replies -/
def isAwaited (aw : List Nat) (typ id : Nat) : Bool := !unsolicited typ && aw.contains id

/-- `delete(c.awaiting, hdr.id)` (inside the same guard) -/
def awaitAfter0 (aw : List Nat) (id : Nat) : List Nat := aw.filter (· != id)
def awaitAfter (aw : List Nat) (typ id : Nat) : List Nat := if unsolicited typ then aw else awaitAfter0 aw id

def Result.cons (off : Nat) (i : Nat) (h : Header) (out : FrameOut) (r : Result) : Result :=
  { r with headers := (off, h) :: r.headers,
           deliveries := out.deliveries ++ r.deliveries,
           unhandled := (if out.unhandled then [i] else []) ++ r.unhandled,
           allocs := Gen.HeaderSz :: out.allocs ++ r.allocs }

/-- `handleIncoming`: `i` = index of the next frame, `off` = its offset, `closed` = a CloseConnectionResponse was seen.
A clean EOF after a CloseConnectionResponse waits for the local close only if this client had asked to close
(`closeSent`, set by the write loop); from a peer that sends the response unasked it is an error like any other EOF. -/
def rdLoop (cfg : Cfg) (env : Nat → Step) : Nat → Nat → Nat → List Nat → Bool → Bytes → Result
  | 0, _, off, await, _, _ => { await := await, consumed := off, fin := .fuel }
  | fuel+1, i, off, await, closed, s =>
    match readHeader s with
    | .eof => { allocs := [Gen.HeaderSz], await := await, consumed := off, fin := if closed && cfg.closing then .waitDone else .err }
    | .short => { allocs := [Gen.HeaderSz], await := await, consumed := off + s.length, fin := .err }
    | .bad => { allocs := [Gen.HeaderSz], await := await, consumed := off + Gen.HeaderSz, fin := .err }
    | .ok h rest =>
      let st := env i
      let aw := awaitNow await st
      let out := dispatch cfg i h (isAwaited aw h.typ h.id) st.beh rest
      let off' := off + Gen.HeaderSz + (rest.length - out.rest.length)
      if out.crashed then
        Result.cons off i h out { await := awaitAfter aw h.typ h.id, consumed := off', fin := .panic }
      else if out.failed then
        Result.cons off i h out { await := awaitAfter aw h.typ h.id, consumed := off', fin := .err }
      else
        Result.cons off i h out
          (rdLoop cfg env fuel (i + 1) off' (awaitAfter aw h.typ h.id) (closed || h.typ == typCloseConnectionResponse) out.rest)

/-- the read loop on a whole inbound stream, starting with await set `a0` -/
def rd (cfg : Cfg) (env : Nat → Step) (a0 : List Nat) (s : Bytes) : Result :=
  rdLoop cfg env (s.length + 1) 0 0 a0 false s

/-- the same on a stream that arrives in TCP segments: `net.Conn.Read` may return any piece of it, `io.ReadFull`,
`io.CopyN`, `io.Copy` and the limit reader loop until they have what they asked for, so only the concatenation counts -/
def rdChunks (cfg : Cfg) (env : Nat → Step) (a0 : List Nat) (chunks : List Bytes) : Result :=
  rd cfg env a0 chunks.flatten

/-! ## well-formed frames as the peer writes them (the wire format in the standard's terms, not the library's) -/

structure WFrame where
  ver : Nat
  typ : Nat
  id : Nat
  payload : Bytes
deriving DecidableEq, Repr, Inhabited

def WFrame.Valid (f : WFrame) : Prop :=
  f.ver < 8 ∧ f.typ < 1024 ∧ f.id < 4294967296 ∧ f.payload.length + 10 < 4294967296

instance (f : WFrame) : Decidable f.Valid := by unfold WFrame.Valid; exact inferInstance

def WFrame.hdr (f : WFrame) : Header := ⟨f.ver, f.typ, f.payload.length, f.id⟩

/-- 3 reserved bits (0), 3 bits version, 10 bits type; 32-bit total length; 32-bit id; payload -/
def WFrame.bytes (f : WFrame) : Bytes :=
  put16 (f.ver * 1024 + f.typ) ++ put32 (f.payload.length + 10) ++ put32 f.id ++ f.payload

def WFrame.size (f : WFrame) : Nat := 10 + f.payload.length

def wire (fs : List WFrame) : Bytes := fs.flatMap WFrame.bytes

/-! ## what the property demands for a stream of well-formed frames, written as a recursion over the FRAMES -/

/-- the deliveries frame `i` is entitled to -/
def expectedDeliveries (cfg : Cfg) (i : Nat) (f : WFrame) (awaited : Bool) (beh : Beh) : List Delivery :=
  (if awaited then
     [⟨i, .caller, f.hdr, if f.payload.length ≤ MaxBuf then some f.payload else none,
        if f.payload.length ≤ MaxBuf then f.payload.length else 0, false⟩]
   else []) ++
  (match handlerParty cfg f.typ with
   | some p => [⟨i, p, f.hdr, some f.payload, beh.took f.payload.length f.payload.length, beh.isPanic⟩]
   | none => [])

/-- the sizes passed to `make` for one complete frame: the reply buffer, and what a handler that calls `data()` on a
streamed payload allocates -/
def frameAllocs (cfg : Cfg) (f : WFrame) (awaited : Bool) (beh : Beh) : List Nat :=
  let buffered := awaited && decide (f.payload.length ≤ MaxBuf)
  (if buffered then [f.payload.length] else []) ++
  (match handlerParty cfg f.typ with
   | some _ => beh.allocs (!buffered) f.payload.length
   | none => [])

def specRun (cfg : Cfg) (env : Nat → Step) : Nat → Nat → List Nat → Bool → List WFrame → Result
  | _, off, await, closed, [] =>
    { allocs := [Gen.HeaderSz], await := await, consumed := off, fin := if closed && cfg.closing then .waitDone else .err }
  | i, off, await, closed, f :: fs =>
    let st := env i
    let aw := awaitNow await st
    let awaited := isAwaited aw f.typ f.id
    let r := specRun cfg env (i + 1) (off + f.size) (awaitAfter aw f.typ f.id) (closed || f.typ == typCloseConnectionResponse) fs
    { r with headers := (off, f.hdr) :: r.headers,
             deliveries := expectedDeliveries cfg i f awaited st.beh ++ r.deliveries,
             unhandled := (if !awaited && (handlerParty cfg f.typ).isNone then [i] else []) ++ r.unhandled,
             allocs := Gen.HeaderSz :: frameAllocs cfg f awaited st.beh ++ r.allocs }

end LLRP.ReadSide
