import LLRP.Model.Bytes
import LLRP.Gen.Funcs
import LLRP.Gen.Consts
import LLRP.Model.Schema
/-!
Model of the 10-byte LLRP message header codec of `pkg/llrp/messages.go`:
`Header.UnmarshalBinary`, `Header.MarshalBinary` (= `Header.WriteTo`) and `Client.writeHeader` (reader.go).
Hand-written; tied to the code by the exhaustive C19 correspondence. `validateHeader` is the go2lean
translation of the source (`Gen.llrp_validateHeader`).
-/
namespace LLRP

structure Header where
  version : Nat      -- uint8 in Go
  typ : Nat          -- uint16
  payloadLen : Nat   -- uint32, excludes the 10 header bytes
  id : Nat           -- uint32
deriving DecidableEq, Repr, Inhabited

/-- the ranges of the Go field types -/
def Header.InRange (h : Header) : Prop :=
  h.version < 256 ∧ h.typ < 65536 ∧ h.payloadLen < 4294967296 ∧ h.id < 4294967296

instance (h : Header) : Decidable h.InRange := by unfold Header.InRange; exact inferInstance

/-- `Header.UnmarshalBinary` -/
def Header.unmarshal : Bytes → Option Header
  | b0 :: b1 :: l0 :: l1 :: l2 :: l3 :: i0 :: i1 :: i2 :: i3 :: _ =>
    let len := be32 l0 l1 l2 l3
    if len < Gen.HeaderSz then none
    else some { version := (b0.toNat / 4) % 8,
                typ := be16 b0 b1 % 1024,
                payloadLen := len - Gen.HeaderSz,
                id := be32 i0 i1 i2 i3 }
  | _ => none

/-- the three `PutUint…` calls shared by `MarshalBinary`, `WriteTo` and `writeHeader`:
    `uint16(version)<<10 | uint16(typ)`, `payloadLen+10` in uint32, the id -/
def Header.put (h : Header) : Bytes :=
  put16 (((h.version * 1024) % 65536) ||| h.typ) ++ put32 ((h.payloadLen + Gen.HeaderSz) % 4294967296) ++ put32 h.id

/-- `Header.MarshalBinary` / `Header.WriteTo`: validate, then write -/
def Header.marshal (h : Header) : Option Bytes :=
  if Gen.llrp_validateHeader h.payloadLen h.typ then some h.put else none

/-- `Client.writeHeader`: no validation -/
def writeHeader (h : Header) : Bytes := h.put

/-- what `marshal` accepts, in the property's words -/
def Header.Valid (h : Header) : Prop :=
  h.version < 8 ∧ h.typ ≤ 1023 ∧ ¬ (900 ≤ h.typ ∧ h.typ ≤ 999) ∧ h.payloadLen ≤ 4294967285 ∧ h.id < 4294967296

instance (h : Header) : Decidable h.Valid := by unfold Header.Valid; exact inferInstance


/-! ## message-type tables -/

def lookup {α} (k : Nat) : List (Nat × α) → Option α
  | [] => none
  | (a, b) :: r => if a = k then some b else lookup k r

/-- `MessageType.Converse` over a pairing table -/
def converse (tbl : List (Nat × Nat)) (t : Nat) : Option Nat := lookup t tbl

/-- the request a response message answers, by LLRP's naming rule: `XResponse` answers `X`.
(The yaml's informational `response_to` column is not used: it is read by nothing and has an erratum,
`AddROSpecResponse: response_to: 30`.) -/
def requestOf (S : Schema) (m : Container) : Option Nat :=
  (S.msgs.find? fun r => r.name ++ "Response" == m.name).map (·.typeId)

/-- request/response pairs prescribed by the table, both directions -/
def specPairs (S : Schema) : List (Nat × Nat) :=
  S.msgs.flatMap fun m => match requestOf S m with
    | some r => [(r, m.typeId), (m.typeId, r)]
    | none => []

/-- messages whose prescribed pairing is missing from (or wrong in) `tbl`: (request, response) -/
def mirrorGaps (S : Schema) (tbl : List (Nat × Nat)) : List (Nat × Nat) :=
  S.msgs.filterMap fun m => match requestOf S m with
    | some r => if lookup r tbl = some m.typeId ∧ lookup m.typeId tbl = some r then none else some (r, m.typeId)
    | none => none

theorem mirrorGaps_nil (S : Schema) (tbl : List (Nat × Nat)) (h : mirrorGaps S tbl = []) :
    ∀ m ∈ S.msgs, ∀ r, requestOf S m = some r → lookup r tbl = some m.typeId ∧ lookup m.typeId tbl = some r := by
  intro m hm r hr
  unfold mirrorGaps at h
  rw [List.filterMap_eq_nil_iff] at h
  have := h m hm
  simp only [hr] at this
  by_cases hc : lookup r tbl = some m.typeId ∧ lookup m.typeId tbl = some r
  · exact hc
  · simp [hc] at this

end LLRP
