/-!
# Race model (C20): event traces, happens-before, data races, protection policies

Core Lean only. A *trace* is one global interleaving (a `List Event`) of the synchronisation-relevant events of
the goroutines of a program; positions in the list are the event identities. `HB` is the happens-before order of
the Go memory model restricted to the primitives the library uses (program order, `sync.Mutex`/`sync.RWMutex`,
`go`, `WaitGroup`-style join, channel send→receive and close→receive-of-zero-value). A *race* is a pair of
conflicting accesses not ordered by `HB`. A *policy* assigns a protection discipline to every shared location;
`LLRP.C20.policy_sound` proves that a well-formed trace that obeys its policy has no race.

Everything the oracle needs (`hbB`, `raceB`, `wfB`) is executable; `LLRP/Proofs/Race.lean` proves that the
executable versions decide the declarative ones.
-/
namespace LLRP.Race

abbrev Thread := Nat
abbrev Loc := Nat
abbrev Mutex := Nat
abbrev Chan := Nat

inductive Event
  | acq (t : Thread) (m : Mutex)        -- m.Lock() returned
  | rel (t : Thread) (m : Mutex)        -- m.Unlock()
  | racq (t : Thread) (m : Mutex)       -- m.RLock() returned
  | rrel (t : Thread) (m : Mutex)       -- m.RUnlock()
  | rd (t : Thread) (x : Loc)           -- plain read
  | wr (t : Thread) (x : Loc)           -- plain write
  | atomicRd (t : Thread) (x : Loc)     -- sync/atomic load
  | atomicWr (t : Thread) (x : Loc)     -- sync/atomic store / CAS / add
  | fork (t u : Thread)                 -- t executes `go …`, creating u
  | join (t u : Thread)                 -- t returns from waiting for u's termination (wg.Wait)
  | send (t : Thread) (ch : Chan) (i : Nat)   -- the i-th send on ch
  | recv (t : Thread) (ch : Chan) (i : Nat)   -- the receive that obtains the i-th sent value
  | closeCh (t : Thread) (ch : Chan)
  | recvClosed (t : Thread) (ch : Chan)       -- a receive that returns because ch is closed
deriving DecidableEq, Repr

abbrev Trace := List Event

namespace Event

def thread : Event → Thread
  | acq t _ | rel t _ | racq t _ | rrel t _ | rd t _ | wr t _ | atomicRd t _ | atomicWr t _
  | fork t _ | join t _ | send t _ _ | recv t _ _ | closeCh t _ | recvClosed t _ => t

/-- the location of a memory access; `none` for synchronisation events -/
def loc? : Event → Option Loc
  | rd _ x | wr _ x | atomicRd _ x | atomicWr _ x => some x
  | _ => none

def isWrite : Event → Bool
  | wr _ _ | atomicWr _ _ => true
  | _ => false

def isAtomic : Event → Bool
  | atomicRd _ _ | atomicWr _ _ => true
  | _ => false

end Event

/-- two accesses to the same location by different threads, at least one a write, not both atomic -/
def conflict (a b : Event) : Bool :=
  match a.loc?, b.loc? with
  | some x, some y => x == y && a.thread != b.thread && (a.isWrite || b.isWrite) && !(a.isAtomic && b.isAtomic)
  | _, _ => false

/-! ## happens-before -/

/-- unlock → later lock of the same mutex: write-unlock → any lock, read-unlock → write lock -/
def syncEdge (a b : Event) : Bool :=
  match a, b with
  | .rel _ m, .acq _ m' => m == m'
  | .rel _ m, .racq _ m' => m == m'
  | .rrel _ m, .acq _ m' => m == m'
  | _, _ => false

/-- the `go` statement happens before everything the new goroutine does -/
def forkEdge (a b : Event) : Bool :=
  match a with
  | .fork _ u => b.thread == u
  | _ => false

/-- everything a goroutine does happens before the return of the wait for its termination -/
def joinEdge (a b : Event) : Bool :=
  match b with
  | .join _ u => a.thread == u
  | _ => false

/-- the i-th send happens before the receive of the i-th value; close happens before a receive that observes it -/
def chanEdge (a b : Event) : Bool :=
  match a, b with
  | .send _ c i, .recv _ c' i' => c == c' && i == i'
  | .closeCh _ c, .recvClosed _ c' => c == c'
  | _, _ => false

/-- direct happens-before edge between an earlier event `a` and a later event `b` -/
def edgeEv (a b : Event) : Bool :=
  a.thread == b.thread || syncEdge a b || forkEdge a b || joinEdge a b || chanEdge a b

/-- direct edge between positions `i < j` of the trace -/
def edgeB (tr : Trace) (i j : Nat) : Bool :=
  decide (i < j) &&
  match tr[i]?, tr[j]? with
  | some a, some b => edgeEv a b
  | _, _ => false

/-- happens-before: the transitive closure of the direct edges -/
inductive HB (tr : Trace) : Nat → Nat → Prop
  | edge {i j : Nat} : edgeB tr i j = true → HB tr i j
  | head {i k j : Nat} : edgeB tr i k = true → HB tr k j → HB tr i j

/-- executable happens-before with explicit fuel (every edge goes forward, so `j - i` steps suffice) -/
def hbF (tr : Trace) : Nat → Nat → Nat → Bool
  | 0, _, _ => false
  | n + 1, i, j => edgeB tr i j || (List.range j).any (fun k => edgeB tr i k && hbF tr n k j)

def hbB (tr : Trace) (i j : Nat) : Bool := hbF tr j i j

/-- a data race: two conflicting accesses that happens-before does not order -/
def Race (tr : Trace) : Prop :=
  ∃ (i j : Nat) (a b : Event), i < j ∧ tr[i]? = some a ∧ tr[j]? = some b ∧ conflict a b = true ∧ ¬ HB tr i j

/-- executable: the racing pairs of positions -/
def racePairs (tr : Trace) : List (Nat × Nat) :=
  (List.range tr.length).flatMap fun j =>
    ((List.range j).filter fun i =>
      match tr[i]?, tr[j]? with
      | some a, some b => conflict a b && !hbB tr i j
      | _, _ => false).map fun i => (i, j)

def raceB (tr : Trace) : Bool := !(racePairs tr).isEmpty

/-! ## locks held -/

/-- `t` holds `m` exclusively at position `i`: it acquired it earlier and has not released it since -/
def HoldsX (tr : Trace) (i : Nat) (t : Thread) (m : Mutex) : Prop :=
  ∃ a : Nat, a < i ∧ tr[a]? = some (.acq t m) ∧ ∀ r : Nat, a < r → r < i → tr[r]? ≠ some (.rel t m)

/-- `t` holds `m` shared (read lock) at position `i` -/
def HoldsS (tr : Trace) (i : Nat) (t : Thread) (m : Mutex) : Prop :=
  ∃ a : Nat, a < i ∧ tr[a]? = some (.racq t m) ∧ ∀ r : Nat, a < r → r < i → tr[r]? ≠ some (.rrel t m)

/-! ## well-formed traces -/

/-- when `ea` (earlier) and `eb` (later) are acquisitions of one mutex that exclude each other, the release event
that has to lie between them -/
def needsRelease (ea eb : Event) : Option Event :=
  match ea, eb with
  | .acq t m, .acq _ m' => if m = m' then some (.rel t m) else none
  | .acq t m, .racq _ m' => if m = m' then some (.rel t m) else none
  | .racq t m, .acq _ m' => if m = m' then some (.rrel t m) else none
  | _, _ => none

structure WF (tr : Trace) : Prop where
  /-- mutual exclusion: writer/writer and reader/writer acquisitions of one mutex are separated by the release
  of the earlier one (also forbids re-entrant locking) -/
  lock : ∀ (a b : Nat) ea eb er, a < b → tr[a]? = some ea → tr[b]? = some eb → needsRelease ea eb = some er →
    ∃ r : Nat, a < r ∧ r < b ∧ tr[r]? = some er
  /-- only the holder unlocks -/
  relHeld : ∀ (r : Nat) t m, tr[r]? = some (.rel t m) → HoldsX tr r t m
  rrelHeld : ∀ (r : Nat) t m, tr[r]? = some (.rrel t m) → HoldsS tr r t m
  /-- a goroutine does nothing before the `go` statement that creates it -/
  forkFirst : ∀ (k : Nat) t u, tr[k]? = some (.fork t u) → t ≠ u ∧ ∀ (j : Nat) e, j < k → tr[j]? = some e → e.thread ≠ u
  /-- a joined goroutine does nothing after the join -/
  joinLast : ∀ (k : Nat) t u, tr[k]? = some (.join t u) → ∀ (j : Nat) e, k < j → tr[j]? = some e → e.thread ≠ u
  /-- a value is received after it was sent; send numbers are unique per channel -/
  recvSend : ∀ (j : Nat) u c n, tr[j]? = some (.recv u c n) → ∃ (i : Nat) (t : Thread), i < j ∧ tr[i]? = some (.send t c n)
  sendUnique : ∀ (i j : Nat) t u c n, i < j → tr[i]? = some (.send t c n) → tr[j]? ≠ some (.send u c n)
  /-- a receive observes a close only after the close -/
  recvClosed : ∀ (j : Nat) u c, tr[j]? = some (.recvClosed u c) → ∃ (i : Nat) (t : Thread), i < j ∧ tr[i]? = some (.closeCh t c)

/-! executable well-formedness -/

def allIdx (tr : Trace) (p : Nat → Event → Bool) : Bool :=
  (List.range tr.length).all fun i => match tr[i]? with | some e => p i e | none => true

def anyLt (tr : Trace) (n : Nat) (p : Nat → Event → Bool) : Bool :=
  (List.range n).any fun i => match tr[i]? with | some e => p i e | none => false

def noneBetween (tr : Trace) (a i : Nat) (e : Event) : Bool :=
  (List.range i).all fun r => !(decide (a < r)) || tr[r]? != some e

def holdsXB (tr : Trace) (i : Nat) (t : Thread) (m : Mutex) : Bool :=
  anyLt tr i fun a e => e == .acq t m && noneBetween tr a i (.rel t m)

def holdsSB (tr : Trace) (i : Nat) (t : Thread) (m : Mutex) : Bool :=
  anyLt tr i fun a e => e == .racq t m && noneBetween tr a i (.rrel t m)

def wfLockB (tr : Trace) : Bool :=
  allIdx tr fun b eb => (List.range b).all fun a =>
    match tr[a]? with
    | some ea => match needsRelease ea eb with
      | some er => anyLt tr b fun r e => decide (a < r) && e == er
      | none => true
    | none => true

def wfEvB (tr : Trace) : Bool :=
  allIdx tr fun k e =>
    match e with
    | .rel t m => holdsXB tr k t m
    | .rrel t m => holdsSB tr k t m
    | .fork t u => t != u && (List.range k).all fun j => match tr[j]? with | some e' => e'.thread != u | none => true
    | .join _ u => allIdx tr fun j e' => !(decide (k < j)) || e'.thread != u
    | .recv _ c n => anyLt tr k fun _ e' => match e' with | .send _ c' n' => c == c' && n == n' | _ => false
    | .send _ c n => allIdx tr fun j e' => !(decide (k < j)) || match e' with | .send _ c' n' => !(c == c' && n == n') | _ => true
    | .recvClosed _ c => anyLt tr k fun _ e' => match e' with | .closeCh _ c' => c == c' | _ => false
    | _ => true

def wfB (tr : Trace) : Bool := wfLockB tr && wfEvB tr

/-! ## protection policies -/

/-- `Chain tr i t j u`: position `j` of thread `u` is reached from position `i` of thread `t` through a chain of
`go` statements: `t` forks (after `i`) a thread that forks … that forks `u` (before `j`). -/
inductive Chain (tr : Trace) (i : Nat) (t : Thread) : Nat → Thread → Prop
  | base {k j : Nat} {u : Thread} : i < k → k < j → tr[k]? = some (.fork t u) → Chain tr i t j u
  | step {k j : Nat} {v u : Thread} : Chain tr i t k v → k < j → tr[k]? = some (.fork v u) → Chain tr i t j u

/-- the access at position `i` is an *initialisation access*: every access to the same location by another thread
comes later, in a thread that was forked — directly or through ancestors — by the accessing thread after `i`
(the object is not yet shared: it is published only through `go`). -/
def InitAccess (tr : Trace) (i : Nat) : Prop :=
  ∀ a, tr[i]? = some a → ∀ (j : Nat) b, tr[j]? = some b → b.loc? = a.loc? → b.thread ≠ a.thread →
    i < j ∧ Chain tr i a.thread j b.thread

inductive Policy
  /-- every write holds `m` exclusively, every read holds `m` shared or exclusively — except initialisation
  accesses (constructor, before the object is shared) -/
  | guardedBy (m : Mutex)
  /-- every write is an initialisation access (reads are unrestricted) -/
  | initBeforeFork
  /-- every access is a sync/atomic operation -/
  | atomicOnly
  /-- every access is by one thread -/
  | owned (t : Thread)
deriving DecidableEq, Repr

/-- the access `e` (to `x`, at position `i`) respects the policy of its location -/
def ObeysAt (tr : Trace) (pol : Loc → Policy) (i : Nat) (e : Event) (x : Loc) : Prop :=
  match pol x with
  | .guardedBy m => InitAccess tr i ∨ HoldsX tr i e.thread m ∨ (e.isWrite = false ∧ HoldsS tr i e.thread m)
  | .initBeforeFork => e.isWrite = true → InitAccess tr i
  | .atomicOnly => e.isAtomic = true
  | .owned t => e.thread = t

def Obeys (tr : Trace) (pol : Loc → Policy) : Prop :=
  ∀ (i : Nat) e x, tr[i]? = some e → e.loc? = some x → ObeysAt tr pol i e x

end LLRP.Race
