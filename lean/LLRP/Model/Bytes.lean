/-! Big-endian byte helpers shared by the header and codec models. Bytes are `UInt8`, numbers are `Nat`. -/
namespace LLRP

abbrev Bytes := List UInt8

def byte (n : Nat) : UInt8 := UInt8.ofNat n      -- reduces mod 256, like Go's `byte(x)`

def be16 (a b : UInt8) : Nat := a.toNat * 256 + b.toNat
def be32 (a b c d : UInt8) : Nat := ((a.toNat * 256 + b.toNat) * 256 + c.toNat) * 256 + d.toNat

/-- `binary.BigEndian.PutUint16` of `n mod 2^16` -/
def put16 (n : Nat) : Bytes := [byte (n / 256), byte n]
/-- `binary.BigEndian.PutUint32` of `n mod 2^32` -/
def put32 (n : Nat) : Bytes := [byte (n / 16777216), byte (n / 65536), byte (n / 256), byte n]
def put64 (n : Nat) : Bytes := put32 (n / 4294967296) ++ put32 n

/-- big-endian value of a byte string -/
def beNat : Bytes → Nat
  | [] => 0
  | b :: bs => b.toNat * 256 ^ bs.length + beNat bs

def hexDigit (n : Nat) : Char := if n < 10 then Char.ofNat (48 + n) else Char.ofNat (87 + n)
def hexOf (bs : Bytes) : String := String.ofList (bs.flatMap fun b => [hexDigit (b.toNat / 16), hexDigit (b.toNat % 16)])

def unhexDigit (c : Char) : Option Nat :=
  if '0' ≤ c ∧ c ≤ '9' then some (c.toNat - 48)
  else if 'a' ≤ c ∧ c ≤ 'f' then some (c.toNat - 87)
  else if 'A' ≤ c ∧ c ≤ 'F' then some (c.toNat - 55)
  else none

def unhexChars : List Char → Option Bytes
  | [] => some []
  | [_] => none
  | a :: b :: rest => do
    let x ← unhexDigit a
    let y ← unhexDigit b
    let r ← unhexChars rest
    pure (byte (x * 16 + y) :: r)

def unhex (s : String) : Option Bytes := unhexChars s.toList

end LLRP
