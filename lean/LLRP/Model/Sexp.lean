import LLRP.Model.Codec
/-!
Canonical one-line text of codec values, shared with the Go harness's reflection walker:

  val  ::= ( (fval*) (slot*) )        fields (pads omitted), then one entry per slot in table order
  fval ::= <int> | x<hex> | (n <nat>*) | (b <nbits> x<hex>)
  slot ::= ( val* )
-/
namespace LLRP

def FVal.print : FVal → String
  | .num n => toString n
  | .bytes b => "x" ++ hexOf b
  | .nums l => "(n" ++ String.join (l.map fun n => " " ++ toString n) ++ ")"
  | .bits n b => s!"(b {n} x{hexOf b})"

mutual
def Val.print : Val → String
  | .node fs subs => "((" ++ " ".intercalate (fs.map FVal.print) ++ ") (" ++ Val.printSlots subs ++ "))"
def Val.printSlots : List (List Val) → String
  | [] => ""
  | [vs] => "(" ++ Val.printList vs ++ ")"
  | vs :: vss => "(" ++ Val.printList vs ++ ") " ++ Val.printSlots vss
def Val.printList : List Val → String
  | [] => ""
  | [v] => v.print
  | v :: vs => v.print ++ " " ++ Val.printList vs
end

inductive Tok where
  | lp | rp | atom (s : String)
deriving DecidableEq, Repr

def tokenize (s : String) : List Tok :=
  let flush (cur : List Char) (acc : List Tok) : List Tok :=
    if cur.isEmpty then acc else Tok.atom (String.ofList cur.reverse) :: acc
  let (cur, acc) := s.toList.foldl (fun (st : List Char × List Tok) c =>
    let (cur, acc) := st
    if c == '(' then ([], Tok.lp :: flush cur acc)
    else if c == ')' then ([], Tok.rp :: flush cur acc)
    else if c == ' ' || c == '\t' then ([], flush cur acc)
    else (c :: cur, acc)) ([], [])
  (flush cur acc).reverse

def parseHexAtom (s : String) : Option Bytes :=
  match s.toList with
  | 'x' :: cs => unhexChars cs
  | _ => none

/-- atoms up to the closing parenthesis -/
def takeAtoms : List Tok → List String → Option (List String × List Tok)
  | Tok.rp :: r, acc => some (acc.reverse, r)
  | Tok.atom a :: r, acc => takeAtoms r (a :: acc)
  | _, _ => none

def parseFVal : List Tok → Option (FVal × List Tok)
  | Tok.atom a :: r =>
    match parseHexAtom a with
    | some b => some (.bytes b, r)
    | none => a.toInt?.map fun n => (.num n, r)
  | Tok.lp :: Tok.atom "n" :: r =>
    match takeAtoms r [] with
    | some (as, r') => (as.mapM String.toNat?).map fun l => (.nums l, r')
    | none => none
  | Tok.lp :: Tok.atom "b" :: Tok.atom n :: Tok.atom h :: Tok.rp :: r =>
    match n.toNat?, parseHexAtom h with
    | some n, some b => some (.bits n b, r)
    | _, _ => none
  | _ => none

def parseFVals : Nat → List Tok → List FVal → Option (List FVal × List Tok)
  | 0, _, _ => none
  | _, Tok.rp :: r, acc => some (acc.reverse, r)
  | fuel+1, ts, acc =>
    match parseFVal ts with
    | some (v, r) => parseFVals fuel r (v :: acc)
    | none => none

mutual
def parseVal : Nat → List Tok → Option (Val × List Tok)
  | 0, _ => none
  | fuel+1, Tok.lp :: Tok.lp :: r =>
    match parseFVals fuel r [] with
    | some (fs, Tok.lp :: r1) =>
      match parseSlots fuel r1 [] with
      | some (subs, Tok.rp :: r2) => some (.node fs subs, r2)
      | _ => none
    | _ => none
  | _, _ => none
/-- slots up to the closing parenthesis of the slot list -/
def parseSlots : Nat → List Tok → List (List Val) → Option (List (List Val) × List Tok)
  | 0, _, _ => none
  | _, Tok.rp :: r, acc => some (acc.reverse, r)
  | fuel+1, Tok.lp :: r, acc =>
    match parseVals fuel r [] with
    | some (vs, r') => parseSlots fuel r' (vs :: acc)
    | none => none
  | _, _, _ => none
/-- values up to the closing parenthesis of one slot -/
def parseVals : Nat → List Tok → List Val → Option (List Val × List Tok)
  | 0, _, _ => none
  | _, Tok.rp :: r, acc => some (acc.reverse, r)
  | fuel+1, ts, acc =>
    match parseVal fuel ts with
    | some (v, r) => parseVals fuel r (v :: acc)
    | none => none
end

def Val.parse (s : String) : Option Val :=
  let ts := tokenize s
  match parseVal (ts.length + 1) ts with
  | some (v, []) => some v
  | _ => none

end LLRP
