import LLRP.Gen.Accesses
import LLRP.Gen.RaceAux
/-!
# Protection policy of the shared fields of `llrp.Client`, `driver.LLRPDevice`, `driver.Driver` (C20)

Hand-written expectations, checked against the access table that `vx facts` regenerates from the source on every
run (`Gen.accesses`: every syntactic read/write of a field of the three types, with the enclosing function, the
mutex fields syntactically held and whether the access goes through `sync/atomic`; `Gen.raceCalls`,
`Gen.chanCloses`, `Gen.postForkSites`: the call sites of their methods with the locks held at the call, the write
records that are `close(x.f)`, and the records that do not precede every `go` statement of their function).

`conforms` is the static counterpart of `Race.ObeysAt`:

* `guardedBy mu inits` — the site holds `mu` (a read may hold `mu:R`, the read lock), or it lies in one of the
  `inits` functions before any `go` statement of that function (constructor: the object is not shared yet; the
  counterpart of `Race.InitAccess`).
* `initBeforeFork writers` — reads are free; a write site must be in one of the listed construction-phase
  functions, before any `go` statement of that function. `close(x.f)` on a channel-typed field is a channel
  operation (a synchronisation event of the model), not a write of the field.
* `atomicOnly` — the site goes through `sync/atomic`.

Trusted (DESIGN.md section 7): that every dynamic access comes from a listed site with the listed locks held
(syntactic lock scopes; a mutex is identified by its field name, all instances of a type follow one policy), that
the option closures `With…$1` run only inside `NewClient`, that `Connect` and `Initialize` are called once, before
the object is shared. The `-race` scenarios of the harness test exactly these assumptions on real schedules.
-/
namespace LLRP.RacePolicy
open LLRP.Gen

inductive SPolicy
  | guardedBy (mu : String) (inits : List String)
  | initBeforeFork (writers : List String)
  | atomicOnly
deriving DecidableEq, Repr

structure Entry where
  struct : String
  field : String
  pol : SPolicy
deriving Repr

def table : List Entry := [
  -- llrp.Client (pkg/llrp/reader.go)
  ⟨"Client", "awaiting", .guardedBy "awaitMu" []⟩,          -- map: write loop registers, read loop and cancel() delete
  ⟨"Client", "conn", .initBeforeFork ["Client.Connect"]⟩,   -- `c.conn = conn` at the top of Connect, before its two `go`s
  ⟨"Client", "handlers", .initBeforeFork ["WithMessageHandler$1"]⟩,
  ⟨"Client", "defaultHandler", .initBeforeFork ["WithDefaultHandler$1"]⟩,
  ⟨"Client", "timeout", .initBeforeFork ["WithTimeout$1"]⟩,
  -- setStdLogger is a helper: its callers are checked by `calledBeforeFork`. Connect's deferred
  -- `c.logger = nil` (closure Connect$1) is deliberately NOT listed: it can run while both loops are alive.
  ⟨"Client", "logger", .initBeforeFork ["WithLogger$1", "Client.setStdLogger"]⟩,
  -- channel-typed fields: made in NewClient's composite literal, afterwards only used for channel operations
  ⟨"Client", "sendQueue", .initBeforeFork []⟩,
  ⟨"Client", "ackQueue", .initBeforeFork []⟩,
  ⟨"Client", "done", .initBeforeFork []⟩,
  ⟨"Client", "ready", .initBeforeFork []⟩,
  ⟨"Client", "isClosed", .atomicOnly⟩,
  ⟨"Client", "closeSent", .atomicOnly⟩,                      -- write loop sets it, read loop reads it
  ⟨"Client", "version", .guardedBy "versionMu" ["NewClient"]⟩,  -- negotiate() writes it while both loops read it (ver/setVer)
  -- driver.LLRPDevice (internal/driver/device.go)
  ⟨"LLRPDevice", "address", .guardedBy "deviceMu" []⟩,
  ⟨"LLRPDevice", "readerStart", .guardedBy "deviceMu" []⟩,
  ⟨"LLRPDevice", "isUp", .guardedBy "deviceMu" []⟩,
  ⟨"LLRPDevice", "client", .guardedBy "clientLock" ["Driver.NewLLRPDevice"]⟩,  -- constructor sets it before `go`
  ⟨"LLRPDevice", "cancel", .guardedBy "clientLock" []⟩,
  ⟨"LLRPDevice", "name", .initBeforeFork []⟩,
  ⟨"LLRPDevice", "lc", .initBeforeFork []⟩,
  ⟨"LLRPDevice", "ch", .initBeforeFork []⟩,
  -- driver.Driver (internal/driver/driver.go)
  ⟨"Driver", "activeDevices", .guardedBy "devicesMu" []⟩,
  ⟨"Driver", "config", .guardedBy "configMu" ["Driver.Initialize"]⟩,
  ⟨"Driver", "debounceTimer", .guardedBy "debounceMu" []⟩,
  -- Stop assigns a fallback logger only when `d.lc == nil`, i.e. when Initialize never ran and the driver has
  -- started no goroutine; the condition is not visible to the extractor, the function is listed as a writer.
  ⟨"Driver", "lc", .initBeforeFork ["Driver.Initialize", "Driver.Stop"]⟩,
  ⟨"Driver", "asyncCh", .initBeforeFork ["Driver.Initialize"]⟩,
  ⟨"Driver", "deviceCh", .initBeforeFork ["Driver.Initialize"]⟩,
  ⟨"Driver", "svc", .initBeforeFork ["Driver.Initialize"]⟩,
  ⟨"Driver", "done", .initBeforeFork []⟩
]

/-- helpers documented as "call with the lock held": function ↦ mutex its callers hold exclusively.
Checked by `callConforms`: every call site is a plain call (not `go`/`defer`/method value) with that lock held. -/
def calledWithLock : List (String × String) := [
  ("LLRPDevice.closeLocked", "clientLock")      -- called by Stop, UpdateAddr, resetConn
]

/-- helpers that write an `initBeforeFork` field: function ↦ the only functions that may call it, and only
before any `go` statement of the caller. Checked by `callConforms`. -/
def calledBeforeFork : List (String × List String) := [
  ("Client.setStdLogger", ["WithStdLogger$1", "Client.Connect"])
]

/-- Sites outside the discipline that are argued individually; each must be matched by a `status: known` entry
of known_findings.json (the check prints it as KNOWN-FINDING on every run), otherwise it is a violation.

* `Driver.debounceTimer` read at the top of the goroutine started by `debouncedDiscover` (`<-d.debounceTimer.C`)
  without `debounceMu`. No race: the goroutine is forked, with the lock held, right after the only write that can
  precede it; the next writes are its own `d.debounceTimer = nil` (program order) and a later
  `debouncedDiscover` that writes only after observing `nil` under the lock, i.e. after this goroutine's unlock.
  The ordering depends on the value read, which no lock discipline expresses. -/
structure RExc where
  struct : String
  field : String
  func : String
  write : Bool
deriving DecidableEq, Repr

/-- identified by what it is (the lock-free read of that field in that closure), not by its line number: comments and
blank lines above it do not move it -/
def exceptions : List RExc := [
  ⟨"Driver", "debounceTimer", "Driver.debouncedDiscover$1", false⟩
]

def siteOf (a : Access) : RSite := ⟨a.struct, a.field, a.func, a.pos⟩

def matchesExc (e : RExc) (a : Access) : Bool :=
  e.struct == a.struct && e.field == a.field && e.func == a.func && e.write == a.write && a.held.isEmpty && !a.atomic
def isException (a : Access) : Bool := exceptions.any (matchesExc · a)

def isPostFork (a : Access) : Bool := postForkSites.contains (siteOf a)
def isChanClose (a : Access) : Bool := chanCloses.contains (siteOf a)

/-- locks held at a site: those syntactically held plus those the callers of the enclosing helper hold -/
def heldIn (func : String) (held : List String) : List String :=
  held ++ (calledWithLock.filter (fun e => e.1 == func)).map (·.2)

def conformsPol (p : SPolicy) (a : Access) : Bool :=
  match p with
  | .guardedBy mu inits =>
    (inits.contains a.func && !isPostFork a) ||
    (heldIn a.func a.held).contains mu ||
    (!a.write && (heldIn a.func a.held).contains (mu ++ ":R"))
  | .initBeforeFork writers => !a.write || isChanClose a || (writers.contains a.func && !isPostFork a)
  | .atomicOnly => a.atomic

/-- the extracted site respects the policy of its field; a field without a table entry does not conform -/
def conforms (tbl : List Entry) (a : Access) : Bool :=
  match tbl.find? (fun e => e.struct == a.struct && e.field == a.field) with
  | some e => conformsPol e.pol a
  | none => false

def callConforms (c : RCall) : Bool :=
  (match calledWithLock.find? (fun e => e.1 == c.callee) with
   | some e => c.mode == "call" && (heldIn c.func c.held).contains e.2
   | none => true) &&
  (match calledBeforeFork.find? (fun e => e.1 == c.callee) with
   | some e => c.mode == "call" && e.2.contains c.func && !c.postFork
   | none => true)

def nonconforming : List Access := accesses.filter fun a => !conforms table a
def nonconformingCalls : List RCall := raceCalls.filter fun c => !callConforms c

end LLRP.RacePolicy
