import LLRP.Model.Schema
/-!
Table condition under which the encoder's way of packing sub-byte fields (`acc ||| byte(v) << shift`, uint8) and of
sizing them (`getHeader`) is the declarative bit layout (C02 `encode_eq_layout`): every sub-byte ("packed") scalar
is an unsigned or boolean field of at least one bit stored in one byte, lies inside that byte, and starts at or after
the end of the previous part of the same byte; a whole-byte scalar never announces that it shares its last byte.
Core Lean only; proved for the regenerated table in `LLRP.Props.C02.layout_wf`.
-/
namespace LLRP

/-- `lo` = first free bit (0 = MSB) of the byte shared with the preceding packed fields (0 when none) -/
def layoutFieldsWF : List Field → Nat → Bool
  | [], _ => true
  | f :: fs, lo =>
    match f.kind with
    | .scalar size bits bit part signed _ =>
      if bits = 8 then !part && layoutFieldsWF fs 0
      else size == 1 && !signed && decide (lo ≤ bit) && decide (1 ≤ bits) && decide (bit + bits ≤ 8) &&
        layoutFieldsWF fs (if part then bit + bits else 0)
    | _ => layoutFieldsWF fs 0

def Container.layoutWF (c : Container) : Bool := layoutFieldsWF c.fields 0

/-- every container of the table packs its bit fields without overlap -/
def layoutWF (S : Schema) : Bool := S.all Container.layoutWF

end LLRP
