import LLRP.Model.Codec
/-! Decidable well-formedness of a container's field list (part of `SchemaWF`). Core Lean only. -/
namespace LLRP

/-- field discipline. `cur = some k`: we are inside a shared (packed) byte and bit positions `< k` are taken.
* whole-byte scalars: at least one byte, not inside a packed byte, never `part`;
* packed scalars: one byte of storage, unsigned, `bit + bits ≤ 8`, after the bits already taken, multi-bit parts
  start at bit 0 (the decoder does not mask those); a `part` field is followed by another packed field;
* array elements have at least one byte (the u16 count prefix is the element count: with 0-byte elements the
  byte-length bound of `fitsVal` would not bound it);
* a `rest` field is last. -/
def fieldsWFAux : Option Nat → List Field → Bool
  | cur, [] => cur.isNone
  | cur, f :: fs =>
    match f.kind with
    | .scalar size bits bit part signed _ =>
      if bits = 8 then cur.isNone && !part && decide (1 ≤ size) && fieldsWFAux none fs
      else
        size == 1 && !signed && decide (1 ≤ bits) && decide (bit + bits ≤ 8) && decide (cur.getD 0 ≤ bit) &&
          (bits == 1 || bit == 0) && fieldsWFAux (if part then some (bit + bits) else none) fs
    | .rest => cur.isNone && fs.isEmpty
    | .arr elem => cur.isNone && decide (1 ≤ elem) && fieldsWFAux none fs
    | _ => cur.isNone && fieldsWFAux none fs

def fieldsWF (fs : List Field) : Bool := fieldsWFAux none fs

def hasRest (fs : List Field) : Bool := fs.any (·.kind == .rest)

end LLRP
