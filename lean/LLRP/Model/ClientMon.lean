import LLRP.Model.ClientLTS
/-!
# Observations of a client run and the monitors that judge them (C03, C09)

An observation is what the harness can see from outside the real client: the frames the scripted peer sent (each with a
payload token chosen by the harness), for every caller the id its request carried when the peer received it, and the
reply (type, payload token) the caller got back. `obsOf` extracts the same record from a state of the model; the
`monitor_sound` theorems (Props/C03, Props/C09) say that every reachable state of the model is accepted.
-/
namespace LLRP.LTS

/-- what is seen of one caller -/
structure CObs where
  /-- id of its request on the wire (`none`: the peer never saw the request) -/
  wid : Option Nat
  /-- `some (typ, pay)` when the call returned a reply -/
  reply : Option (Nat × Nat)
deriving DecidableEq, Repr, Inhabited

structure Obs where
  peer : List Frame
  callers : List CObs
deriving Repr, Inhabited

def nodupB : List Nat → Bool
  | [] => true
  | x :: l => !l.contains x && nodupB l

/-- the reply of one caller is a frame the peer sent, with the id of the caller's own request, not of an unsolicited type -/
def replyOk (peer : List Frame) (c : CObs) : Bool :=
  match c.reply with
  | none => true
  | some (typ, pay) => peer.any (fun f => f.pay == pay && f.typ == typ && c.wid == some f.id && !unsolicited typ)

def replyPays (cs : List CObs) : List Nat :=
  cs.filterMap (fun c => c.reply.map (·.2))

/-- C03 monitor: `none` = accept, `some clause` = reject -/
def check03 (o : Obs) : Option String :=
  if !nodupB (o.peer.map (·.pay)) then some "bad-observation:peer-tokens-not-distinct"
  else if !o.callers.all (replyOk o.peer) then some "reply-not-own"
  else if !nodupB (replyPays o.callers) then some "double-delivery"
  else none

def cobsOf (s : St) (c : Nat) : CObs :=
  { wid := (s.callers c).wid,
    reply := match (s.callers c).pc with
      | .done (.reply f _) => some (f.typ, f.pay)
      | _ => none }

def obsOf (s : St) (cs : List Nat) : Obs := { peer := s.peerSent, callers := cs.map (cobsOf s) }

/-! ## C09: outcome of a session that was ended -/

/-- how one blocked call came back -/
inductive RObs where
  | reply | nil | closed | ctx | other | timeout | panic
deriving DecidableEq, Repr, Inhabited

structure Obs09 where
  /-- a caller's record: its context was cancelled by the script; how the call returned -/
  callers : List (Bool × RObs)
  /-- Connect's result (`none` = did not return within the deadline) -/
  connect : Option Err
  /-- the script called Close / a Shutdown succeeded -/
  closedLocally : Bool
  /-- the script broke the connection (peer vanished, garbage, local conn close) -/
  connFailed : Bool
  /-- types of the frames the peer received, in order -/
  wire : List Nat
deriving Repr, Inhabited

def afterClose : List Nat → Bool
  | [] => true
  | t :: l => if t = tCloseConnection then l.isEmpty else afterClose l

/-- C09 monitor for a session in which the client was closed or its connection ended -/
def check09 (o : Obs09) : Option String :=
  if o.callers.any (fun c => c.2 == .timeout) then some "caller-stuck"
  else if o.callers.any (fun c => c.2 == .panic) then some "panic"
  else if o.callers.any (fun c => c.2 == .ctx && !c.1) then some "ctx-error-without-cancel"
  else if o.callers.any (fun c => c.2 == .other) then some "unexpected-error-class"
  else if o.callers.any (fun c => c.2 == .closed) && o.connect.isNone then some "closed-error-but-connect-running"
  else match o.connect with
    | none => some "connect-stuck"
    | some .closed => if o.closedLocally then (if afterClose o.wire then none else some "write-after-close")
                      else some "connect-closed-without-local-close"
    | some .fail => if o.connFailed then (if afterClose o.wire then none else some "write-after-close")
                    else some "connect-failed-on-healthy-connection"

def robsOf : Pc → RObs
  | .done (.reply _ _) => .reply
  | .done .sent => .nil
  | .done .closed => .closed
  | .done .ctx => .ctx
  | .done .zero => .other
  | _ => .timeout

def obs09Of (s : St) (cs : List Nat) : Obs09 :=
  { callers := cs.map (fun c => ((s.callers c).cancelled, robsOf (s.callers c).pc)),
    connect := match s.conn with
      | .returned e => some e
      | _ => none,
    closedLocally := s.closedLocally, connFailed := s.broken, wire := s.written.map (·.f.typ) }

end LLRP.LTS
