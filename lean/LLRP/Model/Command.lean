import LLRP.Gen.Consts
import LLRP.Gen.Cmd
/-!
# Command mapping (C14): EdgeX device commands → LLRP requests

Executable model of `Driver.handleReadCommands` / `Driver.handleWriteCommands` (internal/driver/driver.go) and of the
`SetReaderConfig` rewriting at the top of `LLRPDevice.TrySend` (internal/driver/device.go), branch by branch.
Core Lean only. Resource/action/attribute names and message type codes are the regenerated `LLRP.Gen` constants.

What is abstracted:
* attribute values and parameter values are *kinds* (what the code can distinguish): see `AttrVal`, `PVal`;
* a request is its message type code, the expected response type code, the ID field, the custom vendor/subtype,
  which parameter supplies the payload and (for `SetReaderConfig`) the `KeepAliveSpec` it carries;
* errors carry a reason (`Reject`) but the correspondence compares only `reject`.
-/
namespace LLRP.Command
open LLRP

/-! ## inputs -/

/-- value of an attribute of `reqs[0].Attributes` (a `map[string]interface{}`) as the code can distinguish it -/
inductive AttrVal where
  | missing            -- key absent (Go: nil interface)
  | emptyString        -- ""
  | nonString          -- any non-string Go value (int, bool, map …)
  | numeric (n : Nat)  -- a string of decimal digits with value n (n may exceed 2^64: then ParseUint fails)
  | nonNumericString   -- any other non-empty string ("x", "-1", "1.5", "0x10", " 5", "+5")
deriving DecidableEq, Repr

/-- value of a `*CommandValue` parameter built with the SDK constructors -/
inductive PVal where
  | uint32 (n : Nat)                                  -- Type Uint32, Value uint32(n)
  | str (s : String) (b64 : Bool)                     -- Type String, Value s; b64 = s is valid std base64
  | obj (jsonOk : Bool) (ka : Option (Nat × Nat))     -- Type Object, Value a JSON object; jsonOk = it unmarshals into the target struct;
                                                      --   ka = its top-level KeepAliveSpec (trigger, interval ms), if any
  | null                                              -- Value nil (the constructor accepts nil for every type); JSON `null`
  | other                                             -- any other type/value (bool, float, array, object-typed non-object, unmarshalable)
deriving DecidableEq, Repr

structure Param where
  name : String
  val : PVal
deriving DecidableEq, Repr

structure Cmd where
  isWrite : Bool
  reqs : List String                    -- DeviceResourceName of each CommandRequest
  attrs : List (String × AttrVal)       -- Attributes of request 0
  params : List Param                   -- write parameters (empty for reads)
deriving Repr

/-! ## outputs -/

inductive Reject where
  | noRequests | countMismatch | unknownResource | extraResources | wrongCount | noAction | badId | badAction
  | unknownAction | badAttr | attrRange | badPayloadType | badBase64 | badJSON | nullObject
deriving DecidableEq, Repr

structure Request where
  typ : Nat                         -- LLRP message type code
  resp : Nat                        -- expected response type code
  id : Option Nat := none           -- ROSpecID / AccessSpecID field
  custom : Option (Nat × Nat) := none   -- (VendorID, MessageSubtype)
  payloadFrom : Option Nat := none  -- index of the parameter whose content is the payload (JSON object / base64 bytes)
  ka : Option (Nat × Nat) := none   -- KeepAliveSpec (trigger, interval ms) carried by a SetReaderConfig
deriving DecidableEq, Repr

/-! ## constants from the source -/

def slookup (k : String) : List (String × Nat) → Option Nat
  | [] => none
  | (a, b) :: r => if a = k then some b else slookup k r

/-- type code of the message named `n` in `pkg/llrp` (0 when there is no such constant; `codes_defined` in Props) -/
def code (n : String) : Nat := (slookup n Gen.msgConsts).getD 0

/-- `llrp.Millisecs32(keepAliveInterval.Milliseconds())` -/
def kaMs : Nat := (Gen.drv_keepAliveInterval / 1000000) % 4294967296
def kaPeriodic : Nat := Gen.KATriggerPeriodic

/-! ## read commands -/

/-- the resource names with a `case` in the switch of `handleReadCommands` -/
def readResources : List String :=
  [Gen.drv_ResourceReaderConfig, Gen.drv_ResourceReaderCap, Gen.drv_ResourceROSpec, Gen.drv_ResourceAccessSpec]

/-- the switch of `handleReadCommands` on one resource name: name of the request structure -/
def readMsgName (res : String) : Option String :=
  if res = Gen.drv_ResourceReaderConfig then some "GetReaderConfig"
  else if res = Gen.drv_ResourceReaderCap then some "GetReaderCapabilities"
  else if res = Gen.drv_ResourceROSpec then some "GetROSpecs"
  else if res = Gen.drv_ResourceAccessSpec then some "GetAccessSpecs"
  else none

/-- name of the response structure assigned next to a request structure -/
def respName (n : String) : String := if n = "CustomMessage" then n else n ++ "Response"

def readOne (res : String) : Except Reject Request :=
  match readMsgName res with
  | some n => .ok { typ := code n, resp := code (respName n) }
  | none => .error .unknownResource

def readAll : List String → Except Reject (List Request)
  | [] => .ok []
  | r :: rs =>
    match readOne r with
    | .error e => .error e
    | .ok q => match readAll rs with
      | .error e => .error e
      | .ok qs => .ok (q :: qs)

/-- `handleReadCommands`: one request per resource, in order; nothing is sent unless every resource is known -/
def readCmd (c : Cmd) : Except Reject (List Request) :=
  if c.reqs = [] then .error .noRequests else readAll c.reqs

/-! ## write commands -/

inductive WRes where
  | readerConfig | roSpec | accessSpec | roSpecID | accessSpecID | custom
deriving DecidableEq, Repr

/-- the resource names with a `case` in the outer switch of `handleWriteCommands` -/
def writeResources : List String :=
  [Gen.drv_ResourceReaderConfig, Gen.drv_ResourceROSpec, Gen.drv_ResourceAccessSpec, Gen.drv_ResourceROSpecID, Gen.drv_ResourceAccessSpecID]

/-- outer switch of `handleWriteCommands` on `reqs[0].DeviceResourceName` -/
def classifyW (res : String) : WRes :=
  if res = Gen.drv_ResourceReaderConfig then .readerConfig
  else if res = Gen.drv_ResourceROSpec then .roSpec
  else if res = Gen.drv_ResourceAccessSpec then .accessSpec
  else if res = Gen.drv_ResourceROSpecID then .roSpecID
  else if res = Gen.drv_ResourceAccessSpecID then .accessSpecID
  else .custom

/-- request structure assigned directly in a case of the outer switch -/
def wMsgName : WRes → Option String
  | .readerConfig => some "SetReaderConfig"
  | .roSpec => some "AddROSpec"
  | .accessSpec => some "AddAccessSpec"
  | .custom => some "CustomMessage"
  | .roSpecID | .accessSpecID => none

inductive Act where
  | enable | start | stop | disable | delete
deriving DecidableEq, Repr

def Act.all : List Act := [.enable, .start, .stop, .disable, .delete]

/-- the action's case label -/
def Act.str : Act → String
  | .enable => Gen.drv_ActionEnable | .start => Gen.drv_ActionStart | .stop => Gen.drv_ActionStop
  | .disable => Gen.drv_ActionDisable | .delete => Gen.drv_ActionDelete

def classifyA (s : String) : Option Act :=
  if s = Gen.drv_ActionEnable then some .enable
  else if s = Gen.drv_ActionStart then some .start
  else if s = Gen.drv_ActionStop then some .stop
  else if s = Gen.drv_ActionDisable then some .disable
  else if s = Gen.drv_ActionDelete then some .delete
  else none

/-- inner switch under `ROSpecID` -/
def roAction : Act → Option String
  | .enable => some "EnableROSpec" | .start => some "StartROSpec" | .stop => some "StopROSpec"
  | .disable => some "DisableROSpec" | .delete => some "DeleteROSpec"
/-- inner switch under `AccessSpecID` (LLRP has no Start/Stop for access specs) -/
def accessAction : Act → Option String
  | .enable => some "EnableAccessSpec" | .disable => some "DisableAccessSpec" | .delete => some "DeleteAccessSpec"
  | .start | .stop => none

def idMsgName (isRO : Bool) (a : Act) : Option String := if isRO then roAction a else accessAction a

def attr (m : List (String × AttrVal)) (k : String) : AttrVal :=
  match m with
  | [] => .missing
  | (a, v) :: r => if a = k then v else attr r k

/-- `getUintAttrib`: the attribute must be a non-empty string that `strconv.ParseUint(_, 10, 64)` accepts -/
def uintAttr (m : List (String × AttrVal)) (k : String) : Except Reject Nat :=
  match attr m k with
  | .numeric n => if n < 2 ^ 64 then .ok n else .error .badAttr
  | _ => .error .badAttr

/-- `json.Marshal(params[0].Value)` then `json.Unmarshal` into the target struct -/
def objectParam (p : PVal) : Except Reject (Option (Nat × Nat)) :=
  match p with
  | .obj true ka => .ok ka
  | .obj false _ => .error .badJSON
  | .null => .error .nullObject
  | _ => .error .badJSON

/-- the `ROSpecID` / `AccessSpecID` cases -/
def idAction (isRO : Bool) (ps : List Param) : Except Reject Request :=
  match ps with
  | [p0, p1] =>
    if p1.name = Gen.drv_ResourceAction then
      match p0.val with
      | .uint32 n =>
        match p1.val with
        | .str s _ =>
          match classifyA s with
          | none => .error .unknownAction
          | some a =>
            match idMsgName isRO a with
            | none => .error .unknownAction
            | some nm => .ok { typ := code nm, resp := code (respName nm), id := some n }
        | _ => .error .badAction
      | _ => .error .badId
    else .error .noAction
  | _ => .error .wrongCount

/-- the default (custom message) case -/
def customMessage (attrs : List (String × AttrVal)) (p0 : PVal) : Except Reject Request :=
  match uintAttr attrs Gen.drv_AttribVendor with
  | .error e => .error e
  | .ok vendor =>
    if vendor ≤ 4294967295 then
      match uintAttr attrs Gen.drv_AttribSubtype with
      | .error e => .error e
      | .ok subtype =>
        if subtype ≤ 255 then
          match p0 with
          | .str _ true => .ok { typ := code "CustomMessage", resp := code (respName "CustomMessage"), custom := some (vendor, subtype), payloadFrom := some 0 }
          | .str _ false => .error .badBase64
          | _ => .error .badPayloadType
        else .error .attrRange
    else .error .attrRange

/-- the object cases: `ReaderConfig`, `ROSpec`, `AccessSpec` -/
def objectMessage (nm : String) (isConfig : Bool) (p0 : PVal) : Except Reject Request :=
  match objectParam p0 with
  | .error e => .error e
  | .ok ka => .ok { typ := code nm, resp := code (respName nm), payloadFrom := some 0, ka := if isConfig then ka else none }

/-- the cases that take exactly one resource: its parameter supplies the payload -/
def single (nreqs : Nat) (ps : List Param) (f : PVal → Except Reject Request) : Except Reject Request :=
  if nreqs = 1 then
    match ps with
    | [] => .error .countMismatch
    | p0 :: _ => f p0.val
  else .error .extraResources

/-- everything after the count checks, by the class of `reqs[0].DeviceResourceName` -/
def writeCore (w : WRes) (nreqs : Nat) (attrs : List (String × AttrVal)) (ps : List Param) : Except Reject Request :=
  match w with
  | .roSpecID => idAction true ps
  | .accessSpecID => idAction false ps
  | .readerConfig => single nreqs ps (objectMessage "SetReaderConfig" true)
  | .roSpec => single nreqs ps (objectMessage "AddROSpec" false)
  | .accessSpec => single nreqs ps (objectMessage "AddAccessSpec" false)
  | .custom => single nreqs ps (customMessage attrs)

/-- `handleWriteCommands` up to (not including) `TrySend` -/
def writeCmd (c : Cmd) : Except Reject Request :=
  match c.reqs with
  | [] => .error .noRequests
  | r0 :: rs =>
    if rs.length + 1 = c.params.length then writeCore (classifyW r0) (rs.length + 1) c.attrs c.params
    else .error .countMismatch

/-! ## TrySend's SetReaderConfig rewriting -/

/-- the `if req, ok := request.(*llrp.SetReaderConfig)` block of `TrySend`, branch by branch -/
def enforceKA (r : Request) : Request :=
  if r.typ = code "SetReaderConfig" then
    match r.ka with
    | some (trig, ival) =>
      if ival ≠ kaMs ∨ trig ≠ kaPeriodic then { r with ka := some (kaPeriodic, kaMs) } else r
    | none => { r with ka := some (kaPeriodic, kaMs) }
  else r

/-- what a write command puts on the wire -/
def sendWrite (c : Cmd) : Except Reject Request := (writeCmd c).map enforceKA
def sendRead (c : Cmd) : Except Reject (List Request) := (readCmd c).map (·.map enforceKA)

/-! ## the documentation (README.md, "Device Profiles, Custom LLRP Messages, and Service Limitations") as data -/
namespace Doc

/-- read a resource: resource name ↦ LLRP message sent -/
def reads : List (String × String) := [
  ("ReaderCapabilities", "GetReaderCapabilities"),
  ("ReaderConfig", "GetReaderConfig"),
  ("ROSpec", "GetROSpecs"),
  ("AccessSpec", "GetAccessSpecs")]

/-- write a resource of the same name: "To add an ROSpec or AccessSpec, or to set the ReaderConfig …" -/
def writes : List (String × String) := [
  ("ReaderConfig", "SetReaderConfig"),
  ("ROSpec", "AddROSpec"),
  ("AccessSpec", "AddAccessSpec")]

/-- ID resource first, then the pseudo-resource `Action`: "Enable, Start, Stop, Disable, and Delete ROSpecs.
Enable, Disable, and Delete AccessSpecs." -/
def actions : List ((String × String) × String) := [
  (("ROSpecID", "Enable"), "EnableROSpec"),
  (("ROSpecID", "Start"), "StartROSpec"),
  (("ROSpecID", "Stop"), "StopROSpec"),
  (("ROSpecID", "Disable"), "DisableROSpec"),
  (("ROSpecID", "Delete"), "DeleteROSpec"),
  (("AccessSpecID", "Enable"), "EnableAccessSpec"),
  (("AccessSpecID", "Disable"), "DisableAccessSpec"),
  (("AccessSpecID", "Delete"), "DeleteAccessSpec")]

/-- "the service handles write requests on deviceResources with names other than those defined above. It assumes
these resources are accessible via CustomMessage (Message Type 1023)" -/
def customMsg : String := "CustomMessage"

/-- names with a documented write meaning of their own -/
def reservedWrite : List String := ["ReaderConfig", "ROSpec", "AccessSpec", "ROSpecID", "AccessSpecID"]

def find {α} [DecidableEq α] (k : α) : List (α × String) → Option String
  | [] => none
  | (a, b) :: r => if k = a then some b else find k r

/-- the whole table: (isWrite, resource, action) ↦ message name. `action` is ignored unless the resource is an ID. -/
def table (isWrite : Bool) (res : String) (action : Option String) : Option String :=
  if !isWrite then find res reads
  else if res = "ROSpecID" ∨ res = "AccessSpecID" then
    match action with
    | some a => find (res, a) actions
    | none => none
  else match find res writes with
    | some m => some m
    | none => if res ∈ reservedWrite then none else some customMsg

/-- every row, as (isWrite, resource, action, message) with a representative custom resource name -/
def rows : List (Bool × String × Option String × String) :=
  reads.map (fun (r, m) => (false, r, none, m)) ++
  writes.map (fun (r, m) => (true, r, none, m)) ++
  actions.map (fun ((r, a), m) => (true, r, some a, m)) ++
  [(true, "MyCustomMessage", none, customMsg)]

end Doc

/-- the `Action` string of a write command (value of the second parameter, when it is a string) -/
def Cmd.action (c : Cmd) : Option String :=
  match c.params with
  | [_, ⟨_, .str s _⟩] => some s
  | _ => none

def Cmd.res0 (c : Cmd) : String := c.reqs.headD ""

/-! ## what the documentation requires of a command -/

def isUint32 : PVal → Bool | .uint32 _ => true | _ => false
def isGoodObject : PVal → Bool | .obj true _ => true | _ => false
def isGoodBase64 : PVal → Bool | .str _ true => true | _ => false
def goodAttr (m : List (String × AttrVal)) (k : String) (max : Nat) : Bool :=
  match attr m k with
  | .numeric n => n ≤ max
  | _ => false

/-- A well-formed command, from the README:
* read: at least one resource, each one of the four readable names;
* write of `ReaderConfig` / `ROSpec` / `AccessSpec`: exactly that one resource with a JSON object that decodes into the structure;
* write of `ROSpecID` / `AccessSpecID`: exactly two resources, the ID first as a `uint32`, then `Action`, a string naming
  one of the actions LLRP has for that kind of spec;
* write of any other name: exactly that one resource, `vendor` ≤ 2^32−1 and `subtype` ≤ 255 attributes given as decimal
  strings, parameter a base64 string;
* as many parameters as resources. -/
def wellFormed (c : Cmd) : Bool :=
  if !c.isWrite then
    !c.reqs.isEmpty && c.reqs.all (fun r => (Doc.find r Doc.reads).isSome)
  else
    c.reqs.length == c.params.length &&
    match c.reqs, c.params with
    | [r], [p] =>
      if r = "ReaderConfig" ∨ r = "ROSpec" ∨ r = "AccessSpec" then isGoodObject p.val
      else if r = "ROSpecID" ∨ r = "AccessSpecID" then false
      else goodAttr c.attrs "vendor" 4294967295 && goodAttr c.attrs "subtype" 255 && isGoodBase64 p.val
    | [r, _], [p0, p1] =>
      (r = "ROSpecID" ∨ r = "AccessSpecID") && p1.name == "Action" && isUint32 p0.val &&
      match p1.val with
      | .str s _ => (Doc.find (r, s) Doc.actions).isSome
      | _ => false
    | _, _ => false

/-! ## the model's switch cases, in the shape of `Gen.cmdCasesT` (tie theorem `C14.switch_matches_model`) -/

def q (s : String) : String := "\"" ++ s ++ "\""
def rdFn : String := "Driver.handleReadCommands"
def wrFn : String := "Driver.handleWriteCommands"
def orEmpty : Option String → String
  | some s => s
  | none => ""

/-- (function, enclosing case, case label, request struct, response struct) for every case the model has -/
def modelRows : List (String × String × String × String × String) :=
  [(rdFn, "", "<default>", "", "")] ++
  readResources.map (fun r => (rdFn, "", q r, orEmpty (readMsgName r), orEmpty ((readMsgName r).map respName))) ++
  [(wrFn, "", "<default>", orEmpty (wMsgName .custom), orEmpty ((wMsgName .custom).map respName))] ++
  writeResources.map (fun r => (wrFn, "", q r, orEmpty (wMsgName (classifyW r)), orEmpty ((wMsgName (classifyW r)).map respName))) ++
  [(wrFn, "/" ++ q Gen.drv_ResourceROSpecID, "<default>", "", "")] ++
  (Act.all.filter (fun a => (idMsgName true a).isSome)).map
    (fun a => (wrFn, "/" ++ q Gen.drv_ResourceROSpecID, q a.str, orEmpty (idMsgName true a), orEmpty ((idMsgName true a).map respName))) ++
  [(wrFn, "/" ++ q Gen.drv_ResourceAccessSpecID, "<default>", "", "")] ++
  (Act.all.filter (fun a => (idMsgName false a).isSome)).map
    (fun a => (wrFn, "/" ++ q Gen.drv_ResourceAccessSpecID, q a.str, orEmpty (idMsgName false a), orEmpty ((idMsgName false a).map respName)))

def extractedRows : List (String × String × String × String × String) :=
  Gen.cmdCasesT.map (fun r => (r.fn, r.outer, r.labels, r.reqType, r.respType))

/-- rows present on one side only (diagnostics for a broken `switch_matches_model`) -/
def switchDiff : List (String × String × String × String × String) × List (String × String × String × String × String) :=
  (modelRows.filter (fun r => !extractedRows.contains r), extractedRows.filter (fun r => !modelRows.contains r))

end LLRP.Command
