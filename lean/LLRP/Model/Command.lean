import LLRP.Gen.Consts
import LLRP.Gen.Cmd
/-!
# Command mapping (C14): EdgeX device commands → LLRP requests

Executable model of `Driver.handleReadCommands` / `Driver.handleWriteCommands` (internal/driver/driver.go) and of the
`SetReaderConfig` rewriting at the top of `LLRPDevice.TrySend` (internal/driver/device.go), branch by branch.
Core Lean only. Resource/action/attribute names and message type codes are the regenerated `LLRP.Gen` constants.

What is abstracted:
* attribute values and parameter values are *kinds* (what the code can distinguish): see `AttrVal`, `PVal`;
* a request is its message type code, the expected response type code, the ID field, the custom vendor/subtype,
  which parameter supplies the payload and (for `SetReaderConfig`) the `KeepAliveSpec` it carries;
* errors carry a reason (`Reject`) but the correspondence compares only `reject`.
-/
namespace LLRP.Command
open LLRP

/-! ## inputs -/

/-- value of an attribute of `reqs[0].Attributes` (a `map[string]interface{}`) as the code can distinguish it -/
inductive AttrVal where
  | missing            -- key absent (Go: nil interface)
  | emptyString        -- ""
  | nonString          -- any non-string Go value (int, bool, map …)
  | numeric (n : Nat)  -- a string of decimal digits with value n (n may exceed 2^64: then ParseUint fails)
  | nonNumericString   -- any other non-empty string ("x", "-1", "1.5", "0x10", " 5", "+5")
deriving DecidableEq, Repr

/-- value of a `*CommandValue` parameter built with the SDK constructors -/
inductive PVal where
  | uint32 (n : Nat)                                  -- Type Uint32, Value uint32(n)
  | str (s : String) (b64 : Bool)                     -- Type String, Value s; b64 = s is valid std base64
  | obj (jsonOk : Bool) (ka : Option (Nat × Nat))     -- Type Object, Value a JSON object; jsonOk = it unmarshals into the target struct;
                                                      --   ka = its top-level KeepAliveSpec (trigger, interval ms), if any
  | null                                              -- Value nil (the constructor accepts nil for every type); JSON `null`
  | other                                             -- any other type/value (bool, float, array, object-typed non-object, unmarshalable)
deriving DecidableEq, Repr

structure Param where
  name : String
  val : PVal
deriving DecidableEq, Repr

structure Cmd where
  isWrite : Bool
  reqs : List String                    -- DeviceResourceName of each CommandRequest
  attrs : List (String × AttrVal)       -- Attributes of request 0
  params : List Param                   -- write parameters (empty for reads)
deriving Repr

/-! ## outputs -/

inductive Reject where
  | noRequests | countMismatch | unknownResource | extraResources | wrongCount | noAction | badId | badAction
  | unknownAction | badAttr | attrRange | badPayloadType | badBase64 | badJSON | nullObject
deriving DecidableEq, Repr

structure Request where
  typ : Nat                         -- LLRP message type code
  resp : Nat                        -- expected response type code
  id : Option Nat := none           -- ROSpecID / AccessSpecID field
  custom : Option (Nat × Nat) := none   -- (VendorID, MessageSubtype)
  payloadFrom : Option Nat := none  -- index of the parameter whose content is the payload (JSON object / base64 bytes)
  ka : Option (Nat × Nat) := none   -- KeepAliveSpec (trigger, interval ms) carried by a SetReaderConfig
deriving DecidableEq, Repr

/-! ## constants from the source -/

def slookup (k : String) : List (String × Nat) → Option Nat
  | [] => none
  | (a, b) :: r => if a = k then some b else slookup k r

/-- type code of the message named `n` in `pkg/llrp` (0 when there is no such constant; `codes_defined` in Props) -/
def code (n : String) : Nat := (slookup n Gen.msgConsts).getD 0

/-- `llrp.Millisecs32(keepAliveInterval.Milliseconds())` -/
def kaMs : Nat := (Gen.drv_keepAliveInterval / 1000000) % 4294967296
def kaPeriodic : Nat := Gen.KATriggerPeriodic

/-! ## read commands -/

/-- the switch of `handleReadCommands` on one resource name: message name -/
def readMsgName (res : String) : Option String :=
  if res = Gen.drv_ResourceReaderConfig then some "GetReaderConfig"
  else if res = Gen.drv_ResourceReaderCap then some "GetReaderCapabilities"
  else if res = Gen.drv_ResourceROSpec then some "GetROSpecs"
  else if res = Gen.drv_ResourceAccessSpec then some "GetAccessSpecs"
  else none

def readOne (res : String) : Except Reject Request :=
  match readMsgName res with
  | some n => .ok { typ := code n, resp := code (n ++ "Response") }
  | none => .error .unknownResource

/-- `handleReadCommands`: one request per resource, in order; nothing is sent unless every resource is known -/
def readCmd (c : Cmd) : Except Reject (List Request) :=
  if c.reqs.isEmpty then .error .noRequests
  else c.reqs.mapM readOne

/-! ## write commands -/

inductive WRes where
  | readerConfig | roSpec | accessSpec | roSpecID | accessSpecID | custom
deriving DecidableEq, Repr

/-- outer switch of `handleWriteCommands` on `reqs[0].DeviceResourceName` -/
def classifyW (res : String) : WRes :=
  if res = Gen.drv_ResourceReaderConfig then .readerConfig
  else if res = Gen.drv_ResourceROSpec then .roSpec
  else if res = Gen.drv_ResourceAccessSpec then .accessSpec
  else if res = Gen.drv_ResourceROSpecID then .roSpecID
  else if res = Gen.drv_ResourceAccessSpecID then .accessSpecID
  else .custom

inductive Act where
  | enable | start | stop | disable | delete
deriving DecidableEq, Repr

def classifyA (s : String) : Option Act :=
  if s = Gen.drv_ActionEnable then some .enable
  else if s = Gen.drv_ActionStart then some .start
  else if s = Gen.drv_ActionStop then some .stop
  else if s = Gen.drv_ActionDisable then some .disable
  else if s = Gen.drv_ActionDelete then some .delete
  else none

def Act.verb : Act → String
  | .enable => "Enable" | .start => "Start" | .stop => "Stop" | .disable => "Disable" | .delete => "Delete"

/-- inner switch under `ROSpecID` -/
def roAction (a : Act) : Option String := some (a.verb ++ "ROSpec")
/-- inner switch under `AccessSpecID` (LLRP has no Start/Stop for access specs) -/
def accessAction : Act → Option String
  | .enable => some "EnableAccessSpec" | .disable => some "DisableAccessSpec" | .delete => some "DeleteAccessSpec"
  | _ => none

def attr (m : List (String × AttrVal)) (k : String) : AttrVal :=
  match m with
  | [] => .missing
  | (a, v) :: r => if a = k then v else attr r k

/-- `getUintAttrib`: the attribute must be a non-empty string that `strconv.ParseUint(_, 10, 64)` accepts -/
def uintAttr (m : List (String × AttrVal)) (k : String) : Except Reject Nat :=
  match attr m k with
  | .numeric n => if n < 2 ^ 64 then .ok n else .error .badAttr
  | _ => .error .badAttr

/-- `json.Marshal(params[0].Value)` then `json.Unmarshal` into the target struct -/
def objectParam (p : PVal) : Except Reject (Option (Nat × Nat)) :=
  match p with
  | .obj true ka => .ok ka
  | .obj false _ => .error .badJSON
  | .null => .error .nullObject
  | _ => .error .badJSON

def idAction (isRO : Bool) (ps : List Param) : Except Reject Request :=
  match ps with
  | [p0, p1] =>
    if p1.name ≠ Gen.drv_ResourceAction then .error .noAction
    else match p0.val with
      | .uint32 n =>
        match p1.val with
        | .str s _ =>
          match classifyA s with
          | none => .error .unknownAction
          | some a =>
            match (if isRO then roAction a else accessAction a) with
            | none => .error .unknownAction
            | some nm => .ok { typ := code nm, resp := code (nm ++ "Response"), id := some n }
        | _ => .error .badAction
      | _ => .error .badId
  | _ => .error .wrongCount

/-- `handleWriteCommands` up to (not including) `TrySend` -/
def writeCmd (c : Cmd) : Except Reject Request :=
  match c.reqs, c.params with
  | [], _ => .error .noRequests
  | r0 :: rs, ps =>
    if (r0 :: rs).length ≠ ps.length then .error .countMismatch
    else match ps with
    | [] => .error .countMismatch
    | p0 :: _ =>
      match classifyW r0 with
      | .roSpecID => idAction true ps
      | .accessSpecID => idAction false ps
      | w =>
        if rs ≠ [] then .error .extraResources
        else match w with
        | .readerConfig => do
            let ka ← objectParam p0.val
            pure { typ := code "SetReaderConfig", resp := code "SetReaderConfigResponse", payloadFrom := some 0, ka := ka }
        | .roSpec => do
            let _ ← objectParam p0.val
            pure { typ := code "AddROSpec", resp := code "AddROSpecResponse", payloadFrom := some 0 }
        | .accessSpec => do
            let _ ← objectParam p0.val
            pure { typ := code "AddAccessSpec", resp := code "AddAccessSpecResponse", payloadFrom := some 0 }
        | _ => do
            let vendor ← uintAttr c.attrs Gen.drv_AttribVendor
            if vendor > 4294967295 then throw .attrRange
            let subtype ← uintAttr c.attrs Gen.drv_AttribSubtype
            if subtype > 255 then throw .attrRange
            match p0.val with
            | .str _ true => pure { typ := code "CustomMessage", resp := code "CustomMessage", custom := some (vendor, subtype), payloadFrom := some 0 }
            | .str _ false => throw .badBase64
            | _ => throw .badPayloadType

/-! ## TrySend's SetReaderConfig rewriting -/

/-- the `if req, ok := request.(*llrp.SetReaderConfig)` block of `TrySend`, branch by branch -/
def enforceKA (r : Request) : Request :=
  if r.typ = code "SetReaderConfig" then
    match r.ka with
    | some (trig, ival) =>
      if ival ≠ kaMs ∨ trig ≠ kaPeriodic then { r with ka := some (kaPeriodic, kaMs) } else r
    | none => { r with ka := some (kaPeriodic, kaMs) }
  else r

/-- what a write command puts on the wire -/
def sendWrite (c : Cmd) : Except Reject Request := (writeCmd c).map enforceKA
def sendRead (c : Cmd) : Except Reject (List Request) := (readCmd c).map (·.map enforceKA)

/-! ## the documentation (README.md, "Device Profiles, Custom LLRP Messages, and Service Limitations") as data -/
namespace Doc

/-- read a resource: resource name ↦ LLRP message sent -/
def reads : List (String × String) := [
  ("ReaderCapabilities", "GetReaderCapabilities"),
  ("ReaderConfig", "GetReaderConfig"),
  ("ROSpec", "GetROSpecs"),
  ("AccessSpec", "GetAccessSpecs")]

/-- write a resource of the same name: "To add an ROSpec or AccessSpec, or to set the ReaderConfig …" -/
def writes : List (String × String) := [
  ("ReaderConfig", "SetReaderConfig"),
  ("ROSpec", "AddROSpec"),
  ("AccessSpec", "AddAccessSpec")]

/-- ID resource first, then the pseudo-resource `Action`: "Enable, Start, Stop, Disable, and Delete ROSpecs.
Enable, Disable, and Delete AccessSpecs." -/
def actions : List ((String × String) × String) := [
  (("ROSpecID", "Enable"), "EnableROSpec"),
  (("ROSpecID", "Start"), "StartROSpec"),
  (("ROSpecID", "Stop"), "StopROSpec"),
  (("ROSpecID", "Disable"), "DisableROSpec"),
  (("ROSpecID", "Delete"), "DeleteROSpec"),
  (("AccessSpecID", "Enable"), "EnableAccessSpec"),
  (("AccessSpecID", "Disable"), "DisableAccessSpec"),
  (("AccessSpecID", "Delete"), "DeleteAccessSpec")]

/-- "the service handles write requests on deviceResources with names other than those defined above. It assumes
these resources are accessible via CustomMessage (Message Type 1023)" -/
def customMsg : String := "CustomMessage"

/-- names with a documented write meaning of their own -/
def reservedWrite : List String := ["ReaderConfig", "ROSpec", "AccessSpec", "ROSpecID", "AccessSpecID"]

def find {α} [DecidableEq α] (k : α) : List (α × String) → Option String
  | [] => none
  | (a, b) :: r => if a = k then some b else find k r

/-- the whole table: (isWrite, resource, action) ↦ message name. `action` is ignored unless the resource is an ID. -/
def table (isWrite : Bool) (res : String) (action : Option String) : Option String :=
  if !isWrite then find res reads
  else if res = "ROSpecID" ∨ res = "AccessSpecID" then
    match action with
    | some a => find (res, a) actions
    | none => none
  else match find res writes with
    | some m => some m
    | none => if res ∈ reservedWrite then none else some customMsg

/-- every row, as (isWrite, resource, action, message) with a representative custom resource name -/
def rows : List (Bool × String × Option String × String) :=
  reads.map (fun (r, m) => (false, r, none, m)) ++
  writes.map (fun (r, m) => (true, r, none, m)) ++
  actions.map (fun ((r, a), m) => (true, r, some a, m)) ++
  [(true, "MyCustomMessage", none, customMsg)]

end Doc

/-- the `Action` string of a write command (value of the second parameter, when it is a string) -/
def Cmd.action (c : Cmd) : Option String :=
  match c.params with
  | [_, ⟨_, .str s _⟩] => some s
  | _ => none

def Cmd.res0 (c : Cmd) : String := c.reqs.headD ""

/-! ## what the documentation requires of a command -/

def isUint32 : PVal → Bool | .uint32 _ => true | _ => false
def isGoodObject : PVal → Bool | .obj true _ => true | _ => false
def isGoodBase64 : PVal → Bool | .str _ true => true | _ => false
def goodAttr (m : List (String × AttrVal)) (k : String) (max : Nat) : Bool :=
  match attr m k with
  | .numeric n => n ≤ max
  | _ => false

/-- A well-formed command, from the README:
* read: at least one resource, each one of the four readable names;
* write of `ReaderConfig` / `ROSpec` / `AccessSpec`: exactly that one resource with a JSON object that decodes into the structure;
* write of `ROSpecID` / `AccessSpecID`: exactly two resources, the ID first as a `uint32`, then `Action`, a string naming
  one of the actions LLRP has for that kind of spec;
* write of any other name: exactly that one resource, `vendor` ≤ 2^32−1 and `subtype` ≤ 255 attributes given as decimal
  strings, parameter a base64 string;
* as many parameters as resources. -/
def wellFormed (c : Cmd) : Bool :=
  if !c.isWrite then
    !c.reqs.isEmpty && c.reqs.all (fun r => (Doc.find r Doc.reads).isSome)
  else
    c.reqs.length == c.params.length &&
    match c.reqs, c.params with
    | [r], [p] =>
      if r = "ReaderConfig" ∨ r = "ROSpec" ∨ r = "AccessSpec" then isGoodObject p.val
      else if r = "ROSpecID" ∨ r = "AccessSpecID" then false
      else goodAttr c.attrs "vendor" 4294967295 && goodAttr c.attrs "subtype" 255 && isGoodBase64 p.val
    | [r, _], [p0, p1] =>
      (r = "ROSpecID" ∨ r = "AccessSpecID") && p1.name == "Action" && isUint32 p0.val &&
      match p1.val with
      | .str s _ => (Doc.find (r, s) Doc.actions).isSome
      | _ => false
    | _, _ => false

end LLRP.Command
