import LLRP.Model.Bytes
import LLRP.Model.Schema
/-!
Generic, table-driven model of the LLRP binary codec that `generate_param_code.py` emits for every message and
parameter of `messages.yaml` (generated_{encoder,marshal,unmarshal}.go + msg_builder.go).

* `Val` is struct-shaped: field values, then one list of sub-values per slot (0/1/many).
* `encode` mirrors `getHeader` (sizes in 16-bit arithmetic) + `encodeParams` + `EncodeFields`.
* `decode` mirrors the unmarshal templates with every read guarded: a read past the end is `none` (error), which is
  the behaviour of the repaired templates (on the unrepaired tree Go panics exactly where a guard was missing — C11).
  Recursion is on explicit fuel; `decode` starts with fuel linear in the input length.
Attributes the generator derives (`min_size`, `fixed_size`, header size, grouping of consecutive slots) are computed
here from the raw table by the generator's rules, quirks included.
-/
namespace LLRP

inductive FVal where
  | num (n : Int)                 -- scalar; bool as 0/1
  | bytes (b : Bytes)             -- []byte-like: fixedArr/arr of 1-byte elements, str, rest
  | nums (l : List Nat)           -- arrays of multi-byte elements
  | bits (n : Nat) (b : Bytes)    -- bit array: bit count + bytes
deriving DecidableEq, Repr, Inhabited

inductive Val where
  | node (fs : List FVal) (subs : List (List Val))
deriving Repr, Inhabited

/-- the encoder's "present?" test for a by-value member of a choice group fails: an inlined scalar that is 0, or a
struct one of whose slice-typed fields is nil (empty) -/
def FVal.isEmpty : FVal → Bool
  | .bytes b => b.isEmpty
  | .nums l => l.isEmpty
  | .bits _ b => b.isEmpty
  | .num _ => false
def Val.zeroLike (inline : Bool) : Val → Bool
  | .node fs _ => if inline then (match fs with | [.num 0] => true | _ => false) else fs.any FVal.isEmpty

/-! ## derived attributes (generator rules) -/

def Container.isTLV (c : Container) : Bool := c.typeId ≥ 128
def Container.headerSize (c : Container) : Nat := if c.isMsg then 0 else if c.isTLV then 4 else 1

def FKind.minSize : FKind → Nat
  | .scalar size _ _ part _ _ => if part then 0 else size
  | .pad size => size
  | .fixedArr elem len => elem * len
  | .arr _ => 2
  | .str => 2
  | .bitArr => 2
  | .rest => 0

def FKind.isFixed : FKind → Bool
  | .scalar .. | .pad _ | .fixedArr .. => true
  | _ => false

def Slot.exactlyOne (s : Slot) : Bool := !(s.optional || s.repeatable || s.group.isSome)
/-- member of a mutually exclusive choice group (exactly one of the group is present) -/
def Slot.isChoice (s : Slot) : Bool := s.group.isSome && !s.optional && !s.repeatable

/-- `can_inline`: a parameter with a single fixed scalar field and no sub-parameters is a named scalar in Go -/
def Container.canInline (c : Container) : Bool :=
  !c.isMsg && c.slots.isEmpty && match c.fields with
    | [f] => (match f.kind with | .scalar .. => true | _ => false)
    | _ => false

def Container.empty (c : Container) : Bool := c.fields.isEmpty && c.slots.isEmpty

/-- consecutive slots with the same key, as `itertools.groupby` does -/
def groupRuns {α β} [BEq β] (key : α → β) : List α → List (List α)
  | [] => []
  | x :: xs =>
    match groupRuns key xs with
    | (y :: ys) :: rest => if key x == key y then (x :: y :: ys) :: rest else [x] :: (y :: ys) :: rest
    | _ => [[x]]

/-- `fixed_size` with fuel (the table has no cycle through required parameters) -/
def fixedSizeF (S : Schema) : Nat → Container → Bool
  | 0, _ => false
  | fuel+1, c =>
    c.fields.all (·.kind.isFixed) &&
    c.slots.all fun s => s.exactlyOne && match S.param? s.ty with
      | some p => fixedSizeF S fuel p
      | none => false

/-- `min_size` of a parameter (header included) by `set_param_sizes`, quirk included: consecutive non-optional
slots with the same (optional, group) key contribute only the minimum of their sizes -/
def paramMinSizeF (S : Schema) : Nat → Container → Nat
  | 0, c => c.headerSize
  | fuel+1, c =>
    let fs := (c.fields.map (·.kind.minSize)).sum
    let groups := groupRuns (fun (s : Slot) => (s.optional, s.group)) c.slots
    let ps := groups.map fun g =>
      match g with
      | [] => 0
      | s :: _ =>
        if s.optional then 0
        else
          let sizes := g.map fun s' => match S.param? s'.ty with
            | some p => paramMinSizeF S fuel p
            | none => 0
          sizes.foldl Nat.min (sizes.headD 0)
    c.headerSize + fs + ps.sum

def Schema.fuel (S : Schema) : Nat := S.length + 1
def fixedSize (S : Schema) (c : Container) : Bool := fixedSizeF S S.fuel c
def paramMinSize (S : Schema) (c : Container) : Nat := paramMinSizeF S S.fuel c

/-- `min_size` of a message by `set_msg_sizes`: fields + every non-optional parameter -/
def msgMinSize (S : Schema) (c : Container) : Nat :=
  (c.fields.map (·.kind.minSize)).sum +
    ((c.slots.filter (!·.optional)).map fun s => match S.param? s.ty with
      | some p => paramMinSize S p
      | none => 0).sum

def minSize (S : Schema) (c : Container) : Nat := if c.isMsg then msgMinSize S c else paramMinSize S c

/-- `should_check_leftover` -/
def checkLeftover (S : Schema) (c : Container) : Bool :=
  if fixedSize S c then false
  else if c.slots.isEmpty then
    match c.fields.getLast? with
    | none => false
    | some f => f.kind != .rest
  else true

/-! ## encoding -/

def wrap16 (n : Nat) : Nat := n % 65536

/-- two's complement of an `Int` in `size` bytes, big-endian — what Go's `byte(v>>k)` chain writes -/
def putInt (size : Nat) (v : Int) : Bytes :=
  let n := (v % (256 ^ size : Nat)).toNat
  (List.range size).map fun i => byte (n / 256 ^ (size - 1 - i))

def putNat (size : Nat) (n : Nat) : Bytes :=
  (List.range size).map fun i => byte (n / 256 ^ (size - 1 - i))

/-- the byte a packed (sub-byte) scalar contributes: `byte(v) << ((8 - bits) - bit)` in uint8 arithmetic -/
def packedPart (bits bit : Nat) (v : Int) : Nat :=
  (((v % 256).toNat) * 2 ^ ((8 - bits) - bit)) % 256

/-- `EncodeFields`: `acc` carries the partial byte of a packed group -/
def encFields : List Field → List FVal → Nat → Bytes
  | [], _, _ => []
  | f :: fs, vs, acc =>
    match f.kind with
    | .pad size => List.replicate size 0 ++ encFields fs vs 0
    | .scalar size bits bit part _ _ =>
      match vs with
      | .num v :: vs' =>
        if bits = 8 then putInt size v ++ encFields fs vs' 0
        else
          let b := acc ||| packedPart bits bit v
          if part then encFields fs vs' b else byte b :: encFields fs vs' 0
      | _ => []
    | .fixedArr _ _ =>
      match vs with
      | .bytes b :: vs' => b ++ encFields fs vs' 0
      | _ => []
    | .arr elem =>
      match vs with
      | .bytes b :: vs' => put16 b.length ++ b ++ encFields fs vs' 0
      | .nums l :: vs' => put16 l.length ++ l.flatMap (putNat elem) ++ encFields fs vs' 0
      | _ => []
    | .str =>
      match vs with
      | .bytes b :: vs' => put16 b.length ++ b ++ encFields fs vs' 0
      | _ => []
    | .bitArr =>
      match vs with
      | .bits n b :: vs' => put16 n ++ b ++ encFields fs vs' 0
      | _ => []
    | .rest =>
      match vs with
      | .bytes b :: vs' => b ++ encFields fs vs' 0
      | _ => []

/-- the `sz` contribution of the fields as `getHeader` computes it (before the 16-bit wrap) -/
def fieldsSz : List Field → List FVal → Nat
  | [], _ => 0
  | f :: fs, vs =>
    match f.kind with
    | .pad size => size + fieldsSz fs vs
    | .scalar size _ _ part _ _ =>
      match vs with
      | _ :: vs' => (if part then 0 else size) + fieldsSz fs vs'
      | [] => 0
    | .fixedArr elem len => elem * len + fieldsSz fs vs.tail
    | .arr elem =>
      match vs with
      | .bytes b :: vs' => 2 + wrap16 (b.length * elem) + fieldsSz fs vs'
      | .nums l :: vs' => 2 + wrap16 (l.length * elem) + fieldsSz fs vs'
      | _ => 0
    | .str =>
      match vs with
      | .bytes b :: vs' => 2 + wrap16 b.length + fieldsSz fs vs'
      | _ => 0
    | .bitArr =>
      match vs with
      | .bits n _ :: vs' => 2 + wrap16 ((n + 7) / 8) + fieldsSz fs vs'
      | _ => 0
    | .rest =>
      match vs with
      | .bytes b :: vs' => wrap16 b.length + fieldsSz fs vs'
      | _ => 0

mutual
/-- encoded parameter: header (TV: `0x80|type`; TLV: type, 16-bit size) ++ fields ++ sub-parameters -/
def encParam (S : Schema) : Nat → String → Val → Bytes
  | 0, _, _ => []
  | fuel+1, ty, .node fs subs =>
    match S.param? ty with
    | none => []
    | some c =>
      let body := encFields c.fields fs 0 ++ encSlots S fuel c.slots subs none
      if c.isTLV then
        let sz := wrap16 (4 + fieldsSz c.fields fs + szSlots S fuel c.slots subs none)
        [byte (c.typeId / 256), byte c.typeId] ++ put16 sz ++ body
      else byte (c.typeId ||| 128) :: body
/-- sub-parameters in slot order; in a mutually exclusive choice group only the first present member is written
(`done` = the group already served) -/
def encSlots (S : Schema) : Nat → List Slot → List (List Val) → Option String → Bytes
  | 0, _, _, _ => []
  | _, [], _, _ => []
  | _, _, [], _ => []
  | fuel+1, s :: ss, vs :: vss, done =>
    if s.isChoice then
      if done == s.group || vs.isEmpty then encSlots S fuel ss vss done
      else encList S fuel s.ty (vs.take 1) ++ encSlots S fuel ss vss s.group
    else encList S fuel s.ty vs ++ encSlots S fuel ss vss none
def encList (S : Schema) : Nat → String → List Val → Bytes
  | 0, _, _ => []
  | _, _, [] => []
  | fuel+1, ty, v :: vs => encParam S fuel ty v ++ encList S fuel ty vs
/-- `paramHeader.sz` as the generated `getHeader` computes it: 16-bit additions of the sub-headers' (wrapped) sizes -/
def szParam (S : Schema) : Nat → String → Val → Nat
  | 0, _, _ => 0
  | fuel+1, ty, .node fs subs =>
    match S.param? ty with
    | none => 0
    | some c => wrap16 (c.headerSize + fieldsSz c.fields fs + szSlots S fuel c.slots subs none)
def szSlots (S : Schema) : Nat → List Slot → List (List Val) → Option String → Nat
  | 0, _, _, _ => 0
  | _, [], _, _ => 0
  | _, _, [], _ => 0
  | fuel+1, s :: ss, vs :: vss, done =>
    if s.isChoice then
      if done == s.group || vs.isEmpty then szSlots S fuel ss vss done
      else szList S fuel s.ty (vs.take 1) + szSlots S fuel ss vss s.group
    else szList S fuel s.ty vs + szSlots S fuel ss vss none
def szList (S : Schema) : Nat → String → List Val → Nat
  | 0, _, _ => 0
  | _, _, [] => 0
  | fuel+1, ty, v :: vs => szParam S fuel ty v + szList S fuel ty vs
end

mutual
def Val.depth : Val → Nat
  | .node _ subs => 3 + Val.depthSlots subs
def Val.depthSlots : List (List Val) → Nat
  | [] => 0
  | vs :: vss => max (1 + Val.depthList vs) (1 + Val.depthSlots vss)
def Val.depthList : List Val → Nat
  | [] => 0
  | v :: vs => max (1 + v.depth) (1 + Val.depthList vs)
end

mutual
def Val.size : Val → Nat
  | .node _ subs => 1 + Val.sizeSlots subs
def Val.sizeSlots : List (List Val) → Nat
  | [] => 0
  | vs :: vss => 1 + Val.sizeList vs + Val.sizeSlots vss
def Val.sizeList : List Val → Nat
  | [] => 0
  | v :: vs => 1 + v.size + Val.sizeList vs
end

/-- `MarshalBinary` of a message (payload only) or of a parameter (its header stripped) -/
def encode (S : Schema) (c : Container) (v : Val) : Bytes :=
  match v with
  | .node fs subs =>
    let fuel := 3 * v.size + 3
    encFields c.fields fs 0 ++ encSlots S fuel c.slots subs none

/-! ## well-formed values -/

def FKind.fitsVal : FKind → FVal → Bool
  | .scalar size bits _ _ signed isBool, .num n =>
    let w := 8 * (size - 1) + bits
    if isBool then n == 0 || n == 1
    else if signed then decide (-(2 : Int) ^ (w - 1) ≤ n ∧ n < (2 : Int) ^ (w - 1))
    else decide (0 ≤ n ∧ n < (2 : Int) ^ w)
  | .fixedArr elem len, .bytes b => b.length == elem * len
  | .arr elem, .bytes b => elem == 1 && decide (b.length < 65536)
  | .arr elem, .nums l => elem != 1 && decide (l.length * elem < 65536) && l.all (fun n => decide (n < 256 ^ elem))
  | .str, .bytes b => decide (b.length < 65536)
  | .bitArr, .bits n b => decide (n < 65536) && b.length == (n + 7) / 8
  | .rest, .bytes b => decide (b.length < 65536)
  | _, _ => false

/-- field values match the field list (pads carry no value) -/
def fitsFields : List Field → List FVal → Bool
  | [], [] => true
  | f :: fs, vs =>
    match f.kind with
    | .pad _ => fitsFields fs vs
    | k => match vs with
      | v :: vs' => k.fitsVal v && fitsFields fs vs'
      | [] => false
  | [], _ :: _ => false

mutual
/-- `v` is a well-formed value of parameter type `ty` whose encoding (header included) is shorter than 2^16 -/
def fitsParam (S : Schema) : Nat → String → Val → Bool
  | 0, _, _ => false
  | fuel+1, ty, .node fs subs =>
    match S.param? ty with
    | none => false
    | some c =>
      fitsFields c.fields fs && fitsSlots S fuel c.slots subs none &&
        decide (c.headerSize + fieldsSz c.fields fs + szSlots S fuel c.slots subs none < 65536)
/-- cardinalities: required = 1, optional ≤ 1, repeatable any (required repeatable: at least 1, as the table's `1..n`); in a choice group exactly one member is present and it
passes the encoder's "present?" test. `open` = a choice group whose member has not been seen yet / `served` -/
def fitsSlots (S : Schema) : Nat → List Slot → List (List Val) → Option (String × Bool) → Bool
  | 0, _, _, _ => false
  | _, [], [], st => (match st with | some (_, served) => served | none => true)
  | fuel+1, s :: ss, vs :: vss, st =>
    let inl := match S.param? s.ty with | some p => p.canInline | none => false
    let each := fitsList S fuel s.ty vs
    if s.isChoice then
      -- leaving one group for another: the previous one must have been served
      let (prevOk, served) : Bool × Bool := match st with
        | some (g, served) => if some g == s.group then (true, served) else (served, false)
        | none => (true, false)
      let here := vs.length
      prevOk && each && decide (here ≤ 1) && !(served && here == 1) &&
        vs.all (fun v => !v.zeroLike inl) &&
        fitsSlots S fuel ss vss (s.group.map fun g => (g, served || here == 1))
    else
      let prevOk := match st with | some (_, served) => served | none => true
      let card := if s.repeatable then (s.optional || decide (1 ≤ vs.length)) else if s.optional then decide (vs.length ≤ 1) else vs.length == 1
      prevOk && each && card && fitsSlots S fuel ss vss none
  | _, _, _, _ => false
def fitsList (S : Schema) : Nat → String → List Val → Bool
  | 0, _, _ => false
  | _, _, [] => true
  | fuel+1, ty, v :: vs => fitsParam S fuel ty v && fitsList S fuel ty vs
end

/-- well-formed value of a message or parameter (`encode`'s domain for the round-trip theorems) -/
def fits (S : Schema) (c : Container) (v : Val) : Bool :=
  match v with
  | .node fs subs =>
    let fuel := 3 * v.size + 3
    fitsFields c.fields fs && fitsSlots S fuel c.slots subs none

/-! ## decoding -/

def getNat : Bytes → Nat → Nat → Option Nat
  | d, pos, size => if pos + size ≤ d.length then some (beNat ((d.drop pos).take size)) else none

def toSigned (size : Nat) (n : Nat) : Int :=
  if n ≥ 256 ^ size / 2 then (n : Int) - (256 ^ size : Nat) else n

/-- chunks of `elem` bytes as big-endian numbers -/
def chunkNums (elem : Nat) : Nat → Bytes → List Nat
  | 0, _ => []
  | n+1, d => beNat (d.take elem) :: chunkNums elem n (d.drop elem)

/-- the unmarshal templates for fields, every read guarded; returns values and the unread rest.
`pos` = offset of the current (possibly shared) byte inside `d` -/
def decFields : List Field → Bytes → Option (List FVal × Bytes)
  | [], d => some ([], d)
  | f :: fs, d =>
    match f.kind with
    | .pad size => if size ≤ d.length then decFields fs (d.drop size) else none
    | .scalar size bits bit part signed _ =>
      if size ≤ d.length then
        let raw := beNat (d.take size)
        if bits = 8 then
          let v : Int := if signed then toSigned size raw else raw
          (decFields fs (d.drop size)).map fun (vs, r) => (.num v :: vs, r)
        else
          -- sub-byte field inside one byte: `data[pos] >> downshift`, masked when it does not start at bit 0
          let down := 8 - (bit + bits)
          let x := raw / 2 ^ down
          let x := if bit ≠ 0 then x % 2 ^ bits else x
          (decFields fs (if part then d else d.drop size)).map fun (vs, r) => (.num x :: vs, r)
      else none
    | .fixedArr elem len =>
      let n := elem * len
      if n ≤ d.length then (decFields fs (d.drop n)).map fun (vs, r) => (.bytes (d.take n) :: vs, r) else none
    | .arr elem =>
      if 2 ≤ d.length then
        let cnt := beNat (d.take 2)
        let d' := d.drop 2
        if cnt * elem ≤ d'.length then
          let v := if elem = 1 then FVal.bytes (d'.take cnt) else FVal.nums (chunkNums elem cnt d')
          (decFields fs (d'.drop (cnt * elem))).map fun (vs, r) => (v :: vs, r)
        else none
      else none
    | .str =>
      if 2 ≤ d.length then
        let cnt := beNat (d.take 2)
        let d' := d.drop 2
        if cnt ≤ d'.length then (decFields fs (d'.drop cnt)).map fun (vs, r) => (.bytes (d'.take cnt) :: vs, r)
        else none
      else none
    | .bitArr =>
      if 2 ≤ d.length then
        let nbits := beNat (d.take 2)
        let d' := d.drop 2
        let nb := (nbits + 7) / 8
        if nb ≤ d'.length then (decFields fs (d'.drop nb)).map fun (vs, r) => (.bits nbits (d'.take nb) :: vs, r)
        else none
      else none
    | .rest => (decFields fs []).map fun (vs, r) => (.bytes d :: vs, r)

/-- how the decoder identifies the next parameter in a group context -/
inductive Peek where
  | tv (t : Nat)
  | tlv (t : Nat)
  | short          -- not enough bytes for a header
deriving DecidableEq, Repr

/-- group kind: which header forms the members have -/
def peek (hasTV hasTLV : Bool) (d : Bytes) : Peek :=
  match d with
  | [] => .short
  | b0 :: rest =>
    if hasTV && hasTLV then
      if b0.toNat ≥ 128 then .tv (b0.toNat % 128)
      else match rest with
        | b1 :: _ :: _ :: _ => .tlv (be16 b0 b1)
        | _ => .short
    else if hasTV then .tv (b0.toNat % 128)
    else match rest with
      | b1 :: _ :: _ :: _ => .tlv (be16 b0 b1)
      | _ => .short

def Schema.slotParam (S : Schema) (s : Slot) : Option Container := S.param? s.ty

def replaceAt {α} (l : List (List α)) (i : Nat) (f : List α → List α) : List (List α) :=
  l.mapIdx fun j x => if j = i then f x else x

mutual
/-- body of a container (after its header): length pre-check, fields, parameter groups, leftover check -/
def decBody (S : Schema) : Nat → Container → Bytes → Option Val
  | 0, _, _ => none
  | fuel+1, c, d =>
    let pre : Bool :=
      if c.isMsg then
        if c.empty then d.length == 0
        else if fixedSize S c then d.length == msgMinSize S c
        else msgMinSize S c ≤ d.length
      else paramMinSize S c - c.headerSize ≤ d.length
    if !pre then none
    else if c.isMsg && c.empty then some (.node [] [])
    else
      match decFields c.fields d with
      | none => none
      | some (fs, d1) =>
        let groups := groupRuns (fun (s : Slot) => (s.optional, s.repeatable, s.group)) c.slots
        match decGroups S fuel groups d1 with
        | none => none
        | some (subs, d2) =>
          if checkLeftover S c && d2.length > 0 then none else some (.node fs subs)
/-- consecutive groups of slots; returns one value list per slot, in slot order -/
def decGroups (S : Schema) : Nat → List (List Slot) → Bytes → Option (List (List Val) × Bytes)
  | 0, _, _ => none
  | _, [], d => some ([], d)
  | fuel+1, g :: gs, d =>
    match g with
    | [] => decGroups S fuel gs d
    | s :: _ =>
      let r :=
        if !s.repeatable && (g.length == 1 || (s.group.isNone && !s.optional)) then decSingles S fuel g d
        else if !(s.optional || s.repeatable) then decChoice S fuel g d
        else decLoop S fuel g (g.map fun _ => []) d d.length
      match r with
      | none => none
      | some (vs, d') =>
        match decGroups S fuel gs d' with
        | none => none
        | some (vss, d'') => some (vs ++ vss, d'')
/-- the single-parameter path: each slot in turn, required (type must match) or optional (taken if the type matches) -/
def decSingles (S : Schema) : Nat → List Slot → Bytes → Option (List (List Val) × Bytes)
  | 0, _, _ => none
  | _, [], d => some ([], d)
  | fuel+1, s :: ss, d =>
    match S.slotParam s with
    | none => none
    | some p =>
      let isTV := !p.isTLV
      let here : Option (Option (Val × Bytes)) :=   -- none = error, some none = absent
        match peek isTV (!isTV) d with
        | .short => if s.optional then some none else none
        | .tv t => if t = p.typeId then (decParam S fuel p d).map some else if s.optional then some none else none
        | .tlv t => if t = p.typeId then (decParam S fuel p d).map some else if s.optional then some none else none
      match here with
      | none => none
      | some none =>
        (decSingles S fuel ss d).map fun (vss, r) => ([] :: vss, r)
      | some (some (v, d')) =>
        (decSingles S fuel ss d').map fun (vss, r) => ([v] :: vss, r)
/-- a mutually exclusive choice group: exactly one member, decided by the next type code -/
def decChoice (S : Schema) : Nat → List Slot → Bytes → Option (List (List Val) × Bytes)
  | 0, _, _ => none
  | fuel+1, g, d =>
    let ps := g.filterMap (S.slotParam ·)
    if ps.length ≠ g.length then none else
    let hasTV := ps.any (!·.isTLV)
    let hasTLV := ps.any (·.isTLV)
    let t? : Option (Bool × Nat) := match peek hasTV hasTLV d with
      | .short => none
      | .tv t => some (true, t)
      | .tlv t => some (false, t)
    match t? with
    | none => none
    | some (_, t) =>
      match ps.findIdx? (fun p => p.typeId = t) with
      | none => none
      | some i =>
        match ps[i]? with
        | none => none
        | some p =>
          -- the Go struct holds choice members by value: a member whose fields are all zero/nil is indistinguishable
          -- from an absent one (the encoder's own "present?" test), so that is what the decoded value says
          (decParam S fuel p d).map fun (v, d') =>
            (replaceAt (g.map fun _ => []) i (fun _ => if v.zeroLike p.canInline then [] else [v]), d')
/-- the `for len(data) >= k` loop over an optional/repeatable group; `acc` has one list per slot of the group;
`n` bounds the iterations by the remaining length (each iteration consumes at least one byte) -/
def decLoop (S : Schema) : Nat → List Slot → List (List Val) → Bytes → Nat → Option (List (List Val) × Bytes)
  | 0, _, _, _, _ => none
  | _, _, acc, d, 0 => some (acc, d)
  | fuel+1, g, acc, d, n+1 =>
    let ps := g.filterMap (S.slotParam ·)
    if ps.length ≠ g.length then none else
    let hasTV := ps.any (!·.isTLV)
    let hasTLV := ps.any (·.isTLV)
    if d.length < (if hasTV then 1 else 4) then some (acc, d) else
    match peek hasTV hasTLV d with
    | .short => none          -- mixed group: "expecting a TLV header, but < 4 bytes remain"
    | pk =>
      let t := match pk with | .tv t => t | .tlv t => t | .short => 0
      -- TLV-only loops check the declared length before looking at the type
      let pre : Bool := if !hasTV then
          match d with
          | _ :: _ :: l0 :: l1 :: _ => be16 l0 l1 ≤ d.length && 4 ≤ be16 l0 l1
          | _ => false
        else true
      if !pre then none else
      match ps.findIdx? (fun p => p.typeId = t) with
      | none => some (acc, d)          -- foreign type: break
      | some i =>
        match ps[i]?, g[i]? with
        | some p, some s =>
          match decParam S fuel p d with
          | none => none
          | some (v, d') =>
            -- optional non-repeatable: the last one wins; repeatable: append
            let acc' := replaceAt acc i (fun old => if s.repeatable then old ++ [v] else [v])
            if d'.length < d.length then decLoop S fuel g acc' d' n else none
        | _, _ => none
/-- one parameter at the head of `d` (its type code already matched): header, declared length, body -/
def decParam (S : Schema) : Nat → Container → Bytes → Option (Val × Bytes)
  | 0, _, _ => none
  | fuel+1, p, d =>
    if p.isTLV then
      match d with
      | _ :: _ :: l0 :: l1 :: _ =>
        let subLen := be16 l0 l1
        if subLen > d.length || subLen < 4 then none
        else (decBody S fuel p ((d.take subLen).drop 4)).map fun v => (v, d.drop subLen)
      | _ => none
    else
      let n := paramMinSize S p
      if n ≤ d.length && 1 ≤ n then (decBody S fuel p ((d.take n).drop 1)).map fun v => (v, d.drop n)
      else none
end

/-- the largest number of sub-parameter slots of a container of the table -/
def Schema.maxSlots : Schema → Nat
  | [] => 0
  | c :: cs => max c.slots.length (Schema.maxSlots cs)

/-- fuel that provably never cuts a decode short (C11 `decode_fuel`): one nesting level costs at most
`#groups + #slots + 3 ≤ 2·#slots + 3` fuel decrements and every nested parameter body is at least one byte shorter than
the data it is cut from. (A bound that ignores the table, such as `4·len + 8`, is too small for tables with many
optional groups: 8 alternating optional/repeatable slots and the empty input need 10.) -/
def decodeFuel (S : Schema) (c : Container) (d : Bytes) : Nat :=
  (2 * S.maxSlots + 4) * d.length + 2 * c.slots.length + 8

/-- `UnmarshalBinary` of a message payload or of a parameter body -/
def decode (S : Schema) (c : Container) (d : Bytes) : Option Val :=
  decBody S (decodeFuel S c d) c d

end LLRP
