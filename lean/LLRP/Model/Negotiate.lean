import LLRP.Model.WriteSide
import LLRP.Model.Codec
/-!
Version negotiation of the LLRP client: the decision logic of `Client.negotiate` / `Client.getSupportedVersion`
(pkg/llrp/reader.go) over classes of reader replies, the items it hands to the write loop (`WItem`, so the frames and
their header versions come from the write-side fold `wr`), and the classification of a raw reply (type, payload) into
a class through the codec model of the regenerated table.

Hand-written; tied to the code by the C06 correspondence.
-/
namespace LLRP

/-- what the reader does in answer to one negotiation message -/
inductive Reply where
  /-- the expected response type, payload decodes, LLRPStatus = Success. `cur`/`max` are the decoded
      CurrentVersion/MaxSupportedVersion (meaningful for GetSupportedVersionResponse only) -/
  | ok (cur max : Nat)
  /-- the expected response type, payload decodes, LLRPStatus.Status = `code` ≠ 0 -/
  | refused (code : Nat)
  /-- ERROR_MESSAGE whose payload decodes, with status `code` -/
  | errorMsg (code : Nat)
  | wrongType
  | undecodable
  /-- payload declared larger than MaxBufferedPayloadSz -/
  | oversize
  /-- no reply: connection lost / timeout / client closed -/
  | lost
deriving DecidableEq, Repr, Inhabited

/-- `getSupportedVersion`: the reader's (current, max) versions, or failure. ERROR_MESSAGE(VersionUnsupported) means
a 1.0.1-only reader; every other ERROR_MESSAGE — also one carrying status Success — is an error reply and fails the
connection attempt. -/
def supported : Reply → Option (Nat × Nat)
  | .ok cur max => some (cur, max)
  | .errorMsg code =>
    if code = Gen.StatusMsgVerUnsupported then some (Gen.Version1_0_1, Gen.Version1_0_1) else none
  | _ => none

/-- `SetProtocolVersion` is accepted only by a SetProtocolVersionResponse with status Success -/
def accepted : Reply → Bool
  | .ok _ _ => true
  | _ => false

/-- caller number of `Connect`'s own (negotiation) requests in the write-side fold -/
def negCaller : Nat := 0

structure NegOut where
  /-- `some v`: negotiate returns nil and the client runs with version `v`; `none`: Connect fails -/
  result : Option Nat
  /-- what reaches the write loop because of negotiation, in order -/
  items : List WItem
  /-- `Client.version` when negotiate returns -/
  version : Nat
deriving Repr

def gsvItem : WItem := .req negCaller tGetSupportedVersion [] 0 Gen.VersionMin true
def spvItem (v : Nat) : WItem := .req negCaller tSetProtocolVersion [byte v] 0 Gen.VersionMin true

/-- `Connect`'s negotiation stage for a client configured with `clientMax` (`WithVersion`; default `VersionMax`) -/
def negotiate (clientMax : Nat) (r1 r2 : Reply) : NegOut :=
  if clientMax ≤ Gen.Version1_0_1 then ⟨some clientMax, [], clientMax⟩ else
  match supported r1 with
  | none => ⟨none, [gsvItem], clientMax⟩
  | some (cur, max) =>
    let v := if clientMax > max then max else clientMax
    let sets : List WItem := if clientMax > max then [.setVer max] else []
    if cur = v then ⟨some v, gsvItem :: sets, v⟩
    else if accepted r2 then ⟨some v, gsvItem :: sets ++ [spvItem v], v⟩
    else ⟨none, gsvItem :: sets ++ [spvItem v], v⟩

/-- the frames negotiation puts on the wire (no other traffic interleaved) -/
def NegOut.frames (clientMax : Nat) (n : NegOut) : List Frame := (run (WState.init clientMax) n.items).out

/-- write-loop state when negotiation is over -/
def NegOut.after (clientMax : Nat) (n : NegOut) : WState := run (WState.init clientMax) n.items

/-! ## classification of a raw reply through the codec model -/

def tErrorMessage : Nat := 100
def tGetSupportedVersionResponse : Nat := 56
def tSetProtocolVersionResponse : Nat := 57

/-- status code of an LLRPStatus value -/
def statusOfVal : Val → Option Nat
  | .node (.num n :: _) _ => some n.toNat
  | _ => none

/-- status of a message value whose only slot is LLRPStatus -/
def soleStatus : Val → Option Nat
  | .node _ [[st]] => statusOfVal st
  | _ => none

/-- class of a reply `(typ, payload)` to GetSupportedVersion (`step = 1`) or SetProtocolVersion (`step = 2`),
decoding with table `S` -/
def classify (S : Schema) (step : Nat) (typ : Nat) (payload : Bytes) : Reply :=
  if payload.length > Gen.MaxBufferedPayloadSz then .oversize else
  if typ = tErrorMessage ∧ step = 1 then
    match S.msg? "ErrorMessage" with
    | none => .undecodable
    | some c => match (decode S c payload).bind soleStatus with
      | some code => .errorMsg code
      | none => .undecodable
  else if typ = tGetSupportedVersionResponse ∧ step = 1 then
    match S.msg? "GetSupportedVersionResponse" with
    | none => .undecodable
    | some c => match decode S c payload with
      | some (.node [.num cur, .num max] [[st]]) =>
        match statusOfVal st with
        | some 0 => .ok cur.toNat max.toNat
        | some code => .refused code
        | none => .undecodable
      | _ => .undecodable
  else if typ = tSetProtocolVersionResponse ∧ step = 2 then
    match S.msg? "SetProtocolVersionResponse" with
    | none => .undecodable
    | some c => match (decode S c payload).bind soleStatus with
      | some 0 => .ok 0 0
      | some code => .refused code
      | none => .undecodable
  else .wrongType

end LLRP
