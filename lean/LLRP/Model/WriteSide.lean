import LLRP.Model.Header
import LLRP.Gen.Consts
/-!
Write side of the LLRP client (`Client.handleOutgoing` + `ackHandler` of pkg/llrp/reader.go) as a fold over the
sequence of items the write loop dequeues (DESIGN 3.4). One goroutine writes to the connection, so what reaches the
wire is a function of the ORDER in which that goroutine takes items from `ackQueue` / `sendQueue` and of the moments at
which `Client.version` changes; `wr` is that function, byte for byte (`LLRP.writeHeader` is the header model proved
correct under C19).

Hand-written; tied to the code by the C05/C06/C07 correspondence runs and by `Gen.writers_*` (single writer).
-/
namespace LLRP

/-- message type codes used by the write loop (values checked against the regenerated constants in Props) -/
def tKeepAlive : Nat := 62
def tKeepAliveAck : Nat := 72
def tCloseConnection : Nat := 14
def tGetSupportedVersion : Nat := 46
def tSetProtocolVersion : Nat := 47

def idMod : Nat := 4294967296       -- messageID is a uint32

/-- one LLRP frame as written: header fields + payload bytes -/
structure Frame where
  ver : Nat
  typ : Nat
  id : Nat
  payload : Bytes
deriving DecidableEq, Repr, Inhabited

def Frame.header (f : Frame) : Header := ⟨f.ver, f.typ, f.payload.length, f.id⟩
/-- the bytes of a frame on the wire: `writeHeader`, then the payload -/
def Frame.bytes (f : Frame) : Bytes := writeHeader f.header ++ f.payload

/-- a frame the 10-byte header can represent exactly -/
def Frame.Valid (f : Frame) : Prop :=
  f.ver < 8 ∧ f.typ ≤ 1023 ∧ f.payload.length ≤ 4294967285 ∧ f.id < idMod

instance (f : Frame) : Decidable f.Valid := by unfold Frame.Valid; exact inferInstance

/-- what the write loop takes, in the order it takes it -/
inductive WItem where
  /-- an id received from `ackQueue` -/
  | ack (id : Nat)
  /-- a `request` received from `sendQueue`, built by `newMessage` (payloadLen = number of payload bytes, nil
      payload iff empty). `presetId`/`presetVersion` are the `id`/`version` header fields the caller put into the
      Message (the exported constructors always give id 0 and version `VersionMin`). `wantsReply` = `tokenChan ≠ nil`
      (`send`: true, `SendNoWait`: false). -/
  | req (caller typ : Nat) (payload : Bytes) (presetId presetVersion : Nat) (wantsReply : Bool)
  /-- a request whose Message has a nil payload but `payloadLen = declLen > 0` (cannot be built through the exported
      API: `newMessage` panics): the header is written, then the loop ends with an error -/
  | bad (caller typ declLen presetId : Nat) (wantsReply : Bool)
  /-- `Client.version` changes (negotiation's `setVer`) between two dequeues -/
  | setVer (v : Nat)
deriving DecidableEq, Repr, Inhabited

structure WState where
  nextId : Nat := 0                      -- `nextMsgID`
  version : Nat                          -- `Client.version`
  parked : Bool := false                 -- after CloseConnection was written: waits for `done`
  failed : Bool := false                 -- the loop returned an error
  bytes : Bytes := []                    -- everything written to the connection, in order
  out : List Frame := []                 -- ghost: the complete frames written, in order
  reqOut : List Frame := []              -- ghost: those that came from `sendQueue`
  ackOut : List Frame := []              -- ghost: those that came from `ackQueue`
  awaiting : List (Nat × Nat) := []      -- registrations made: (message id, caller), newest first
  tokens : List (Nat × Nat) := []        -- tokens handed out: (caller, message id), newest first
deriving Repr, Inhabited

def WState.init (version : Nat) : WState := { version := version }

def WState.stopped (s : WState) : Bool := s.parked || s.failed

/-- the header version the write loop puts on a message: 1.1 for the two negotiation messages, the client's
current version for EVERYTHING else (requests and acknowledgements alike); the caller's preset does not matter -/
def stamp (clientVersion typ : Nat) : Nat :=
  if typ = tGetSupportedVersion ∨ typ = tSetProtocolVersion then Gen.Version1_1 else clientVersion

/-- id given to a request: a fresh one when the message has none (id 0), else the caller's -/
def assignId (s : WState) (presetId : Nat) : Nat := if presetId = 0 then s.nextId else presetId

def bumpId (s : WState) (presetId : Nat) : WState :=
  if presetId = 0 then { s with nextId := (s.nextId + 1) % idMod } else s

def register (s : WState) (wants : Bool) (id caller : Nat) : WState :=
  if wants then { s with awaiting := (id, caller) :: s.awaiting, tokens := (caller, id) :: s.tokens } else s

def emit (s : WState) (f : Frame) : WState :=
  { s with bytes := s.bytes ++ f.bytes, out := s.out ++ [f] }

/-- the frame written for an item in state `s` (`none` for `setVer`/`bad`) -/
def frameOf (s : WState) : WItem → Option Frame
  | .ack id => some ⟨stamp s.version tKeepAliveAck, tKeepAliveAck, id, []⟩
  | .req _ typ payload pid _ _ => some ⟨stamp s.version typ, typ, assignId s pid, payload⟩
  | .bad .. => none
  | .setVer _ => none

/-- one iteration of the write loop -/
def wr (s : WState) (it : WItem) : WState :=
  if s.stopped then s else
  match it with
  | .setVer v => { s with version := v }
  | .ack id =>
    let f : Frame := ⟨stamp s.version tKeepAliveAck, tKeepAliveAck, id, []⟩
    let s1 := emit s f
    { s1 with ackOut := s1.ackOut ++ [f] }
  | .req caller typ payload pid _ wants =>
    let id := assignId s pid
    let f : Frame := ⟨stamp s.version typ, typ, id, payload⟩
    let s1 := register (bumpId s pid) wants id caller
    let s2 := emit s1 f
    let s3 := { s2 with reqOut := s2.reqOut ++ [f] }
    if typ = tCloseConnection then { s3 with parked := true } else s3
  | .bad caller typ declLen pid wants =>
    let id := assignId s pid
    let s1 := register (bumpId s pid) wants id caller
    let h : Header := ⟨stamp s.version typ, typ, declLen, id⟩
    { s1 with bytes := s1.bytes ++ writeHeader h, failed := true }

def run (s : WState) (items : List WItem) : WState := items.foldl wr s

/-- the items the loop actually takes: it stops taking once parked (after CloseConnection) or failed -/
def dequeued : WState → List WItem → List WItem
  | _, [] => []
  | s, it :: rest => if s.stopped then [] else it :: dequeued (wr s it) rest

/-- an item the exported API can produce, in the ranges of the Go types -/
def WItem.WF : WItem → Prop
  | .ack id => id < idMod
  | .req _ typ payload pid _ _ => typ ≤ 1023 ∧ payload.length ≤ 4294967285 ∧ pid < idMod
  | .bad .. => False
  | .setVer v => v < 8

instance (it : WItem) : Decidable it.WF := by cases it <;> unfold WItem.WF <;> exact inferInstance

def WItem.isReq : WItem → Bool
  | .req .. => true
  | _ => false

/-- type and payload of the frame an item asks for -/
def WItem.sig : WItem → Option (Nat × Bytes)
  | .ack _ => some (tKeepAliveAck, [])
  | .req _ typ payload _ _ _ => some (typ, payload)
  | _ => none

def Frame.sig (f : Frame) : Nat × Bytes := (f.typ, f.payload)

def WItem.ackId : WItem → Option Nat
  | .ack id => some id
  | _ => none

/-- (type, payload) of the requests among some items, in order -/
def reqSigs (items : List WItem) : List (Nat × Bytes) := (items.filter WItem.isReq).filterMap WItem.sig
/-- ids of the acknowledgement items, in order -/
def ackIds (items : List WItem) : List Nat := items.filterMap WItem.ackId

/-! ## splitting a byte stream into frames (what the peer does) -/

/-- split with `Header.unmarshal`: header, then `payloadLen` bytes, repeat; `none` if a header does not parse or the
stream ends inside a frame. `fuel` bounds the number of frames (any value > stream length is enough). -/
def splitFrames : Nat → Bytes → Option (List Frame)
  | _, [] => some []
  | 0, _ => none
  | fuel+1, b =>
    match Header.unmarshal b with
    | none => none
    | some h =>
      let rest := b.drop Gen.HeaderSz
      if h.payloadLen ≤ rest.length then
        (splitFrames fuel (rest.drop h.payloadLen)).map (fun fs => ⟨h.version, h.typ, h.id, rest.take h.payloadLen⟩ :: fs)
      else none

def parseStream (b : Bytes) : Option (List Frame) := splitFrames (b.length + 1) b

end LLRP
