import LLRP.Gen.Consts
/-!
# Combined labelled transition system of `llrp.Client` (reader.go) over abstract frames — C03, C08, C09

Actors and the code they stand for

* **peer** – may send ANY frame at any time, in any order, or close its side (`peerSend`, `peerClose`).
* **environment** – API calls and faults: `callIssue` (a `SendMessage` / `SendNoWait` call begins), `cancel` (a caller's
  context ends), `close` (`Client.Close`; `Shutdown` = a `SendMessage(CloseConnection)` caller followed by `close` when
  its reply is a successful `CloseConnectionResponse`), `rdFail` / `wrFail` / `connInitialFail false` (the connection
  breaks or times out, a header or payload is malformed / truncated).
* **caller c** – `SendMessage`/`SendNoWait`/`send`: `waitReady → queued → waitToken id → waitReply id → done r`
  (`callReady`, `callToken`, `callGetReply`, `callSeeDone`, `callSeeCtx`). `callSeeDone/Ctx` from `waitReply` run the
  token's `cancel()` closure: look the request's id up in `awaiting` under the lock, close the channel found, delete.
* **read loop** – `handleIncoming`/`passToHandler`: `rdHeader` (next frame), `rdDispatch` (the critical section:
  lookup-and-delete under `awaitMu` — consulted only for types that are not KeepAlive / ROAccessReport /
  ReaderEventNotification), `rdDeliver` (put on the reply channel, close it), `rdHandle` (handler; the `ackHandler`
  enqueues the id unless `ackQueue` is full), `rdEof`, `rdWaitDone` (EOF after `CloseConnectionResponse`), `rdSeeDone`.
* **write loop** – `handleOutgoing`: `wrPickAck`, `wrPickReq c` (the rendezvous on `sendQueue` with caller `c`: assign
  the next id, register in `awaiting`, hand the token — one atomic step per critical section), `wrWrite` (the frame
  reaches the wire; parks after `CloseConnection`), `wrFail`, `wrSeeDone`, `wrParkedDone`.
* **Connect** – `connStart`, `connInitial` (checkInitialMessage: consumes the first frame, calls its handler, decides),
  `connInitialFail`, `connRejectReady` (`close(ready)` on the reject path), `connNegSend c` / `connNegDone` (negotiate():
  up to two internal callers that are not gated by `ready`), `connNegErrs` (a loop error ends negotiation),
  `connNegClosed` (a local `Close` ends negotiation),
  `connReady` (`close(ready)`), `connServeErr` / `connServeDone` (the final `select`), `connReturn` (after `wg.Wait`),
  `connFailReturn` (return on a failed setup; the deferred `Close` closes `done`).

Channels: `sendQueue` is a rendezvous (joint step `wrPickReq`), `ackQueue` a queue of capacity `Gen.ackQueueSz`, each
reply channel a buffer of capacity `replyCap` = 1 (`chan`, with a `chanClosed` flag; `rdDeliver` is enabled iff it has
room), `errs` a queue of capacity `errsCap` = 2 (two producers, each produces once).
`awaiting` is an association list (`cons` shadows = map overwrite, `erase` removes every entry of the id = map delete).
`panicked` is set by the Go-level faults the code could commit: send on a closed reply channel, closing it twice.

Semantics of `select` used here: a rendezvous on `sendQueue` cannot happen once `done` is closed (each party's blocked
`select` contains `done` and is resolved by the close; a party arriving later finds no partner), whereas two *ready*
cases of one `select` are a free choice (so `callReady` stays enabled when `done` is closed, etc.).

Not modelled: payload bytes (a token stands for them), version stamping (C06), the strict ack priority of the outer
`select` (C07: `wrPickReq` is enabled whenever the loop is idle — an over-approximation), user handlers other than the
`ackHandler`, write blocking (the peer is assumed to read), message-id wrap-around at 2^32.

`step s a = if enabled s a then eff s a else s`; `Reachable s` = closure of `step` from `init` under ANY action list.
-/
namespace LLRP.LTS

/-! ## frames and message types -/

structure Frame where
  ver : Nat := 1
  typ : Nat
  id : Nat
  /-- token standing for the payload bytes -/
  pay : Nat := 0
  /-- the declared payload length exceeds `MaxBufferedPayloadSz` -/
  big : Bool := false
deriving DecidableEq, Repr, Inhabited

def tCloseConnectionResponse : Nat := 4
def tCloseConnection : Nat := 14
def tROAccessReport : Nat := 61
def tKeepAlive : Nat := 62
def tReaderEventNotification : Nat := 63
def tKeepAliveAck : Nat := 72

/-- message types a reader sends on its own initiative: never a reply to a request -/
def unsolicited (typ : Nat) : Bool :=
  typ == tKeepAlive || typ == tROAccessReport || typ == tReaderEventNotification

/-! ## components -/

/-- error class of a loop's / Connect's result -/
inductive Err where
  | closed      -- `ErrClientClosed` (possibly wrapped)
  | fail        -- anything else
deriving DecidableEq, Repr, Inhabited

/-- result of a `send` / `SendNoWait` -/
inductive Res where
  /-- the frame received from the reply channel; `idx` (ghost) = its position in `received` -/
  | reply (f : Frame) (idx : Nat)
  /-- zero `Message` received from a reply channel that was closed without a value -/
  | zero
  /-- `SendNoWait` returned nil -/
  | sent
  | closed
  | ctx
deriving DecidableEq, Repr, Inhabited

inductive Pc where
  | idle
  | waitReady
  | queued
  | waitToken (id : Nat)
  | waitReply (id : Nat)
  | done (r : Res)
deriving DecidableEq, Repr, Inhabited

structure Caller where
  pc : Pc := .idle
  typ : Nat := 0
  pay : Nat := 0
  nowait : Bool := false
  /-- issued by negotiate(): not gated by `ready` -/
  internal : Bool := false
  cancelled : Bool := false
  chan : Option (Frame × Nat) := none
  chanClosed : Bool := false
  /-- ghost: the id the write loop put into this caller's request -/
  wid : Option Nat := none
deriving DecidableEq, Repr, Inhabited

/-- number of messages sitting in a caller's reply channel -/
def Caller.chanLen (x : Caller) : Nat := if x.chan.isSome then 1 else 0

inductive Rd where
  | off
  | idle
  | hdr (f : Frame)
  | deliver (f : Frame) (c : Nat)
  | handle (f : Frame)
  | eofWait
  | exited (e : Err)
deriving DecidableEq, Repr, Inhabited

inductive Origin where
  | ack
  /-- request of caller `c`; `internal` = issued by negotiate() -/
  | caller (c : Nat) (internal : Bool)
deriving DecidableEq, Repr, Inhabited

/-- a frame on the wire with its ghost annotations -/
structure WFrame where
  f : Frame
  origin : Origin
  /-- `close(ready)` after negotiation had happened when the frame was written -/
  negotiated : Bool
deriving DecidableEq, Repr, Inhabited

inductive Wr where
  | off
  | idle
  | writing (f : Frame) (o : Origin)
  | parked
  | exited (e : Err)
deriving DecidableEq, Repr, Inhabited

inductive Conn where
  | off
  | initial
  /-- checkInitialMessage returned an error; `close(ready)` comes next -/
  | rejected
  /-- inside negotiate(), between requests (`second` = the first exchange is over) -/
  | negIdle (second : Bool)
  | negotiating (c : Nat) (second : Bool)
  | readying
  | serving
  | waitLoops (e : Err)
  /-- returning `e` without `wg.Wait`; the deferred `Close` is still to run -/
  | failing (e : Err)
  | returned (e : Err)
deriving DecidableEq, Repr, Inhabited

/-- how one exchange of negotiate() ends -/
inductive NegNext where
  | more | ok | bad
deriving DecidableEq, Repr, Inhabited

structure St where
  callers : Nat → Caller := fun _ => {}
  nextId : Nat := 0
  awaiting : List (Nat × Nat) := []
  ackQ : List Nat := []
  inbox : List Frame := []
  peerClosed : Bool := false
  rd : Rd := .off
  /-- `receivedClosed` of handleIncoming -/
  rcvClosed : Bool := false
  wr : Wr := .off
  conn : Conn := .off
  ready : Bool := false
  done : Bool := false
  errs : List Err := []
  panicked : Bool := false
  -- ghost history
  accepted : Bool := false
  negotiated : Bool := false
  /-- verdict of checkInitialMessage, once it has returned -/
  verdict : Option Bool := none
  /-- the environment called `Close` (directly or at the end of a successful `Shutdown`) -/
  closedLocally : Bool := false
  /-- the connection failed: EOF or error on read, error on write -/
  broken : Bool := false
  first : Option Frame := none
  peerSent : List Frame := []
  received : List Frame := []
  /-- (caller, index into `received`) for every put on a reply channel -/
  delivered : List (Nat × Nat) := []
  written : List WFrame := []
  /-- results of `Close()` calls of the environment: `true` = nil, `false` = already closed -/
  closeLog : List Bool := []

def init : St := {}

/-- `closeSent` of reader.go: this client has begun to write a CloseConnection (the flag is set just before the header
is written, and never cleared) -/
def closeSent (s : St) : Bool :=
  s.written.any (fun w => w.f.typ == tCloseConnection) ||
    (match s.wr with
     | .writing f _ => f.typ == tCloseConnection
     | .parked => true
     | _ => false)

inductive Act where
  | peerSend (f : Frame)
  | peerClose
  | callIssue (c typ pay : Nat) (nowait : Bool)
  | cancel (c : Nat)
  | close
  | callReady (c : Nat)
  | callSeeDone (c : Nat)
  | callSeeCtx (c : Nat)
  | callToken (c : Nat)
  | callGetReply (c : Nat)
  | rdSeeDone
  | rdHeader
  | rdEof
  | rdFail
  | rdDispatch
  | rdDeliver
  | rdHandle
  | rdWaitDone
  | wrSeeDone
  | wrPickAck
  | wrPickReq (c : Nat)
  | wrWrite
  | wrFail
  | wrParkedDone
  | connStart
  | connInitial (payOk neg : Bool)
  | connInitialFail (eof : Bool)
  | connRejectReady
  | connNegSend (c typ pay : Nat)
  | connNegDone (next : NegNext)
  | connNegErrs
  | connNegClosed
  | connReady
  | connServeErr
  | connServeDone
  | connReturn
  | connFailReturn
deriving DecidableEq, Repr, Inhabited

inductive Actor where
  | peer | env | caller (c : Nat) | rd | wr | conn
deriving DecidableEq, Repr

def actor : Act → Actor
  | .peerSend _ | .peerClose => .peer
  | .callIssue .. | .cancel _ | .close | .rdFail | .wrFail | .connInitialFail false | .connStart => .env
  | .callReady c | .callSeeDone c | .callSeeCtx c | .callToken c | .callGetReply c => .caller c
  | .rdSeeDone | .rdHeader | .rdEof | .rdDispatch | .rdDeliver | .rdHandle | .rdWaitDone => .rd
  | .wrSeeDone | .wrPickAck | .wrPickReq _ | .wrWrite | .wrParkedDone => .wr
  | .connInitial .. | .connInitialFail true | .connRejectReady | .connNegSend .. | .connNegDone _ | .connNegErrs | .connNegClosed
  | .connReady | .connServeErr | .connServeDone | .connReturn | .connFailReturn => .conn

/-! ## channel capacities the step function relies on (tied to the `make(chan …)` expressions of the source by
`C09.chan_caps` through the regenerated `Gen.chanMakes`) -/

/-- `replyChan := make(chan Message, 1)` in handleOutgoing: the read loop's hand-over must never block, also when the
caller has left between the lookup and the hand-over -/
def replyCap : Nat := 1
/-- `tokenChan := make(chan sendToken, 1)` in send: the write loop's hand-over of the token never blocks -/
def tokenCap : Nat := 1
/-- `errs := make(chan error, 2)` in Connect: each of the two loops reports once, whether or not Connect still listens -/
def errsCap : Nat := 2
/-- `sendQueue: make(chan request)`: a rendezvous (the joint step `wrPickReq`) -/
def sendQueueCap : Nat := 0

/-! ## helpers -/

def setC (s : St) (c : Nat) (x : Caller) : St :=
  { s with callers := fun i => if i = c then x else s.callers i }

def lookup (id : Nat) : List (Nat × Nat) → Option Nat
  | [] => none
  | (k, v) :: l => if k = id then some v else lookup id l

def erase (id : Nat) (l : List (Nat × Nat)) : List (Nat × Nat) := l.filter (fun e => e.1 != id)

def Rd.isExited : Rd → Bool
  | .exited _ => true
  | _ => false
def Wr.isExited : Wr → Bool
  | .exited _ => true
  | _ => false

/-- the handler part of one inbound frame: the `ackHandler` queues the id of a KeepAlive unless the queue is full -/
def ackPush (q : List Nat) (f : Frame) : List Nat :=
  if f.typ = tKeepAlive ∧ q.length < Gen.ackQueueSz then q ++ [f.id] else q

/-- the first message is acceptable (`payOk` = its payload decodes to a ReaderEventNotification whose
ConnectionAttemptEvent is Success; see `LLRP.Initial.checkInitial`) -/
def initialOk (f : Frame) (payOk : Bool) : Bool :=
  f.typ == tReaderEventNotification && !f.big && payOk

/-- a caller leaves (`done` closed / context ended) -/
def leave (s : St) (c : Nat) (r : Res) : St :=
  match (s.callers c).pc with
  | .waitReply id =>
    -- token.cancel(): under the lock, close and delete whatever `awaiting[id]` holds
    let s1 := match lookup id s.awaiting with
      | some c' =>
        let x := s.callers c'
        if x.chanClosed then { s with panicked := true }
        else { setC s c' { x with chanClosed := true } with awaiting := erase id s.awaiting }
      | none => s
    setC s1 c { s1.callers c with pc := .done r }
  | _ => setC s c { s.callers c with pc := .done r }

def canLeave (p : Pc) : Bool :=
  match p with
  | .waitReady | .queued | .waitReply _ => true
  | _ => false

/-! ## guards -/

def enabled (s : St) : Act → Bool
  | .peerSend _ => !s.peerClosed
  | .peerClose => !s.peerClosed
  | .callIssue c _ _ _ => (s.callers c).pc == .idle
  | .cancel _ => true
  | .close => true
  | .callReady c => (s.callers c).pc == .waitReady && s.ready
  | .callSeeDone c => s.done && canLeave (s.callers c).pc
  | .callSeeCtx c => (s.callers c).cancelled && canLeave (s.callers c).pc
  | .callToken c => match (s.callers c).pc with
    | .waitToken _ => true
    | _ => false
  | .callGetReply c => match (s.callers c).pc with
    | .waitReply _ => (s.callers c).chan.isSome || (s.callers c).chanClosed
    | _ => false
  | .rdSeeDone => s.rd == .idle && s.done
  | .rdHeader => s.rd == .idle && !s.inbox.isEmpty
  | .rdEof => s.rd == .idle && s.inbox.isEmpty && s.peerClosed
  | .rdFail => match s.rd with
    | .idle | .hdr _ | .deliver _ _ | .handle _ => true
    | _ => false
  | .rdDispatch => match s.rd with
    | .hdr _ => true
    | _ => false
  | .rdDeliver => match s.rd with
    -- a send on the reply channel proceeds iff the buffer has room
    | .deliver _ c => decide ((s.callers c).chanLen < replyCap)
    | _ => false
  | .rdHandle => match s.rd with
    | .handle _ => true
    | _ => false
  | .rdWaitDone => s.rd == .eofWait && s.done
  | .wrSeeDone => s.wr == .idle && s.done
  | .wrPickAck => s.wr == .idle && !s.ackQ.isEmpty
  | .wrPickReq c => s.wr == .idle && !s.done && (s.callers c).pc == .queued
  | .wrWrite => match s.wr with
    | .writing _ _ => true
    | _ => false
  | .wrFail => match s.wr with
    | .writing _ _ => true
    | _ => false
  | .wrParkedDone => s.wr == .parked && s.done
  | .connStart => s.conn == .off
  | .connInitial _ _ => s.conn == .initial && !s.inbox.isEmpty
  | .connInitialFail eof => s.conn == .initial && (!eof || (s.inbox.isEmpty && s.peerClosed))
  | .connRejectReady => s.conn == .rejected
  | .connNegSend c _ _ => (s.conn == .negIdle false || s.conn == .negIdle true) && (s.callers c).pc == .idle
  | .connNegDone next => match s.conn with
    | .negotiating c second => match (s.callers c).pc with
      | .done (.reply _ _) => !(next == .more && second)
      | .done _ => true
      | _ => false
    | _ => false
  | .connNegErrs => !s.errs.isEmpty && (match s.conn with
    | .negIdle _ | .negotiating _ _ => true
    | _ => false)
  | .connNegClosed => s.done && (match s.conn with
    | .negIdle _ | .negotiating _ _ => true
    | _ => false)
  | .connReady => s.conn == .readying
  | .connServeErr => s.conn == .serving && !s.errs.isEmpty
  | .connServeDone => s.conn == .serving && s.done
  | .connReturn => match s.conn with
    | .waitLoops _ => s.rd.isExited && s.wr.isExited
    | _ => false
  | .connFailReturn => match s.conn with
    | .failing _ => true
    | _ => false

/-! ## effects (meaningful where the guard holds) -/

def eff (s : St) : Act → St
  | .peerSend f => { s with inbox := s.inbox ++ [f], peerSent := s.peerSent ++ [f] }
  | .peerClose => { s with peerClosed := true }
  | .callIssue c typ pay nowait =>
    setC s c { s.callers c with pc := .waitReady, typ := typ, pay := pay, nowait := nowait, internal := false }
  | .cancel c => setC s c { s.callers c with cancelled := true }
  | .close => { s with done := true, closedLocally := true, closeLog := s.closeLog ++ [!s.done] }
  | .callReady c => setC s c { s.callers c with pc := .queued }
  | .callSeeDone c => leave s c .closed
  | .callSeeCtx c => leave s c .ctx
  | .callToken c => match (s.callers c).pc with
    | .waitToken id => setC s c { s.callers c with pc := .waitReply id }
    | _ => s
  | .callGetReply c => match (s.callers c).chan with
    | some (f, i) => setC s c { s.callers c with pc := .done (.reply f i), chan := none }
    | none => setC s c { s.callers c with pc := .done .zero }
  | .rdSeeDone => { s with rd := .exited .closed, errs := s.errs ++ [.closed] }
  | .rdHeader => match s.inbox with
    | f :: rest => { s with inbox := rest, received := s.received ++ [f], rd := .hdr f,
                            rcvClosed := s.rcvClosed || f.typ == tCloseConnectionResponse }
    | [] => s
  | .rdEof => if s.rcvClosed && closeSent s then { s with rd := .eofWait }
    else { s with rd := .exited .fail, errs := s.errs ++ [.fail], broken := true }
  | .rdFail => { s with rd := .exited .fail, errs := s.errs ++ [.fail], broken := true }
  | .rdDispatch => match s.rd with
    | .hdr f =>
      if unsolicited f.typ then { s with rd := .handle f } else
      match lookup f.id s.awaiting with
      | some c => { s with awaiting := erase f.id s.awaiting, rd := .deliver f c }
      | none => { s with rd := .handle f }
    | _ => s
  | .rdDeliver => match s.rd with
    | .deliver f c =>
      let x := s.callers c
      if x.chanClosed then { s with panicked := true, rd := .handle f }
      else { setC s c { x with chan := some (f, s.received.length - 1), chanClosed := true } with
             delivered := s.delivered ++ [(c, s.received.length - 1)], rd := .handle f }
    | _ => s
  | .rdHandle => match s.rd with
    | .handle f => { s with ackQ := ackPush s.ackQ f, rd := .idle }
    | _ => s
  | .rdWaitDone => { s with rd := .exited .closed, errs := s.errs ++ [.closed] }
  | .wrSeeDone => { s with wr := .exited .closed, errs := s.errs ++ [.closed] }
  | .wrPickAck => match s.ackQ with
    | id :: rest => { s with ackQ := rest, wr := .writing { typ := tKeepAliveAck, id := id } .ack }
    | [] => s
  | .wrPickReq c =>
    let x := s.callers c
    let f : Frame := { typ := x.typ, id := s.nextId, pay := x.pay }
    if x.nowait then
      { setC s c { x with pc := .done .sent, wid := some s.nextId } with
        nextId := s.nextId + 1, wr := .writing f (.caller c x.internal) }
    else
      { setC s c { x with pc := .waitToken s.nextId, wid := some s.nextId } with
        nextId := s.nextId + 1, awaiting := (s.nextId, c) :: s.awaiting, wr := .writing f (.caller c x.internal) }
  | .wrWrite => match s.wr with
    | .writing f o => { s with written := s.written ++ [⟨f, o, s.negotiated⟩],
                               wr := if f.typ = tCloseConnection then .parked else .idle }
    | _ => s
  | .wrFail => { s with wr := .exited .fail, errs := s.errs ++ [.fail], broken := true }
  | .wrParkedDone => { s with wr := .exited .closed, errs := s.errs ++ [.closed] }
  | .connStart => { s with conn := .initial }
  | .connInitial payOk neg => match s.inbox with
    | f :: rest =>
      let s1 := { s with inbox := rest, first := some f, ackQ := if f.big then s.ackQ else ackPush s.ackQ f }
      if initialOk f payOk then
        { s1 with accepted := true, verdict := some true, rd := .idle, wr := .idle,
                  conn := if neg then .negIdle false else .readying }
      else { s1 with verdict := some false, conn := .rejected }
    | [] => s
  | .connInitialFail _ => { s with verdict := some false, conn := .rejected }
  | .connRejectReady => { s with ready := true, conn := .failing .fail }
  | .connNegSend c typ pay =>
    let second := s.conn == .negIdle true
    { setC s c { s.callers c with pc := .queued, typ := typ, pay := pay, nowait := false, internal := true } with
      conn := .negotiating c second }
  | .connNegDone next => match s.conn with
    | .negotiating c _ => match (s.callers c).pc with
      | .done (.reply _ _) => match next with
        | .more => { s with conn := .negIdle true }
        | .ok => { s with conn := .readying }
        | .bad => { s with conn := .failing .fail }
      | .done .closed => { s with conn := .failing .closed }
      | _ => { s with conn := .failing .fail }
    | _ => s
  | .connNegErrs => match s.errs with
    | e :: rest => { s with errs := rest, conn := .failing e }
    | [] => s
  | .connNegClosed => { s with conn := .failing .closed }
  | .connReady => { s with ready := true, negotiated := true, conn := .serving }
  | .connServeErr => match s.errs with
    | e :: rest => { s with errs := rest, done := true, conn := .waitLoops e }
    | [] => s
  | .connServeDone => { s with conn := .waitLoops .closed }
  | .connReturn => match s.conn with
    | .waitLoops e => { s with conn := .returned e }
    | _ => s
  | .connFailReturn => match s.conn with
    | .failing e => { s with done := true, conn := .returned e }
    | _ => s

def step (s : St) (a : Act) : St := if enabled s a then eff s a else s

def run (s : St) (as : List Act) : St := as.foldl step s

inductive Reachable : St → Prop where
  | init : Reachable init
  | step {s} (a : Act) : Reachable s → Reachable (step s a)

theorem reachable_run {s : St} (h : Reachable s) (as : List Act) : Reachable (run s as) := by
  induction as generalizing s with
  | nil => exact h
  | cons a as ih => exact ih (Reachable.step a h)

end LLRP.LTS
