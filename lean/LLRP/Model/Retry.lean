import LLRP.Gen.Funcs
/-!
# Executable model of `internal/retry` (`ExpBackOff.RetryWithCtx`, `FError`)

`ExpBackOff.nextWait` is **not** modelled by hand: `Cfg.nextWait` is the go2lean translation
`LLRP.Gen.retry_nextWait`, regenerated from `retry.go` on every run.

`RetryWithCtx` is written by hand as a total function of

* the policy `Cfg` (BackOff, Max, KeepErrs, Jitter) and the retry count (an `Int`; `forever = -1`),
* `op k`   – what the k-th call of the operation returns (`ok`, a recoverable error, an unrecoverable error),
* the context script: `entry` – `ctx.Err()` at entry; `ev k` – what happens at the wait that follows the k-th
  call: `pass` (the timer fires first), `ends e` (`ctx.Done()` is observed first, `ctx.Err() = e`), `exceeds`
  (the context has a deadline and `now + wait` lies after it),
* `rnd k`  – the jitter draw `rand.Int63n(1 << k)` used for the k-th wait,
* `fuel`   – a bound on loop iterations (only so that the function is total under `forever`; `exhausted` is set when
  it runs out, the oracle always supplies enough).

It returns the number of calls made, the result (`none` = nil), the waits computed and the `FError` with the ring
buffer `Others`, `Attempts`, `max`, `last` exactly as `newFError`/`addErr` maintain them, quirks included:
a first call that fails unrecoverably returns `MainErr = ErrRetriesExceeded` (the error is in `Others`);
`newFError` starts `Others` with one element even for `KeepErrs ≤ 0`; `Attempts` counts `addErr` calls only.
-/
namespace LLRP.Retry
open LLRP

def maxInt64 : Int := 9223372036854775807
/-- `retry.Forever` -/
def forever : Int := -1

structure Cfg where
  backOff : Int
  max : Int
  keepErrs : Int
  jitter : Bool
deriving Repr, DecidableEq

/-- `ExpBackOff.nextWait` — the translation of the source -/
def Cfg.nextWait (c : Cfg) (attempts rnd : Int) : Int :=
  Gen.retry_nextWait c.backOff c.max c.keepErrs c.jitter attempts rnd

/-- the normalisation `RetryWithCtx` applies before its loop: `Max <= 0 → MaxInt64`, `BackOff <= 0 → 1` -/
def Cfg.norm (c : Cfg) : Cfg :=
  { c with max := if c.max ≤ 0 then maxInt64 else c.max,
           backOff := if c.backOff ≤ 0 then 1 else c.backOff }

/-- what one call of the operation returns -/
inductive Outcome where
  | ok | retry | fatal
deriving Repr, DecidableEq

/-- leaf errors; `op i` is the (distinct) error value returned by the i-th call -/
inductive Err where
  | retriesExceeded | canceled | deadlineExceeded | waitExceedsDeadline
  | op (i : Nat)
deriving Repr, DecidableEq

/-- what happens at one wait -/
inductive WaitEv where
  | pass
  | ends (e : Err)
  | exceeds
deriving Repr, DecidableEq

/-- `*FError` -/
structure FErr where
  main : Err
  others : List Err
  attempts : Int
  max : Int
  last : Nat
deriving Repr, DecidableEq

/-- `newFError(err, maxErrs)` -/
def newFError (e : Err) (maxErrs : Int) : FErr :=
  { main := .retriesExceeded, others := [e], attempts := 0, max := maxErrs, last := 0 }

/-- `(*FError).addErr` -/
def FErr.addErr (e : FErr) (new : Err) : FErr :=
  let e := { e with attempts := if e.attempts + 1 ≤ maxInt64 then e.attempts + 1 else e.attempts }
  if e.max = 0 then e
  else if (e.others.length : Int) < e.max then { e with others := e.others ++ [new] }
  else
    let others := e.others.set e.last new
    { e with others := others, last := if e.last + 1 ≥ others.length then 0 else e.last + 1 }

/-- `errors.Is(fe, t)` for a leaf target `t` (one of the sentinels, a context error, an operation's error):
`fe.Is(t)` is "MainErr matches, or *all* Others match"; `Unwrap` adds nothing new. -/
def FErr.is (e : FErr) (t : Err) : Bool := e.main == t || e.others.all (· == t)

structure Ctx where
  entry : Option Err
  ev : Nat → WaitEv

structure Out where
  calls : Nat
  res : Option FErr
  waits : List Int
  exhausted : Bool
deriving Repr, DecidableEq

/-- the `for attempt := 1; retries == Forever || attempt < retries; attempt++` loop; `n` = calls made so far
(= `attempt`), `re` the error under construction, `ws` the waits computed so far -/
def loop (c : Cfg) (retries : Int) (op : Nat → Outcome) (ev : Nat → WaitEv) (rnd : Nat → Int) :
    Nat → Nat → FErr → List Int → Out
  | 0, n, re, ws => ⟨n, some re, ws, true⟩
  | fuel + 1, n, re, ws =>
    if retries = forever ∨ (n : Int) < retries then
      let w := c.nextWait n (rnd n)
      match ev n with
      | .exceeds => ⟨n, some { re with main := .waitExceedsDeadline }, ws ++ [w], false⟩
      | .ends e => ⟨n, some { re with main := e }, ws ++ [w], false⟩
      | .pass =>
        match op (n + 1) with
        | .ok => ⟨n + 1, none, ws ++ [w], false⟩
        | .fatal => ⟨n + 1, some { re with main := .op (n + 1) }, ws ++ [w], false⟩
        | .retry => loop c retries op ev rnd fuel (n + 1) (re.addErr (.op (n + 1))) (ws ++ [w])
    else ⟨n, some { re with main := .retriesExceeded }, ws, false⟩

/-- `ExpBackOff.RetryWithCtx(ctx, retries, f)` -/
def run (c : Cfg) (retries : Int) (op : Nat → Outcome) (ctx : Ctx) (rnd : Nat → Int) (fuel : Nat) : Out :=
  match ctx.entry with
  | some e => ⟨0, some { main := e, others := [], attempts := 0, max := 0, last := 0 }, [], false⟩
  | none =>
    match op 1 with
    | .ok => ⟨1, none, [], false⟩
    | .fatal => ⟨1, some (newFError (.op 1) c.keepErrs), [], false⟩
    | .retry => loop c.norm retries op ctx.ev rnd fuel 1 (newFError (.op 1) c.keepErrs) []

/-- the deadline check `time.Now().Add(wait).After(deadline)` for a context whose deadline lies `thr` ahead and whose
`Done()` never fires within the run (`thr` is far longer than the run): the wait after the n-th call is refused iff the
pause the loop computed exceeds `thr`.  The pause is the one of the *normalised* policy, as in `run`. -/
def evProbe (c : Cfg) (thr : Int) (rnd : Nat → Int) (n : Nat) : WaitEv :=
  if c.norm.nextWait n (rnd n) > thr then .exceeds else .pass

/-! ## finite scripts (what the oracle and the harness use) -/

/-- the k-th entry (1-based) of a finite script; past its end the operation succeeds / nothing happens -/
def opOf (script : List Outcome) (k : Nat) : Outcome := script.getD (k - 1) .ok
def evOf (evs : List WaitEv) (k : Nat) : WaitEv := evs.getD (k - 1) .pass
def rndOf (rnds : List Int) (k : Nat) : Int := rnds.getD (k - 1) 0

def runScript (c : Cfg) (retries : Int) (script : List Outcome) (entry : Option Err) (evs : List WaitEv)
    (rnds : List Int) : Out :=
  run c retries (opOf script) ⟨entry, evOf evs⟩ (rndOf rnds) (script.length + 2)

/-! ## jitter feasibility (decided arithmetically, never by enumerating the 2^n draws) -/

/-- candidate draws that realise every reachable value of `nextWait` with jitter -/
def feasCandidates (base max n w : Int) : List Int :=
  let top := (2 : Int) ^ n.toNat - 1
  let q := if base = 0 then 0 else w / base
  let m := if base = 0 then 0 else max / base
  [0, 1, top, q, q + 1, m, m + 1]

/-- is `w = nextWait(base, max, jitter, n, s)` for some draw `0 ≤ s < 2^n`? (for `n ≤ 0` and `n ≥ 63` the draw is
not used, and `2^n` is never computed) -/
def feasible (base max n w : Int) : Bool :=
  if n ≤ 0 ∨ n ≥ 63 then Gen.retry_nextWait base max 0 true n 0 == w
  else (feasCandidates base max n w).any fun s =>
    decide (0 ≤ s) && decide (s < (2 : Int) ^ n.toNat) && (Gen.retry_nextWait base max 0 true n s == w)

/-! ## property monitor for one observed pause (independent of the translated `nextWait`) -/

/-- does the observed pause `w` satisfy C18's wording for policy `(base, max)` (both ≥ 1), re-run number `n`?
without jitter it must be the closed form; with jitter it must lie in `[0, min(max, base·(2^n − 1))]` and be `max` or a
multiple of `base` -/
def specWaitOk (base max : Int) (jitter : Bool) (n w : Int) : Bool :=
  if n ≤ 0 then w == 0
  else if n ≥ 63 then w == max
  else if jitter then
    decide (0 ≤ w) && decide (w ≤ min max (base * ((2 : Int) ^ n.toNat - 1))) && (w == max || w % base == 0)
  else w == min max (base * (2 : Int) ^ (n - 1).toNat)


/-- a run against a context whose deadline lies `thr` ahead (see `evProbe`); no jitter draws are scripted -/
def runProbe (c : Cfg) (retries : Int) (script : List Outcome) (thr : Int) : Out :=
  run c retries (opOf script) ⟨none, evProbe c thr (rndOf [])⟩ (rndOf []) (script.length + 2)


end LLRP.Retry
