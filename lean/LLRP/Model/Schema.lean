/-!
The table that drives the LLRP codec: what `pkg/llrp/messages.yaml` says, nothing derived.
`Gen/Schema.lean` (regenerated from the yaml on every run) instantiates these types.
-/
namespace LLRP

/-- one field of a message or parameter -/
inductive FKind where
  /-- fixed-width number stored in `size` bytes; `bits` = bits used in the final byte (8 = whole),
      `bit` = first bit (0 = MSB) inside the storage, `part` = the next field shares this byte -/
  | scalar (size bits bit : Nat) (part signed isBool : Bool)
  | pad (size : Nat)
  /-- exactly `len` elements of `elem` bytes, no count prefix (EPC96) -/
  | fixedArr (elem len : Nat)
  /-- u16 element count, then the elements -/
  | arr (elem : Nat)
  /-- u16 byte count, then the bytes -/
  | str
  /-- u16 bit count, then ⌈n/8⌉ bytes -/
  | bitArr
  /-- all remaining bytes -/
  | rest
deriving DecidableEq, Repr, Inhabited

structure Field where
  name : String
  kind : FKind
deriving DecidableEq, Repr, Inhabited

/-- one sub-parameter position of a container -/
structure Slot where
  name : String          -- struct field name
  ty : String            -- parameter name
  optional : Bool
  repeatable : Bool
  group : Option String  -- mutually exclusive choice group
deriving DecidableEq, Repr, Inhabited

structure Container where
  name : String
  typeId : Nat
  isMsg : Bool
  fields : List Field
  slots : List Slot
  responseTo : Option Nat
deriving DecidableEq, Repr, Inhabited

abbrev Schema := List Container

def Schema.param? (S : Schema) (n : String) : Option Container :=
  S.find? (fun c => !c.isMsg && c.name == n)
def Schema.msg? (S : Schema) (n : String) : Option Container :=
  S.find? (fun c => c.isMsg && c.name == n)
def Schema.get? (S : Schema) (n : String) : Option Container :=
  match S.msg? n with
  | some c => some c
  | none => S.param? n
def Schema.msgs (S : Schema) : List Container := S.filter (·.isMsg)
def Schema.params (S : Schema) : List Container := S.filter (fun c => !c.isMsg)

end LLRP
