import LLRP.Model.Bytes
import LLRP.Model.GoInt
import LLRP.Gen.Consts
import LLRP.Gen.Funcs
/-!
# Discovery (internal/driver/discover.go) — executable models

* `gen` / `hosts`: `ipGenerator` on the `*net.IPNet` that `net.ParseCIDR` returns (the IP field is the masked
  network address), in 32-bit arithmetic with the same bit operations as the source.
* `GenSt`, `gstep`: the generator's send loop as a small transition system (bounded channel, cancel flag).
* naming, skip rule, probe automaton and the run skeleton of `autoDiscover` (property C17).

Core Lean only (the oracle links this module).
-/
namespace LLRP.Discover
open LLRP

/-! ## C16 — address enumeration -/

def two32 : Nat := 4294967296

/-- `binary.BigEndian.Uint32(net.CIDRMask(len, 32))`: `len` one bits followed by `32 - len` zero bits -/
def mask (len : Nat) : Nat := (2 ^ len - 1) <<< (32 - len)

/-- `^umask` on a uint32 -/
def not32 (x : Nat) : Nat := x ^^^ 4294967295

/-- `binary.BigEndian.Uint32(addr) & umask` -/
def netId (a len : Nat) : Nat := a &&& mask len

/-- `netId ^ (^umask)` -/
def bcast (a len : Nat) : Nat := netId a len ^^^ not32 (mask len)

/-- `ipGenerator(ctx, inet, ipCh)` with `inet.IP = ip`, `inet.Mask = CIDRMask(len,32)`, never cancelled:
the sequence of values sent to `ipCh`. `maskSz = bits.OnesCount32(umask) = len`.
The loop `for ip := netId+1; ip < bcast; ip++` visits `netId+1 … bcast-1` (no 32-bit wrap: `bcast ≤ 2^32-1`);
the body's `if netId&umask != ip&umask { continue }` is kept as a filter. -/
def gen (ip len : Nat) : List Nat :=
  let umask := mask len
  let maskSz := len
  if maskSz ≤ 1 then []
  else if maskSz ≥ 31 then [ip]
  else
    let nid := ip &&& umask
    let bc := nid ^^^ not32 umask
    (List.range' (nid + 1) (bc - (nid + 1))).filter (fun x => (nid &&& umask) == (x &&& umask))

/-- `net.ParseCIDR("a/len")` gives `IPNet{IP: a & mask, Mask: mask}`; discovery hands that to `ipGenerator` -/
def hosts (a len : Nat) : List Nat := gen (netId a len) len

/-- closed forms used by the oracle for nets too large to enumerate; proved equal to `hosts` in `Proofs.Discover` -/
def hostsCount (a len : Nat) : Nat :=
  if len ≤ 1 then 0 else if len ≥ 31 then 1 else bcast a len - (netId a len + 1)

def hostsSlice (a len i k : Nat) : List Nat :=
  if len ≤ 1 then []
  else if len ≥ 31 then ([netId a len].drop i).take k
  else List.range' (netId a len + 1 + i) (min k (bcast a len - (netId a len + 1) - i))

/-! ### the generator's send loop as a transition system

`todo` are the addresses still to be sent; the channel has `free` empty slots and (when `recv`) a receiver that is
always ready; `guarded` says whether the pending send sits in a `select` with `<-ctx.Done()` (true for the loop,
and — after the repair — for the single send of the /31,/32 branch). -/
structure GenSt where
  todo : List Nat
  free : Nat
  recv : Bool
  cancelled : Bool
  guarded : Bool
  returned : Bool
  sent : Nat := 0
deriving Repr, DecidableEq

inductive GenChoice | send | onCancel | finish
deriving Repr, DecidableEq

/-- one step of the generator; `none` = that alternative is not enabled -/
def gstep (s : GenSt) (c : GenChoice) : Option GenSt :=
  if s.returned then none
  else match c with
    | .finish => if s.todo.isEmpty then some { s with returned := true } else none
    | .onCancel => if s.cancelled && s.guarded && !s.todo.isEmpty then some { s with returned := true } else none
    | .send =>
      match s.todo with
      | [] => none
      | _ :: rest =>
        if s.recv then some { s with todo := rest, sent := s.sent + 1 }
        else if s.free > 0 then some { s with todo := rest, free := s.free - 1, sent := s.sent + 1 }
        else none

def allChoices : List GenChoice := [.send, .onCancel, .finish]

def enabled (s : GenSt) : List GenChoice := allChoices.filter (fun c => (gstep s c).isSome)

/-- follow a list of choices; `none` if one of them is not enabled -/
def grun (s : GenSt) : List GenChoice → Option GenSt
  | [] => some s
  | c :: cs => match gstep s c with
    | some s' => grun s' cs
    | none => none

/-- does every maximal run reach `returned`? (explores all choices, `fuel` ≥ todo.length + 1 suffices) -/
def allReturn : Nat → GenSt → Bool
  | 0, s => s.returned
  | fuel + 1, s =>
    if s.returned then true
    else
      let nexts := allChoices.filterMap (gstep s)
      !nexts.isEmpty && nexts.all (allReturn fuel)

/-- the generator state for `ipGenerator` on `a/len` as the code is written: the loop's send is guarded, the single
send of the ≥ 31 branch is guarded iff `guardSingle` -/
def genInit (a len cap occ : Nat) (recv cancelled guardSingle : Bool) : GenSt :=
  { todo := hostsSlice a len 0 (cap + 2), free := cap - occ, recv := recv, cancelled := cancelled,
    guarded := if len ≥ 31 then guardSingle else true, returned := false }

/-- let the uncancelled generator run as far as it can on its own (send while a send is enabled, then finish) -/
def advance : Nat → GenSt → GenSt
  | 0, s => s
  | n + 1, s =>
    match gstep s .send with
    | some s' => advance n s'
    | none => match gstep s .finish with
      | some s' => s'
      | none => s

end LLRP.Discover
