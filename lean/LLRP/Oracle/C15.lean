import LLRP.Oracle.Common
import LLRP.Model.Supervisor
/-! oracle verbs of C15 (connection supervisor, TrySend)

`supervisor <initialUp 0|1> <events…>`            the model of the current source (`Sup.cfgSrc`)
`supervisor-rejcfg <initialUp 0|1> <events…>`     the same; the harness plays `cl` by having the reader refuse the service's own SetReaderConfig
`supervisor-start <initialUp 0|1> <events…>`      the same; the harness creates the device through `Driver.Start` from a registered device with that recorded state
`supervisor-slowsdk <initialUp 0|1> <events…>`    the same; the harness runs it with an SDK that takes 30 ms per Up report
`supervisor-intended <initialUp 0|1> <events…>`   the model the property theorems are about (`Sup.cfgIntended`)
  events: `df` dialFail, `hf` handshakeFail, `dr` dropped, `cl` closedLocally, `cs` connStop, `cu:<a>` connUpdate a,
          `st` stop, `ua:<a>` updateAddr a        (addresses are numbers; the initial address is 0)
  reply:  `dials=[0,0,1] reports=[D,U] done=0 next=1`  (`next` = address the next attempt would dial, `-` when done)
`trysend <outcomes…>` (`trysend-intended`: with the property's three attempts)  outcomes `ok | closed | nil | other` → `calls=<n> sends=<SendFor calls> result=ok|err|pending`
-/
namespace LLRP.Oracle
open LLRP LLRP.Sup

def parseEv (t : String) : Option Ev :=
  match t.splitOn ":" with
  | ["df"] => some .dialFail
  | ["hf"] => some .handshakeFail
  | ["dr"] => some .dropped
  | ["cl"] => some .closedLocally
  | ["cs"] => some .connStop
  | ["st"] => some .stop
  | ["cu", a] => a.toNat?.map .connUpdate
  | ["ua", a] => a.toNat?.map .updateAddr
  | _ => none

def showReport : Report → String
  | .down => "D"
  | .up => "U"

def showSt (s : St) : String :=
  let d := ",".intercalate (s.dials.map toString)
  let r := ",".intercalate (s.reports.map showReport)
  let nxt := if s.done then "-" else toString s.addr
  s!"dials=[{d}] reports=[{r}] done={if s.done then 1 else 0} next={nxt}"

def supervisorReply (cfg : Cfg) (up : String) (evs : List String) : String :=
  match up.toNat?, evs.mapM parseEv with
  | some u, some es => showSt (run cfg (init (u != 0)) es)
  | _, _ => "bad-op"

def parseSend : String → Option SendOut
  | "ok" => some .ok
  | "closed" => some .closed
  | "nil" => some .noClient
  | "other" => some .other
  | _ => none

def sendReply (f : List SendOut → Nat × REnd) (outs : List String) : String :=
  match outs.mapM parseSend with
  | some os =>
    let (n, r) := f os
    let rs := match r with
      | .success => "ok"
      | .pending => "pending"
      | _ => "err"
    let sends := ((os.take n).filter (· != SendOut.noClient)).length
    s!"calls={n} sends={sends} result={rs}"
  | none => "bad-op"

def handleC15 : Handler := fun args =>
  match args with
  | "supervisor" :: up :: evs => some (supervisorReply cfgSrc up evs)
  | "supervisor-slowsdk" :: up :: evs => some (supervisorReply cfgSrc up evs)
  | "supervisor-rejcfg" :: up :: evs => some (supervisorReply cfgSrc up evs)
  | "supervisor-start" :: up :: evs => some (supervisorReply cfgSrc up evs)
  | "supervisor-long" :: up :: evs => some (supervisorReply cfgSrc up evs)
  | "supervisor-refuse" :: up :: evs => some (supervisorReply cfgSrc up evs)
  | "supervisor-intended" :: up :: evs => some (supervisorReply cfgIntended up evs)
  | "supervisor-aswritten" :: up :: evs => some (supervisorReply cfgAsWritten up evs)
  | "trysend" :: outs => some (sendReply trySend outs)
  | "trysend-intended" :: outs => some (sendReply trySendIntended outs)
  | _ => none

end LLRP.Oracle
