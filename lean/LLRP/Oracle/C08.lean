import LLRP.Oracle.Common
import LLRP.Model.Initial
/-! oracle verbs of C08
`initial none`                              no complete header arrives (EOF, timeout, malformed header)
`initial <typ> <declared> x<payload>`       first message: header type, declared payload length, payload bytes that arrive
   → `accept|reject w=0 ack=<0|1>`  (verdict of `Initial.checkInitial`; nothing is ever written by the check; `ack` = the
     KeepAlive handler was reached and queued an id)
`lts <script>` is shared (see `LLRP.Oracle.Sim`).
-/
namespace LLRP.Oracle
open LLRP LLRP.Initial

def showInitial (m : Option First) : String :=
  let v := if checkInitial m then "accept" else "reject"
  s!"{v} w=0 ack={if ackOnFirst m then 1 else 0}"

def handleC08 : Handler := fun args =>
  match args with
  | ["initial", "none"] => some (showInitial none)
  | ["initial", typ, declared, hex] =>
    match typ.toNat?, declared.toNat?, unhexX hex with
    | some t, some d, some b => some (showInitial (some ⟨t, d, b⟩))
    | _, _, _ => some "bad-op"
  | _ => none

end LLRP.Oracle
