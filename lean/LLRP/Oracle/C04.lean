import LLRP.Oracle.Common
import LLRP.Model.ReadStages
import LLRP.Gen.Schema
/-!
oracle verbs of C04 (read-side fold on scripted sessions) and the parsers shared with C10.

stream   ::= seg ('+' seg)*            seg ::= x<hex> | f<len>:<fill>      (byte j of an `f` segment = (fill + j + j/256) mod 256)
steps    ::= '-' | step (',' step)*    step ::= ((k|p)<n> | d | u) ('+'<id> | '-'<id>)*   per frame: reads/panics after n, calls data()/UnmarshalTo; ids registered / cancelled before its lookup
`c04 <handlers|-> <default 0|1> <await0|-> <callers|-> <steps> <stream>` →
   `hdrs=<off>:<ver>:<typ>:<len>:<id>,… deliv=<frame>:<h|d>:<took>:<fnv of the bytes read>:<panicked>,… unh=<frame>,… callers=<id>=<result>,… fin=<err|wait|panic>`
-/
namespace LLRP.Oracle
open LLRP LLRP.ReadSide

def tailStr (s : String) : String := String.ofList (s.toList.drop 1)

def patByte (fill j : Nat) : UInt8 := UInt8.ofNat ((fill + j + j / 256) % 256)

def parseSeg (s : String) : Option Bytes :=
  match s.toList with
  | 'x' :: cs => unhexChars cs
  | 'f' :: cs =>
    match (String.ofList cs).splitOn ":" with
    | [l, f] => match l.toNat?, f.toNat? with
      | some l, some f => some ((List.range l).map (patByte f))
      | _, _ => none
    | _ => none
  | _ => none

def parseStream (s : String) : Option Bytes :=
  if s == "-" then some [] else (s.splitOn "+").mapM parseSeg |>.map List.flatten

def parseNatList (s : String) : Option (List Nat) :=
  if s == "-" then some [] else (s.splitOn ",").mapM String.toNat?

/-- split `k5+3-2` into the head `k5` and signed modifiers -/
def splitMods (cs : List Char) (cur : List Char) (acc : List (List Char)) : List (List Char) :=
  match cs with
  | [] => (cur.reverse :: acc).reverse
  | c :: r => if c == '+' || c == '-' then splitMods r [c] (cur.reverse :: acc) else splitMods r (c :: cur) acc

def parseStep (s : String) : Option Step :=
  match splitMods s.toList [] [] with
  | [] => none
  | hd :: mods =>
    let beh : Option Beh := match hd with
      | 'k' :: n => (String.ofList n).toNat?.map Beh.reads
      | 'p' :: n => (String.ofList n).toNat?.map Beh.panics
      | ['d'] => some Beh.viaData        -- the handler calls msg.data()
      | ['u'] => some Beh.viaData        -- the handler calls msg.UnmarshalTo(…)
      | _ => none
    match beh with
    | none => none
    | some b =>
      mods.foldlM (fun (st : Step) m => match m with
        | '+' :: n => (String.ofList n).toNat?.map fun id => { st with reg := st.reg ++ [id] }
        | '-' :: n => (String.ofList n).toNat?.map fun id => { st with unreg := st.unreg ++ [id] }
        | _ => none) { beh := b }

def parseSteps (s : String) : Option (List Step) :=
  if s == "-" then some [] else (s.splitOn ",").mapM parseStep

def envOf (steps : List Step) : Nat → Step := fun i => steps.getD i {}

def fnv (b : Bytes) : Nat :=
  b.foldl (fun h x => ((h ^^^ x.toNat) * 16777619) % 4294967296) 2166136261

def showHdrs (r : Result) (base : Nat) : String :=
  ",".intercalate (r.headers.map fun (o, h) => s!"{o + base}:{h.version}:{h.typ}:{h.payloadLen}:{h.id}")

def partyLetter : Party → String
  | .caller => "c" | .handler => "h" | .dflt => "d"

/-- what a scripted handler reports: frame, party, bytes it got and their hash, and 0 = returned | 1 = panicked |
2 = `data()` / `UnmarshalTo` failed in `data()` (then it got nothing) -/
def showDeliv (ds : List Delivery) (shift : Nat) (env : Nat → Step := fun _ => {}) : String :=
  ",".intercalate ((ds.filter (·.party != .caller)).map fun d =>
    let off := d.offered.getD []
    if (env d.frame).beh == .viaData then
      if d.hdr.payloadLen > MaxBuf || off.length < d.hdr.payloadLen then s!"{d.frame + shift}:{partyLetter d.party}:0:{fnv []}:2"
      else s!"{d.frame + shift}:{partyLetter d.party}:{off.length}:{fnv off}:0"
    else
      s!"{d.frame + shift}:{partyLetter d.party}:{d.took}:{fnv (off.take d.took)}:{if d.panicked then 1 else 0}")

def showSM : SMRes → String
  | .ok t d => s!"ok:{t}:{d.length}:{fnv d}"
  | .err => "err"
  | .panic => "panic"

/-- result of the caller awaiting `id`: its reply through `SendMessage`, `ctx` if it cancelled, `closed` if the
connection ended first -/
def callerResult (r : Result) (cancelled : List Nat) (id : Nat) : String :=
  match callerDelivery r id with
  | some d => showSM (sendMessageReply d.toMsg).1
  | none => if cancelled.contains id then "ctx" else "closed"

def showCallers (r : Result) (cancelled callers : List Nat) : String :=
  ",".intercalate (callers.map fun id => s!"{id}={callerResult r cancelled id}")

def showEnd : End → String
  | .err => "err" | .waitDone => "wait" | .panic => "panic" | .fuel => "fuel"

def dash (s : String) : String := if s.isEmpty then "-" else s

def handleC04 : Handler := fun args =>
  match args with
  | "c04" :: hs :: df :: a0 :: callers :: steps :: stream :: _ =>
    match parseNatList hs, df.toNat?, parseNatList a0, parseNatList callers, parseSteps steps, parseStream stream with
    | some hs, some df, some a0, some callers, some steps, some s =>
      let cfg : Cfg := { handlers := hs, hasDefault := df != 0 }
      let r := rd cfg (envOf steps) a0 s
      let cancelled := steps.flatMap (·.unreg)
      s!"hdrs={dash (showHdrs r 0)} deliv={dash (showDeliv r.deliveries 0 (envOf steps))} unh={dash (",".intercalate (r.unhandled.map toString))} callers={dash (showCallers r cancelled callers)} fin={showEnd r.fin}"
    | _, _, _, _, _, _ => "bad-op"
  | _ => none

end LLRP.Oracle
