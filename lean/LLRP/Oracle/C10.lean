import LLRP.Oracle.C04
/-!
oracle verbs of C10 (hostile peer): a whole connection on an arbitrary inbound stream.

`c10 <ver 1|2> <handlers|-> <default 0|1> <callers|-> <steps|-> <regs|-> <stream>` →
   `connect=<error|blocked|panic> callers=<id>=<result>,… alloc=<ok|over:<n>>`
steps are indexed by the frames of the stream, the first message being frame 0; `regs` = `<id>@<pos>,…`: external caller
`id` was registered when the peer had written `pos` bytes (it is visible to the lookup of the first frame whose header
was not complete by then). Stage verbs: `c10-data`, `c10-gsv` (model of the repaired code), `c10-gsv-old`, `c10-data-old`.
-/
namespace LLRP.Oracle
open LLRP LLRP.ReadSide

def parseReg (s : String) : Option (Nat × Nat) :=
  match s.splitOn "@" with
  | [a, b] => match a.toNat?, b.toNat? with
    | some a, some b => some (a, b)
    | _, _ => none
  | _ => none

def parseRegs (s : String) : Option (List (Nat × Nat)) :=
  if s == "-" then some [] else (s.splitOn ",").mapM parseReg

/-- index of the first frame (of the loop's run `hs`, offsets relative to the loop's stream which starts `g` bytes into
the connection's stream) whose header was not complete when `pos` bytes had been written -/
def frameAt (hs : List (Nat × Header)) (g pos : Nat) : Nat :=
  match hs.findIdx? (fun (o, _) => o + 10 + g > pos) with
  | some j => j
  | none => hs.length

def parsePayload (kind : String) (hex : String) : Option Payload :=
  match kind, unhexX hex with
  | "absent", _ => some .absent
  | "buffered", some b => some (.buffered b)
  | "stream", some b => some (.stream b)
  | _, _ => none

def showGSV : GSVRes × List Nat → String
  | (.ok c m, a) => s!"ok {c} {m} allocs={a}"
  | (.err, a) => s!"err allocs={a}"
  | (.panic, a) => s!"panic allocs={a}"

def handleC10 : Handler := fun args =>
  match args with
  | "c10-crash" :: _ => "no-panic"
  | "c10" :: ver :: hs :: df :: callers :: steps :: regs :: stream :: more =>
    let shutdown : Option Nat := match more with
      | sd :: _ => if sd.startsWith "sd=" then (tailStr (tailStr (tailStr sd))).toNat? else none
      | [] => none
    match ver.toNat?, parseNatList hs, df.toNat?, parseNatList callers, parseSteps steps, parseRegs regs, parseStream stream with
    | some ver, some hs, some df, some callers, some steps, some regs, some s =>
      let cfg : Cfg := { handlers := hs, hasDefault := df != 0 }
      let beh0 := (steps.getD 0 {}).beh
      let loopSteps := steps.drop 1
      let ini := checkInitial Gen.schema cfg beh0 s
      let g := s.length - ini.rest.length
      let pass1 := rd cfg (envOf loopSteps) [] ini.rest
      let env := regs.foldl (fun e (id, pos) => addReg e (frameAt pass1.headers g pos) id) (envOf loopSteps)
      let out := connect Gen.schema ver cfg beh0 env s shutdown
      let allocs := out.initAllocs ++ (out.run.map (·.allocs)).getD []
      let cs := match out.run with
        | some r => showCallers r [] callers ++
            (match shutdown with
             | some id => (if callers.isEmpty then "" else ",") ++ s!"sd{id}=" ++ (match callerDelivery r id with
               | some d => (match shutdownReply Gen.schema d.toMsg with | .ok => "nil" | .err => "err" | .panic => "panic")
               | none => "err")
             | none => "")
        | none => ",".intercalate (callers.map fun id => s!"{id}=closed")
      let res := match out.res with | .error => "error" | .blocked => "blocked" | .closed => "closed" | .panic => "panic"
      let al := match allocs.find? (· > MaxBuf) with | some n => s!"over:{n}" | none => "ok"
      s!"connect={res} callers={dash cs} alloc={al}"
    | _, _, _, _, _, _, _ => "bad-op"
  | [v, typ, len, kind, hex] =>
    if v != "c10-data" && v != "c10-data-old" && v != "c10-gsv" && v != "c10-gsv-old" then none else
    match typ.toNat?, len.toNat?, parsePayload kind hex with
    | some typ, some len, some p =>
      let m : Msg := ⟨⟨1, typ, len, 0⟩, p⟩
      if v == "c10-data" then s!"{showSM (sendMessageReply m).1} allocs={(sendMessageReply m).2}"
      else if v == "c10-data-old" then showSM (sendMessageReplyOld m)
      else if v == "c10-gsv" then showGSV (gsvReply Gen.schema m)
      else showGSV (gsvReplyOld Gen.schema m)
    | _, _, _ => "bad-op"
  | _ => none

end LLRP.Oracle
