import LLRP.Oracle.Common
import LLRP.Model.Race
import LLRP.Model.RacePolicy
/-! oracle verbs of C20 (race model, policy table against the regenerated access table)

* `race-check <ev> <ev> …` — events as `acq:t:m rel:t:m racq:t:m rrel:t:m rd:t:x wr:t:x ard:t:x awr:t:x fork:t:u
  join:t:u send:t:c:i recv:t:c:i close:t:c rclosed:t:c` (all numbers); reply `illformed` | `clean` |
  `race i-j i-j …` (positions of the racing pairs, decided with the executable happens-before).
* `race-scenario <name> …` — what the model predicts for a `-race` run of conforming code: `clean`.
* `sites-nonconforming` / `calls-nonconforming` / `sites-exceptions` — witnesses for `sites_conform`, `calls_conform`.
-/
namespace LLRP.Oracle
open LLRP LLRP.Race

def parseEvent (s : String) : Option Event :=
  match s.splitOn ":" with
  | [k, a, b] =>
    match a.toNat?, b.toNat? with
    | some a, some b =>
      match k with
      | "acq" => some (.acq a b) | "rel" => some (.rel a b) | "racq" => some (.racq a b) | "rrel" => some (.rrel a b)
      | "rd" => some (.rd a b) | "wr" => some (.wr a b) | "ard" => some (.atomicRd a b) | "awr" => some (.atomicWr a b)
      | "fork" => some (.fork a b) | "join" => some (.join a b)
      | "close" => some (.closeCh a b) | "rclosed" => some (.recvClosed a b)
      | _ => none
    | _, _ => none
  | [k, a, b, c] =>
    match a.toNat?, b.toNat?, c.toNat? with
    | some a, some b, some c =>
      match k with
      | "send" => some (.send a b c) | "recv" => some (.recv a b c)
      | _ => none
    | _, _, _ => none
  | _ => none

def showSite (a : Gen.Access) : String :=
  s!"{a.struct}.{a.field}@{a.func}@{a.pos}@{if a.atomic then "A" else if a.write then "W" else "R"}@[{",".intercalate a.held}]"

def listOrNone (xs : List String) : String := if xs.isEmpty then "none" else " ".intercalate xs

def handleC20 : Handler := fun args =>
  match args with
  | "race-check" :: evs =>
    match evs.mapM parseEvent with
    | none => "bad-op"
    | some tr =>
      if !wfB tr then "illformed"
      else match racePairs tr with
        | [] => "clean"
        | ps => "race " ++ " ".intercalate (ps.map fun p => s!"{p.1}-{p.2}")
  | "race-scenario" :: _ => "clean"
  | ["sites-nonconforming"] =>
    listOrNone ((RacePolicy.nonconforming.filter fun a => !RacePolicy.isException a).map showSite)
  | ["sites-exceptions"] =>
    listOrNone ((Gen.accesses.filter fun a => RacePolicy.isException a).map showSite)
  | ["calls-nonconforming"] =>
    listOrNone (RacePolicy.nonconformingCalls.map fun c => s!"{c.callee}@{c.func}@{c.pos}@{c.mode}@[{",".intercalate c.held}]")
  | _ => none

end LLRP.Oracle
