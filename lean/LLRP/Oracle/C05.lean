import LLRP.Oracle.Common
import LLRP.Model.WriteMonitor
/-!
oracle verbs of C05 / C07 (write side):
`check-write x<raw stream> <kaIds|-> <mustAck|-> <issued…>` — the Lean monitor `checkWrite` on the raw bytes a peer
recorded; id lists are comma separated; an issued request is `<typ>:<len>:<seed>:<must 0|1>` with payload
`genPayload seed len`; a token starting with `#` names the run and is ignored. Reply `accept` or `reject <clause>`.
`wr-prefix <version> x<raw stream> <item…>` — accept iff the raw stream is a prefix of the bytes the write-side fold writes for the
items (a connection that fails leaves a prefix of whole frames: `C05.failed_stream_is_prefix`).
`wr-seq <version> <item…>` — the write-side fold on a dequeue order: items `a<id>` (ack), `r<typ>:<len>:<seed>:<wants>`
(request), `v<n>` (version change); reply: one `ver:typ:id:len:fnv32(payload)` per frame, then `rest=<n>` stray bytes.
-/
namespace LLRP.Oracle
open LLRP

def hexVal (c : Char) : Option UInt8 :=
  if '0' ≤ c ∧ c ≤ '9' then some (c.toNat - 48).toUInt8
  else if 'a' ≤ c ∧ c ≤ 'f' then some (c.toNat - 87).toUInt8
  else none

structure HexAcc where
  out : Array UInt8
  hi : Option UInt8 := none
  ok : Bool := true
  first : Bool := true

/-- hex parser for multi-megabyte streams (`x` prefix mandatory); one pass over the string, no intermediate list -/
def unhexBig (s : String) : Option Bytes :=
  let r := s.foldl (fun (a : HexAcc) c =>
    if !a.ok then a
    else if a.first then (if c == 'x' then { a with first := false } else { a with ok := false })
    else match hexVal c with
      | none => { a with ok := false }
      | some v => match a.hi with
        | none => { a with hi := some v }
        | some h => { a with out := a.out.push (h * 16 + v), hi := none }) { out := Array.mkEmpty (s.length / 2) }
  if r.ok && !r.first && r.hi.isNone then some r.out.toList else none

def parseIds (s : String) : Option (List Nat) :=
  if s == "-" then some [] else (s.splitOn ",").mapM String.toNat?

def parseIssued (s : String) : Option Issued :=
  match (s.splitOn ":").mapM String.toNat? with
  | some [typ, len, seed, must] => some ⟨typ, genPayload seed len, must == 1⟩
  | _ => none

def fnv32 (b : Bytes) : Nat := b.foldl (fun h x => ((h ^^^ x.toNat) * 16777619) % 4294967296) 2166136261

def parseWItem (s : String) (caller : Nat) : Option WItem :=
  match s.toList with
  | 'a' :: r => (String.ofList r).toNat?.map WItem.ack
  | 'v' :: r => (String.ofList r).toNat?.map WItem.setVer
  | 'r' :: r =>
    match ((String.ofList r).splitOn ":").mapM String.toNat? with
    | some [typ, len, seed, w] => some (.req caller typ (genPayload seed len) 0 Gen.VersionMin (w == 1))
    | _ => none
  | _ => none

def fmtSummary (f : Frame) : String := s!"{f.ver}:{f.typ}:{f.id}:{f.payload.length}:{fnv32 f.payload}"

def handleC05 : Handler := fun args =>
  match args with
  | "check-write" :: hex :: ka :: must :: issued =>
    let issued := issued.filter (fun t => !t.startsWith "#")   -- `#<tag>`: the harness's name for the run
    match unhexBig hex, parseIds ka, parseIds must, issued.mapM parseIssued with
    | some stream, some kaIds, some mustAck, some iss =>
      match checkWrite stream iss kaIds mustAck with
      | .accept => "accept"
      | .reject c => s!"reject {c}"
    | _, _, _, _ => "bad-op"
  | "wr-prefix" :: v :: hex :: items =>
    -- a connection that failed while the write loop was writing: the peer must have received a PREFIX of what the fold writes
    let items := items.filter (fun t => !t.startsWith "#")
    match v.toNat?, unhexBig hex, (items.zipIdx.mapM fun (t, i) => parseWItem t (i + 1)) with
    | some v, some raw, some its =>
      if raw.isPrefixOf (run (WState.init v) its).bytes then "accept" else "reject not-a-prefix-of-whole-frames"
    | _, _, _ => "bad-op"
  | "wr-seq" :: v :: items =>
    match v.toNat?, (items.zipIdx.mapM fun (t, i) => parseWItem t (i + 1)) with
    | some v, some its =>
      let s := run (WState.init v) its
      let stray := s.bytes.length - (s.out.flatMap Frame.bytes).length
      s!"{",".intercalate (s.out.map fmtSummary)} rest={stray}"
    | _, _ => "bad-op"
  | _ => none

end LLRP.Oracle
