import LLRP.Oracle.Common
import LLRP.Model.Probe
/-! oracle verbs of C17 (device naming, skip rule, probe outcome per host behaviour, time bounds) -/
namespace LLRP.Oracle
open LLRP LLRP.Discover

def strOfBytes (b : Bytes) : String := String.ofList (b.map (fun x => Char.ofNat x.toNat))
def bytesOfStr (s : String) : Bytes := s.toUTF8.toList

/-- host behaviours by name; identity and capabilities are filled in where the behaviour gets that far -/
def hostOf (beh : String) (id : Option Ident) (g : Option Caps) : Option Host :=
  let ok := Host.correct id g
  match beh with
  | "correct" => some ok
  | "refuse" => some { ok with dial := .refused }
  | "closeAfterAccept" => some { ok with hello := .close }
  | "acceptSilent" => some { ok with hello := .stall }
  | "stallPartialHello" => some { ok with hello := .stall }
  | "garbage" => some { ok with hello := .garbage }
  | "helloRefused" => some { ok with hello := .refused }
  | "helloWrongType" => some { ok with hello := .garbage }
  | "stallMidHandshake" => some { ok with version := .stall }
  | "closeMidHandshake" => some { ok with version := .close }
  | "garbageMidHandshake" => some { ok with version := .garbage }
  | "stallMidExchange" => some { ok with config := .stall }
  | "trickleConfig" => some { ok with config := .stall }   -- a reply that keeps arriving byte by byte never completes in time
  | "closeMidExchange" => some { ok with config := .close }
  | "configRefused" => some { ok with config := .refused }
  | "stallCaps" => some { ok with caps := .stall }
  | "capsRefused" => some { ok with caps := .refused }
  | "byeRefused" => some { ok with bye := .refused }
  | "slowAll" => some { ok with hello := .slow, version := .slow, config := .slow, caps := .slow, bye := .slow }
  | _ => none

def infoStr : Option Info → String
  | none => "none"
  | some i => s!"some {i.name} {i.vendor} {i.model} x{hexOf (bytesOfStr i.fw)}"

/-- slack added to every wall-clock bound (scheduling, loopback latency, graceful shutdown), milliseconds -/
def slackMs : Nat := 1000

def handleC17 : Handler := fun args =>
  match args with
  | ["name", v, m, t, rid] =>
    match natArgs [v, m, t], unhexX rid with
    | some [v, m, t], some rid => deviceName v m t rid
    | _, _ => "bad-op"
  | ["name-doc", v, m, t, rid] =>
    match natArgs [v, m, t], unhexX rid with
    | some [v, m, t], some rid => Doc.docName v m t rid
    | _, _ => "bad-op"
  | ["skip", r, u] =>
    match natArgs [r, u] with
    | some [r, u] => if shouldProbe (r != 0) (u != 0) then "probe" else "skip"
    | _ => "bad-op"
  | ["probe", beh, hasId, t, rid, hasG, v, m, fw] =>
    match natArgs [hasId, t, hasG, v, m], unhexX rid, unhexX fw with
    | some [hasId, t, hasG, v, m], some rid, some fw =>
      let id := if hasId != 0 then some (Ident.mk t rid) else none
      let g := if hasG != 0 then some (Caps.mk v m (strOfBytes fw)) else none
      match hostOf beh id g with
      | some h => infoStr (probeRun h).info
      | none => "bad-op"
    | _, _, _ => "bad-op"
  | ["probe-time-check", beh, tMs, elapsed] =>
    -- monitor: the real probe returned within the model's number of timeout periods (+ slack)
    match hostOf beh (some ⟨0, [1, 2, 3]⟩) none, tMs.toNat? with
    | some h, some tMs =>
      let bound := (probeRun h).timeouts * tMs + slackMs
      match elapsed.toNat? with
      | some e => if e ≤ bound then "accept" else s!"reject bound={bound}ms"
      | none => s!"reject bound={bound}ms"
    | _, _ => "bad-op"
  | ["run-check", beh, dMs, tMs, elapsed] =>
    -- monitor: autoDiscover returned within its maximum duration plus one probe's allowance (+ slack)
    match hostOf beh (some ⟨0, [1, 2, 3]⟩) none, natArgs [dMs, tMs] with
    | some h, some [dMs, tMs] =>
      let bound := dMs + (probeRun h).timeouts * tMs + slackMs
      match elapsed.toNat? with
      | some e => if e ≤ bound then "accept" else s!"reject bound={bound}ms"
      | none => s!"reject bound={bound}ms"
    | _, _ => "bad-op"
  | ["probe-busy-check", elapsed] =>
    -- a host that keeps the connection busy without answering: the probe ends with the exchange's own deadline
    -- (`context.WithTimeout(_, sendTimeout)`, C17.probe_limits), not before, and not much later
    let bound := Gen.drv_sendTimeout / 1000000 + 4 * slackMs
    match elapsed.toNat? with
    | some e => if e ≤ bound then "accept" else s!"reject bound={bound}ms"
    | none => s!"reject bound={bound}ms elapsed={elapsed}"
  | ["probe-stages"] => toString probeStages
  | _ => none

end LLRP.Oracle
