import LLRP.Oracle.Common
import LLRP.Model.Forward
/-! oracle verbs of C13: `publish <dev> <typ> x<payload>` → `none` | `some <resource> x<content> count=1`; `expect-zero` -/
namespace LLRP.Oracle
open LLRP LLRP.Forward

def handleC13 : Handler := fun args =>
  match args with
  | ["publish", _dev, typ, hex] =>
    match typ.toNat?, unhexX hex with
    | some t, some p =>
      match publish Gen.schema t p with
      | some (res, c) => s!"some {res} x{hexOf c} count=1"
      | none => "none"
    | _, _ => "bad-op"
  | ["expect-zero", _] => "0"
  | _ => none

end LLRP.Oracle
