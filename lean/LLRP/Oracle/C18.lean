import LLRP.Oracle.Common
import LLRP.Model.Retry
/-! oracle verbs of C18 (retry / back-off) -/
namespace LLRP.Oracle
open LLRP LLRP.Retry

namespace C18

def errName : Err → String
  | .retriesExceeded => "R"
  | .canceled => "C"
  | .deadlineExceeded => "D"
  | .waitExceedsDeadline => "W"
  | .op i => s!"op{i}"

def joinOr (xs : List String) : String := if xs.isEmpty then "-" else ",".intercalate xs

def parseCfg (s : String) : Option Cfg :=
  match s.splitOn "," with
  | [b, m, k, j] =>
    match b.toInt?, m.toInt?, k.toInt?, j with
    | some b, some m, some k, "0" => some ⟨b, m, k, false⟩
    | some b, some m, some k, "1" => some ⟨b, m, k, true⟩
    | _, _, _, _ => none
  | _ => none

def parseOutcomes (s : String) : Option (List Outcome) :=
  if s == "-" then some [] else
  s.toList.mapM fun
    | 'o' => some .ok
    | 'r' => some .retry
    | 'f' => some .fatal
    | _ => none

/-- ctx script: first character the entry state (`-` live, `h` live with a far deadline, `C` cancelled, `D` past its
deadline), then one character per wait: `.` pass, `c` ends (Canceled), `x` ends (DeadlineExceeded), `d` the wait
would exceed the deadline -/
def parseCtx (s : String) : Option (Option Err × List WaitEv) :=
  match s.toList with
  | [] => none
  | e :: rest =>
    let entry : Option (Option Err) := match e with
      | '-' => some none
      | 'h' => some none
      | 'C' => some (some .canceled)
      | 'D' => some (some .deadlineExceeded)
      | _ => none
    match entry, rest.mapM (fun
      | '.' => some WaitEv.pass
      | 'c' => some (.ends .canceled)
      | 'x' => some (.ends .deadlineExceeded)
      | 'd' => some .exceeds
      | _ => none) with
    | some en, some evs => some (en, evs)
    | _, _ => none

def showOut (o : Out) : String :=
  if o.exhausted then s!"calls={o.calls} result=model-out-of-fuel" else
  match o.res with
  | none => s!"calls={o.calls} result=ok"
  | some fe =>
    let targets := [Err.retriesExceeded, .canceled, .deadlineExceeded, .waitExceedsDeadline] ++
      (List.range (Nat.max o.calls 1)).map (fun i => Err.op (i + 1))
    let iss := (targets.filter fe.is).map errName
    s!"calls={o.calls} result=err main={errName fe.main} is={joinOr iss} kept={fe.others.length} others={joinOr (fe.others.map errName)} attempts={fe.attempts}"

/-- every re-run is preceded by one wait that was slept through in full: the first `calls - 1` waits -/
def sumWaited (o : Out) : Int := (o.waits.take (o.calls - 1)).foldl (· + ·) 0

end C18
open C18

def handleC18 : Handler := fun args =>
  match args with
  | ["nextwait", b, m, j, n, r] =>
    match intArgs [b, m, j, n, r] with
    | some [b, m, j, n, r] =>
      if Gen.retry_nextWait_safe b m 0 (j != 0) n r then toString (Gen.retry_nextWait b m 0 (j != 0) n r) else "panic"
    | _ => "bad-op"
  | ["nextwait-feasible", b, m, n, w] =>
    match intArgs [b, m, n, w] with
    | some [b, m, n, w] =>
      if !(Gen.retry_nextWait_safe b m 0 true n 0) then "panic"
      else if feasible b m n w then "yes" else "no"
    | _ => "bad-op"
  | ["wait-spec", b, m, j, n, w] =>
    match intArgs [b, m, j, n], w.toInt? with
    | some [b, m, j, n], some w =>
      if b < 1 || m < 1 then "bad-op"
      else if specWaitOk b m (j != 0) n w then "accept" else "reject"
    | some [_, _, _, _], none => s!"reject {w}"
    | _, _ => "bad-op"
  | ["retry", cfg, retries, outs, ctx] =>
    match parseCfg cfg, retries.toInt?, parseOutcomes outs, parseCtx ctx with
    | some c, some r, some script, some (entry, evs) => showOut (runScript c r script entry evs [])
    | _, _, _, _ => "bad-op"
  | ["retry-probe", cfg, retries, outs, thr] =>
    match parseCfg cfg, retries.toInt?, parseOutcomes outs, thr.toInt? with
    | some c, some r, some script, some thr =>
      if c.jitter then "bad-op" else showOut (runProbe c r script thr)
    | _, _, _, _ => "bad-op"
  | ["retry-elapsed", cfg, retries, outs, ctx, el] =>
    match parseCfg cfg, retries.toInt?, parseOutcomes outs, parseCtx ctx, el.toInt? with
    | some c, some r, some script, some (entry, evs), some el =>
      if c.jitter then "bad-op" else
      let o := runScript c r script entry evs []
      if el ≥ sumWaited o then "ok" else s!"too-fast want>={sumWaited o}"
    | _, _, _, _, _ => "bad-op"
  | _ => none

end LLRP.Oracle
