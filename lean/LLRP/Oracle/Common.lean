import LLRP.Model.Bytes
/-! Helpers shared by the oracle's per-property handlers. A handler gets the whitespace-split request and
returns `none` when the verb is not its own. -/
namespace LLRP.Oracle
open LLRP

/-- hex argument with the mandatory `x` prefix (so that the empty byte string is a visible token) -/
def unhexX (s : String) : Option Bytes :=
  match s.toList with
  | 'x' :: cs => unhexChars cs
  | _ => none

def natArgs (xs : List String) : Option (List Nat) := xs.mapM String.toNat?
def intArgs (xs : List String) : Option (List Int) := xs.mapM String.toInt?

def optNat : Option Nat → String
  | some n => s!"some {n}"
  | none => "none"

abbrev Handler := List String → Option String

end LLRP.Oracle
