import LLRP.Oracle.Common
import LLRP.Model.Header
import LLRP.Gen.MsgTables
import LLRP.Gen.Schema
/-! oracle verbs of C19 (header codec, message-type tables) -/
namespace LLRP.Oracle
open LLRP

def handleC19 : Handler := fun args =>
  match args with
  | ["hdr-dec", hex] =>
    match unhexX hex with
    | none => "bad-op"
    | some b => match Header.unmarshal b with
      | some h => s!"ok {h.version} {h.typ} {h.payloadLen} {h.id}"
      | none => "err"
  | ["hdr-enc", v, t, l, i] =>
    match natArgs [v, t, l, i] with
    | some [v, t, l, i] => match (Header.mk v t l i).marshal with
      | some b => s!"ok x{hexOf b}"
      | none => "err"
    | _ => "bad-op"
  | ["hdr-write", v, t, l, i] =>
    match natArgs [v, t, l, i] with
    | some [v, t, l, i] => s!"ok x{hexOf (writeHeader (Header.mk v t l i))}"
    | _ => "bad-op"
  | ["ctor-accepts", t, k] =>
    -- the exported message constructors (k = 0 NewHdrOnlyMsg, 1 NewByteMessage with 3 bytes, 2 with none) accept a type
    -- exactly when the translated validateHeader does
    match t.toNat?, k.toNat? with
    | some t, some k => toString (Gen.llrp_validateHeader (if k = 1 then 3 else 0) t)
    | _, _ => "bad-op"
  | ["isvalid", t] =>
    match t.toNat? with
    | some t => toString (Gen.llrp_MessageType_IsValid t)
    | none => "bad-op"
  | ["converse", t] =>
    match t.toNat? with
    | some t => optNat (converse Gen.mirrorType t)
    | none => "bad-op"
  | ["spec-converse", t] =>
    match t.toNat? with
    | some t => optNat (lookup t (specPairs Gen.schema))
    | none => "bad-op"
  | ["newinstance", t] =>
    match t.toNat? with
    | some t => match lookup t Gen.newInstance with
      | some n => match (Gen.typeMethods.find? (·.1 == n)) with
        | some (_, ty) => s!"some {n} type={ty}"
        | none => s!"some {n} type=?"
      | none => "none"
    | none => "bad-op"
  | "check-converse" :: t :: rest =>
    match t.toNat? with
    | some t =>
      let got := " ".intercalate rest
      match lookup t (specPairs Gen.schema) with
      | none => "accept"
      | some want => if got == s!"some {want}" then "accept" else s!"reject want=some {want} got={got}"
    | none => "bad-op"
  | ["mirror-gaps"] => toString (mirrorGaps Gen.schema Gen.mirrorType)
  | _ => none

end LLRP.Oracle
