import LLRP.Oracle.Common
import LLRP.Model.SendFor
import LLRP.Model.Sexp
import LLRP.Gen.Schema
/-! oracle verbs of C12: `check-sendfor <ExpectedType> <replyTypeCode> x<payload> <observation…>` (monitor) -/
namespace LLRP.Oracle
open LLRP

def describe : SFOutcome → String
  | .success v => s!"success {v.print}"
  | .status st (some v) => s!"status {st.print} in={v.print}"
  | .status st none => s!"status {st.print} in=zero"
  | .typeErr => "typeerr"
  | .decodeErr => "decodeerr"

def handleC12 : Handler := fun args =>
  match args with
  | "check-sendfor" :: ty :: rt :: hex :: obs =>
    match Gen.schema.msg? ty, rt.toNat?, unhexX hex with
    | some c, some rt, some payload =>
      let o := " ".intercalate obs
      let zero := (zeroVal Gen.schema Gen.schema.fuel c).print
      let m := sendFor Gen.schema c rt payload
      let ok : Bool := match m with
        | .success v => o == s!"nil in={v.print}"
        | .status st (some v) => o == s!"status {st.print} in={v.print}"
        | .status st none => o == s!"status {st.print} in={zero}"
        | .typeErr => o == s!"err in={zero}"
        | .decodeErr => o.startsWith "err in="
      if ok then "accept" else s!"reject model={describe m}"
    | _, _, _ => "bad-op"
  | ["sendfor", ty, rt, hex] =>
    match Gen.schema.msg? ty, rt.toNat?, unhexX hex with
    | some c, some rt, some payload => describe (sendFor Gen.schema c rt payload)
    | _, _, _ => "bad-op"
  | _ => none

end LLRP.Oracle
