import LLRP.Oracle.Common
import LLRP.Oracle.C05
import LLRP.Model.AckLTS
/-!
oracle verbs of C07:
`ack-script <version> <event…>` — the acknowledgement LTS under the deterministic scheduler of `Model/AckLTS`;
events `k<id>` (keep-alive handled), `r<typ>:<len>:<seed>:<wants>` (request offered to the idle write loop),
`S` / `R` (peer stops / resumes reading), `m<typ>:<id>` (the peer sends some other message). Reply: the frames written (`typ:id` in order), the ids dropped, the ids
still queued, and whether every scripted action was enabled.
`first-ka` — a keep-alive as the very first message: the connection is rejected and nothing is ever written.
-/
namespace LLRP.Oracle
open LLRP

def parseEnv (s : String) (caller : Nat) : Option Env :=
  if s == "S" then some .stall else if s == "R" then some .resume else
  if s.startsWith "m" then some .other else
  match s.toList with
  | 'k' :: r => (String.ofList r).toNat?.map Env.ka
  | 'r' :: _ => (parseWItem s caller).map Env.req
  | _ => none

def joinNats (l : List Nat) : String := ",".intercalate (l.map toString)

def handleC07 : Handler := fun args =>
  match args with
  | "ack-script" :: v :: evs =>
    match v.toNat?, (evs.zipIdx.mapM fun (t, i) => parseEnv t (i + 1)) with
    | some v, some es =>
      let x := schedule v es
      let frames := ",".intercalate (x.s.w.out.map fun f => s!"{f.typ}:{f.id}")
      s!"frames={frames} dropped={joinNats x.s.dropped} queued={joinNats x.s.q} ok={if x.bad then 0 else 1}"
    | _, _ => "bad-op"
  | ["first-ka", _] => "connect=fail raw=0"
  | _ => none

end LLRP.Oracle
