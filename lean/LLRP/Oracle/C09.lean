import LLRP.Oracle.LTSim
/-! oracle verbs of C09
`lts <script>` is shared (see `LLRP.Oracle.Sim`, registered by C03).
`check-c09 local=<0|1> failed=<0|1> conn=<closed|fail|none> wire=<t,t,…|-> c:<cancelled 0|1>:<reply|nil|closed|ctx|other|timeout|panic> …`
   — the monitor `LTS.check09` on the recorded outcome of a session that was ended by the script.
-/
namespace LLRP.Oracle
open LLRP LLRP.LTS

def parseRObs : String → Option RObs
  | "reply" => some .reply
  | "nil" => some .nil
  | "closed" => some .closed
  | "ctx" => some .ctx
  | "other" => some .other
  | "timeout" => some .timeout
  | "panic" => some .panic
  | _ => none

def parseObs09 : List String → Obs09 → Option Obs09
  | [], o => some o
  | t :: rest, o =>
    if t.startsWith "#" then parseObs09 rest o else
    match t.splitOn "=" with
    | ["local", v] => parseObs09 rest { o with closedLocally := v == "1" }
    | ["failed", v] => parseObs09 rest { o with connFailed := v == "1" }
    | ["conn", "closed"] => parseObs09 rest { o with connect := some .closed }
    | ["conn", "fail"] => parseObs09 rest { o with connect := some .fail }
    | ["conn", "none"] => parseObs09 rest { o with connect := none }
    | ["wire", "-"] => parseObs09 rest { o with wire := [] }
    | ["wire", l] => (natArgs (l.splitOn ",")).bind (fun w => parseObs09 rest { o with wire := w })
    | _ => match t.splitOn ":" with
      | ["c", cn, r] => (parseRObs r).bind (fun r => parseObs09 rest { o with callers := o.callers ++ [(cn == "1", r)] })
      | _ => none

def handleC09 : Handler := fun args =>
  match args with
  | "check-c09" :: toks =>
    match parseObs09 toks ⟨[], none, false, false, []⟩ with
    | some o => match check09 o with
      | none => some "accept"
      | some why => some s!"reject {why}"
    | none => some "bad-op"
  | _ => none

end LLRP.Oracle
