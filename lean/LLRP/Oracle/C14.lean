import LLRP.Oracle.Common
import LLRP.Model.Command
/-! oracle verbs of C14 (command mapping, keep-alive enforcement)

```
cmd-read  r:<name> …                                              one `r:` per CommandRequest
cmd-write r:<name> … a:<key>=<attr> … p:<name>=<pval> …           attributes are those of request 0
   <attr> = missing | empty | nonstring | num:<n> | nonnum
   <pval> = u32:<n> | str:<0|1>:<s> | obj:<0|1>:<-|trig/ival> | null | other
→ reject | req <typ> <resp> id=<n|-> custom=<vendor/subtype|-> payload=<p<i>|id|default> ka=<trig/ival|->  [; req …]
enforce-ka <typ> <-|trig/ival>  →  <-|trig/ival>
doc <r|w> <resource> <action|->  →  <typ>|none                    the README row, as a type code
switch-diff  →  only-model: <rows> only-source: <rows>            cases of the switch statements on one side only
```
-/
namespace LLRP.Oracle
open LLRP LLRP.Command

private def splitFirst (c : Char) (cs : List Char) : Option (List Char × List Char) :=
  match cs.span (· ≠ c) with
  | (a, _ :: b) => some (a, b)
  | _ => none

private def parseKA (s : String) : Option (Option (Nat × Nat)) :=
  if s = "-" then some none
  else match splitFirst '/' s.toList with
    | some (a, b) => do
      let t ← (String.ofList a).toNat?
      let i ← (String.ofList b).toNat?
      pure (some (t, i))
    | none => none

private def parseAttr (s : String) : Option AttrVal :=
  match s with
  | "missing" => some .missing
  | "empty" => some .emptyString
  | "nonstring" => some .nonString
  | "nonnum" => some .nonNumericString
  | _ => match s.toList with
    | 'n' :: 'u' :: 'm' :: ':' :: r => (String.ofList r).toNat?.map .numeric
    | _ => none

private def parsePVal (s : String) : Option PVal :=
  match s.toList with
  | ['n', 'u', 'l', 'l'] => some .null
  | ['o', 't', 'h', 'e', 'r'] => some .other
  | 'u' :: '3' :: '2' :: ':' :: r => (String.ofList r).toNat?.map .uint32
  | 's' :: 't' :: 'r' :: ':' :: f :: ':' :: r =>
    if f = '1' then some (.str (String.ofList r) true) else if f = '0' then some (.str (String.ofList r) false) else none
  | 'o' :: 'b' :: 'j' :: ':' :: f :: ':' :: r =>
    match parseKA (String.ofList r) with
    | some ka => if f = '1' then some (.obj true ka) else if f = '0' then some (.obj false ka) else none
    | none => none
  | _ => none

private def parseCmd (isWrite : Bool) (args : List String) : Option Cmd :=
  args.foldlM (init := ({ isWrite := isWrite, reqs := [], attrs := [], params := [] } : Cmd)) fun c a =>
    match a.toList with
    | 'r' :: ':' :: r => some { c with reqs := c.reqs ++ [String.ofList r] }
    | 'a' :: ':' :: r =>
      match splitFirst '=' r with
      | some (k, v) => (parseAttr (String.ofList v)).map fun v => { c with attrs := c.attrs ++ [(String.ofList k, v)] }
      | none => none
    | 'p' :: ':' :: r =>
      match splitFirst '=' r with
      | some (k, v) => (parsePVal (String.ofList v)).map fun v => { c with params := c.params ++ [⟨String.ofList k, v⟩] }
      | none => none
    | _ => none

private def showKA : Option (Nat × Nat) → String
  | some (t, i) => s!"{t}/{i}"
  | none => "-"

def showReq (r : Request) : String :=
  let id := match r.id with | some n => toString n | none => "-"
  let cu := match r.custom with | some (v, s) => s!"{v}/{s}" | none => "-"
  let pl := match r.payloadFrom, r.id with
    | some i, _ => s!"p{i}"
    | none, some _ => "id"
    | none, none => "default"
  s!"req {r.typ} {r.resp} id={id} custom={cu} payload={pl} ka={showKA r.ka}"

def handleC14 : Handler := fun args =>
  match args with
  | "cmd-read" :: rest =>
    match parseCmd false rest with
    | none => "bad-op"
    | some c => match sendRead c with
      | .ok rs => " ; ".intercalate (rs.map showReq)
      | .error _ => "reject"
  | "cmd-write" :: rest =>
    match parseCmd true rest with
    | none => "bad-op"
    | some c => match sendWrite c with
      | .ok r => showReq r
      | .error _ => "reject"
  | ["enforce-ka", t, ka] =>
    match t.toNat?, parseKA ka with
    | some t, some ka => showKA (enforceKA { typ := t, resp := 0, ka := ka }).ka
    | _, _ => "bad-op"
  | ["switch-diff"] =>
    let show1 := fun (r : String × String × String × String × String) => s!"{r.1}|{r.2.1}|{r.2.2.1}|{r.2.2.2.1}|{r.2.2.2.2}"
    let (a, b) := switchDiff
    "only-model: " ++ " ; ".intercalate (a.map show1) ++ " only-source: " ++ " ; ".intercalate (b.map show1)
  | ["doc", rw, res, act] =>
    let a := if act = "-" then none else some act
    match Doc.table (rw = "w") res a with
    | some m => toString (code m)
    | none => "none"
  | _ => none

end LLRP.Oracle
