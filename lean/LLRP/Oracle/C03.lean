import LLRP.Oracle.LTSim
/-! oracle verbs of C03
`lts <script>` (see `LLRP.Oracle.Sim`) — deterministic scripts.
`check-c03 <tokens…>` — the monitor `LTS.check03` on a recorded observation:
   `p:<typ>:<id>:<pay>` one frame the peer sent;  `c:<wid|->:<typ>:<pay>` a caller that got a reply;  `c:<wid|->:-` one that did not.
-/
namespace LLRP.Oracle
open LLRP LLRP.LTS

def parseObs03 : List String → Obs → Option Obs
  | [], o => some o
  | t :: rest, o =>
    if t.startsWith "#" then parseObs03 rest o else
    match t.splitOn ":" with
    | ["p", typ, id, pay] =>
      match natArgs [typ, id, pay] with
      | some [typ, id, pay] => parseObs03 rest { o with peer := o.peer ++ [{ typ := typ, id := id, pay := pay }] }
      | _ => none
    | ["c", wid, "-"] =>
      if wid == "-" then parseObs03 rest { o with callers := o.callers ++ [⟨none, none⟩] }
      else (wid.toNat?).bind (fun w => parseObs03 rest { o with callers := o.callers ++ [⟨some w, none⟩] })
    | ["c", wid, typ, pay] =>
      match natArgs [typ, pay] with
      | some [typ, pay] =>
        if wid == "-" then parseObs03 rest { o with callers := o.callers ++ [⟨none, some (typ, pay)⟩] }
        else (wid.toNat?).bind (fun w => parseObs03 rest { o with callers := o.callers ++ [⟨some w, some (typ, pay)⟩] })
      | _ => none
    | _ => none

def handleC03 : Handler := fun args =>
  match args with
  | "check-c03" :: toks =>
    match parseObs03 toks ⟨[], []⟩ with
    | some o => match check03 o with
      | none => some "accept"
      | some why => some s!"reject {why}"
    | none => some "bad-op"
  | _ => Sim.handleLTS args

end LLRP.Oracle
