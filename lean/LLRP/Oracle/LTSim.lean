import LLRP.Oracle.Common
import LLRP.Model.ClientLTS
import LLRP.Model.ClientMon
/-!
Script interpreter over the client LTS (`LLRP.LTS`), shared by the oracle verbs of C03, C08 and C09.

`lts <ops…>` plays a deterministic script: environment / peer operations are applied as the corresponding actions of the
model, and between them the internal actors (read loop, write loop, callers, Connect) are run by a scheduler that fires
the first enabled action of a fixed candidate list. The harness runs the same script against the real client, one
operation at a time, each wait op (`w:n`, `r:c`, `rc`) blocking runUntil its observable has happened. A script is only
usable when its observation does not depend on the schedule; the interpreter therefore plays it under three schedules
(eager with the candidate list in order, eager with the list reversed, lazy = internal steps only as far as the waits
demand) and answers `nondet` when they disagree.

ops   new:<neg>            client options: neg=1 negotiates versions (default client), neg=0 is WithVersion(1.0.1)
      start                Connect begins
      pf:<typ>:<id>:<ok>:<big>   the peer's first frame (ok = payload is a ReaderEventNotification with ConnectionAttemptEvent Success)
      ps:<typ>:<id|@c>:<pay>     the peer sends a frame (@c = the id caller c's request carried)
      pcut:<k>:<typ>:<id|@c>:<pay>  the peer sends the first k bytes of that frame (0 ≤ k < its length) and vanishes
      pc                   the peer closes its side / the connection is closed locally
      pstall / presume     the peer stops / resumes reading what the client writes
      pspart:<k>:<typ>:<id|@c>:<pay> / psrest   the peer sends the first k ≥ 10 bytes of a frame (header and part of the payload) / the rest
      ws:<typ>  kh:<n>     waits: the write loop has begun (or finished) writing a frame of that type / n KeepAlives have been handled
      pcutout:<j>          the peer reads only j bytes (j < frame length) of the next frame the client writes and vanishes
      tmo                  the read deadline expires (clients WithTimeout) while the first message is awaited
      call:<c>:<typ>:<pay> SendMessage by caller c ;  nw:<c>:<typ>:<pay> SendNoWait ; shutdown:<c> Shutdown
      cancel:<c>  close    context of c ends ; Client.Close()
      w:<n>  r:<c>  rc  z  waits: the peer has received n frames / call c returned / Connect returned / short pause
      n:<k>                after a pause, the peer has received no more than k frames (else `early-write@<op index>`)
reply `wr=[typ:id:pay …] res=[c=reply:typ:pay|nil|closed|ctx|err …] conn=closed|fail|run close=[nil|closed …]`,
      or `stuck@<op index>` when a wait can never be satisfied, or `nondet`.
-/
namespace LLRP.Oracle.Sim
open LLRP LLRP.LTS

structure Sim where
  s : St := {}
  neg : Bool := false
  firstOk : Bool := true
  cs : List Nat := []
  shut : List Nat := []
  shutRes : List (Nat × String) := []
  stuck : Option Nat := none
  early : Option Nat := none
  /-- the peer vanishes inside the next frame the client writes -/
  outCut : Bool := false
  /-- the peer has stopped reading: a frame being written stays in `writing` -/
  stalled : Bool := false
  /-- the peer has sent only part of a frame's payload: the read loop stays where it is -/
  rdHold : Bool := false
  /-- the script has callers that keep calling SendNoWait with an already-cancelled context (`spin:n`) -/
  spin : Bool := false

def negGSV : Nat := 900
def negSPV : Nat := 901

/-- the negotiation driver for the scripted readers (tokens: ErrorMessage/…Response carry the status code,
GetSupportedVersionResponse carries 16·current + max) -/
def negDecide (second : Bool) (r : Res) : NegNext × Nat :=
  match r with
  | .reply f _ =>
    if second then (if f.typ = 57 ∧ f.pay = 0 then (.ok, 0) else (.bad, 0))
    else if f.typ = 100 then (if f.pay = 110 then (.ok, 1) else (.bad, 0))
    else if f.typ = 56 then
      let cur := f.pay / 16
      let mx := f.pay % 16
      let v := if mx < 2 then mx else 2
      if cur = v then (.ok, v) else (.more, v)
    else (.bad, 0)
  | _ => (.bad, 0)

def negActs (m : Sim) : List Act :=
  match m.s.conn with
  | .negIdle false => [.connNegSend negGSV 46 0]
  | .negIdle true =>
    match (m.s.callers negGSV).pc with
    | .done r => [.connNegSend negSPV 47 (negDecide false r).2]
    | _ => []
  | .negotiating c second =>
    match (m.s.callers c).pc with
    | .done r => [.connNegDone (negDecide second r).1]
    | _ => []
  | _ => []

/-- Candidate internal actions. Two refinements of the model's free choice that the scripts rely on (both are facts
about the code proved elsewhere or about the scripted peer): acks have priority over requests (`handleOutgoing`'s outer
`select`, C07), and a write completes only when the peer reads / a payload is read only when the peer has sent it. -/
def cands (m : Sim) : List Act :=
  let all := m.cs ++ [negGSV, negSPV]
  let picks := if m.s.ackQ.isEmpty then all.map Act.wrPickReq else []
  let rdBody : List Act := if m.rdHold then [] else [.rdDeliver, .rdHandle]
  let wrBody : List Act := if m.stalled then [] else [if m.s.peerClosed || m.outCut then Act.wrFail else Act.wrWrite]
  [Act.connInitial m.firstOk m.neg, .connInitialFail true, .connRejectReady, .connNegErrs, .connNegClosed] ++ negActs m ++
  [.connReady, .connServeErr, .connServeDone, .connReturn, .connFailReturn,
   .rdSeeDone, .rdHeader, .rdEof, .rdDispatch] ++ rdBody ++ [.rdWaitDone,
   .wrSeeDone, .wrPickAck] ++ picks ++ wrBody ++ [.wrParkedDone] ++
  all.flatMap (fun c => [Act.callReady c, .callToken c, .callGetReply c, .callSeeDone c, .callSeeCtx c])

/-- Shutdown = SendMessage(CloseConnection), then Close when the reply is a CloseConnectionResponse with status Success
(an ErrorMessage reply, whatever its status bytes, makes Shutdown return an error without closing) -/
def shutdownPost (m : Sim) : Sim :=
  match m.shut.find? (fun c => match (m.s.callers c).pc with | .done _ => true | _ => false) with
  | none => m
  | some c =>
    let m1 := { m with shut := m.shut.filter (· != c) }
    match (m.s.callers c).pc with
    | .done (.reply f _) =>
      if f.typ = 4 ∧ f.pay = 0 then
        { m1 with s := { step m.s .close with closeLog := m.s.closeLog }, shutRes := m.shutRes ++ [(c, if m.s.done then "closed" else "nil")] }
      else { m1 with shutRes := m.shutRes ++ [(c, "err")] }
    | .done .closed => { m1 with shutRes := m.shutRes ++ [(c, "closed")] }
    | .done .ctx => { m1 with shutRes := m.shutRes ++ [(c, "ctx")] }
    | _ => { m1 with shutRes := m.shutRes ++ [(c, "err")] }

def stepOnce (rev : Bool) (m : Sim) : Option Sim :=
  let l := if rev then (cands m).reverse else cands m
  match l.find? (enabled m.s) with
  | some a =>
    if a == .wrFail && m.outCut then some (shutdownPost { m with s := step (step m.s a) .peerClose, outCut := false })
    else some (shutdownPost { m with s := step m.s a })
  | none => none

def settle (rev : Bool) : Nat → Sim → Sim
  | 0, m => m
  | n + 1, m => match stepOnce rev m with
    | some m' => settle rev n m'
    | none => m

def fuel : Nat := 4000

/-- run internal steps until `cond` holds; `none` when the system goes quiet first -/
def runUntil (rev : Bool) (cond : Sim → Bool) : Nat → Sim → Option Sim
  | 0, _ => none
  | n + 1, m => if cond m then some m else match stepOnce rev m with
    | some m' => runUntil rev cond n m'
    | none => none

def resolveId (m : Sim) (t : String) : Option Nat :=
  match t.toList with
  | '@' :: cs => (String.ofList cs).toNat?.map (fun c => ((m.s.callers c).wid).getD 4242)
  | _ => t.toNat?

def act (m : Sim) (a : Act) : Sim := { m with s := step m.s a }

inductive Op where
  | env (f : Sim → Sim) (needQuiet : Bool)
  | wait (cond : Sim → Bool)
  | atMost (k : Nat)
  | pause

def isDone (m : Sim) (c : Nat) : Bool :=
  !m.shut.contains c && (match (m.s.callers c).pc with | .done _ => true | _ => false)

/-- a frame cut after `k` bytes, then the peer vanishes (interpreted on a settled state) -/
def cutFrame (k : Nat) (f : Frame) (m : Sim) : Sim :=
  if m.s.conn == .initial then act (act m .peerClose) (.connInitialFail (k == 0))
  else if k = 0 then act m .peerClose
  else if k < 10 then act (act m .peerClose) .rdFail
  else
    let m1 := act (act (act m (.peerSend f)) .rdHeader) .rdDispatch
    let m2 := match m1.s.rd with
      | .handle _ => act m1 .rdHandle
      | _ => m1
    act (act m2 .rdFail) .peerClose

def parseOp (m : Sim) (t : String) : Option Op :=
  match t.splitOn ":" with
  | ["new", n] => some (.env (fun m => { m with neg := n == "1" }) false)
  | ["new", n, _] => some (.env (fun m => { m with neg := n == "1" }) false)
  | ["n", k] => k.toNat?.map (fun k => .atMost k)
  | ["start"] => some (.env (fun m => act m .connStart) false)
  | ["pf", typ, id, ok, big] =>
    match natArgs [typ, id] with
    | some [typ, id] => some (.env (fun m => act { m with firstOk := ok == "1" } (.peerSend { typ := typ, id := id, big := big == "1" })) false)
    | _ => none
  | ["ps", typ, id, pay] =>
    match natArgs [typ, pay] with
    | some [typ, pay] => some (.env (fun m => match resolveId m id with
        | some id => act m (.peerSend { typ := typ, id := id, pay := pay })
        | none => m) false)
    | _ => none
  | ["pcut", k, typ, id, pay] =>
    match natArgs [k, typ, pay] with
    | some [k, typ, pay] => some (.env (fun m => match resolveId m id with
        | some id => cutFrame k { typ := typ, id := id, pay := pay } m
        | none => m) true)
    | _ => none
  | ["pc"] => some (.env (fun m => act m .peerClose) false)
  | ["pstall"] => some (.env (fun m => { m with stalled := true }) true)
  | ["presume"] => some (.env (fun m => { m with stalled := false }) false)
  | ["pspart", k, typ, id, pay] =>
    match natArgs [k, typ, pay] with
    | some [k, typ, pay] => some (.env (fun m => match resolveId m id with
        | some id =>
          if k < 10 then m
          else { act (act (act m (.peerSend { typ := typ, id := id, pay := pay })) .rdHeader) .rdDispatch with rdHold := true }
        | none => m) true)
    | _ => none
  | ["psrest"] => some (.env (fun m => { m with rdHold := false }) false)
  | ["ws", typ] => typ.toNat?.map (fun t => .wait (fun m =>
      m.s.written.any (fun w => w.f.typ == t) || (match m.s.wr with | .writing f _ => f.typ == t | _ => false)))
  | ["kh", n] => n.toNat?.map (fun n => .wait (fun m =>
      (m.s.received.filter (fun f => f.typ == 62)).length ≥ n && m.s.rd == .idle))
  | ["pcutout", _] => some (.env (fun m => { m with outCut := true }) true)
  | ["tmo"] => some (.env (fun m => act m (.connInitialFail false)) true)
  | ["call", c, typ, pay] =>
    match natArgs [c, typ, pay] with
    | some [c, typ, pay] => some (.env (fun m => act { m with cs := m.cs ++ [c] } (.callIssue c typ pay false)) false)
    | _ => none
  | ["nw", c, typ, pay] =>
    match natArgs [c, typ, pay] with
    | some [c, typ, pay] => some (.env (fun m => act { m with cs := m.cs ++ [c] } (.callIssue c typ pay true)) false)
    | _ => none
  | ["shutdown", c] =>
    match c.toNat? with
    | some c => some (.env (fun m => act { m with cs := m.cs ++ [c], shut := m.shut ++ [c] } (.callIssue c 14 0 false)) false)
    | none => none
  | ["spin", _] => some (.env (fun m => { m with spin := true }) false)
  | ["cancel", c] => c.toNat?.map (fun c => .env (fun m => act m (.cancel c)) false)
  | ["close"] => some (.env (fun m => act m .close) false)
  | ["cclose", n] => n.toNat?.map (fun n => .env (fun m => (List.range n).foldl (fun m _ => act m .close) m) false)
  | ["w", n] => n.toNat?.map (fun n => .wait (fun m => m.s.written.length ≥ n))
  | ["r", c] => c.toNat?.map (fun c => .wait (fun m => isDone m c))
  | ["rc"] => some (.wait (fun m => match m.s.conn with | .returned _ => true | _ => false))
  | ["z"] => some .pause
  | ["zz", _] => some .pause
  | _ => let _ := m; none

/-- schedules: 0 eager, 1 eager with the candidate list reversed, 2 lazy -/
def play (mode : Nat) : List String → Nat → Sim → Option Sim
  | [], _, m => some (settle (mode == 1) fuel m)
  | t :: rest, i, m =>
    match parseOp m t with
    | none => none
    | some (.env f q) =>
      let m0 := if q then settle (mode == 1) fuel m else m
      let m1 := f m0
      play mode rest (i + 1) (if mode == 2 then m1 else settle (mode == 1) fuel m1)
    | some (.wait cond) =>
      match runUntil (mode == 1) cond fuel m with
      | some m1 => play mode rest (i + 1) m1
      | none => some { m with stuck := some i }
    | some (.atMost k) =>
      let m1 := settle (mode == 1) fuel m
      if m1.s.written.length ≤ k then play mode rest (i + 1) (if mode == 2 then m else m1)
      else some { m with early := some i }
    | some .pause => play mode rest (i + 1) m

def showRes (m : Sim) (c : Nat) : String :=
  match m.shutRes.find? (·.1 == c) with
  | some (_, r) => r
  | none => match (m.s.callers c).pc with
    | .done (.reply f _) => s!"reply:{f.typ}:{f.pay}"
    | .done .zero => "reply:0:0"
    | .done .sent => "nil"
    | .done .closed => "closed"
    | .done .ctx => "ctx"
    | _ => "run"

def showSim (m : Sim) : String :=
  match m.stuck, m.early with
  | some i, _ => s!"stuck@{i}"
  | _, some i => s!"early-write@{i}"
  | none, none =>
    let wr := " ".intercalate (m.s.written.map (fun w => s!"{w.f.typ}:{w.f.id}:{w.f.pay}"))
    let res := " ".intercalate (m.cs.map (fun c => s!"{c}={showRes m c}"))
    let conn := match m.s.conn with
      | .returned .closed => "closed"
      | .returned .fail => "fail"
      | _ => "run"
    let cl := " ".intercalate (m.s.closeLog.map (fun b => if b then "nil" else "closed"))
    -- spinning callers never pass a gate that stays closed (`callReady` needs `ready`; with a cancelled context the
    -- caller's other enabled step is `callCtx`): they add nothing to the wire and none of their calls returns nil.
    -- Once the gate has opened such a call may legitimately be sent, which this interpreter does not model.
    if m.spin && m.s.negotiated then "spin-with-open-gate (outside the interpreter's domain)" else
    s!"wr=[{wr}] res=[{res}] conn={conn} close=[{cl}]" ++ (if m.s.panicked then " PANIC" else "") ++ (if m.spin then " spin=0" else "")

def runScript (ops : List String) : String :=
  match play 0 ops 0 {}, play 1 ops 0 {}, play 2 ops 0 {} with
  | some a, some b, some c =>
    let (x, y, z) := (showSim a, showSim b, showSim c)
    if x == y && y == z then x else s!"nondet eager={x} | reversed={y} | lazy={z}"
  | _, _, _ => "bad-op"

def handleLTS : Handler := fun args =>
  match args with
  | "lts" :: ops => some (runScript ops)
  | _ => none

end LLRP.Oracle.Sim
