import LLRP.Oracle.Common
import LLRP.Model.Negotiate
import LLRP.Gen.Schema
import LLRP.Pinned.Schema
/-!
oracle verbs of C06:
`negotiate <clientMax> <reply1> <reply2> <kaFlags>` — prediction of the model of the current source (replies classified
with the codec model over the regenerated table); `negotiate-spec …` — the same with the pinned (specification) table.
A reply is `lost`, `over=<typ>` (declared payload larger than MaxBufferedPayloadSz) or `<typ>=x<payload hex>`.
`kaFlags` = three 0/1 digits: keep-alive (ids 4097, 4098, 4099) injected after GetSupportedVersion was received / after
SetProtocolVersion was received / after the first request that follows negotiation.
-/
namespace LLRP.Oracle
open LLRP

def fmtFrame (f : Frame) : String := s!"{f.ver}:{f.typ}:{f.id}:x{hexOf f.payload}"
def fmtFrames (fs : List Frame) : String := ",".intercalate (fs.map fmtFrame)

def parseReply (S : Schema) (step : Nat) (tok : String) : Option Reply :=
  if tok == "lost" then some .lost else
  match tok.splitOn "=" with
  | ["over", _] => some .oversize
  | [t, hex] => match t.toNat?, unhexX hex with
    | some typ, some payload => some (classify S step typ payload)
    | _, _ => none
  | _ => none

/-- payload of the request issued after negotiation by the harness -/
def postPayload : Bytes := [0, 0, 0, 0, 0, 0, 0]

def negRun (clientMax : Nat) (r1 r2 : Reply) (ka0 ka1 ka2 : Bool) : String :=
  let n := negotiate clientMax r1 r2
  let items := n.items.flatMap fun it => match it with
    | .req _ 46 _ _ _ _ => it :: (if ka0 then [WItem.ack 4097] else [])
    | .req _ 47 _ _ _ _ => it :: (if ka1 then [WItem.ack 4098] else [])
    | _ => [it]
  let s1 := run (WState.init clientMax) items
  match n.result with
  | none => s!"frames={fmtFrames s1.out} result=fail ver={n.version} post="
  | some _ =>
    let more := WItem.req 1 2 postPayload 0 Gen.VersionMin true :: (if ka2 then [WItem.ack 4099] else [])
    let s2 := run s1 more
    s!"frames={fmtFrames s1.out} result=ok ver={n.version} post={fmtFrames (s2.out.drop s1.out.length)}"

def handleNeg (S : Schema) (cm a b ka : String) : String :=
  match cm.toNat?, parseReply S 1 a, parseReply S 2 b, ka.toList with
  | some clientMax, some r1, some r2, [k0, k1, k2] => negRun clientMax r1 r2 (k0 == '1') (k1 == '1') (k2 == '1')
  | _, _, _, _ => "bad-op"

def handleC06 : Handler := fun args =>
  match args with
  | ["negotiate", cm, a, b, ka] => handleNeg Gen.schema cm a b ka
  | ["negotiate-spec", cm, a, b, ka] => handleNeg Pinned.schema cm a b ka
  | ["classify", step, tok] =>
    match step.toNat? with
    | some st => match parseReply Gen.schema st tok with
      | some r => s!"{repr r}"
      | none => "bad-op"
    | none => "bad-op"
  | ["spv-target", hex] =>
    -- what the codec of the current table reads as TargetVersion from a SetProtocolVersion payload
    match unhexX hex, Gen.schema.msg? "SetProtocolVersion" with
    | some p, some c => match decode Gen.schema c p with
      | some (.node [.num n] []) => s!"ok {n}"
      | _ => "err"
    | _, _ => "bad-op"
  | _ => none

end LLRP.Oracle
