import LLRP.Oracle.Common
import LLRP.Model.Discover
import LLRP.Gen.Funcs
/-! oracle verbs of C16 (address enumeration, probe-count estimate, generator cancellation) -/
namespace LLRP.Oracle
open LLRP LLRP.Discover

def natList (xs : List Nat) : String := "[" ++ " ".intercalate (xs.map toString) ++ "]"

def handleC16 : Handler := fun args =>
  match args with
  | ["hosts", a, len] =>
    match natArgs [a, len] with
    | some [a, len] => if a < two32 ∧ 12 ≤ len ∧ len ≤ 32 then natList (hosts a len) else "bad-op"
    | _ => "bad-op"
  | ["hosts", a, len, "from", i, "take", k] =>
    -- `hostsSlice = ((hosts a len).drop i).take k` (C16.slice_count_sound); the full list is used when it is small
    match natArgs [a, len, i, k] with
    | some [a, len, i, k] =>
      if a < two32 ∧ len ≤ 32 then
        if len ≥ 20 then natList (((hosts a len).drop i).take k) else natList (hostsSlice a len i k)
      else "bad-op"
    | _ => "bad-op"
  | ["hosts-count", a, len] =>
    match natArgs [a, len] with
    | some [a, len] =>
      if a < two32 ∧ len ≤ 32 then
        toString (if len ≥ 20 then (hosts a len).length else hostsCount a len)
      else "bad-op"
    | _ => "bad-op"
  | "auto" :: nets =>
    -- a whole discovery run over several configured networks: every host address of EVERY configured network is
    -- tried (as a sorted multiset: a host that lies in two configured networks is tried for each)
    match nets.mapM (fun t => match t.splitOn "/" with
        | [a, l] => match a.toNat?, l.toNat? with
          | some a, some l => if a < two32 ∧ 20 ≤ l ∧ l ≤ 32 then some (a, l) else none
          | _, _ => none
        | _ => none) with
    | some ns => natList ((ns.flatMap fun (a, l) => hosts a l).mergeSort (· ≤ ·))
    | none => "bad-op"
  | ["auto-cancelled", _] => "returned"
  | ["netsz", len] =>
    match len.toInt? with
    | some len => if Gen.driver_computeNetSz_safe len then toString (Gen.driver_computeNetSz len) else "panic"
    | none => "bad-op"
  | ["estimate", a, len] =>
    match natArgs [a, len] with
    | some [a, len] => if a < two32 ∧ len ≤ 32 then toString (hostsCount a len) else "bad-op"
    | _ => "bad-op"
  | ["estimate-check", a, len, sent, est] =>
    -- monitor for "the probe-count estimate equals the number enumerated" on the real code's two numbers
    match natArgs [a, len, sent] with
    | some [a, len, sent] =>
      if a < two32 ∧ len ≤ 32 then
        if est == toString sent ∧ sent == hostsCount a len then "accept"
        else s!"reject sent={sent} estimate={est} model={hostsCount a len}"
      else "bad-op"
    | _ => "bad-op"
  | ["cancel", a, len, cap, occ, recv, cancelled] =>
    -- does ipGenerator on a/len return, given the channel and the context? (model of the select-guarded sends)
    match natArgs [a, len, cap, occ, recv, cancelled] with
    | some [a, len, cap, occ, recv, cancelled] =>
      if a < two32 ∧ len ≤ 32 ∧ occ ≤ cap then
        let s := genInit a len cap occ (recv != 0) (cancelled != 0) true
        if allReturn (cap + 4) s then "returned" else "blocked"
      else "bad-op"
    | _ => "bad-op"
  | ["cancel-late", a, len, cap, occ] =>
    -- no receiver; the generator first runs until it is stuck (or done), then the context is cancelled
    match natArgs [a, len, cap, occ] with
    | some [a, len, cap, occ] =>
      if a < two32 ∧ len ≤ 32 ∧ occ ≤ cap then
        let s := advance (cap + 4) (genInit a len cap occ false false true)
        if allReturn (cap + 4) { s with cancelled := true } then "returned" else "blocked"
      else "bad-op"
    | _ => "bad-op"
  | _ => none

end LLRP.Oracle
