import LLRP.Oracle.Common
import LLRP.Model.Sexp
import LLRP.Gen.Schema
import LLRP.Pinned.Schema
import LLRP.Model.Layout
/-! oracle verbs of the codec (C01, C02, C11): `enc <Type> <val>`, `dec <Type> x<hex>` -/
namespace LLRP.Oracle
open LLRP

def handleCodec : Handler := fun args =>
  match args with
  | "enc" :: ty :: rest =>
    match Gen.schema.get? ty, Val.parse (" ".intercalate rest) with
    | some c, some v => s!"ok x{hexOf (encode Gen.schema c v)}"
    | _, _ => "bad-op"
  | ["dec", ty, hex] =>
    match Gen.schema.get? ty, unhexX hex with
    | some c, some d => match decode Gen.schema c d with
      | some v => s!"ok {v.print}"
      | none => "err"
    | _, _ => "bad-op"
  | "layout" :: ty :: rest =>
    -- the independent layout spec over the PINNED table (C02)
    match Pinned.schema.get? ty, Val.parse (" ".intercalate rest) with
    | some c, some v => s!"ok x{hexOf (Layout.layout Pinned.schema c v)}"
    | _, _ => "bad-op"
  | "dec-layout" :: ty :: rest =>
    -- decode (with the regenerated table's decoder) the bytes the PINNED layout prescribes for the value
    match Pinned.schema.get? ty, Gen.schema.get? ty, Val.parse (" ".intercalate rest) with
    | some cp, some c, some v =>
      match decode Gen.schema c (Layout.layout Pinned.schema cp v) with
      | some v' => s!"ok {v'.print}"
      | none => "err"
    | _, _, _ => "bad-op"
  | ["same", a, b] => if a == b then "yes" else "no"
  | "rt" :: ty :: rest =>
    match Gen.schema.get? ty, Val.parse (" ".intercalate rest) with
    | some c, some v =>
      if !fits Gen.schema c v then "unfit" else
      let b := encode Gen.schema c v
      match decode Gen.schema c b with
      | none => "fail:unmarshal-err"
      | some v' =>
        if v'.print != v.print then "fail:value"
        else if encode Gen.schema c v' != b then "fail:reencode" else "ok"
    | _, _ => "bad-op"
  | ["resource-bound", _, _] => "bounded"
  | ["minsize", ty] =>
    match Gen.schema.get? ty with
    | some c => s!"{minSize Gen.schema c} fixed={fixedSize Gen.schema c} leftover={checkLeftover Gen.schema c}"
    | none => "bad-op"
  | _ => none

end LLRP.Oracle
