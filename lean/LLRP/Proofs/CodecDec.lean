import LLRP.Proofs.CodecLower
/-!
Decoder side of the round-trip proof (C01): each decoder function, run on what the encoder emitted for a `fits`
value, returns that value. Fuel is accounted as "4 per remaining data byte + a table constant".
-/
namespace LLRP

/-! ## list utilities -/

theorem replaceAt_nil {α} (i : Nat) (f : List α → List α) : replaceAt [] i f = [] := rfl

theorem replaceAt_cons_zero {α} (x : List α) (l : List (List α)) (f : List α → List α) :
    replaceAt (x :: l) 0 f = f x :: l := by
  simp only [replaceAt, List.mapIdx_cons, if_true]
  congr 1
  have : ∀ (l : List (List α)), l.mapIdx (fun _ x => x) = l := by
    intro l; induction l with
    | nil => rfl
    | cons y ys ih => simp [List.mapIdx_cons, ih]
  simpa using this l

theorem replaceAt_cons_succ {α} (x : List α) (l : List (List α)) (i : Nat) (f : List α → List α) :
    replaceAt (x :: l) (i+1) f = x :: replaceAt l i f := by
  simp [replaceAt, List.mapIdx_cons]

theorem replaceAt_append {α} (a : List (List α)) (x : List α) (b : List (List α)) (f : List α → List α) :
    replaceAt (a ++ x :: b) a.length f = a ++ f x :: b := by
  induction a with
  | nil => simp [replaceAt_cons_zero]
  | cons y ys ih => simp [replaceAt_cons_succ, ih]

/-- the parameters of a group in which every slot's parameter exists -/
theorem groupParams_get (S : Schema) : ∀ (g : List Slot), g.all (fun s => (S.slotParam s).isSome) = true →
    (groupParams S g).length = g.length ∧
    ∀ (i : Nat) (s : Slot), g[i]? = some s → ∃ p, S.param? s.ty = some p ∧ (groupParams S g)[i]? = some p
  | [], _ => by simp [groupParams]
  | s :: g, h => by
    simp only [List.all_cons, Bool.and_eq_true] at h
    obtain ⟨hl, hget⟩ := groupParams_get S g h.2
    cases hp : S.slotParam s with
    | none => simp [hp] at h
    | some p =>
      have e : groupParams S (s :: g) = p :: groupParams S g := by simp [groupParams, hp]
      rw [e]
      refine ⟨by simp [hl], ?_⟩
      intro i s' hi
      cases i with
      | zero => simp only [List.getElem?_cons_zero, Option.some.injEq] at hi; subst hi; exact ⟨p, hp, rfl⟩
      | succ i => simpa using hget i s' (by simpa using hi)

theorem findIdx_of_noDup : ∀ (ps : List Container) (i : Nat) (p : Container),
    noDupNat (ps.map (·.typeId)) = true → ps[i]? = some p →
    ps.findIdx? (fun q => decide (q.typeId = p.typeId)) = some i
  | [], i, p, _, h => by simp at h
  | q :: ps, 0, p, _, h => by
    simp only [List.getElem?_cons_zero, Option.some.injEq] at h; subst h
    simp [List.findIdx?_cons]
  | q :: ps, i+1, p, hnd, h => by
    simp only [List.getElem?_cons_succ] at h
    simp only [List.map_cons, noDupNat, Bool.and_eq_true, Bool.not_eq_true'] at hnd
    have hne : q.typeId ≠ p.typeId := by
      intro e
      have hm : p.typeId ∈ ps.map (·.typeId) := List.mem_map_of_mem (List.mem_of_getElem? h)
      have : (List.map (fun x => x.typeId) ps).contains q.typeId = true := by
        rw [e]; simpa using hm
      rw [hnd.1] at this; cases this
    rw [List.findIdx?_cons]
    simp [hne, findIdx_of_noDup ps i p hnd.2 h]

theorem findIdx_none (ps : List Container) (t : Nat) (h : ∀ p ∈ ps, p.typeId ≠ t) :
    ps.findIdx? (fun q => decide (q.typeId = t)) = none := by
  simp only [List.findIdx?_eq_none_iff, decide_eq_false_iff_not]
  exact h

theorem take_app_len {α} (a b : List α) (n : Nat) (h : n = a.length) : (a ++ b).take n = a := by
  subst h; simp
theorem drop_app_len {α} (a b : List α) (n : Nat) (h : n = a.length) : (a ++ b).drop n = b := by
  subst h; simp
theorem hdr4_take {α} (a b c d : α) (body rest : List α) (L : Nat) (h : L = 4 + body.length) :
    ((a :: b :: c :: d :: (body ++ rest)).take L).drop 4 = body := by
  have : a :: b :: c :: d :: (body ++ rest) = ([a, b, c, d] ++ body) ++ rest := by simp
  rw [this, take_app_len _ _ L (by simp; omega)]
  simp
theorem hdr4_drop {α} (a b c d : α) (body rest : List α) (L : Nat) (h : L = 4 + body.length) :
    (a :: b :: c :: d :: (body ++ rest)).drop L = rest := by
  have : a :: b :: c :: d :: (body ++ rest) = ([a, b, c, d] ++ body) ++ rest := by simp
  rw [this, drop_app_len _ _ L (by simp; omega)]
theorem hdr1_take {α} (a : α) (body rest : List α) (L : Nat) (h : L = 1 + body.length) :
    ((a :: (body ++ rest)).take L).drop 1 = body := by
  have : a :: (body ++ rest) = ([a] ++ body) ++ rest := by simp
  rw [this, take_app_len _ _ L (by simp; omega)]
  simp
theorem hdr1_drop {α} (a : α) (body rest : List α) (L : Nat) (h : L = 1 + body.length) :
    (a :: (body ++ rest)).drop L = rest := by
  have : a :: (body ++ rest) = ([a] ++ body) ++ rest := by simp
  rw [this, drop_app_len _ _ L (by simp; omega)]

/-! ## `peek` on an encoded parameter -/

theorem peek_tlv (hasTV hasTLV : Bool) (t : Nat) (l0 l1 : UInt8) (tail : Bytes) (ht : t < 1024)
    (hctx : hasTV = false ∨ hasTLV = true) :
    peek hasTV hasTLV (byte (t / 256) :: byte t :: l0 :: l1 :: tail) = .tlv t := by
  have hb : be16 (byte (t / 256)) (byte t) = t := by rw [be16_put16]; omega
  have h0 : ¬ (byte (t / 256)).toNat ≥ 128 := by rw [byte_toNat]; omega
  unfold peek
  rcases hctx with h | h
  · subst h; simp [hb]
  · subst h
    cases hasTV
    · simp [hb]
    · simp only [Bool.and_self, if_true, h0, if_false, hb]

theorem peek_tvonly_tlv (t : Nat) (tail : Bytes) (ht : t < 1024) :
    peek true false (byte (t / 256) :: tail) = .tv (t / 256) := by
  have h0 : (byte (t / 256)).toNat % 128 = t / 256 := by rw [byte_toNat]; omega
  simp only [peek, Bool.and_false, Bool.false_eq_true, if_false, if_true, h0]

theorem peek_tv (hasTLV : Bool) (t : Nat) (tail : Bytes) (ht : t < 128) :
    peek true hasTLV (byte (t + 128) :: tail) = .tv t := by
  have h0 : (byte (t + 128)).toNat = t + 128 := by rw [byte_toNat]; omega
  have h1 : (t + 128) % 128 = t := by omega
  unfold peek
  cases hasTLV <;> simp [h0, h1]

/-! ## the two induction predicates -/

/-- every parameter encoded with fuel `≤ n` decodes back, given 4 units of decoder fuel per byte -/
def ParamOK (S : Schema) (n : Nat) : Prop :=
  ∀ (ty : String) (p : Container) (v : Val) (e rest : Bytes) (fd : Nat),
    S.param? ty = some p → EncP S n ty v e → 4 * e.length ≤ fd → decParam S fd p (e ++ rest) = some (v, rest)

/-- every container body encoded with fuel `≤ n` decodes back -/
def BodyOK (S : Schema) (n : Nat) : Prop :=
  ∀ (c : Container) (fs : List FVal) (subs : List (List Val)) (f fd : Nat),
    c ∈ S → f ≤ n → fitsFields c.fields fs = true → fitsSlots S f c.slots subs none = true →
    4 * (encSlots S f c.slots subs none).length + groupsCost c.groups + 1 ≤ fd →
    decBody S fd c (encFields c.fields fs 0 ++ encSlots S f c.slots subs none) = some (.node fs subs)

theorem param_of_body (S : Schema) (hS : SchemaWF S = true) (n : Nat) (hB : BodyOK S n) : ParamOK S (n+1) := by
  intro ty p v e rest fd hp hE hfd
  have hw := wfc_of_param hS hp
  obtain ⟨hpm, hm⟩ := param_mem hp
  obtain ⟨fs, subs, f, hf, rfl, hff, hfs, htlv, htv⟩ := (encP_shape S hS hp hE).ex
  have hpos := encP_pos S hS hE
  cases fd with
  | zero => omega
  | succ fd =>
    by_cases ht : p.isTLV = true
    · obtain ⟨he, hlt⟩ := htlv ht
      have hid := hw.tlvId hm ht
      have hcost := hw.cost
      have hbody := fun h => hB p fs subs f fd hpm (by omega) hff hfs h
      have hsl : (encSlots S f p.slots subs none).length ≤
          (encFields p.fields fs 0 ++ encSlots S f p.slots subs none).length := by simp
      generalize encFields p.fields fs 0 ++ encSlots S f p.slots subs none = body at he hbody hsl
      generalize hL : e.length = L at he hlt hfd
      clear htlv htv hE hpos
      subst he
      simp only [List.length_append, List.length_cons, List.length_nil, put16] at hL
      have hbe : be16 (byte (L / 256)) (byte L) = L := by rw [be16_put16]; omega
      simp only [put16, List.cons_append, List.nil_append]
      unfold decParam
      simp only [ht, if_true, hbe]
      have hlen : ¬ (L > (byte (p.typeId / 256) :: byte p.typeId :: byte (L / 256) :: byte L ::
          (body ++ rest)).length ∨ L < 4) := by
        simp only [List.length_cons, List.length_append]; omega
      simp only [Bool.or_eq_true, decide_eq_true_eq, hlen, if_false]
      rw [hdr4_take _ _ _ _ body rest L (by omega), hdr4_drop _ _ _ _ body rest L (by omega),
        hbody (by omega)]
      rfl
    · have ht' : p.isTLV = false := by simpa using ht
      have he := htv ht'
      have hlen := tv_length S hS hp hE ht'
      obtain ⟨_, hsl, _⟩ := hw.tv hm ht'
      have hgr : p.groups = [] := by simp [Container.groups, hsl, groupRuns]
      have hbody := hB p fs subs f fd hpm (by omega) hff hfs (by
        rw [hsl, encSlots_nil, hgr]; simp [groupsCost]; omega)
      generalize encFields p.fields fs 0 ++ encSlots S f p.slots subs none = body at he hbody
      generalize hN : paramMinSize S p = N at hlen
      clear htlv htv hE hpos
      subst he
      simp only [List.length_cons] at hlen
      unfold decParam
      simp only [ht, Bool.false_eq_true, if_false, hN, List.cons_append]
      have hc : (decide (N ≤ (byte (p.typeId + 128) :: (body ++ rest)).length) && decide (1 ≤ N)) = true := by
        simp only [List.length_cons, List.length_append, Bool.and_eq_true, decide_eq_true_eq]; omega
      rw [if_pos hc, hdr1_take _ body rest N (by omega), hdr1_drop _ body rest N (by omega), hbody]
      rfl

/-! ## head bytes of an encoded parameter -/

theorem encP_head_tlv (S : Schema) (hS : SchemaWF S = true) {n : Nat} {ty : String} {v : Val} {e : Bytes}
    {p : Container} (hp : S.param? ty = some p) (hE : EncP S n ty v e) (ht : p.isTLV = true) :
    ∃ l0 l1 tail, e = byte (p.typeId / 256) :: byte p.typeId :: l0 :: l1 :: tail ∧
      be16 l0 l1 = e.length ∧ p.typeId < 1024 := by
  obtain ⟨fs, subs, f, _, _, _, _, htlv, _⟩ := (encP_shape S hS hp hE).ex
  obtain ⟨he, hlt⟩ := htlv ht
  refine ⟨byte (e.length / 256), byte e.length, _, he, ?_, (wfc_of_param hS hp).tlvId (param_mem hp).2 ht⟩
  rw [be16_put16]; omega

theorem encP_head_tv (S : Schema) (hS : SchemaWF S = true) {n : Nat} {ty : String} {v : Val} {e : Bytes}
    {p : Container} (hp : S.param? ty = some p) (hE : EncP S n ty v e) (ht : p.isTLV = false) :
    ∃ tail, e = byte (p.typeId + 128) :: tail ∧ p.typeId < 128 := by
  obtain ⟨fs, subs, f, _, _, _, _, _, htv⟩ := (encP_shape S hS hp hE).ex
  exact ⟨_, htv ht, isTLV_false ht⟩

def hasTVg (S : Schema) (g : List Slot) : Bool := (groupParams S g).any (!·.isTLV)
def hasTLVg (S : Schema) (g : List Slot) : Bool := (groupParams S g).any (·.isTLV)

theorem ctx_of_mem {S : Schema} {g : List Slot} {p : Container} (h : p ∈ groupParams S g) :
    (p.isTLV = true → hasTLVg S g = true) ∧ (p.isTLV = false → hasTVg S g = true) := by
  constructor
  · intro ht; exact List.any_eq_true.mpr ⟨p, h, ht⟩
  · intro ht; exact List.any_eq_true.mpr ⟨p, h, by simp [ht]⟩

/-- one iteration of the group loop on a member of the group -/
theorem loop_step (S : Schema) (hS : SchemaWF S = true) (n : Nat) (ih : ParamOK S n) (g : List Slot)
    (hok : groupOK S g = true) (i : Nat) (s : Slot) (hs : g[i]? = some s) (v : Val) (e : Bytes)
    (hE : EncP S n s.ty v e) (acc : List (List Val)) (tail : Bytes) (fd m : Nat) (hfd : 4 * e.length ≤ fd) :
    decLoop S (fd+1) g acc (e ++ tail) (m+1) =
      decLoop S fd g (replaceAt acc i (fun old => if s.repeatable then old ++ [v] else [v])) tail m := by
  simp only [groupOK, Bool.and_eq_true] at hok
  obtain ⟨hlen, hget⟩ := groupParams_get S g hok.1
  obtain ⟨p, hp, hpi⟩ := hget i s hs
  have hmem : p ∈ groupParams S g := List.mem_of_getElem? hpi
  have hctx := ctx_of_mem hmem
  have hfind := findIdx_of_noDup _ i p hok.2 hpi
  have hdec := ih s.ty p v e tail fd hp hE hfd
  have hpos := encP_pos S hS hE
  conv => lhs; unfold decLoop
  simp only [show List.filterMap (fun x => S.slotParam x) g = groupParams S g from rfl, hlen, ne_eq,
    not_true_eq_false, if_false]
  by_cases ht : p.isTLV = true
  · obtain ⟨l0, l1, tl, he, hbe, hid⟩ := encP_head_tlv S hS hp hE ht
    have hTLV := hctx.1 ht
    simp only [hasTLVg] at hTLV
    have hpk := peek_tlv ((groupParams S g).any (!·.isTLV)) ((groupParams S g).any (·.isTLV)) p.typeId l0 l1 (tl ++ tail) hid (Or.inr hTLV)
    rw [he] at hdec hpos ⊢
    simp only [List.cons_append] at hdec ⊢
    have hl : ¬ ((byte (p.typeId / 256) :: byte p.typeId :: l0 :: l1 :: (tl ++ tail)).length <
        if (groupParams S g).any (!·.isTLV) = true then 1 else 4) := by
      simp only [List.length_cons]; split <;> omega
    rw [if_neg hl, hpk]
    simp only [hbe, he, List.length_cons, List.length_append, hfind, hpi, hs, hdec]
    have hpre : (if (!(groupParams S g).any (!·.isTLV)) = true then
        decide (tl.length + 1 + 1 + 1 + 1 ≤ tl.length + tail.length + 1 + 1 + 1 + 1) && decide (4 ≤ tl.length + 1 + 1 + 1 + 1)
        else true) = true := by
      split
      · simp only [Bool.and_eq_true, decide_eq_true_eq]; omega
      · rfl
    simp only [hpre, Bool.not_true, Bool.false_eq_true, if_false]
    rw [if_pos (by omega)]
  · have ht' : p.isTLV = false := by simpa using ht
    obtain ⟨tl, he, hid⟩ := encP_head_tv S hS hp hE ht'
    have hTV := hctx.2 ht'
    simp only [hasTVg] at hTV
    have hpk := peek_tv ((groupParams S g).any (·.isTLV)) p.typeId (tl ++ tail) hid
    rw [he] at hdec hpos ⊢
    simp only [List.cons_append] at hdec ⊢
    rw [hTV]
    simp only [if_true, List.length_cons, Nat.lt_one_iff, Nat.add_eq_zero_iff, Nat.succ_ne_self, and_false,
      if_false, hpk, Bool.not_true, Bool.false_eq_true, hfind, hpi, hs, hdec]
    rw [if_pos (by simp only [List.length_append]; omega)]

/-- what may follow a group `g`: nothing, or a parameter that `g`'s decoder does not take for a member -/
def StopsAt (S : Schema) (n : Nat) (g : List Slot) (tail : Bytes) : Prop :=
  tail = [] ∨ ∃ (q : Container) (ty : String) (v : Val) (eq tl : Bytes),
    S.param? ty = some q ∧ EncP S n ty v eq ∧ tail = eq ++ tl ∧
    (hasTVg S g = true ∨ q.isTLV = true) ∧
    ∀ p ∈ groupParams S g, p.typeId ≠ codeIn (hasTVg S g && !hasTLVg S g) q

/-- the loop ends at the end of the data or at a foreign parameter -/
theorem loop_stop (S : Schema) (hS : SchemaWF S = true) (n : Nat) (g : List Slot)
    (hok : groupOK S g = true) (acc : List (List Val)) (tail : Bytes) (fd m : Nat)
    (hstop : StopsAt S n g tail) : decLoop S (fd+1) g acc tail m = some (acc, tail) := by
  simp only [groupOK, Bool.and_eq_true] at hok
  obtain ⟨hlen, _⟩ := groupParams_get S g hok.1
  cases m with
  | zero => simp [decLoop]
  | succ m =>
    conv => lhs; unfold decLoop
    simp only [show List.filterMap (fun x => S.slotParam x) g = groupParams S g from rfl, hlen, ne_eq,
      not_true_eq_false, if_false]
    rcases hstop with rfl | ⟨q, ty, v, eq, tl, hq, hE, rfl, hctx, hcode⟩
    · rw [if_pos (by simp only [List.length_nil]; split <;> omega)]
    · by_cases hl : (eq ++ tl).length < (if ((groupParams S g).any (!·.isTLV)) = true then 1 else 4)
      · rw [if_pos hl]
      · rw [if_neg hl]
        simp only [hasTVg, hasTLVg] at hctx hcode
        have hnone : ∀ t, (∀ p ∈ groupParams S g, p.typeId ≠ t) →
            List.findIdx? (fun p => decide (p.typeId = t)) (groupParams S g) = none :=
          fun t h => findIdx_none _ t h
        generalize ((groupParams S g).any (!·.isTLV)) = hTV at *
        generalize ((groupParams S g).any (·.isTLV)) = hTLV at *
        by_cases ht : q.isTLV = true
        · obtain ⟨l0, l1, tl', he, hbe, hid⟩ := encP_head_tlv S hS hq hE ht
          subst he
          simp only [List.cons_append, List.length_cons, List.length_append] at hbe hl ⊢
          by_cases hctx2 : hTV = false ∨ hTLV = true
          · rw [peek_tlv hTV hTLV q.typeId l0 l1 (tl' ++ tl) hid hctx2]
            have hc : codeIn (hTV && !hTLV) q = q.typeId := by
              rcases hctx2 with h | h <;> simp [codeIn, h]
            rw [hc] at hcode
            simp only [hnone _ hcode, hbe]
            have hpre : (if (!hTV) = true then
                decide (tl'.length + 1 + 1 + 1 + 1 ≤ tl'.length + tl.length + 1 + 1 + 1 + 1) &&
                  decide (4 ≤ tl'.length + 1 + 1 + 1 + 1) else true) = true := by
              split
              · simp only [Bool.and_eq_true, decide_eq_true_eq]; omega
              · rfl
            simp only [hpre, Bool.not_true, Bool.false_eq_true, if_false]
          · have h1 : hTV = true := by cases hTV <;> simp_all
            have h2 : hTLV = false := by cases hTLV <;> simp_all
            subst h1 h2
            rw [peek_tvonly_tlv q.typeId _ hid]
            have hc : codeIn (true && !false) q = q.typeId / 256 := by simp [codeIn, ht]
            rw [hc] at hcode
            simp only [hnone _ hcode, Bool.not_true, Bool.false_eq_true, if_false]
        · have ht' : q.isTLV = false := by simpa using ht
          obtain ⟨tl', he, hid⟩ := encP_head_tv S hS hq hE ht'
          subst he
          have h1 : hTV = true := by rcases hctx with h | h; exact h; rw [ht'] at h; cases h
          subst h1
          simp only [List.cons_append]
          rw [peek_tv hTLV q.typeId _ hid]
          have hc : codeIn (true && !hTLV) q = q.typeId := by simp [codeIn, ht']
          rw [hc] at hcode
          simp only [hnone _ hcode, Bool.not_true, Bool.false_eq_true, if_false]

/-- the loop consumes the encoded list of one slot, accumulating into that slot's position -/
theorem loop_list (S : Schema) (hS : SchemaWF S = true) (n : Nat) (ih : ParamOK S n) (g : List Slot)
    (hok : groupOK S g = true) (s : Slot) (a b : List (List Val)) (hs : g[a.length]? = some s)
    (tail : Bytes) (r : Nat) (hr : 1 ≤ r) {vs : List Val} {e : Bytes} (hE : EncL S n s.ty vs e) :
    ∀ (x : List Val) (fd m : Nat), (s.repeatable = true ∨ (x = [] ∧ vs.length ≤ 1)) →
      4 * e.length + r ≤ fd → (e ++ tail).length ≤ m →
      ∃ fd2 m2, decLoop S fd g (a ++ x :: b) (e ++ tail) m = decLoop S fd2 g (a ++ (x ++ vs) :: b) tail m2 ∧
        r ≤ fd2 ∧ tail.length ≤ m2 := by
  induction hE with
  | nil =>
    intro x fd m _ hfd hm
    exact ⟨fd, m, by simp, by simpa using hfd, by simpa using hm⟩
  | @cons v vs' e1 es h1 hrest ih' =>
    intro x fd m hcond hfd hm
    have hpos := encP_pos S hS h1
    simp only [List.length_append] at hfd hm
    obtain ⟨fd', rfl⟩ : ∃ k, fd = k + 1 := ⟨fd - 1, by omega⟩
    obtain ⟨m', rfl⟩ : ∃ k, m = k + 1 := ⟨m - 1, by omega⟩
    rw [List.append_assoc, loop_step S hS n ih g hok a.length s hs v e1 h1 _ (es ++ tail) fd' m' (by omega),
      replaceAt_append]
    by_cases hrep : s.repeatable = true
    · obtain ⟨fd2, m2, h, hb1, hb2⟩ := ih' (x ++ [v]) fd' m' (Or.inl hrep) (by omega)
        (by simp only [List.length_append]; omega)
      refine ⟨fd2, m2, ?_, hb1, hb2⟩
      simp only [hrep, if_true]
      rw [h]; simp
    · obtain ⟨hx, hlen⟩ := hcond.resolve_left hrep
      subst hx
      have hvs : vs' = [] := by
        cases vs' with
        | nil => rfl
        | cons _ _ => simp at hlen
      subst hvs
      cases hrest
      refine ⟨fd', m', ?_, by omega, by omega⟩
      simp [hrep]

theorem cardB_loop {s : Slot} {k : Nat} (h : cardB s k = true) : s.repeatable = true ∨ k ≤ 1 := by
  simp only [cardB] at h
  by_cases hr : s.repeatable = true
  · exact Or.inl hr
  · right
    rw [if_neg hr] at h
    split at h
    · simpa using h
    · have : k = 1 := by simpa using h
      omega

/-- the loop consumes the encoded lists of the remaining slots `suf` of the group, slot by slot -/
theorem loop_slots (S : Schema) (hS : SchemaWF S = true) (n : Nat) (ih : ParamOK S n) (g : List Slot)
    (hok : groupOK S g = true) (tail : Bytes) (r : Nat) (hr : 1 ≤ r) {suf : List Slot}
    {vsg : List (List Val)} {e : Bytes} (hE : EncS S n suf vsg e) :
    ∀ (pre : List Slot) (accpre : List (List Val)) (fd m : Nat), g = pre ++ suf → accpre.length = pre.length →
      4 * e.length + r ≤ fd → (e ++ tail).length ≤ m →
      ∃ fd2 m2, decLoop S fd g (accpre ++ suf.map (fun _ => [])) (e ++ tail) m =
          decLoop S fd2 g (accpre ++ vsg) tail m2 ∧ r ≤ fd2 ∧ tail.length ≤ m2 := by
  induction hE with
  | nil =>
    intro pre accpre fd m _ _ hfd hm
    exact ⟨fd, m, by simp, by simpa using hfd, by simpa using hm⟩
  | @cons s ss vs vss el es hc hl _ ih' =>
    intro pre accpre fd m hg hlen hfd hm
    simp only [List.length_append] at hfd hm
    have hs : g[accpre.length]? = some s := by rw [hg, hlen]; simp
    obtain ⟨fd1, m1, h1, hb1, hb2⟩ := loop_list S hS n ih g hok s accpre (ss.map fun _ => []) hs (es ++ tail)
      (4 * es.length + r) (by omega) hl [] fd m
      ((cardB_loop hc).elim Or.inl (fun h => Or.inr ⟨rfl, h⟩)) (by omega)
      (by simp only [List.length_append]; omega)
    obtain ⟨fd2, m2, h2, hb3, hb4⟩ := ih' (pre ++ [s]) (accpre ++ [vs]) fd1 m1 (by rw [hg]; simp) (by simp [hlen])
      hb1 hb2
    refine ⟨fd2, m2, ?_, hb3, hb4⟩
    simp only [List.map_cons, List.append_assoc, List.nil_append, List.cons_append] at h1 h2 ⊢
    rw [h1, h2]

/-- `decLoop` on an optional/repeatable group -/
theorem decLoop_ok (S : Schema) (hS : SchemaWF S = true) (n : Nat) (ih : ParamOK S n) (g : List Slot)
    (hok : groupOK S g = true) (vsg : List (List Val)) (e tail : Bytes) (hE : EncS S n g vsg e)
    (hstop : StopsAt S n g tail) (fd : Nat) (hfd : 4 * e.length + 1 ≤ fd) :
    decLoop S fd g (g.map fun _ => []) (e ++ tail) (e ++ tail).length = some (vsg, tail) := by
  obtain ⟨fd2, m2, h, hb, _⟩ := loop_slots S hS n ih g hok tail 1 (Nat.le_refl 1) hE [] [] fd
    (e ++ tail).length rfl rfl hfd (Nat.le_refl _)
  simp only [List.nil_append] at h
  rw [h]
  obtain ⟨k, rfl⟩ : ∃ k, fd2 = k + 1 := ⟨fd2 - 1, by omega⟩
  exact loop_stop S hS n g hok vsg tail k m2 hstop

/-! ## choice groups -/

theorem encC_index {S : Schema} {n : Nat} {g : List Slot} {vsg : List (List Val)} {e : Bytes}
    (h : EncC S n g vsg e) : ∃ i s v, g[i]? = some s ∧ EncP S n s.ty v e ∧
      v.zeroLike (inlOf S s.ty) = false ∧ vsg = replaceAt (g.map fun _ => []) i (fun _ => [v]) := by
  induction h with
  | @here s ss v e hp hz => exact ⟨0, s, v, rfl, hp, hz, by simp [replaceAt_cons_zero]⟩
  | @there s ss vss e _ ih =>
    obtain ⟨i, s', v, h1, h2, h3, h4⟩ := ih
    exact ⟨i+1, s', v, by simpa using h1, h2, h3, by simp [replaceAt_cons_succ, h4]⟩

theorem decChoice_ok (S : Schema) (hS : SchemaWF S = true) (n : Nat) (ih : ParamOK S n) (g : List Slot)
    (hok : groupOK S g = true) (vsg : List (List Val)) (e tail : Bytes) (hE : EncC S n g vsg e)
    (fd : Nat) (hfd : 4 * e.length + 1 ≤ fd) : decChoice S fd g (e ++ tail) = some (vsg, tail) := by
  obtain ⟨i, s, v, hs, hP, hz, rfl⟩ := encC_index hE
  simp only [groupOK, Bool.and_eq_true] at hok
  obtain ⟨hlen, hget⟩ := groupParams_get S g hok.1
  obtain ⟨p, hp, hpi⟩ := hget i s hs
  have hmem : p ∈ groupParams S g := List.mem_of_getElem? hpi
  have hctx := ctx_of_mem hmem
  have hfind := findIdx_of_noDup _ i p hok.2 hpi
  obtain ⟨fd', rfl⟩ : ∃ k, fd = k + 1 := ⟨fd - 1, by omega⟩
  have hdec := ih s.ty p v e tail fd' hp hP (by omega)
  have hinl : inlOf S s.ty = p.canInline := by simp [inlOf, hp]
  rw [hinl] at hz
  unfold decChoice
  simp only [show List.filterMap (fun x => S.slotParam x) g = groupParams S g from rfl, hlen, ne_eq,
    not_true_eq_false, if_false]
  by_cases ht : p.isTLV = true
  · obtain ⟨l0, l1, tl, he, hbe, hid⟩ := encP_head_tlv S hS hp hP ht
    have hTLV := hctx.1 ht
    simp only [hasTLVg] at hTLV
    have hpk := peek_tlv ((groupParams S g).any (!·.isTLV)) ((groupParams S g).any (·.isTLV)) p.typeId l0 l1
      (tl ++ tail) hid (Or.inr hTLV)
    rw [he] at hdec ⊢
    simp only [List.cons_append] at hdec ⊢
    rw [hpk]
    simp only [hfind, hpi, hdec, Option.map_some, hz, Bool.false_eq_true, if_false]
  · have ht' : p.isTLV = false := by simpa using ht
    obtain ⟨tl, he, hid⟩ := encP_head_tv S hS hp hP ht'
    have hTV := hctx.2 ht'
    simp only [hasTVg] at hTV
    have hpk := peek_tv ((groupParams S g).any (·.isTLV)) p.typeId (tl ++ tail) hid
    rw [he] at hdec ⊢
    simp only [List.cons_append] at hdec ⊢
    rw [hTV, hpk]
    simp only [hfind, hpi, hdec, Option.map_some, hz, Bool.false_eq_true, if_false]

/-! ## single-parameter groups -/

theorem singles_step (S : Schema) (hS : SchemaWF S = true) (n : Nat) (ih : ParamOK S n) (s : Slot)
    (ss : List Slot) (v : Val) (e1 d' : Bytes) (hE : EncP S n s.ty v e1) (fd : Nat) (hfd : 4 * e1.length ≤ fd) :
    decSingles S (fd+1) (s :: ss) (e1 ++ d') =
      (decSingles S fd ss d').map fun (vss, r) => ([v] :: vss, r) := by
  obtain ⟨p, hp⟩ := encP_param hE
  have hdec := ih s.ty p v e1 d' fd hp hE hfd
  conv => lhs; unfold decSingles
  simp only [Schema.slotParam, hp]
  by_cases ht : p.isTLV = true
  · obtain ⟨l0, l1, tl, he, hbe, hid⟩ := encP_head_tlv S hS hp hE ht
    rw [he] at hdec ⊢
    simp only [List.cons_append] at hdec ⊢
    simp only [ht, Bool.not_true, Bool.not_false, peek_tlv false true p.typeId l0 l1 (tl ++ d') hid (Or.inl rfl),
      if_true, hdec, Option.map_some]
  · have ht' : p.isTLV = false := by simpa using ht
    obtain ⟨tl, he, hid⟩ := encP_head_tv S hS hp hE ht'
    rw [he] at hdec ⊢
    simp only [List.cons_append] at hdec ⊢
    simp only [ht', Bool.not_true, Bool.not_false, peek_tv false p.typeId (tl ++ d') hid,
      if_true, hdec, Option.map_some]

theorem decSingles_nil (S : Schema) (fd : Nat) (d : Bytes) : decSingles S (fd+1) [] d = some ([], d) := by
  simp [decSingles]

/-- a run of required singles -/
theorem decSingles_req (S : Schema) (hS : SchemaWF S = true) (n : Nat) (ih : ParamOK S n) (tail : Bytes)
    {g : List Slot} {vsg : List (List Val)} {e : Bytes} (hE : EncS S n g vsg e) :
    (∀ s ∈ g, s.optional = false ∧ s.repeatable = false) →
    ∀ fd, 4 * e.length + g.length + 1 ≤ fd → decSingles S fd g (e ++ tail) = some (vsg, tail) := by
  induction hE with
  | nil =>
    intro _ fd hfd
    obtain ⟨k, rfl⟩ : ∃ k, fd = k + 1 := ⟨fd - 1, by simp at hfd; omega⟩
    exact decSingles_nil S k _
  | @cons s ss vs vss el es hc hl _ ih' =>
    intro hall fd hfd
    obtain ⟨ho, hr⟩ := hall s List.mem_cons_self
    have hlen : vs.length = 1 := by simpa [cardB, ho, hr] using hc
    obtain ⟨v, rfl⟩ : ∃ v, vs = [v] := by
      match vs, hlen with
      | [v], _ => exact ⟨v, rfl⟩
    have hP := encL_single hl
    simp only [List.length_append, List.length_cons] at hfd
    obtain ⟨k, rfl⟩ : ∃ k, fd = k + 1 := ⟨fd - 1, by omega⟩
    rw [List.append_assoc, singles_step S hS n ih s ss v el (es ++ tail) hP k (by omega),
      ih' (fun x hx => hall x (List.mem_cons_of_mem _ hx)) k (by omega)]
    rfl

/-- an optional single -/
theorem decSingles_opt (S : Schema) (hS : SchemaWF S = true) (n : Nat) (ih : ParamOK S n) (tail : Bytes)
    (s : Slot) (vsg : List (List Val)) (e : Bytes) (hE : EncS S n [s] vsg e)
    (ho : s.optional = true) (hr : s.repeatable = false) (hok : groupOK S [s] = true)
    (hstop : StopsAt S n [s] tail) (fd : Nat) (hfd : 4 * e.length + 2 ≤ fd) :
    decSingles S fd [s] (e ++ tail) = some (vsg, tail) := by
  obtain ⟨k, rfl⟩ : ∃ k, fd = k + 1 := ⟨fd - 1, by omega⟩
  obtain ⟨k, rfl⟩ : ∃ k', k = k' + 1 := ⟨k - 1, by omega⟩
  cases hE with
  | @cons _ _ vs _ el _ hc hl hnil =>
    cases hnil
    have hlen : vs.length ≤ 1 := by simpa [cardB, ho, hr] using hc
    match vs, hlen, hl with
    | [v], _, hl =>
      have hP := encL_single hl
      simp only [List.append_nil] at hfd ⊢
      rw [singles_step S hS n ih s [] v el tail hP (k+1) (by omega), decSingles_nil]
      rfl
    | [], _, hl =>
      cases hl
      simp only [List.append_nil, List.nil_append]
      simp only [groupOK, Bool.and_eq_true, List.all_cons, List.all_nil, Bool.and_true] at hok
      obtain ⟨p, hp⟩ := Option.isSome_iff_exists.mp hok.1
      have hgp : groupParams S [s] = [p] := by simp [groupParams, hp]
      unfold decSingles
      simp only [hp, ho, if_true]
      rcases hstop with rfl | ⟨q, ty, v, eq, tl, hq, hEq, rfl, hctx, hcode⟩
      · simp [peek, decSingles_nil]
      · simp only [hasTVg, hasTLVg, hgp, List.any_cons, List.any_nil, Bool.or_false, List.mem_singleton,
          forall_eq] at hctx hcode
        by_cases ht : q.isTLV = true
        · obtain ⟨l0, l1, tl', he, hbe, hid⟩ := encP_head_tlv S hS hq hEq ht
          subst he
          simp only [List.cons_append]
          by_cases hpt : p.isTLV = true
          · rw [hpt] at hcode ⊢
            simp only [Bool.not_true, Bool.not_false,
              peek_tlv false true q.typeId l0 l1 (tl' ++ tl) hid (Or.inl rfl)]
            have : ¬ q.typeId = p.typeId := by
              intro e; apply hcode; simp [codeIn, e]
            simp [this, decSingles_nil]
          · have hpt' : p.isTLV = false := by simpa using hpt
            rw [hpt'] at hcode ⊢
            simp only [Bool.not_true, Bool.not_false, peek_tvonly_tlv q.typeId _ hid]
            have : ¬ q.typeId / 256 = p.typeId := by
              intro e; apply hcode; simp [codeIn, ht, e]
            simp [this, decSingles_nil]
        · have ht' : q.isTLV = false := by simpa using ht
          obtain ⟨tl', he, hid⟩ := encP_head_tv S hS hq hEq ht'
          subst he
          have hpt' : p.isTLV = false := by
            rcases hctx with h | h
            · simpa using h
            · rw [ht'] at h; cases h
          rw [hpt'] at hcode ⊢
          simp only [List.cons_append, Bool.not_true, Bool.not_false, peek_tv false q.typeId _ hid]
          have : ¬ q.typeId = p.typeId := by
            intro e; apply hcode; simp [codeIn, ht', e]
          simp [this, decSingles_nil]

/-! ## what a group list's encoding starts with -/

/-- `e` starts with an encoded parameter `q` -/
def StartsWith (S : Schema) (n : Nat) (q : Container) (e : Bytes) : Prop :=
  ∃ (ty : String) (v : Val) (eq tl : Bytes), S.param? ty = some q ∧ EncP S n ty v eq ∧ e = eq ++ tl

theorem mem_groupParams {S : Schema} {g : List Slot} {s : Slot} {q : Container} (hs : s ∈ g)
    (hq : S.param? s.ty = some q) : q ∈ groupParams S g :=
  List.mem_filterMap.mpr ⟨s, hs, hq⟩

theorem encS_first {S : Schema} {n : Nat} {g : List Slot} {vsg : List (List Val)} {e : Bytes}
    (h : EncS S n g vsg e) : e = [] ∨ ∃ q ∈ groupParams S g, StartsWith S n q e := by
  induction h with
  | nil => exact Or.inl rfl
  | @cons s ss vs vss el es hc hl _ ih =>
    cases hl with
    | nil =>
      rcases ih with h | ⟨q, hq, hst⟩
      · left; simp [h]
      · right
        refine ⟨q, ?_, by simpa using hst⟩
        obtain ⟨s', hs', hq'⟩ := List.mem_filterMap.mp hq
        exact List.mem_filterMap.mpr ⟨s', List.mem_cons_of_mem _ hs', hq'⟩
    | @cons v vs' e1 es' h1 _ =>
      right
      obtain ⟨q, hq⟩ := encP_param h1
      exact ⟨q, mem_groupParams List.mem_cons_self hq, s.ty, v, e1, es' ++ es, hq, h1, by simp⟩

theorem encC_first {S : Schema} {n : Nat} {g : List Slot} {vsg : List (List Val)} {e : Bytes}
    (h : EncC S n g vsg e) : ∃ q ∈ groupParams S g, StartsWith S n q e := by
  obtain ⟨i, s, v, hs, hP, _, _⟩ := encC_index h
  obtain ⟨q, hq⟩ := encP_param hP
  exact ⟨q, mem_groupParams (List.mem_of_getElem? hs) hq, s.ty, v, e, [], hq, hP, by simp⟩

theorem encC_single {S : Schema} {n : Nat} {s : Slot} {vsg : List (List Val)} {e : Bytes}
    (h : EncC S n [s] vsg e) (hc : cardB s 1 = true) : EncS S n [s] vsg e := by
  cases h with
  | here hp _ =>
    have := EncS.cons (S := S) (n := n) (s := s) (ss := []) (vs := [_]) hc (EncL.cons hp EncL.nil) EncS.nil
    simpa using this
  | there h' => cases h'

/-- dispatch facts of `decGroups`, by slot flags -/
theorem kind_facts (s : Slot) (g' : List Slot) :
    (groupKind (s :: g') = .singles ↔
      (s.repeatable = false ∧ (g' = [] ∨ (s.group = none ∧ s.optional = false)))) ∧
    (groupKind (s :: g') = .choice → s.isChoice = true ∧ g' ≠ []) ∧
    (groupKind (s :: g') = .loop → (s.optional = true ∨ s.repeatable = true)) := by
  have hlen : ((s :: g').length == 1) = true ↔ g' = [] := by
    cases g' <;> simp
  refine ⟨?_, ?_, ?_⟩
  · simp only [groupKind]
    constructor
    · intro h
      split at h
      · rename_i h1
        simp only [Bool.and_eq_true, Bool.not_eq_true', Bool.or_eq_true, hlen, Option.isNone_iff_eq_none] at h1
        exact h1
      · split at h <;> cases h
    · intro h
      rw [if_pos]
      simp only [Bool.and_eq_true, Bool.not_eq_true', Bool.or_eq_true, hlen, Option.isNone_iff_eq_none]
      exact h
  · intro h
    have := groupKind_choice_isChoice h
    exact ⟨this.1, by intro e; rw [e] at this; simp at this⟩
  · intro h
    simp only [groupKind] at h
    split at h
    · cases h
    · split at h
      · cases h
      · rename_i h2
        cases ho : s.optional <;> cases hr : s.repeatable <;> simp_all

theorem groupMandatory_cons (s : Slot) (g' : List Slot) :
    groupMandatory (s :: g') = (!s.optional && !s.repeatable) := rfl

section groups
variable (S : Schema) (n : Nat)

/-- the encoding of a group: empty (only if the group is not mandatory) or starts with one of `firstParams` -/
theorem group_first {g : List Slot} {vsg : List (List Val)} {e : Bytes} (h : GroupEnc S n g vsg e)
    (s : Slot) (g' : List Slot) (hg : g = s :: g') :
    (e = [] ∧ groupMandatory g = false) ∨
    ∃ q ∈ (if groupMandatory g then (if groupKind g == .singles then groupParams S (g.take 1) else groupParams S g)
            else groupParams S g), StartsWith S n q e := by
  subst hg
  unfold GroupEnc at h
  by_cases hs : s.isChoice = true
  · simp only [isChoiceRun, hs, if_true] at h
    obtain ⟨G, hG, hk⟩ := isChoice_key hs
    simp only [slotKey, Prod.mk.injEq] at hk
    right
    have hm : groupMandatory (s :: g') = true := by simp [groupMandatory, hk.1, hk.2.1]
    rw [if_pos hm]
    by_cases hkd : (groupKind (s :: g') == .singles) = true
    · rw [if_pos hkd]
      have hkd' : groupKind (s :: g') = .singles := by simpa using hkd
      have : g' = [] := by
        rcases ((kind_facts s g').1.mp hkd').2 with h' | h'
        · exact h'
        · rw [hG] at h'; cases h'.1
      subst this
      simpa using encC_first h
    · rw [if_neg hkd]; exact encC_first h
  · have hs' : s.isChoice = false := by simpa using hs
    simp only [isChoiceRun, hs', Bool.false_eq_true, if_false] at h
    by_cases hm : groupMandatory (s :: g') = true
    · right
      rw [if_pos hm]
      simp only [groupMandatory_cons, Bool.and_eq_true, Bool.not_eq_true'] at hm
      have hkd : groupKind (s :: g') = .singles := by
        cases hk : groupKind (s :: g') with
        | singles => rfl
        | choice => have := ((kind_facts s g').2.1 hk).1; rw [hs'] at this; cases this
        | loop => rcases (kind_facts s g').2.2 hk with h' | h' <;> simp [hm.1, hm.2] at h'
      simp only [hkd, beq_self_eq_true, if_true, List.take_succ_cons, List.take_zero]
      cases h with
      | @cons _ _ vs _ el es hc hl _ =>
        have hlen : vs.length = 1 := by simpa [cardB, hm.1, hm.2] using hc
        cases hl with
        | nil => simp at hlen
        | @cons v vs' e1 es' h1 _ =>
          obtain ⟨q, hq⟩ := encP_param h1
          exact ⟨q, mem_groupParams List.mem_cons_self hq, s.ty, v, e1, es' ++ es, hq, h1, by simp⟩
    · have hm' : groupMandatory (s :: g') = false := by simpa using hm
      rw [if_neg hm]
      rcases encS_first h with h' | h'
      · exact Or.inl ⟨h', hm'⟩
      · exact Or.inr h'

theorem first_of_groups {gs : List (List Slot)} {vss : List (List Val)} {e : Bytes}
    (h : GroupsEnc S n gs vss e) (hr : RunsOK slotKey gs) :
    e = [] ∨ ∃ q ∈ firstParams S gs, StartsWith S n q e := by
  induction h with
  | nil => exact Or.inl rfl
  | @cons g gs vsg vss eg es hg _ ih =>
    obtain ⟨⟨s, g', hgg, _, _⟩, hr'⟩ := hr
    simp only [firstParams]
    rcases group_first S n hg s g' hgg with ⟨he, hm⟩ | ⟨q, hq, ty, v, eq, tl, h1, h2, h3⟩
    · rw [he, hm]
      simp only [Bool.false_eq_true, if_false, List.nil_append]
      rcases ih hr' with h' | ⟨q, hq, hst⟩
      · exact Or.inl h'
      · exact Or.inr ⟨q, List.mem_append_right _ hq, hst⟩
    · right
      refine ⟨q, ?_, ty, v, eq, tl ++ es, h1, h2, by rw [h3]; simp⟩
      split at hq
      · rename_i hm; rw [if_pos hm]; exact hq
      · rename_i hm; rw [if_neg hm]; exact List.mem_append_left _ hq

theorem stops_of_follow {g : List Slot} {gs : List (List Slot)} {vss : List (List Val)} {es : Bytes}
    (hf : followOK S g gs = true) (h : GroupsEnc S n gs vss es) (hr : RunsOK slotKey gs) :
    StopsAt S n g es := by
  rcases first_of_groups S n h hr with h' | ⟨q, hq, ty, v, eq, tl, h1, h2, h3⟩
  · exact Or.inl h'
  · right
    simp only [followOK, List.all_eq_true, Bool.and_eq_true, Bool.or_eq_true, Bool.not_eq_true',
      List.any_eq_false, beq_iff_eq] at hf
    obtain ⟨hctx, hcode⟩ := hf q hq
    refine ⟨q, ty, v, eq, tl, h1, h2, h3, hctx, ?_⟩
    intro p hp
    simpa [hasTVg, hasTLVg] using hcode p hp

theorem mandatory_pos (hS : SchemaWF S = true) {g : List Slot} {vsg : List (List Val)} {e : Bytes}
    (h : GroupEnc S n g vsg e) (s : Slot) (g' : List Slot) (hg : g = s :: g')
    (hm : groupMandatory g = true) : 1 ≤ e.length := by
  rcases group_first S n h s g' hg with ⟨_, hm'⟩ | ⟨q, _, ty, v, eq, tl, _, h2, h3⟩
  · rw [hm] at hm'; cases hm'
  · have := encP_pos S hS h2
    rw [h3]; simp only [List.length_append]; omega

end groups

/-! ## all groups of a container -/

theorem decGroups_cons (S : Schema) (fuel : Nat) (s : Slot) (g' : List Slot) (gs : List (List Slot)) (d : Bytes) :
    decGroups S (fuel+1) ((s :: g') :: gs) d =
      match (match groupKind (s :: g') with
        | .singles => decSingles S fuel (s :: g') d
        | .choice => decChoice S fuel (s :: g') d
        | .loop => decLoop S fuel (s :: g') ((s :: g').map fun _ => []) d d.length) with
      | none => none
      | some (vs, d') =>
        match decGroups S fuel gs d' with
        | none => none
        | some (vss, d'') => some (vs ++ vss, d'') := by
  simp only [decGroups, groupKind]
  by_cases h1 : (!s.repeatable && ((s :: g').length == 1 || s.group.isNone && !s.optional)) = true
  · rw [if_pos h1, if_pos h1]; rfl
  · rw [if_neg h1, if_neg h1]
    by_cases h2 : (!(s.optional || s.repeatable)) = true
    · rw [if_pos h2, if_pos h2]; rfl
    · rw [if_neg h2, if_neg h2]; rfl

theorem not_choice_of_flags {s : Slot} (h : s.optional = true ∨ s.repeatable = true) : s.isChoice = false := by
  rcases h with h | h <;> simp [Slot.isChoice, h]

theorem decGroups_ok (S : Schema) (hS : SchemaWF S = true) (n : Nat) (ih : ParamOK S n)
    {gs : List (List Slot)} {vss : List (List Val)} {e : Bytes} (hE : GroupsEnc S n gs vss e) :
    RunsOK slotKey gs → groupsOK S gs = true → ∀ fd, 4 * e.length + groupsCost gs ≤ fd →
    decGroups S fd gs e = some (vss, []) := by
  induction hE with
  | nil =>
    intro _ _ fd hfd
    obtain ⟨k, rfl⟩ : ∃ k, fd = k + 1 := ⟨fd - 1, by simp [groupsCost] at hfd; omega⟩
    simp [decGroups]
  | @cons g gs vsg vss eg es hg hgs ih' =>
    intro hr hok fd hfd
    obtain ⟨⟨s, g', hgg, hkey, _⟩, hr'⟩ := hr
    subst hgg
    simp only [groupsOK, Bool.and_eq_true, Bool.or_eq_true] at hok
    obtain ⟨⟨hgok, hfol⟩, hoks⟩ := hok
    simp only [groupsCost, List.length_append] at hfd
    obtain ⟨k, rfl⟩ : ∃ k, fd = k + 1 := ⟨fd - 1, by omega⟩
    have hmp : groupMandatory (s :: g') = true → 1 ≤ eg.length :=
      fun hm => mandatory_pos S n hS hg s g' rfl hm
    have hrec := ih' hr' hoks k (by
      by_cases hm : groupMandatory (s :: g') = true
      · have := hmp hm; rw [if_pos hm] at hfd; omega
      · rw [if_neg hm] at hfd; omega)
    have hkeys : ∀ x ∈ s :: g', x.optional = s.optional ∧ x.repeatable = s.repeatable := by
      intro x hx
      rcases List.mem_cons.mp hx with rfl | hx
      · exact ⟨rfl, rfl⟩
      · have := hkey x hx
        simp only [slotKey, Prod.mk.injEq] at this
        exact ⟨this.1, this.2.1⟩
    have hstop : groupMandatory (s :: g') = false → StopsAt S n (s :: g') es := by
      intro hm
      rcases hfol with h | h
      · rw [hm] at h; cases h
      · exact stops_of_follow S n h hgs hr'
    rw [decGroups_cons]
    have hsub : (match groupKind (s :: g') with
        | .singles => decSingles S k (s :: g') (eg ++ es)
        | .choice => decChoice S k (s :: g') (eg ++ es)
        | .loop => decLoop S k (s :: g') ((s :: g').map fun _ => []) (eg ++ es) (eg ++ es).length) =
        some (vsg, es) := by
      unfold GroupEnc at hg
      cases hk : groupKind (s :: g') with
      | singles =>
        simp only [groupCost, hk, beq_self_eq_true, if_true, List.length_cons] at hfd
        obtain ⟨hrep, hdis⟩ := (kind_facts s g').1.mp hk
        by_cases ho : s.optional = true
        · have hg' : g' = [] := by
            rcases hdis with h | h
            · exact h
            · rw [ho] at h; cases h.2
          subst hg'
          have hnc := not_choice_of_flags (Or.inl ho)
          simp only [isChoiceRun, hnc, Bool.false_eq_true, if_false] at hg
          exact decSingles_opt S hS n ih es s vsg eg hg ho hrep hgok
            (hstop (by simp [groupMandatory, ho])) k (by simp only [List.length_nil] at hfd; omega)
        · have ho' : s.optional = false := by simpa using ho
          have hall : ∀ x ∈ s :: g', x.optional = false ∧ x.repeatable = false := by
            intro x hx; have := hkeys x hx; rw [this.1, this.2]; exact ⟨ho', hrep⟩
          by_cases hs : s.isChoice = true
          · simp only [isChoiceRun, hs, if_true] at hg
            obtain ⟨G, hG, _⟩ := isChoice_key hs
            have hg' : g' = [] := by
              rcases hdis with h | h
              · exact h
              · rw [hG] at h; cases h.1
            subst hg'
            have hES := encC_single hg (by simp [cardB, ho', hrep])
            exact decSingles_req S hS n ih es hES hall k (by simp only [List.length_cons, List.length_nil] at hfd ⊢; omega)
          · have hs' : s.isChoice = false := by simpa using hs
            simp only [isChoiceRun, hs', Bool.false_eq_true, if_false] at hg
            exact decSingles_req S hS n ih es hg hall k (by simp only [List.length_cons] at hfd ⊢; omega)
      | choice =>
        simp only [groupCost, hk] at hfd
        have hs := ((kind_facts s g').2.1 hk).1
        simp only [isChoiceRun, hs, if_true] at hg
        exact decChoice_ok S hS n ih _ hgok vsg eg es hg k (by
          simp only [show (GKind.choice == GKind.singles) = false from rfl, Bool.false_eq_true, if_false] at hfd
          omega)
      | loop =>
        simp only [groupCost, hk] at hfd
        have hfl := (kind_facts s g').2.2 hk
        have hnc := not_choice_of_flags hfl
        simp only [isChoiceRun, hnc, Bool.false_eq_true, if_false] at hg
        have hm : groupMandatory (s :: g') = false := by
          rcases hfl with h | h <;> simp [groupMandatory, h]
        exact decLoop_ok S hS n ih _ hgok vsg eg es hg (hstop hm) k (by
          simp only [show (GKind.loop == GKind.singles) = false from rfl, Bool.false_eq_true, if_false] at hfd
          omega)
    rw [hsub]
    simp only [hrec]

end LLRP
