import LLRP.Gen.Seq
/-! Theorems about `Gen.llrp_Client_handleIncoming` (go2seq translation of the read loop) for every environment; see Proofs/SeqDispatch. -/
namespace LLRP.SeqClient
open LLRP LLRP.GoSeq

/-! ## the read loop -/

/-- **The read loop never returns success**: whatever the connection, the handlers, the `select` choices and the
dispatcher do, when `handleIncoming` returns, it returns a non-nil error (so the serving call `Connect`, which collects
it, reports an error once the connection ends). -/
theorem handleIncoming_never_nil (E : Gen.Env_llrp_Client_handleIncoming) :
    ∀ (fuel : Nat) (w : E.World) (rc : Bool) (w' : E.World) (e : GoErr),
      Gen.llrp_Client_handleIncoming_loop1 E fuel w rc = some (w', e) → e ≠ .nil := by
  intro fuel
  induction fuel with
  | zero => intro w rc w' e h; simp [Gen.llrp_Client_handleIncoming_loop1] at h
  | succ fuel ih =>
    intro w rc w' e h
    rw [Gen.llrp_Client_handleIncoming_loop1.eq_2] at h
    simp only at h
    repeat' split at h
    all_goals first
      | exact ih _ _ _ _ h
      | (simp only [Option.some.injEq, Prod.mk.injEq] at h; obtain ⟨_, rfl⟩ := h; intro hc; cases hc)

theorem handleIncoming_never_nil' (E : Gen.Env_llrp_Client_handleIncoming) (fuel : Nat) (w w' : E.World) (e : GoErr)
    (h : Gen.llrp_Client_handleIncoming E fuel w = some (w', e)) : e ≠ .nil :=
  handleIncoming_never_nil E fuel w false w' e h

/-- **A failing read ends the loop with an error that is not `ErrClientClosed`**, unless a CloseConnectionResponse was
seen before (`rc`) — the failure of the connection is what the serving call reports when the connection failed first. -/
theorem handleIncoming_read_error (E : Gen.Env_llrp_Client_handleIncoming) (fuel : Nat) (w : E.World)
    (hsel : (E.select_1 w (E.Client_done w)).2 ≠ 0)
    (herr : (E.Client_readHeader_1 (E.select_1 w (E.Client_done w)).1).2.2 ≠ .nil) :
    Gen.llrp_Client_handleIncoming_loop1 E (fuel + 1) w false
      = some ((E.Client_readHeader_1 (E.select_1 w (E.Client_done w)).1).1, .new "failed to get next message: %v") := by
  rw [Gen.llrp_Client_handleIncoming_loop1.eq_2]
  have h1 : decide ((E.select_1 w (E.Client_done w)).2 = 0) = false := by simpa using hsel
  have h2 : ((E.Client_readHeader_1 (E.select_1 w (E.Client_done w)).1).2.2 == GoErr.nil) = false := by
    simpa using herr
  simp [h1, h2]

/-- **Local close on a healthy connection is reported as `ErrClientClosed`**: when the loop finds `done` closed at
the top of an iteration it returns exactly that error, without reading. -/
theorem handleIncoming_done (E : Gen.Env_llrp_Client_handleIncoming) (fuel : Nat) (w : E.World) (rc : Bool)
    (hsel : (E.select_1 w (E.Client_done w)).2 = 0) :
    Gen.llrp_Client_handleIncoming_loop1 E (fuel + 1) w rc
      = some ((E.select_1 w (E.Client_done w)).1, .global "ErrClientClosed") := by
  rw [Gen.llrp_Client_handleIncoming_loop1.eq_2]
  simp [hsel]

end LLRP.SeqClient
