import LLRP.Model.Layout
import LLRP.Model.LayoutWF
import LLRP.Proofs.Bytes
/-!
Field-level lemmas for C02: the encoder's byte writers are the layout's big-endian digits, packed sub-byte fields
accumulate without overlap, and `getHeader`'s field size is the number of bytes written (mod 2^16).
-/
namespace LLRP
open Layout

theorem byte_congr {a b : Nat} (h : a % 256 = b % 256) : byte a = byte b := by
  apply UInt8.toNat_inj.mp
  simp only [byte_toNat, h]

theorem putNat_eq_beBytes : ∀ (size n : Nat), putNat size n = beBytes size n := by
  intro size
  induction size with
  | zero => intro n; simp [putNat, beBytes]
  | succ size ih =>
    intro n
    have ih' := ih n
    unfold putNat at ih' ⊢
    rw [List.range_succ_eq_map, List.map_cons, List.map_map, beBytes, ← ih']
    congr 1
    apply List.map_congr_left
    intro i hi
    have hi' : i < size := List.mem_range.mp hi
    simp only [Function.comp]
    congr 3
    omega

theorem putInt_eq_beBytes (size : Nat) (v : Int) : putInt size v = beBytes size (twos size v) := by
  have : putInt size v = putNat size (twos size v) := by
    unfold putInt putNat twos
    simp only [Int.natCast_pow, Int.cast_ofNat_Int]
  rw [this, putNat_eq_beBytes]

theorem put16_eq_beBytes (n : Nat) : put16 n = beBytes 2 n := by
  simp [put16, beBytes]

theorem length_beBytes : ∀ (size n : Nat), (beBytes size n).length = size := by
  intro size
  induction size with
  | zero => intro n; simp [beBytes]
  | succ size ih => intro n; simp [beBytes, ih]

theorem length_flatMap_beBytes (elem : Nat) (l : List Nat) : (l.flatMap (beBytes elem)).length = l.length * elem := by
  induction l with
  | nil => simp
  | cons x xs ih => simp [List.flatMap_cons, length_beBytes, ih, Nat.succ_mul]; omega

theorem mod_pow_of_le {a j k : Nat} (hkj : k ≤ j) (h : a % 2 ^ j = 0) : a % 2 ^ k = 0 :=
  Nat.mod_eq_zero_of_dvd (Nat.dvd_trans (Nat.pow_dvd_pow 2 hkj) (Nat.dvd_of_mod_eq_zero h))

theorem or_eq_add_of_mod {acc p k : Nat} (h : acc % 2 ^ k = 0) (hp : p < 2 ^ k) : acc ||| p = acc + p := by
  obtain ⟨q, rfl⟩ := Nat.dvd_of_mod_eq_zero h
  have : 2 ^ k * q = q <<< k := by rw [Nat.shiftLeft_eq, Nat.mul_comm]
  rw [this]
  exact (Nat.shiftLeft_add_eq_or_of_lt hp q).symm

theorem packed_val (bits : Nat) (v : Int) (hb8 : bits ≤ 8) (hv0 : 0 ≤ v) (hv : v < (2 : Int) ^ bits) :
    ∃ x : Nat, x < 2 ^ bits ∧ (v % 256).toNat = x ∧ twos 1 v = x := by
  obtain ⟨x, rfl⟩ : ∃ x : Nat, v = x := ⟨v.toNat, (Int.toNat_of_nonneg hv0).symm⟩
  have hx : x < 2 ^ bits := by exact_mod_cast hv
  have h256 : 2 ^ bits ≤ 2 ^ 8 := Nat.pow_le_pow_right (by omega) hb8
  refine ⟨x, hx, ?_, ?_⟩
  · omega
  · unfold twos
    omega

theorem packed_step (acc lo bits bit x : Nat) (hacc : acc % 2 ^ (8 - lo) = 0) (hlo : lo ≤ bit)
    (hb8 : bit + bits ≤ 8) (hx : x < 2 ^ bits) :
    acc ||| (x * 2 ^ ((8 - bits) - bit)) % 256 = acc + (x % 2 ^ bits) * 2 ^ (8 - bit - bits) ∧
    (acc + (x % 2 ^ bits) * 2 ^ (8 - bit - bits)) % 2 ^ (8 - (bit + bits)) = 0 := by
  have e1 : 8 - bits - bit = 8 - bit - bits := by omega
  have e2 : 8 - (bit + bits) = 8 - bit - bits := by omega
  rw [e1, e2, Nat.mod_eq_of_lt hx]
  generalize hk : 8 - bit - bits = k
  have hpow : 2 ^ (8 - bit) = 2 ^ bits * 2 ^ k := by rw [← Nat.pow_add]; congr 1; omega
  have hp : x * 2 ^ k < 2 ^ (8 - bit) := by
    rw [hpow]; exact (Nat.mul_lt_mul_right (Nat.two_pow_pos k)).mpr hx
  have h256 : 2 ^ (8 - bit) ≤ 2 ^ 8 := Nat.pow_le_pow_right (by omega) (by omega)
  have hacc1 : acc % 2 ^ (8 - bit) = 0 := mod_pow_of_le (by omega) hacc
  have hacc2 : acc % 2 ^ k = 0 := mod_pow_of_le (by omega) hacc
  constructor
  · rw [Nat.mod_eq_of_lt (by omega : x * 2 ^ k < 256)]
    exact or_eq_add_of_mod hacc1 hp
  · rw [Nat.add_mul_mod_self_right]; exact hacc2

theorem length_flatMap_putNat (elem : Nat) (l : List Nat) : (l.flatMap (putNat elem)).length = l.length * elem := by
  rw [show putNat elem = beBytes elem from funext (putNat_eq_beBytes elem)]
  exact length_flatMap_beBytes elem l

theorem length_putInt (size : Nat) (v : Int) : (putInt size v).length = size := by
  rw [putInt_eq_beBytes, length_beBytes]

/-- the encoder's field bytes are the declared bit layout -/
theorem encFields_eq_layout : ∀ (fs : List Field) (vs : List FVal) (acc lo : Nat),
    layoutFieldsWF fs lo = true → fitsFields fs vs = true → acc % 2 ^ (8 - lo) = 0 →
    encFields fs vs acc = Layout.fields fs vs acc := by
  intro fs
  induction fs with
  | nil => intro vs acc lo _ _ _; simp [encFields, Layout.fields]
  | cons f fs ih =>
    intro vs acc lo hwf hfit hacc
    have h0 : (0 : Nat) % 2 ^ (8 - 0) = 0 := by simp
    cases hk : f.kind with
    | pad size =>
      simp only [layoutFieldsWF, hk] at hwf
      simp only [fitsFields, hk] at hfit
      simp only [encFields, Layout.fields, hk]
      rw [ih vs 0 0 hwf hfit h0]
    | scalar size bits bit part signed isBool =>
      simp only [layoutFieldsWF, hk] at hwf
      simp only [fitsFields, hk] at hfit
      cases vs with
      | nil => simp at hfit
      | cons v vs' =>
        simp only [Bool.and_eq_true] at hfit
        obtain ⟨hv, hfit'⟩ := hfit
        cases v with
        | num n =>
          simp only [encFields, Layout.fields, hk]
          by_cases h8 : bits = 8
          · simp only [h8, if_true, Bool.and_eq_true] at hwf ⊢
            rw [putInt_eq_beBytes, ih vs' 0 0 hwf.2 hfit' h0]
          · simp only [h8, if_false, Bool.and_eq_true, decide_eq_true_eq, beq_iff_eq, Bool.not_eq_true'] at hwf ⊢
            obtain ⟨⟨⟨⟨⟨hsize, hsigned⟩, hlo⟩, hb1⟩, hb8⟩, hwf'⟩ := hwf
            subst hsize; subst hsigned
            have hn : 0 ≤ n ∧ n < (2 : Int) ^ bits := by
              simp only [FKind.fitsVal, Nat.sub_self, Nat.mul_zero, Nat.zero_add] at hv
              by_cases hB : isBool = true
              · simp only [hB, if_true, Bool.or_eq_true, beq_iff_eq] at hv
                have h2 : 2 ^ 1 ≤ 2 ^ bits := Nat.pow_le_pow_right (by omega) hb1
                have h3 : ((2 ^ bits : Nat) : Int) = (2 : Int) ^ bits := by simp
                omega
              · simpa [hB] using hv
            obtain ⟨x, hx, hx1, hx2⟩ := packed_val bits n (by omega) hn.1 hn.2
            have hstep := packed_step acc lo bits bit x hacc hlo hb8 hx
            unfold packedPart placeBits
            rw [hx1, hx2, hstep.1]
            cases part with
            | true => exact ih vs' _ _ hwf' hfit' (by simpa using hstep.2)
            | false => simp only [Bool.false_eq_true, if_false] at hwf' ⊢; rw [ih vs' 0 0 hwf' hfit' h0]
        | _ => simp [FKind.fitsVal] at hv
    | fixedArr elem len =>
      simp only [layoutFieldsWF, hk] at hwf
      simp only [fitsFields, hk] at hfit
      cases vs with
      | nil => simp at hfit
      | cons v vs' =>
        simp only [Bool.and_eq_true] at hfit
        cases v with
        | bytes b => simp only [encFields, Layout.fields, hk]; rw [ih vs' 0 0 hwf hfit.2 h0]
        | _ => simp [FKind.fitsVal] at hfit
    | arr elem =>
      simp only [layoutFieldsWF, hk] at hwf
      simp only [fitsFields, hk] at hfit
      cases vs with
      | nil => simp at hfit
      | cons v vs' =>
        simp only [Bool.and_eq_true] at hfit
        cases v with
        | bytes b => simp only [encFields, Layout.fields, hk]; rw [ih vs' 0 0 hwf hfit.2 h0, put16_eq_beBytes]
        | nums l =>
          simp only [encFields, Layout.fields, hk]
          rw [ih vs' 0 0 hwf hfit.2 h0, put16_eq_beBytes, show putNat elem = beBytes elem from funext (putNat_eq_beBytes elem)]
        | _ => simp [FKind.fitsVal] at hfit
    | str =>
      simp only [layoutFieldsWF, hk] at hwf
      simp only [fitsFields, hk] at hfit
      cases vs with
      | nil => simp at hfit
      | cons v vs' =>
        simp only [Bool.and_eq_true] at hfit
        cases v with
        | bytes b => simp only [encFields, Layout.fields, hk]; rw [ih vs' 0 0 hwf hfit.2 h0, put16_eq_beBytes]
        | _ => simp [FKind.fitsVal] at hfit
    | bitArr =>
      simp only [layoutFieldsWF, hk] at hwf
      simp only [fitsFields, hk] at hfit
      cases vs with
      | nil => simp at hfit
      | cons v vs' =>
        simp only [Bool.and_eq_true] at hfit
        cases v with
        | bits n b => simp only [encFields, Layout.fields, hk]; rw [ih vs' 0 0 hwf hfit.2 h0, put16_eq_beBytes]
        | _ => simp [FKind.fitsVal] at hfit
    | rest =>
      simp only [layoutFieldsWF, hk] at hwf
      simp only [fitsFields, hk] at hfit
      cases vs with
      | nil => simp at hfit
      | cons v vs' =>
        simp only [Bool.and_eq_true] at hfit
        cases v with
        | bytes b => simp only [encFields, Layout.fields, hk]; rw [ih vs' 0 0 hwf hfit.2 h0]
        | _ => simp [FKind.fitsVal] at hfit

/-- `getHeader`'s field size agrees with the bytes `EncodeFields` writes, modulo 2^16 (each variable-length field is
sized in uint16 arithmetic) -/
theorem fieldsSz_mod : ∀ (fs : List Field) (vs : List FVal) (acc lo : Nat),
    layoutFieldsWF fs lo = true → fitsFields fs vs = true →
    fieldsSz fs vs % 65536 = (encFields fs vs acc).length % 65536 := by
  intro fs
  induction fs with
  | nil => intro vs acc lo _ _; simp [encFields, fieldsSz]
  | cons f fs ih =>
    intro vs acc lo hwf hfit
    cases hk : f.kind with
    | pad size =>
      simp only [layoutFieldsWF, hk] at hwf
      simp only [fitsFields, hk] at hfit
      simp only [encFields, fieldsSz, hk, List.length_append, List.length_replicate]
      have := ih vs 0 0 hwf hfit
      omega
    | scalar size bits bit part signed isBool =>
      simp only [layoutFieldsWF, hk] at hwf
      simp only [fitsFields, hk] at hfit
      cases vs with
      | nil => simp at hfit
      | cons v vs' =>
        simp only [Bool.and_eq_true] at hfit
        obtain ⟨hv, hfit'⟩ := hfit
        cases v with
        | num n =>
          simp only [encFields, fieldsSz, hk]
          by_cases h8 : bits = 8
          · simp only [h8, if_true, Bool.and_eq_true, Bool.not_eq_true'] at hwf ⊢
            have := ih vs' 0 0 hwf.2 hfit'
            simp only [hwf.1, Bool.false_eq_true, if_false, List.length_append, length_putInt]
            omega
          · simp only [h8, if_false, Bool.and_eq_true, decide_eq_true_eq, beq_iff_eq, Bool.not_eq_true'] at hwf ⊢
            obtain ⟨⟨⟨⟨⟨hsize, hsigned⟩, hlo⟩, hb1⟩, hb8⟩, hwf'⟩ := hwf
            subst hsize
            cases part with
            | true => simpa using ih vs' _ _ hwf' hfit'
            | false =>
              simp only [Bool.false_eq_true, if_false, List.length_cons] at hwf' ⊢
              have := ih vs' 0 0 hwf' hfit'
              omega
        | _ => simp [FKind.fitsVal] at hv
    | fixedArr elem len =>
      simp only [layoutFieldsWF, hk] at hwf
      simp only [fitsFields, hk] at hfit
      cases vs with
      | nil => simp at hfit
      | cons v vs' =>
        simp only [Bool.and_eq_true] at hfit
        cases v with
        | bytes b =>
          simp only [encFields, fieldsSz, hk, List.length_append, List.tail_cons]
          have := ih vs' 0 0 hwf hfit.2
          have hb : b.length = elem * len := by simpa [FKind.fitsVal] using hfit.1
          omega
        | _ => simp [FKind.fitsVal] at hfit
    | arr elem =>
      simp only [layoutFieldsWF, hk] at hwf
      simp only [fitsFields, hk] at hfit
      cases vs with
      | nil => simp at hfit
      | cons v vs' =>
        simp only [Bool.and_eq_true] at hfit
        cases v with
        | bytes b =>
          simp only [encFields, fieldsSz, hk, List.length_append, put16, List.length_cons, List.length_nil, wrap16]
          have := ih vs' 0 0 hwf hfit.2
          have hb : elem = 1 := by
            have := hfit.1; simp only [FKind.fitsVal, Bool.and_eq_true, beq_iff_eq] at this; exact this.1
          subst hb
          omega
        | nums l =>
          simp only [encFields, fieldsSz, hk, List.length_append, put16, List.length_cons, List.length_nil, wrap16,
            length_flatMap_putNat]
          have := ih vs' 0 0 hwf hfit.2
          omega
        | _ => simp [FKind.fitsVal] at hfit
    | str =>
      simp only [layoutFieldsWF, hk] at hwf
      simp only [fitsFields, hk] at hfit
      cases vs with
      | nil => simp at hfit
      | cons v vs' =>
        simp only [Bool.and_eq_true] at hfit
        cases v with
        | bytes b =>
          simp only [encFields, fieldsSz, hk, List.length_append, put16, List.length_cons, List.length_nil, wrap16]
          have := ih vs' 0 0 hwf hfit.2
          omega
        | _ => simp [FKind.fitsVal] at hfit
    | bitArr =>
      simp only [layoutFieldsWF, hk] at hwf
      simp only [fitsFields, hk] at hfit
      cases vs with
      | nil => simp at hfit
      | cons v vs' =>
        simp only [Bool.and_eq_true] at hfit
        cases v with
        | bits n b =>
          simp only [encFields, fieldsSz, hk, List.length_append, put16, List.length_cons, List.length_nil, wrap16]
          have := ih vs' 0 0 hwf hfit.2
          have hb : b.length = (n + 7) / 8 := by
            have := hfit.1; simp only [FKind.fitsVal, Bool.and_eq_true, beq_iff_eq] at this; exact this.2
          omega
        | _ => simp [FKind.fitsVal] at hfit
    | rest =>
      simp only [layoutFieldsWF, hk] at hwf
      simp only [fitsFields, hk] at hfit
      cases vs with
      | nil => simp at hfit
      | cons v vs' =>
        simp only [Bool.and_eq_true] at hfit
        cases v with
        | bytes b =>
          simp only [encFields, fieldsSz, hk, List.length_append, wrap16]
          have := ih vs' 0 0 hwf hfit.2
          omega
        | _ => simp [FKind.fitsVal] at hfit

set_option linter.unusedSimpArgs false in
/-- `getHeader`'s field size is the number of bytes `EncodeFields` writes (each variable-length field is sized in uint16
arithmetic; `fits` keeps every one of them below 2^16) -/
theorem fieldsSz_exact : ∀ (fs : List Field) (vs : List FVal) (acc lo : Nat),
    layoutFieldsWF fs lo = true → fitsFields fs vs = true →
    fieldsSz fs vs = (encFields fs vs acc).length := by
  intro fs
  induction fs with
  | nil => intro vs acc lo _ _; simp [encFields, fieldsSz]
  | cons f fs ih =>
    intro vs acc lo hwf hfit
    cases hk : f.kind with
    | pad size =>
      simp only [layoutFieldsWF, hk] at hwf
      simp only [fitsFields, hk] at hfit
      simp only [encFields, fieldsSz, hk, List.length_append, List.length_replicate]
      have := ih vs 0 0 hwf hfit
      omega
    | scalar size bits bit part signed isBool =>
      simp only [layoutFieldsWF, hk] at hwf
      simp only [fitsFields, hk] at hfit
      cases vs with
      | nil => simp at hfit
      | cons v vs' =>
        simp only [Bool.and_eq_true] at hfit
        obtain ⟨hv, hfit'⟩ := hfit
        cases v with
        | num n =>
          simp only [encFields, fieldsSz, hk]
          by_cases h8 : bits = 8
          · simp only [h8, if_true, Bool.and_eq_true, Bool.not_eq_true'] at hwf ⊢
            have := ih vs' 0 0 hwf.2 hfit'
            simp only [hwf.1, Bool.false_eq_true, if_false, List.length_append, length_putInt]
            omega
          · simp only [h8, if_false, Bool.and_eq_true, decide_eq_true_eq, beq_iff_eq, Bool.not_eq_true'] at hwf ⊢
            obtain ⟨⟨⟨⟨⟨hsize, hsigned⟩, hlo⟩, hb1⟩, hb8⟩, hwf'⟩ := hwf
            subst hsize
            cases part with
            | true => simpa using ih vs' _ _ hwf' hfit'
            | false =>
              simp only [Bool.false_eq_true, if_false, List.length_cons] at hwf' ⊢
              have := ih vs' 0 0 hwf' hfit'
              omega
        | _ => simp [FKind.fitsVal] at hv
    | fixedArr elem len =>
      simp only [layoutFieldsWF, hk] at hwf
      simp only [fitsFields, hk] at hfit
      cases vs with
      | nil => simp at hfit
      | cons v vs' =>
        simp only [Bool.and_eq_true] at hfit
        cases v with
        | bytes b =>
          simp only [encFields, fieldsSz, hk, List.length_append, List.tail_cons]
          have := ih vs' 0 0 hwf hfit.2
          have hb : b.length = elem * len := by simpa [FKind.fitsVal] using hfit.1
          omega
        | _ => simp [FKind.fitsVal] at hfit
    | arr elem =>
      simp only [layoutFieldsWF, hk] at hwf
      simp only [fitsFields, hk] at hfit
      cases vs with
      | nil => simp at hfit
      | cons v vs' =>
        simp only [Bool.and_eq_true] at hfit
        cases v with
        | bytes b =>
          simp only [encFields, fieldsSz, hk, List.length_append, put16, List.length_cons, List.length_nil, wrap16]
          have := ih vs' 0 0 hwf hfit.2
          have hbd := hfit.1; simp only [FKind.fitsVal, Bool.and_eq_true, decide_eq_true_eq, beq_iff_eq] at hbd
          obtain ⟨hb, hbd⟩ := hbd
          subst hb
          omega
        | nums l =>
          simp only [encFields, fieldsSz, hk, List.length_append, put16, List.length_cons, List.length_nil, wrap16,
            length_flatMap_putNat]
          have := ih vs' 0 0 hwf hfit.2
          have hbd := hfit.1; simp only [FKind.fitsVal, Bool.and_eq_true, decide_eq_true_eq, beq_iff_eq] at hbd
          have hbd' := hbd.1.2
          omega
        | _ => simp [FKind.fitsVal] at hfit
    | str =>
      simp only [layoutFieldsWF, hk] at hwf
      simp only [fitsFields, hk] at hfit
      cases vs with
      | nil => simp at hfit
      | cons v vs' =>
        simp only [Bool.and_eq_true] at hfit
        cases v with
        | bytes b =>
          simp only [encFields, fieldsSz, hk, List.length_append, put16, List.length_cons, List.length_nil, wrap16]
          have := ih vs' 0 0 hwf hfit.2
          have hbd := hfit.1; simp only [FKind.fitsVal, Bool.and_eq_true, decide_eq_true_eq, beq_iff_eq] at hbd
          omega
        | _ => simp [FKind.fitsVal] at hfit
    | bitArr =>
      simp only [layoutFieldsWF, hk] at hwf
      simp only [fitsFields, hk] at hfit
      cases vs with
      | nil => simp at hfit
      | cons v vs' =>
        simp only [Bool.and_eq_true] at hfit
        cases v with
        | bits n b =>
          simp only [encFields, fieldsSz, hk, List.length_append, put16, List.length_cons, List.length_nil, wrap16]
          have := ih vs' 0 0 hwf hfit.2
          have hbd := hfit.1; simp only [FKind.fitsVal, Bool.and_eq_true, decide_eq_true_eq, beq_iff_eq] at hbd
          omega
        | _ => simp [FKind.fitsVal] at hfit
    | rest =>
      simp only [layoutFieldsWF, hk] at hwf
      simp only [fitsFields, hk] at hfit
      cases vs with
      | nil => simp at hfit
      | cons v vs' =>
        simp only [Bool.and_eq_true] at hfit
        cases v with
        | bytes b =>
          simp only [encFields, fieldsSz, hk, List.length_append, wrap16]
          have := ih vs' 0 0 hwf hfit.2
          have hbd := hfit.1; simp only [FKind.fitsVal, Bool.and_eq_true, decide_eq_true_eq, beq_iff_eq] at hbd
          omega
        | _ => simp [FKind.fitsVal] at hfit


end LLRP
