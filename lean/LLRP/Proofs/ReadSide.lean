import LLRP.Model.ReadStages
import LLRP.Proofs.Bytes
/-! Lemmas about the read-side fold (`LLRP.Model.ReadSide`): one well-formed frame is consumed exactly; the loop on a
concatenation of well-formed frames is the frame-level specification `specRun`; on arbitrary bytes it never panics,
never runs out of fuel, allocates within the limit. -/
namespace LLRP.ReadSide
open LLRP

/-! ## a well-formed frame -/

def WFrame.head (f : WFrame) : Bytes :=
  put16 (f.ver * 1024 + f.typ) ++ put32 (f.payload.length + 10) ++ put32 f.id

theorem WFrame.bytes_eq (f : WFrame) : f.bytes = f.head ++ f.payload := rfl

theorem WFrame.head_length (f : WFrame) : f.head.length = 10 := by
  simp [WFrame.head, put16, put32]

theorem WFrame.bytes_length (f : WFrame) : f.bytes.length = f.size := by
  rw [WFrame.bytes_eq, List.length_append, WFrame.head_length, WFrame.size]

theorem unmarshal_frame (f : WFrame) (hv : f.Valid) (rest : Bytes) :
    Header.unmarshal (f.head ++ rest) = some f.hdr := by
  obtain ⟨h1, h2, h3, h4⟩ := hv
  simp only [WFrame.head, put16, put32, List.cons_append, List.nil_append, Header.unmarshal, be32_put32, be16_put16,
    byte_toNat, Gen.HeaderSz, WFrame.hdr]
  have e : ¬ ((f.payload.length + 10) % 4294967296 < 10) := by omega
  rw [if_neg e]
  simp only [Option.some.injEq, Header.mk.injEq]
  refine ⟨by omega, by omega, by omega, by omega⟩

theorem readHeader_frame (f : WFrame) (hv : f.Valid) (rest : Bytes) :
    readHeader (f.bytes ++ rest) = .ok f.hdr (f.payload ++ rest) := by
  have hl := f.head_length
  rw [WFrame.bytes_eq, List.append_assoc]
  have hne : f.head ++ (f.payload ++ rest) ≠ [] := by
    intro h; have := congrArg List.length h; simp [hl] at this
  unfold readHeader
  split
  · rename_i heq; exact absurd heq hne
  · have hlen : ¬ ((f.head ++ (f.payload ++ rest)).length < Gen.HeaderSz) := by
      simp [hl, Gen.HeaderSz]
    rw [if_neg hlen, unmarshal_frame f hv]
    simp only [Gen.HeaderSz]
    rw [← hl, List.drop_left]

/-! ## `dispatch` -/

theorem Beh.took_le (b : Beh) (n avail : Nat) : b.took n avail ≤ avail := by
  cases b <;> simp only [Beh.took]
  · omega
  · omega
  · split <;> omega

theorem Beh.allocs_le (b : Beh) (st : Bool) (n : Nat) : ∀ a ∈ b.allocs st n, a ≤ MaxBuf := by
  cases b <;> simp only [Beh.allocs, List.not_mem_nil, false_imp_iff, implies_true]
  split
  · rename_i h; simp only [Bool.and_eq_true, decide_eq_true_eq] at h; intro a ha; simp at ha; omega
  · simp

theorem dispatch_crashed (cfg : Cfg) (i : Nat) (h : Header) (aw : Bool) (beh : Beh) (s : Bytes) :
    (dispatch cfg i h aw beh s).crashed = false := by
  cases aw <;> cases hhp : handlerParty cfg h.typ <;>
  by_cases c1 : h.payloadLen ≤ MaxBuf <;> by_cases c2 : s.length < h.payloadLen <;>
  simp [dispatch, hhp, c1, c2, guarded]

theorem dispatch_rest_le (cfg : Cfg) (i : Nat) (h : Header) (aw : Bool) (beh : Beh) (s : Bytes) :
    (dispatch cfg i h aw beh s).rest.length ≤ s.length := by
  cases aw <;> cases hhp : handlerParty cfg h.typ <;>
  by_cases c1 : h.payloadLen ≤ MaxBuf <;> by_cases c2 : s.length < h.payloadLen <;>
  simp [dispatch, hhp, c1, c2] <;> omega

theorem dispatch_allocs (cfg : Cfg) (i : Nat) (h : Header) (aw : Bool) (beh : Beh) (s : Bytes) :
    ∀ a ∈ (dispatch cfg i h aw beh s).allocs, a ≤ MaxBuf := by
  have hb := Beh.allocs_le beh
  cases aw <;> cases hhp : handlerParty cfg h.typ <;>
  by_cases c1 : h.payloadLen ≤ MaxBuf <;> by_cases c2 : s.length < h.payloadLen <;>
  simp [dispatch, hhp, c1, c2]
  all_goals first
    | exact hb _ _
    | (refine ⟨by omega, ?_⟩; exact hb _ _)
    | skip

theorem handlerParty_ne_caller (cfg : Cfg) (t : Nat) (p : Party) (h : handlerParty cfg t = some p) : p ≠ .caller := by
  unfold handlerParty at h
  split at h
  · cases h; decide
  · split at h
    · cases h; decide
    · cases h

/-- every hand-over to an awaiting caller is either the complete buffered payload of a message within the limit, or
the payload-less message of one beyond it — never a partial buffer -/
def Delivery.CallerOK (d : Delivery) : Prop :=
  d.party = .caller →
    (d.hdr.payloadLen ≤ MaxBuf ∧ ∃ b, d.offered = some b ∧ b.length = d.hdr.payloadLen) ∨
    (d.hdr.payloadLen > MaxBuf ∧ d.offered = none)

theorem dispatch_callerOK (cfg : Cfg) (i : Nat) (h : Header) (aw : Bool) (beh : Beh) (s : Bytes) :
    ∀ d ∈ (dispatch cfg i h aw beh s).deliveries, d.CallerOK := by
  cases aw <;> cases hhp : handlerParty cfg h.typ <;>
  by_cases c1 : h.payloadLen ≤ MaxBuf <;> by_cases c2 : s.length < h.payloadLen <;>
  simp [dispatch, hhp, c1, c2, Delivery.CallerOK]
  all_goals first
    | (intro hp; exact absurd hp (handlerParty_ne_caller _ _ _ hhp))
    | omega
    | (refine ⟨?_, fun hp => absurd hp (handlerParty_ne_caller _ _ _ hhp)⟩; omega)
    | skip

theorem drop_drop_le (p r : Bytes) (k : Nat) (hk : k ≤ p.length) :
    ((p ++ r).drop k).drop (p.length - k) = r := by
  rw [List.drop_drop]
  have : k + (p.length - k) = p.length := by omega
  rw [this, List.drop_left]

/-- a complete well-formed frame is consumed exactly, whatever the handler does, and every entitled party gets it -/
theorem dispatch_frame (cfg : Cfg) (i : Nat) (f : WFrame) (aw : Bool) (beh : Beh) (rest : Bytes) :
    dispatch cfg i f.hdr aw beh (f.payload ++ rest) =
      { deliveries := expectedDeliveries cfg i f aw beh,
        unhandled := !aw && (handlerParty cfg f.typ).isNone,
        allocs := frameAllocs cfg f aw beh,
        rest := rest, failed := false, crashed := false } := by
  have hd := drop_drop_le f.payload rest _ (Beh.took_le beh f.payload.length f.payload.length)
  have hlt : ¬ (f.payload.length + rest.length < f.payload.length) := by omega
  have hb : (HRes.returned == HRes.panicked) = false := by decide
  cases aw <;> cases hhp : handlerParty cfg f.typ <;>
  by_cases c1 : f.payload.length ≤ MaxBuf <;>
  simp [dispatch, expectedDeliveries, frameAllocs, WFrame.hdr, hhp, c1, guarded, hd, hlt, hb, List.take_left', List.drop_left']

/-! ## the loop -/

@[simp] theorem Result.cons_fin (off i : Nat) (h : Header) (out : FrameOut) (r : Result) :
    (Result.cons off i h out r).fin = r.fin := rfl
@[simp] theorem Result.cons_allocs (off i : Nat) (h : Header) (out : FrameOut) (r : Result) :
    (Result.cons off i h out r).allocs = Gen.HeaderSz :: out.allocs ++ r.allocs := rfl
@[simp] theorem Result.cons_deliveries (off i : Nat) (h : Header) (out : FrameOut) (r : Result) :
    (Result.cons off i h out r).deliveries = out.deliveries ++ r.deliveries := rfl
@[simp] theorem Result.cons_headers (off i : Nat) (h : Header) (out : FrameOut) (r : Result) :
    (Result.cons off i h out r).headers = (off, h) :: r.headers := rfl

theorem wire_cons (f : WFrame) (fs : List WFrame) : wire (f :: fs) = f.bytes ++ wire fs := by
  simp [wire]

/-- on a concatenation of well-formed frames the byte-level loop IS the frame-level specification -/
theorem rdLoop_wire (cfg : Cfg) (env : Nat → Step) :
    ∀ (fs : List WFrame), (∀ f ∈ fs, f.Valid) → ∀ fuel i off aw closed, (wire fs).length < fuel →
      rdLoop cfg env fuel i off aw closed (wire fs) = specRun cfg env i off aw closed fs := by
  intro fs
  induction fs with
  | nil =>
    intro _ fuel i off aw closed hf
    cases fuel with
    | zero => simp at hf
    | succ k => simp [wire, rdLoop, readHeader, specRun]
  | cons f fs ih =>
    intro hv fuel i off aw closed hf
    have hvf : f.Valid := hv f (List.mem_cons_self ..)
    have hvs : ∀ g ∈ fs, g.Valid := fun g hg => hv g (List.mem_cons_of_mem _ hg)
    rw [wire_cons] at hf ⊢
    cases fuel with
    | zero => simp at hf
    | succ k =>
      have hk : (wire fs).length < k := by
        rw [List.length_append, WFrame.bytes_length, WFrame.size] at hf; omega
      unfold rdLoop
      rw [readHeader_frame f hvf]
      simp only [dispatch_frame]
      have hoff : off + Gen.HeaderSz + ((f.payload ++ wire fs).length - (wire fs).length) = off + f.size := by
        simp [Gen.HeaderSz, WFrame.size]; omega
      simp only [Bool.false_eq_true, if_false, hoff]
      rw [ih hvs k (i + 1) (off + f.size) _ _ hk]
      simp [Result.cons, specRun, WFrame.hdr]

theorem readHeader_ok_len (s : Bytes) (h : Header) (rest : Bytes) (e : readHeader s = .ok h rest) :
    rest.length + 10 = s.length := by
  unfold readHeader at e
  split at e
  · cases e
  · split at e
    · cases e
    · rename_i hl
      split at e
      · cases e
        simp only [Gen.HeaderSz, Nat.not_lt] at hl
        simp only [List.length_drop, Gen.HeaderSz]
        omega
      · cases e

/-- on ANY byte stream the loop ends by returning an error, or — only when this client has itself asked to close —
by waiting for the local close; in particular it never panics and the fuel of `rd` suffices -/
theorem rdLoop_fin (cfg : Cfg) (env : Nat → Step) :
    ∀ fuel i off aw closed (s : Bytes), s.length < fuel →
      (rdLoop cfg env fuel i off aw closed s).fin = .err ∨
      ((rdLoop cfg env fuel i off aw closed s).fin = .waitDone ∧ cfg.closing = true) := by
  intro fuel
  induction fuel with
  | zero => intro i off aw closed s h; simp at h
  | succ k ih =>
    intro i off aw closed s hs
    unfold rdLoop
    split
    · by_cases hc : (closed && cfg.closing) = true
      · right; simp only [hc, if_true, true_and]; simp only [Bool.and_eq_true] at hc; exact hc.2
      · left; simp only [hc]; rfl
    · left; rfl
    · left; rfl
    · rename_i h rest e
      have hl := readHeader_ok_len s h rest e
      simp only [dispatch_crashed, Bool.false_eq_true, if_false]
      split
      · left; rfl
      · simp only [Result.cons_fin]
        apply ih
        have := dispatch_rest_le cfg i h (isAwaited (awaitNow aw (env i)) h.typ h.id) (env i).beh rest
        omega

theorem rdLoop_allocs (cfg : Cfg) (env : Nat → Step) :
    ∀ fuel i off aw closed (s : Bytes), ∀ a ∈ (rdLoop cfg env fuel i off aw closed s).allocs, a ≤ MaxBuf := by
  have h10 : Gen.HeaderSz ≤ MaxBuf := by decide
  intro fuel
  induction fuel with
  | zero => intro i off aw closed s a ha; simp [rdLoop] at ha
  | succ k ih =>
    intro i off aw closed s a ha
    unfold rdLoop at ha
    split at ha
    · simp at ha; omega
    · simp at ha; omega
    · simp at ha; omega
    · rename_i h rest e
      have hd := dispatch_allocs cfg i h (isAwaited (awaitNow aw (env i)) h.typ h.id) (env i).beh rest
      simp only [dispatch_crashed, Bool.false_eq_true, if_false] at ha
      split at ha
      · rw [Result.cons_allocs] at ha
        rcases List.mem_cons.mp ha with rfl | ha
        · exact h10
        · rcases List.mem_append.mp ha with ha | ha
          · exact hd a ha
          · simp at ha
      · rw [Result.cons_allocs] at ha
        rcases List.mem_cons.mp ha with rfl | ha
        · exact h10
        · rcases List.mem_append.mp ha with ha | ha
          · exact hd a ha
          · exact ih _ _ _ _ _ a ha

theorem rdLoop_callerOK (cfg : Cfg) (env : Nat → Step) :
    ∀ fuel i off aw closed (s : Bytes), ∀ d ∈ (rdLoop cfg env fuel i off aw closed s).deliveries, d.CallerOK := by
  intro fuel
  induction fuel with
  | zero => intro i off aw closed s d hd; simp [rdLoop] at hd
  | succ k ih =>
    intro i off aw closed s d hd
    unfold rdLoop at hd
    split at hd
    · simp at hd
    · simp at hd
    · simp at hd
    · rename_i h rest e
      have hc := dispatch_callerOK cfg i h (isAwaited (awaitNow aw (env i)) h.typ h.id) (env i).beh rest
      simp only [dispatch_crashed, Bool.false_eq_true, if_false] at hd
      split at hd
      · rw [Result.cons_deliveries] at hd
        rcases List.mem_append.mp hd with hd | hd
        · exact hc d hd
        · simp at hd
      · rw [Result.cons_deliveries] at hd
        rcases List.mem_append.mp hd with hd | hd
        · exact hc d hd
        · exact ih _ _ _ _ _ d hd

end LLRP.ReadSide
