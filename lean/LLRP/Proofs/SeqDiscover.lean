import LLRP.Gen.Seq
import LLRP.Model.Discover
import LLRP.Proofs.Discover
/-!
# `ipGenerator` as translated from the source (`Gen.driver_ipGenerator`, go2seq with its loop on fuel) enumerates
`Discover.gen`.

`genEnv` says what the calls mean: the `*net.IPNet` holds the four bytes of address `a` and of the mask of prefix length
`len`; `IP.To4()` of a 4-byte address is that address; `bits.OnesCount32` counts one bits; every `select` either
observes `ctx.Done()` (when `stop k` holds, `k` = number of addresses sent so far) or performs the send, which appends
the value to the World's `sent` list. The arithmetic (`& ^ + <` on uint32), the tests on the prefix length, the loop
bounds and the in-loop filter are the source's own.
-/
namespace LLRP.SeqGlue
open LLRP LLRP.GoInt LLRP.Discover

structure GWorld where
  sent : List Int
deriving DecidableEq, Repr

/-- the four bytes of a 32-bit value, big-endian -/
def bytes4 (a : Nat) : List Int := [((a / 16777216 % 256 : Nat) : Int), ((a / 65536 % 256 : Nat) : Int), ((a / 256 % 256 : Nat) : Int), ((a % 256 : Nat) : Int)]

/-- `bits.OnesCount32` -/
def popcount32 (x : Int) : Int := (((List.range 32).filter (fun i => x.toNat.testBit i)).length : Nat)

def doSelect (stop : Nat → Bool) (w : GWorld) (v : Int) : GWorld × Int :=
  if stop w.sent.length then (w, 0) else (⟨w.sent ++ [v]⟩, 1)

def genEnv (a len : Nat) (stop : Nat → Bool) : Gen.Env_driver_ipGenerator where
  World := GWorld
  context_Context := Unit
  Ptr_net_IPNet := Unit
  Chan_uint32 := Unit
  net_IPNet := Unit
  Chan_Struct_struct := Unit
  deref_Ptr_net_IPNet := fun _ _ => ()
  get_net_IPNet_IP := fun _ => bytes4 a
  net_IP_To4_1 := fun w x => (w, x)
  get_net_IPNet_Mask := fun _ => bytes4 (mask len)
  bits_OnesCount32_1 := fun w x => (w, popcount32 x)
  context_Context_Done_1 := fun w _ => (w, ())
  select_1 := fun w _ _ v => doSelect stop w v
  context_Context_Done_2 := fun w _ => (w, ())
  select_2 := fun w _ _ v => doSelect stop w v

/-- sending a list of addresses one by one until the context is seen to have ended -/
def sendAll (stop : Nat → Bool) : List Int → List Int → List Int
  | sent, [] => sent
  | sent, x :: xs => if stop sent.length then sent else sendAll stop (sent ++ [x]) xs

theorem be32_bytes4 (a : Nat) (ha : a < 4294967296) : be32At (bytes4 a) 0 = (a : Int) := by
  simp [be32At, byteAt, bytes4]
  omega

theorem popcount_mask : ∀ len, len < 33 → popcount32 ((mask len : Nat) : Int) = (len : Int) := by
  decide +kernel

theorem mask_lt (len : Nat) (h : len ≤ 32) : mask len < 4294967296 := by
  have := mask_eq h; have := blk_pos len; have := blk_le h; omega

theorem goAnd_nat (a b : Nat) (ha : a < 4294967296) (hb : b < 4294967296) :
    goAnd 32 false (a : Int) (b : Int) = ((a &&& b : Nat) : Int) := by
  have h1 : a &&& b < 4294967296 := Nat.lt_of_le_of_lt Nat.and_le_left ha
  simp only [goAnd, bitop, wrap, wrapU, Bool.false_eq_true, if_false]
  have e1 : ((a : Int) % 2 ^ 32).toNat = a := by omega
  have e2 : ((b : Int) % 2 ^ 32).toNat = b := by omega
  rw [e1, e2]
  show ((Nat.land a b : Nat) : Int) % 2 ^ 32 = _
  have : Nat.land a b = a &&& b := rfl
  rw [this]; omega

theorem goXor_nat (a b : Nat) (ha : a < 4294967296) (hb : b < 4294967296) :
    goXor 32 false (a : Int) (b : Int) = ((a ^^^ b : Nat) : Int) := by
  have h1 : a ^^^ b < 2 ^ 32 := Nat.xor_lt_two_pow (by omega) (by omega)
  simp only [goXor, bitop, wrap, wrapU, Bool.false_eq_true, if_false]
  have e1 : ((a : Int) % 2 ^ 32).toNat = a := by omega
  have e2 : ((b : Int) % 2 ^ 32).toNat = b := by omega
  rw [e1, e2]
  show ((Nat.xor a b : Nat) : Int) % 2 ^ 32 = _
  have : Nat.xor a b = a ^^^ b := rfl
  rw [this]; omega

/-- the in-loop filter of the source, on naturals -/
def keep (nid um : Nat) (x : Nat) : Bool := (nid &&& um) == (x &&& um)

/-- the loop: started at `ip ≤ bc` with `sent` already sent, it sends the addresses `ip … bc-1` that pass the filter,
until the context is seen to have ended; `bc - ip < fuel` iterations suffice; the counter never wraps -/
theorem src_ipGenerator_loop (a len : Nat) (stop : Nat → Bool) (nid um bc : Nat)
    (hn : nid < 4294967296) (hu : um < 4294967296) (hb : bc < 4294967296) :
    ∀ (fuel ip : Nat) (sent : List Int), ip ≤ bc → bc - ip < fuel →
      Gen.driver_ipGenerator_loop1 (genEnv a len stop) fuel ⟨sent⟩ () () (um : Int) (nid : Int) (bc : Int) (ip : Int)
        = some ⟨sendAll stop sent (((List.range' ip (bc - ip)).filter (keep nid um)).map Int.ofNat)⟩ := by
  intro fuel
  induction fuel with
  | zero => intro ip sent _ h; omega
  | succ fuel ih =>
    intro ip sent hle hf
    refine (Gen.driver_ipGenerator_loop1.eq_2 (genEnv a len stop) ⟨sent⟩ () () (um : Int) (nid : Int) (bc : Int) (ip : Int) fuel).trans ?_
    by_cases hlt : ip < bc
    · have hc : decide ((ip : Int) < (bc : Int)) = true := by simp; omega
      have hip : ip < 4294967296 := by omega
      have hw : wrapU 32 ((ip : Int) + 1) = ((ip + 1 : Nat) : Int) := by unfold wrapU; omega
      have hr : List.range' ip (bc - ip) = ip :: List.range' (ip + 1) (bc - (ip + 1)) := by
        have : bc - ip = (bc - (ip + 1)) + 1 := by omega
        rw [this, List.range'_succ]
      rw [goAnd_nat nid um hn hu, goAnd_nat ip um hip hu]
      simp only [hc, if_true, hr, List.filter_cons]
      by_cases hk : keep nid um ip = true
      · have hne : decide (((nid &&& um : Nat) : Int) ≠ ((ip &&& um : Nat) : Int)) = false := by
          simp [keep] at hk; simp [hk]
        simp only [hne, hk, if_true, List.map_cons, sendAll]
        by_cases hs : stop sent.length = true
        · simp [genEnv, doSelect, hs]
        · have hs' : stop sent.length = false := by simpa using hs
          have := ih (ip + 1) (sent ++ [(ip : Int)]) (by omega) (by omega)
          simp [genEnv, doSelect, hs', hw]
          simpa [genEnv, doSelect] using this
      · have hk' : keep nid um ip = false := by simpa using hk
        have hne : decide (((nid &&& um : Nat) : Int) ≠ ((ip &&& um : Nat) : Int)) = true := by
          simp [keep] at hk'; simp; omega
        simp only [hne, hk', if_true, hw]
        have := ih (ip + 1) sent (by omega) (by omega)
        simpa [genEnv] using this
    · have hc : decide ((ip : Int) < (bc : Int)) = false := by simp; omega
      have : bc - ip = 0 := by omega
      have hlt' : ¬ ((ip : Int) < (bc : Int)) := by omega
      simp [hlt', this, sendAll]

@[simp] theorem bytes4_isEmpty (a : Nat) : (bytes4 a).isEmpty = false := rfl
@[simp] theorem bytes4_length (a : Nat) : (bytes4 a).length = 4 := rfl

theorem goNot_mask (len : Nat) (h : len ≤ 32) :
    goNot 32 false ((mask len : Nat) : Int) = ((not32 (mask len) : Nat) : Int) := by
  have h1 := not32_mask h
  have h2 := mask_eq h
  have h3 := blk_pos len
  have h4 := blk_le h
  unfold goNot
  simp only [Bool.false_eq_true, if_false]
  omega

/-- **Source = model.** The translated `ipGenerator`, run on the `IPNet` with address `a` and the mask of prefix
length `len`, with enough fuel for a whole /2 network, returns having sent exactly `Discover.gen a len`, in order — or,
when the context ends (`stop`), the prefix sent until then. -/
theorem src_ipGenerator_run (a len : Nat) (ha : a < 4294967296) (hl : len ≤ 32) (stop : Nat → Bool)
    (fuel : Nat) (hf : 4294967296 ≤ fuel) :
    Gen.driver_ipGenerator (genEnv a len stop) fuel ⟨[]⟩ () () ()
      = some ⟨sendAll stop [] ((gen a len).map Int.ofNat)⟩ := by
  have hm := mask_lt len hl
  have hpop := popcount_mask len (by omega)
  have hbe_a := be32_bytes4 a ha
  have hbe_m := be32_bytes4 (mask len) hm
  unfold Gen.driver_ipGenerator gen
  simp [genEnv, hbe_a, hbe_m, hpop]
  by_cases c1 : len ≤ 1
  · have c1' : (len : Int) ≤ 1 := by omega
    simp [c1, c1', sendAll]
  · have c1' : ¬ (len : Int) ≤ 1 := by omega
    by_cases c2 : 31 ≤ len
    · have c2' : (31 : Int) ≤ len := by omega
      simp only [c1, c1', c2, c2', if_true, if_false]
      by_cases hs : stop 0 = true <;> simp [doSelect, hs, sendAll]
    · have c2' : ¬ (31 : Int) ≤ len := by omega
      have hnid : (a &&& mask len) < 4294967296 := Nat.lt_of_le_of_lt Nat.and_le_left ha
      have hnot : not32 (mask len) < 4294967296 := by
        have := not32_mask hl; have := blk_le hl; have := blk_pos len; omega
      have hbc := bcast_eq ha hl
      have hdvd := netId_dvd ha hl
      have hb4 := blk_ge4 (show len ≤ 30 by omega)
      have hble := blk_le hl
      have hnle := netId_le a len ha hl
      unfold bcast netId at hbc
      unfold netId at hdvd hnle
      have hbcl : (a &&& mask len) ^^^ not32 (mask len) < 4294967296 := by
        rw [hbc]
        have : (a &&& mask len) + blk len ≤ 4294967296 := by
          have hd : blk len ∣ 4294967296 := ⟨2 ^ len, by rw [Nat.mul_comm]; exact (two_pow_split hl).symm⟩
          obtain ⟨k, hk⟩ := hd
          have hq : (a &&& mask len) = blk len * ((a &&& mask len) / blk len) := by
            have := Nat.div_add_mod (a &&& mask len) (blk len); omega
          have hlt : (a &&& mask len) / blk len < k := by
            apply Nat.div_lt_of_lt_mul; omega
          calc (a &&& mask len) + blk len = blk len * ((a &&& mask len) / blk len + 1) := by rw [Nat.mul_add]; omega
            _ ≤ blk len * k := Nat.mul_le_mul_left _ hlt
            _ = 4294967296 := hk.symm
        omega
      have hw : wrapU 32 (((a &&& mask len : Nat) : Int) + 1) = (((a &&& mask len) + 1 : Nat) : Int) := by
        unfold wrapU; omega
      simp only [c1, c1', c2, c2', if_false]
      rw [goAnd_nat a (mask len) ha hm, goNot_mask len hl, goXor_nat _ _ hnid hnot, hw]
      have := src_ipGenerator_loop a len stop (a &&& mask len) (mask len) ((a &&& mask len) ^^^ not32 (mask len))
        hnid hm hbcl fuel ((a &&& mask len) + 1) [] (by omega) (by omega)
      have hk : keep (a &&& mask len) (mask len) = fun x => (a &&& mask len &&& mask len == x &&& mask len) := rfl
      rw [hk] at this
      simpa [genEnv] using this

theorem sendAll_never (stop : Nat → Bool) (h : ∀ n, stop n = false) :
    ∀ (xs sent : List Int), sendAll stop sent xs = sent ++ xs := by
  intro xs
  induction xs with
  | nil => intro sent; simp [sendAll]
  | cons x xs ih => intro sent; simp [sendAll, h, ih]

/-- once the context is seen to have ended after `k` sends (and not before), exactly the first `k` addresses were sent -/
theorem sendAll_stops (stop : Nat → Bool) :
    ∀ (xs sent : List Int) (k : Nat), stop (sent.length + k) = true → (∀ j, j < k → stop (sent.length + j) = false) →
      sendAll stop sent xs = sent ++ xs.take k := by
  intro xs
  induction xs with
  | nil => intro sent k _ _; simp [sendAll]
  | cons x xs ih =>
    intro sent k hk hj
    cases k with
    | zero => simp at hk; simp [sendAll, hk]
    | succ k =>
      have h0 : stop sent.length = false := by simpa using hj 0 (by omega)
      have := ih (sent ++ [x]) k (by simpa [Nat.add_assoc, Nat.add_comm 1 k] using hk)
        (fun j hjk => by simpa [Nat.add_assoc, Nat.add_comm 1 j] using hj (j + 1) (by omega))
      simp [sendAll, h0, this]

end LLRP.SeqGlue
