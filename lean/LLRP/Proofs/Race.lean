import LLRP.Model.Race
/-!
Lemmas about the race model (core Lean only):
* `hbB_iff`, `raceB_iff` — the executable happens-before / race check used by the oracle decide `HB` / `Race`;
* `wfB_sound` — the executable well-formedness check implies `WF`;
* `lock_order` — two critical sections of one mutex that exclude each other are ordered by happens-before;
* `chain_hb` — a chain of `go` statements is a happens-before path.
-/
namespace LLRP.Race

theorem edgeB_lt {tr : Trace} {i j : Nat} (h : edgeB tr i j = true) : i < j := by
  unfold edgeB at h
  simp only [Bool.and_eq_true, decide_eq_true_eq] at h
  exact h.1

theorem edgeB_of {tr : Trace} {i j : Nat} {a b : Event} (hij : i < j) (ha : tr[i]? = some a)
    (hb : tr[j]? = some b) (he : edgeEv a b = true) : edgeB tr i j = true := by
  unfold edgeB; simp [hij, ha, hb, he]

theorem HB.lt {tr : Trace} {i j : Nat} (h : HB tr i j) : i < j := by
  induction h with
  | edge h => exact edgeB_lt h
  | head h _ ih => exact Nat.lt_trans (edgeB_lt h) ih

theorem HB.trans {tr : Trace} {i k j : Nat} (h1 : HB tr i k) (h2 : HB tr k j) : HB tr i j := by
  induction h1 with
  | edge h => exact HB.head h h2
  | head h _ ih => exact HB.head h (ih h2)

/-- program order -/
theorem po_hb {tr : Trace} {i j : Nat} {a b : Event} (hij : i < j) (ha : tr[i]? = some a)
    (hb : tr[j]? = some b) (ht : a.thread = b.thread) : HB tr i j :=
  HB.edge (edgeB_of hij ha hb (by simp [edgeEv, ht]))

/-! ## the executable closure decides `HB` -/

theorem hbF_sound {tr : Trace} : ∀ n i j, hbF tr n i j = true → HB tr i j := by
  intro n
  induction n with
  | zero => intro i j h; simp [hbF] at h
  | succ n ih =>
    intro i j h
    simp only [hbF, Bool.or_eq_true, List.any_eq_true, Bool.and_eq_true] at h
    rcases h with h | ⟨k, _, hk1, hk2⟩
    · exact HB.edge h
    · exact HB.head hk1 (ih k j hk2)

theorem hbF_complete {tr : Trace} {i j : Nat} (h : HB tr i j) : ∀ n, j - i ≤ n → hbF tr n i j = true := by
  induction h with
  | edge h =>
    intro n hn
    have := edgeB_lt h
    cases n with
    | zero => omega
    | succ n => simp [hbF, h]
  | @head i k j h hkj ih =>
    intro n hn
    have h1 := edgeB_lt h
    have h2 := hkj.lt
    cases n with
    | zero => omega
    | succ n =>
      simp only [hbF, Bool.or_eq_true, List.any_eq_true, Bool.and_eq_true]
      exact Or.inr ⟨k, List.mem_range.mpr h2, h, ih n (by omega)⟩

theorem hbB_iff {tr : Trace} {i j : Nat} : hbB tr i j = true ↔ HB tr i j :=
  ⟨hbF_sound _ _ _, fun h => hbF_complete h _ (Nat.sub_le _ _)⟩

theorem mem_racePairs {tr : Trace} {i j : Nat} :
    (i, j) ∈ racePairs tr ↔
      i < j ∧ ∃ a b, tr[i]? = some a ∧ tr[j]? = some b ∧ conflict a b = true ∧ hbB tr i j = false := by
  unfold racePairs
  simp only [List.mem_flatMap, List.mem_map, List.mem_filter, List.mem_range, Prod.mk.injEq]
  constructor
  · rintro ⟨j', _, i', ⟨hi', hm⟩, rfl, rfl⟩
    refine ⟨hi', ?_⟩
    split at hm
    · next a b ha hb =>
      simp only [Bool.and_eq_true, Bool.not_eq_true'] at hm
      exact ⟨a, b, ha, hb, hm.1, hm.2⟩
    · exact absurd hm (by simp)
  · rintro ⟨hij, a, b, ha, hb, hc, hh⟩
    have hj : j < tr.length := by
      have := List.getElem?_eq_some_iff.mp hb
      exact this.1
    exact ⟨j, hj, i, ⟨hij, by simp [ha, hb, hc, hh]⟩, rfl, rfl⟩

/-- the oracle's race check decides `Race` -/
theorem raceB_iff {tr : Trace} : raceB tr = true ↔ Race tr := by
  unfold raceB Race
  constructor
  · intro h
    cases hp : racePairs tr with
    | nil => simp [hp] at h
    | cons p ps =>
      obtain ⟨i, j⟩ := p
      have hm : (i, j) ∈ racePairs tr := by rw [hp]; exact List.mem_cons_self
      obtain ⟨hij, a, b, ha, hb, hc, hh⟩ := mem_racePairs.mp hm
      refine ⟨i, j, a, b, hij, ha, hb, hc, ?_⟩
      intro hhb
      rw [hbB_iff.mpr hhb] at hh
      exact absurd hh (by simp)
  · rintro ⟨i, j, a, b, hij, ha, hb, hc, hn⟩
    have hh : hbB tr i j = false := by
      cases h : hbB tr i j with
      | false => rfl
      | true => exact absurd (hbB_iff.mp h) hn
    have hm : (i, j) ∈ racePairs tr := mem_racePairs.mpr ⟨hij, a, b, ha, hb, hc, hh⟩
    cases hp : racePairs tr with
    | nil => rw [hp] at hm; cases hm
    | cons p ps => simp

/-! ## fork chains -/

theorem chain_hb {tr : Trace} {i : Nat} {t : Thread} {a : Event} (ha : tr[i]? = some a) (hat : a.thread = t)
    {j : Nat} {u : Thread} (hc : Chain tr i t j u) : ∀ b, tr[j]? = some b → b.thread = u → HB tr i j := by
  induction hc with
  | @base k j u hik hkj hk =>
    intro b hb hbu
    have e1 : HB tr i k := po_hb hik ha hk hat
    have e2 : edgeB tr k j = true := edgeB_of hkj hk hb (by simp [edgeEv, forkEdge, hbu])
    exact e1.trans (HB.edge e2)
  | @step k j v u _ hkj hk ih =>
    intro b hb hbu
    have e1 : HB tr i k := ih _ hk rfl
    have e2 : edgeB tr k j = true := edgeB_of hkj hk hb (by simp [edgeEv, forkEdge, hbu])
    exact e1.trans (HB.edge e2)

/-- an initialisation access happens before every access to the same location by another thread -/
theorem init_hb {tr : Trace} {i j : Nat} {a b : Event} (hi : InitAccess tr i) (ha : tr[i]? = some a)
    (hb : tr[j]? = some b) (hl : b.loc? = a.loc?) (hne : b.thread ≠ a.thread) : i < j ∧ HB tr i j := by
  obtain ⟨hij, hc⟩ := hi a ha j b hb hl hne
  exact ⟨hij, chain_hb ha rfl hc b hb rfl⟩

/-! ## critical sections of one mutex are ordered -/

theorem lock_order {tr : Trace} (wf : WF tr) {i j p q : Nat} {a b ea eb ra rb : Event}
    (ha : tr[i]? = some a) (hb : tr[j]? = some b)
    (hp : p < i) (hpa : tr[p]? = some ea) (hq : q < j) (hqb : tr[q]? = some eb) (hij : i < j)
    (hta : ea.thread = a.thread) (htb : eb.thread = b.thread) (htra : ra.thread = a.thread)
    (hne : a.thread ≠ b.thread)
    (nra : ∀ r : Nat, p < r → r < i → tr[r]? ≠ some ra) (nrb : ∀ r : Nat, q < r → r < j → tr[r]? ≠ some rb)
    (hab : needsRelease ea eb = some ra) (hba : needsRelease eb ea = some rb)
    (hs : syncEdge ra eb = true) : HB tr i j := by
  have hpq : p ≠ q := by
    intro h
    subst h
    rw [hpa] at hqb
    injection hqb with h
    subst h
    exact hne (hta.symm.trans htb)
  rcases Nat.lt_or_gt_of_ne hpq with h | h
  · obtain ⟨r, hr1, hr2, hr3⟩ := wf.lock p q ea eb ra h hpa hqb hab
    have hri : i ≤ r := Nat.le_of_not_lt (fun hlt => nra r hr1 hlt hr3)
    have e2 : edgeB tr r q = true := edgeB_of hr2 hr3 hqb (by simp [edgeEv, hs])
    have e3 : edgeB tr q j = true := edgeB_of hq hqb hb (by simp [edgeEv, htb])
    rcases Nat.eq_or_lt_of_le hri with h | h
    · subst h; exact HB.head e2 (HB.edge e3)
    · have e1 : edgeB tr i r = true := edgeB_of h ha hr3 (by simp [edgeEv, htra])
      exact HB.head e1 (HB.head e2 (HB.edge e3))
  · obtain ⟨r, hr1, hr2, hr3⟩ := wf.lock q p eb ea rb h hqb hpa hba
    exact absurd hr3 (nrb r hr1 (by omega))

/-- two accesses by different threads that both hold `m`, at least one of them exclusively, are ordered -/
theorem guarded_hb {tr : Trace} (wf : WF tr) {i j : Nat} {a b : Event} {m : Mutex} (hij : i < j)
    (ha : tr[i]? = some a) (hb : tr[j]? = some b) (hne : a.thread ≠ b.thread)
    (hA : HoldsX tr i a.thread m ∨ HoldsS tr i a.thread m)
    (hB : HoldsX tr j b.thread m ∨ HoldsS tr j b.thread m)
    (hx : HoldsX tr i a.thread m ∨ HoldsX tr j b.thread m) : HB tr i j := by
  rcases hA with ⟨p, hp, hpa, nra⟩ | ⟨p, hp, hpa, nra⟩
  · rcases hB with ⟨q, hq, hqb, nrb⟩ | ⟨q, hq, hqb, nrb⟩
    · exact lock_order wf ha hb hp hpa hq hqb hij rfl rfl (ra := .rel a.thread m) (rb := .rel b.thread m) rfl hne nra nrb
        (by simp [needsRelease]) (by simp [needsRelease]) (by simp [syncEdge])
    · exact lock_order wf ha hb hp hpa hq hqb hij rfl rfl (ra := .rel a.thread m) (rb := .rrel b.thread m) rfl hne nra nrb
        (by simp [needsRelease]) (by simp [needsRelease]) (by simp [syncEdge])
  · rcases hB with ⟨q, hq, hqb, nrb⟩ | ⟨q, hq, hqb, nrb⟩
    · exact lock_order wf ha hb hp hpa hq hqb hij rfl rfl (ra := .rrel a.thread m) (rb := .rel b.thread m) rfl hne nra nrb
        (by simp [needsRelease]) (by simp [needsRelease]) (by simp [syncEdge])
    · -- both shared: one of them must also hold exclusively
      rcases hx with ⟨p', hp', hpa', nra'⟩ | ⟨q', hq', hqb', nrb'⟩
      · exact lock_order wf ha hb hp' hpa' hq hqb hij rfl rfl (ra := .rel a.thread m) (rb := .rrel b.thread m) rfl hne nra' nrb
          (by simp [needsRelease]) (by simp [needsRelease]) (by simp [syncEdge])
      · exact lock_order wf ha hb hp hpa hq' hqb' hij rfl rfl (ra := .rrel a.thread m) (rb := .rel b.thread m) rfl hne nra nrb'
          (by simp [needsRelease]) (by simp [needsRelease]) (by simp [syncEdge])

/-! ## the executable well-formedness check is sound -/

theorem allIdx_spec {tr : Trace} {p : Nat → Event → Bool} (h : allIdx tr p = true) :
    ∀ (i : Nat) e, tr[i]? = some e → p i e = true := by
  intro i e hi
  have hlt : i < tr.length := (List.getElem?_eq_some_iff.mp hi).1
  have := List.all_eq_true.mp h i (List.mem_range.mpr hlt)
  simpa [hi] using this

theorem anyLt_spec {tr : Trace} {n : Nat} {p : Nat → Event → Bool} (h : anyLt tr n p = true) :
    ∃ (i : Nat) (e : Event), i < n ∧ tr[i]? = some e ∧ p i e = true := by
  obtain ⟨i, hi, hp⟩ := List.any_eq_true.mp h
  have hlt := List.mem_range.mp hi
  split at hp
  · next e he => exact ⟨i, e, hlt, he, hp⟩
  · exact absurd hp (by simp)

theorem noneBetween_spec {tr : Trace} {a i : Nat} {e : Event} (h : noneBetween tr a i e = true) :
    ∀ r : Nat, a < r → r < i → tr[r]? ≠ some e := by
  intro r har hri
  have := List.all_eq_true.mp h r (List.mem_range.mpr hri)
  simpa [har] using this

theorem holdsXB_spec {tr : Trace} {i : Nat} {t : Thread} {m : Mutex} (h : holdsXB tr i t m = true) :
    HoldsX tr i t m := by
  obtain ⟨a, e, ha, he, hp⟩ := anyLt_spec h
  simp only [Bool.and_eq_true, beq_iff_eq] at hp
  exact ⟨a, ha, hp.1 ▸ he, noneBetween_spec hp.2⟩

theorem holdsSB_spec {tr : Trace} {i : Nat} {t : Thread} {m : Mutex} (h : holdsSB tr i t m = true) :
    HoldsS tr i t m := by
  obtain ⟨a, e, ha, he, hp⟩ := anyLt_spec h
  simp only [Bool.and_eq_true, beq_iff_eq] at hp
  exact ⟨a, ha, hp.1 ▸ he, noneBetween_spec hp.2⟩

theorem wfB_sound {tr : Trace} (h : wfB tr = true) : WF tr := by
  unfold wfB at h
  simp only [Bool.and_eq_true] at h
  obtain ⟨hl, he⟩ := h
  have hev := allIdx_spec he
  refine ⟨?_, ?_, ?_, ?_, ?_, ?_, ?_, ?_⟩
  · intro a b ea eb er hab ha hb hn
    have h1 := allIdx_spec hl b eb hb
    have h2 := List.all_eq_true.mp h1 a (List.mem_range.mpr hab)
    simp only [ha, hn] at h2
    obtain ⟨r, e, hr, hre, hp⟩ := anyLt_spec h2
    simp only [Bool.and_eq_true, decide_eq_true_eq, beq_iff_eq] at hp
    exact ⟨r, hp.1, hr, hp.2 ▸ hre⟩
  · intro r t m hr
    exact holdsXB_spec (hev r _ hr)
  · intro r t m hr
    exact holdsSB_spec (hev r _ hr)
  · intro k t u hk
    have h1 := hev k _ hk
    simp only [Bool.and_eq_true, bne_iff_ne, ne_eq] at h1
    refine ⟨h1.1, ?_⟩
    intro j e hjk hj
    have h2 := List.all_eq_true.mp h1.2 j (List.mem_range.mpr hjk)
    simpa [hj] using h2
  · intro k t u hk j e hkj hj
    have h1 := hev k _ hk
    have h2 := allIdx_spec h1 j e hj
    simpa [hkj] using h2
  · intro j u c n hj
    have h1 := hev j _ hj
    obtain ⟨i, e, hi, hie, hp⟩ := anyLt_spec h1
    split at hp
    · next t c' n' =>
      simp only [Bool.and_eq_true, beq_iff_eq] at hp
      exact ⟨i, t, hi, by rw [hie, hp.1, hp.2]⟩
    · exact absurd hp (by simp)
  · intro i j t u c n hij hi hj
    have h1 := hev i _ hi
    have h2 := allIdx_spec h1 j _ hj
    simp [hij] at h2
  · intro j u c hj
    have h1 := hev j _ hj
    obtain ⟨i, e, hi, hie, hp⟩ := anyLt_spec h1
    split at hp
    · next t c' =>
      simp only [beq_iff_eq] at hp
      exact ⟨i, t, hi, by rw [hie, hp]⟩
    · exact absurd hp (by simp)

end LLRP.Race
