import LLRP.Model.FieldsWF
import LLRP.Proofs.Bytes
/-!
# Field layer of the codec round trip

`decFields fs (encFields fs vs 0 ++ rest) = some (vs, rest)` for well-formed field lists (`fieldsWF`) and fitting
values (`fitsFields`), plus the length facts the header computation (`fieldsSz`) and the pre-checks (`minSize`) rely on.
Core Lean only.
-/
namespace LLRP

/-! ## bytes and numbers -/

theorem or_eq_add_of_mod (a b m : Nat) (ha : a % 2 ^ m = 0) (hb : b < 2 ^ m) : a ||| b = a + b := by
  have h1 : a = (a / 2 ^ m) <<< m := by
    rw [Nat.shiftLeft_eq]
    have := Nat.div_add_mod a (2 ^ m)
    rw [ha, Nat.add_zero, Nat.mul_comm] at this
    exact this.symm
  rw [h1]
  exact (Nat.shiftLeft_add_eq_or_of_lt hb _).symm

theorem putNat_length (size n : Nat) : (putNat size n).length = size := by
  simp [putNat]

theorem putInt_eq (size : Nat) (v : Int) : putInt size v = putNat size (v % (256 ^ size : Nat)).toNat := rfl

theorem putNat_succ (s n : Nat) : putNat (s + 1) n = byte (n / 256 ^ s) :: putNat s n := by
  simp only [putNat, List.range_succ_eq_map, List.map_cons, List.map_map]
  congr 1
  apply List.map_congr_left
  intro i _
  simp only [Function.comp]
  congr 3
  omega

theorem beNat_putNat (size n : Nat) : beNat (putNat size n) = n % 256 ^ size := by
  induction size with
  | zero => simp [putNat, beNat, Nat.mod_one]
  | succ s ih =>
    rw [putNat_succ, beNat, ih, putNat_length, byte_toNat, Nat.mod_pow_succ]
    rw [Nat.mul_comm]; omega

theorem beNat_put16 (n : Nat) : beNat (put16 n) = n % 65536 := by
  simp only [put16, beNat, byte_toNat, List.length_cons, List.length_nil]
  omega

theorem pow256 (s : Nat) : 256 ^ s = 2 ^ (8 * s) := by
  rw [Nat.pow_mul]

theorem putInt_length (size : Nat) (v : Int) : (putInt size v).length = size := by
  simp [putInt]

theorem beNat_putInt (size : Nat) (v : Int) :
    ((beNat (putInt size v) : Nat) : Int) = v % ((256 ^ size : Nat) : Int) := by
  rw [putInt_eq, beNat_putNat]
  have hP : (0 : Int) < ((256 ^ size : Nat) : Int) := by
    have : 0 < 256 ^ size := Nat.pow_pos (by decide)
    omega
  have h0 := Int.emod_nonneg v (Int.ne_of_gt hP)
  have h1 := Int.emod_lt_of_pos v hP
  generalize v % ((256 ^ size : Nat) : Int) = r at *
  generalize 256 ^ size = P at *
  have : r.toNat < P := by omega
  rw [Nat.mod_eq_of_lt this]
  omega

theorem pow256_half (size : Nat) (h : 1 ≤ size) : 256 ^ size = 2 * 2 ^ (8 * size - 1) := by
  rw [← Nat.pow_succ', pow256]
  congr 1
  omega

theorem scalar_unsigned (size : Nat) (v : Int) (h0 : 0 ≤ v) (h1 : v < (2 : Int) ^ (8 * size)) :
    ((beNat (putInt size v) : Nat) : Int) = v := by
  rw [beNat_putInt]
  apply Int.emod_eq_of_lt h0
  have : ((256 ^ size : Nat) : Int) = (2 : Int) ^ (8 * size) := by
    rw [pow256]; norm_cast
  omega

theorem scalar_signed (size : Nat) (v : Int) (hs : 1 ≤ size)
    (h0 : -(2 : Int) ^ (8 * size - 1) ≤ v) (h1 : v < (2 : Int) ^ (8 * size - 1)) :
    toSigned size (beNat (putInt size v)) = v := by
  unfold toSigned
  have hb := beNat_putInt size v
  have hP := pow256_half size hs
  have hH : ((2 ^ (8 * size - 1) : Nat) : Int) = (2 : Int) ^ (8 * size - 1) := by norm_cast
  generalize beNat (putInt size v) = n at *
  generalize 256 ^ size = P at *
  generalize (2 : Int) ^ (8 * size - 1) = H at *
  generalize 2 ^ (8 * size - 1) = Hn at *
  subst hP
  by_cases hv : 0 ≤ v
  · rw [Int.emod_eq_of_lt hv (by omega)] at hb
    split <;> omega
  · have : v % ((2 * Hn : Nat) : Int) = v + ((2 * Hn : Nat) : Int) := by
      rw [← Int.add_mul_emod_self_left v _ 1, Int.mul_one]
      apply Int.emod_eq_of_lt <;> omega
    rw [this] at hb
    split <;> omega

/-! ## packed bytes -/

theorem packed_read_core (T B M acc n q : Nat) (hM : 0 < M) (hB : 0 < B) (hacc : acc < T * (B * M))
    (hmod : acc % (B * M) = 0) (hn : n < B) (hq : q < M) :
    acc + n * M + q < T * (B * M) ∧ (acc + n * M + q) / M % B = n ∧
      (T = 1 → (acc + n * M + q) / M = n) := by
  have hBM : 0 < B * M := Nat.mul_pos hB hM
  obtain ⟨a, rfl⟩ : ∃ a, acc = a * (B * M) := ⟨acc / (B * M), by
    have := Nat.div_add_mod acc (B * M); rw [hmod, Nat.add_zero, Nat.mul_comm] at this; exact this.symm⟩
  have haT : a < T := Nat.lt_of_mul_lt_mul_right hacc
  have hnq : n * M + q < B * M := by
    calc n * M + q < n * M + M := by omega
      _ = (n + 1) * M := by rw [Nat.add_mul, Nat.one_mul]
      _ ≤ B * M := Nat.mul_le_mul_right _ hn
  have hdiv : (a * (B * M) + n * M + q) / M = a * B + n := by
    have : a * (B * M) + n * M + q = q + (a * B + n) * M := by
      rw [Nat.add_mul, Nat.mul_assoc]; omega
    rw [this, Nat.add_mul_div_right _ _ hM, Nat.div_eq_of_lt hq, Nat.zero_add]
  refine ⟨?_, ?_, ?_⟩
  · calc a * (B * M) + n * M + q < a * (B * M) + B * M := by omega
      _ = (a + 1) * (B * M) := by rw [Nat.add_mul, Nat.one_mul]
      _ ≤ T * (B * M) := Nat.mul_le_mul_right _ haT
  · rw [hdiv, Nat.mul_add_mod_self_right, Nat.mod_eq_of_lt hn]
  · intro hT
    subst hT
    have : a = 0 := by omega
    rw [hdiv, this, Nat.zero_mul, Nat.zero_add]

theorem two_pow_split (bit bits : Nat) (hb : bit + bits ≤ 8) :
    2 ^ (8 - bit) = 2 ^ bits * 2 ^ (8 - (bit + bits)) ∧ 256 = 2 ^ bit * (2 ^ bits * 2 ^ (8 - (bit + bits))) := by
  rw [← Nat.pow_add, ← Nat.pow_add]
  have e1 : bits + (8 - (bit + bits)) = 8 - bit := by omega
  have e2 : bit + (8 - bit) = 8 := by omega
  rw [e1, e2]
  exact ⟨rfl, rfl⟩

theorem packed_read (bit bits acc n q : Nat) (hb : bit + bits ≤ 8) (hacc : acc < 256)
    (hmod : acc % 2 ^ (8 - bit) = 0) (hn : n < 2 ^ bits) (hq : q < 2 ^ (8 - (bit + bits))) :
    acc + n * 2 ^ (8 - (bit + bits)) + q < 256 ∧
    (acc + n * 2 ^ (8 - (bit + bits)) + q) / 2 ^ (8 - (bit + bits)) % 2 ^ bits = n ∧
    (bit = 0 → (acc + n * 2 ^ (8 - (bit + bits)) + q) / 2 ^ (8 - (bit + bits)) = n) := by
  obtain ⟨e1, e2⟩ := two_pow_split bit bits hb
  rw [e1] at hmod
  have hM : 0 < 2 ^ (8 - (bit + bits)) := Nat.pow_pos (by decide)
  have hB : 0 < 2 ^ bits := Nat.pow_pos (by decide)
  have := packed_read_core (2 ^ bit) _ _ acc n q hM hB (by rw [← e2]; exact hacc) hmod hn hq
  rw [← e2] at this
  refine ⟨this.1, this.2.1, fun h0 => this.2.2 (by rw [h0])⟩


theorem packedPart_eq (bits bit : Nat) (v : Int) (hb : bit + bits ≤ 8) (h0 : 0 ≤ v)
    (h1 : v < (2 : Int) ^ bits) :
    packedPart bits bit v = v.toNat * 2 ^ (8 - (bit + bits)) ∧ v.toNat < 2 ^ bits := by
  have hc : ((2 ^ bits : Nat) : Int) = (2 : Int) ^ bits := by norm_cast
  have hn : v.toNat < 2 ^ bits := by omega
  refine ⟨?_, hn⟩
  have h256 : 2 ^ bits * 2 ^ (8 - (bit + bits)) * 2 ^ bit = 256 := by
    rw [← Nat.pow_add, ← Nat.pow_add]
    have : bits + (8 - (bit + bits)) + bit = 8 := by omega
    rw [this]
  have hle : 2 ^ bits ≤ 256 := by
    have : 2 ^ bits ≤ 2 ^ 8 := Nat.pow_le_pow_right (by decide) (by omega)
    simpa using this
  unfold packedPart
  have e1 : v % 256 = v := Int.emod_eq_of_lt h0 (by omega)
  have e2 : 8 - bits - bit = 8 - (bit + bits) := by omega
  rw [e1, e2]
  apply Nat.mod_eq_of_lt
  have hp : 0 < 2 ^ (8 - (bit + bits)) := Nat.pow_pos (by decide)
  have hp2 : 0 < 2 ^ bit := Nat.pow_pos (by decide)
  calc v.toNat * 2 ^ (8 - (bit + bits)) < 2 ^ bits * 2 ^ (8 - (bit + bits)) :=
        Nat.mul_lt_mul_of_pos_right hn hp
    _ ≤ 2 ^ bits * 2 ^ (8 - (bit + bits)) * 2 ^ bit := Nat.le_mul_of_pos_right _ hp2
    _ = 256 := h256


/-! ## what `fitsFields` says -/

theorem fitsFields_nil (vs : List FVal) (h : fitsFields [] vs = true) : vs = [] := by
  cases vs with
  | nil => rfl
  | cons v vs => simp [fitsFields] at h

theorem fitsFields_pad (f : Field) (fs : List Field) (vs : List FVal) (size : Nat) (hk : f.kind = .pad size) :
    fitsFields (f :: fs) vs = fitsFields fs vs := by
  simp only [fitsFields, hk]

theorem fitsFields_nonpad (f : Field) (fs : List Field) (vs : List FVal) (hk : ∀ size, f.kind ≠ .pad size)
    (h : fitsFields (f :: fs) vs = true) :
    ∃ v vs', vs = v :: vs' ∧ f.kind.fitsVal v = true ∧ fitsFields fs vs' = true := by
  unfold fitsFields at h
  split at h
  · rename_i size hk'
    exact absurd hk' (hk size)
  · split at h
    · rename_i v vs'
      simp only [Bool.and_eq_true] at h
      exact ⟨v, vs', rfl, h.1, h.2⟩
    · cases h


theorem one_le_two_pow_int (w : Nat) : (1 : Int) ≤ (2 : Int) ^ w := by
  have : 0 < 2 ^ w := Nat.pow_pos (by decide)
  have h : ((2 ^ w : Nat) : Int) = (2 : Int) ^ w := by norm_cast
  omega

theorem two_le_two_pow_int (w : Nat) (h : 1 ≤ w) : (2 : Int) ≤ (2 : Int) ^ w := by
  obtain ⟨k, rfl⟩ : ∃ k, w = k + 1 := ⟨w - 1, by omega⟩
  have := one_le_two_pow_int k
  rw [Int.pow_succ]; omega

/-- whole-byte scalar: what `fitsVal` says -/
theorem fitsVal_whole (size bit : Nat) (part signed isBool : Bool) (v : FVal) (hs : 1 ≤ size)
    (h : (FKind.scalar size 8 bit part signed isBool).fitsVal v = true) :
    ∃ n, v = .num n ∧ (signed = true → -(2 : Int) ^ (8 * size - 1) ≤ n ∧ n < (2 : Int) ^ (8 * size - 1)) ∧
      (signed = false → 0 ≤ n ∧ n < (2 : Int) ^ (8 * size)) := by
  cases v with
  | num n =>
    refine ⟨n, rfl, ?_⟩
    have hw : 8 * (size - 1) + 8 = 8 * size := by omega
    simp only [FKind.fitsVal, hw] at h
    have h2 := two_le_two_pow_int (8 * size - 1) (by omega)
    have h3 := two_le_two_pow_int (8 * size) (by omega)
    split at h
    · simp only [Bool.or_eq_true, beq_iff_eq] at h
      constructor <;> intro _ <;> omega
    · split at h
      · rename_i hsg
        simp only [decide_eq_true_eq] at h
        constructor
        · intro _; exact h
        · intro h'; rw [h'] at hsg; cases hsg
      · rename_i hsg
        simp only [decide_eq_true_eq] at h
        constructor
        · intro h'; exact absurd h' hsg
        · intro _; exact h
  | _ => simp [FKind.fitsVal] at h

/-- packed scalar (one byte of storage, unsigned) -/
theorem fitsVal_packed (bits bit : Nat) (part isBool : Bool) (v : FVal) (hb : 1 ≤ bits)
    (h : (FKind.scalar 1 bits bit part false isBool).fitsVal v = true) :
    ∃ n, v = .num n ∧ 0 ≤ n ∧ n < (2 : Int) ^ bits := by
  cases v with
  | num n =>
    refine ⟨n, rfl, ?_⟩
    have hw : 8 * (1 - 1) + bits = bits := by omega
    simp only [FKind.fitsVal, hw] at h
    have h2 := two_le_two_pow_int bits hb
    split at h
    · simp only [Bool.or_eq_true, beq_iff_eq] at h
      omega
    · simp only [Bool.false_eq_true, if_false, decide_eq_true_eq] at h
      exact h
  | _ => simp [FKind.fitsVal] at h


theorem packedPart_bounds (bits bit : Nat) (v : Int) (hb : bit + bits ≤ 8) (h0 : 0 ≤ v)
    (h1 : v < (2 : Int) ^ bits) :
    packedPart bits bit v < 2 ^ (8 - bit) ∧ packedPart bits bit v % 2 ^ (8 - (bit + bits)) = 0 := by
  obtain ⟨e, hn⟩ := packedPart_eq bits bit v hb h0 h1
  rw [e, Nat.mul_mod_left]
  refine ⟨?_, rfl⟩
  rw [(two_pow_split bit bits hb).1]
  exact Nat.mul_lt_mul_of_pos_right hn (Nat.pow_pos (by decide))

/-- what `fieldsWFAux` says about a packed scalar -/
theorem fieldsWFAux_packed (cur : Option Nat) (f : Field) (fs : List Field) (size bits bit : Nat)
    (part signed isBool : Bool) (hk : f.kind = .scalar size bits bit part signed isBool) (h8 : bits ≠ 8)
    (h : fieldsWFAux cur (f :: fs) = true) :
    size = 1 ∧ signed = false ∧ 1 ≤ bits ∧ bit + bits ≤ 8 ∧ cur.getD 0 ≤ bit ∧
      fieldsWFAux (if part then some (bit + bits) else none) fs = true := by
  simp only [fieldsWFAux, hk, h8, if_false, Bool.and_eq_true, beq_iff_eq, Bool.not_eq_true',
    decide_eq_true_eq] at h
  obtain ⟨⟨⟨⟨⟨⟨a, b⟩, c⟩, d⟩, e⟩, _⟩, g⟩ := h
  exact ⟨a, b, c, d, e, g⟩

theorem fieldsWFAux_whole (cur : Option Nat) (f : Field) (fs : List Field) (size bit : Nat)
    (part signed isBool : Bool) (hk : f.kind = .scalar size 8 bit part signed isBool)
    (h : fieldsWFAux cur (f :: fs) = true) :
    cur = none ∧ part = false ∧ 1 ≤ size ∧ fieldsWFAux none fs = true := by
  simp only [fieldsWFAux, hk, if_true, Bool.and_eq_true, Bool.not_eq_true', Option.isNone_iff_eq_none,
    decide_eq_true_eq] at h
  obtain ⟨⟨⟨a, b⟩, c⟩, d⟩ := h
  exact ⟨a, b, c, d⟩

/-- every other kind needs a byte boundary -/
theorem fieldsWFAux_other (cur : Option Nat) (f : Field) (fs : List Field)
    (hk : ∀ size bits bit part signed isBool, f.kind ≠ .scalar size bits bit part signed isBool)
    (h : fieldsWFAux cur (f :: fs) = true) :
    cur = none ∧ (if f.kind = .rest then fs = [] else fieldsWFAux none fs = true) ∧
      ∀ elem, f.kind = .arr elem → 1 ≤ elem := by
  unfold fieldsWFAux at h
  split at h
  · rename_i hk'; exact absurd hk' (hk _ _ _ _ _ _)
  · rename_i hk'
    simp only [Bool.and_eq_true, Option.isNone_iff_eq_none, List.isEmpty_iff] at h
    simp only [hk', if_true, reduceCtorEq, false_imp_iff, implies_true, and_true]; exact h
  · rename_i elem hk'
    simp only [Bool.and_eq_true, Option.isNone_iff_eq_none, decide_eq_true_eq] at h
    simp only [hk', reduceCtorEq, if_false, FKind.arr.injEq]
    exact ⟨h.1.1, h.2, fun e he => he ▸ h.1.2⟩
  · rename_i h1 h2 h3
    simp only [Bool.and_eq_true, Option.isNone_iff_eq_none] at h
    have : f.kind ≠ .rest := fun e => h2 e
    simp only [this, if_false]
    exact ⟨h.1, h.2, fun e he => absurd he (h3 e)⟩

/-- inside a packed byte the encoder's next output byte is the accumulated byte or-ed with bits below the cursor -/
theorem encFields_packed_head (fs : List Field) : ∀ (vs : List FVal) (k acc : Nat),
    fieldsWFAux (some k) fs = true → fitsFields fs vs = true →
    ∃ q tail, q < 2 ^ (8 - k) ∧ encFields fs vs acc = byte (acc ||| q) :: tail := by
  induction fs with
  | nil => intro vs k acc hwf; simp [fieldsWFAux] at hwf
  | cons f fs ih =>
    intro vs k acc hwf hfit
    cases hk : f.kind with
    | scalar size bits bit part signed isBool =>
      by_cases h8 : bits = 8
      · subst h8
        have := (fieldsWFAux_whole _ f fs _ _ _ _ _ hk hwf).1
        cases this
      · obtain ⟨rfl, rfl, hb1, hbb, hcur, hwf'⟩ := fieldsWFAux_packed _ f fs _ _ _ _ _ _ hk h8 hwf
        obtain ⟨v, vs', rfl, hv, hfit'⟩ := fitsFields_nonpad f fs vs (by simp [hk]) hfit
        rw [hk] at hv
        obtain ⟨n, rfl, hn0, hn1⟩ := fitsVal_packed _ _ _ _ _ hb1 hv
        obtain ⟨hp1, hp2⟩ := packedPart_bounds bits bit n hbb hn0 hn1
        simp only [Option.getD_some] at hcur
        have hle : 2 ^ (8 - bit) ≤ 2 ^ (8 - k) := Nat.pow_le_pow_right (by decide) (by omega)
        simp only [encFields, hk, h8, if_false]
        cases part with
        | false =>
          exact ⟨_, _, Nat.lt_of_lt_of_le hp1 hle, rfl⟩
        | true =>
          simp only [if_true] at hwf' ⊢
          obtain ⟨q, tail, hq, he⟩ := ih vs' (bit + bits) (acc ||| packedPart bits bit n) hwf' hfit'
          refine ⟨packedPart bits bit n ||| q, tail, ?_, ?_⟩
          · apply Nat.lt_of_lt_of_le _ hle
            apply Nat.or_lt_two_pow hp1
            exact Nat.lt_of_lt_of_le hq (Nat.pow_le_pow_right (by decide) (by omega))
          · rw [he, Nat.or_assoc]
    | _ =>
      have := (fieldsWFAux_other _ f fs (by simp [hk]) hwf).1
      cases this

theorem take_append_len {α} (a b : List α) (n : Nat) (h : a.length = n) : (a ++ b).take n = a := by
  subst h; simp
theorem drop_append_len {α} (a b : List α) (n : Nat) (h : a.length = n) : (a ++ b).drop n = b := by
  subst h; simp

theorem flatMap_putNat_length (elem : Nat) (l : List Nat) : (l.flatMap (putNat elem)).length = l.length * elem := by
  induction l with
  | nil => simp
  | cons x l ih => simp only [List.flatMap_cons, List.length_append, putNat_length, ih, List.length_cons]; rw [Nat.add_mul]; omega

theorem chunkNums_flatMap (elem : Nat) (l : List Nat) (rest : Bytes) (h : ∀ n ∈ l, n < 256 ^ elem) :
    chunkNums elem l.length (l.flatMap (putNat elem) ++ rest) = l := by
  induction l with
  | nil => simp [chunkNums]
  | cons x l ih =>
    simp only [List.flatMap_cons, List.length_cons, chunkNums, List.append_assoc]
    rw [take_append_len _ _ _ (putNat_length elem x), drop_append_len _ _ _ (putNat_length elem x),
      beNat_putNat, Nat.mod_eq_of_lt (h x (by simp)), ih (fun n hn => h n (by simp [hn]))]


theorem mod_two_pow_of_le (a m j : Nat) (h : a % 2 ^ m = 0) (hj : j ≤ m) : a % 2 ^ j = 0 :=
  Nat.mod_eq_zero_of_dvd (Nat.dvd_trans (Nat.pow_dvd_pow 2 hj) (Nat.dvd_of_mod_eq_zero h))

theorem beNat_take_one (x : UInt8) (l : Bytes) : beNat ((x :: l).take 1) = x.toNat := by
  simp [beNat]

/-- one packed field: the accumulated byte stays well-formed and the decoder's shift-and-mask recovers the value
whatever lower bits (`q`) later fields add -/
theorem packed_roundtrip (bits bit acc q : Nat) (n : Int) (hbb : bit + bits ≤ 8) (hn0 : 0 ≤ n)
    (hn1 : n < (2 : Int) ^ bits) (hacc1 : acc < 256) (hacc3 : acc % 2 ^ (8 - bit) = 0)
    (hq : q < 2 ^ (8 - (bit + bits))) :
    (acc ||| packedPart bits bit n) < 256 ∧ (acc ||| packedPart bits bit n) % 2 ^ (8 - (bit + bits)) = 0 ∧
    (((if bit ≠ 0 then ((acc ||| packedPart bits bit n ||| q) % 256) / 2 ^ (8 - (bit + bits)) % 2 ^ bits
      else ((acc ||| packedPart bits bit n ||| q) % 256) / 2 ^ (8 - (bit + bits)) : Nat) : Int) = n) := by
  obtain ⟨hpe, hnlt⟩ := packedPart_eq bits bit n hbb hn0 hn1
  obtain ⟨hp1, hp2⟩ := packedPart_bounds bits bit n hbb hn0 hn1
  have e1 : acc ||| packedPart bits bit n = acc + packedPart bits bit n := or_eq_add_of_mod _ _ _ hacc3 hp1
  have hm : (acc + packedPart bits bit n) % 2 ^ (8 - (bit + bits)) = 0 :=
    Nat.mod_eq_zero_of_dvd (Nat.dvd_add
      (Nat.dvd_of_mod_eq_zero (mod_two_pow_of_le _ _ _ hacc3 (by omega))) (Nat.dvd_of_mod_eq_zero hp2))
  have e2 : acc + packedPart bits bit n ||| q = acc + packedPart bits bit n + q := or_eq_add_of_mod _ _ _ hm hq
  rw [e1, e2, hpe] at *
  obtain ⟨r1, r2, r3⟩ := packed_read bit bits acc n.toNat q hbb hacc1 hacc3 hnlt hq
  have r0 := (packed_read bit bits acc n.toNat 0 hbb hacc1 hacc3 hnlt (Nat.pow_pos (by decide))).1
  refine ⟨by omega, hm, ?_⟩
  rw [Nat.mod_eq_of_lt r1]
  by_cases hb0 : bit = 0
  · rw [if_neg (by simp [hb0]), r3 hb0]; omega
  · rw [if_pos hb0, r2]; omega



/-! ## round trip -/

/-- state of the partial byte: only bits above the cursor are set (`cur = none` ⇒ `acc = 0`) -/
def accOK (cur : Option Nat) (acc : Nat) : Prop := acc < 256 ∧ acc % 2 ^ (8 - cur.getD 0) = 0

theorem accOK_zero (cur : Option Nat) : accOK cur 0 := ⟨by decide, Nat.zero_mod _⟩

theorem hasRest_cons (f : Field) (fs : List Field) : hasRest (f :: fs) = (f.kind == .rest || hasRest fs) := by
  simp [hasRest]

theorem decFields_encFields_aux (fs : List Field) : ∀ (vs : List FVal) (cur : Option Nat) (acc : Nat) (rest : Bytes),
    fieldsWFAux cur fs = true → fitsFields fs vs = true → accOK cur acc →
    (hasRest fs = true → rest = []) →
    decFields fs (encFields fs vs acc ++ rest) = some (vs, rest) := by
  induction fs with
  | nil =>
    intro vs cur acc rest _ hfit _ _
    cases fitsFields_nil vs hfit
    simp [encFields, decFields]
  | cons f fs ih =>
    intro vs cur acc rest hwf hfit hacc hrest
    have hrest' : hasRest fs = true → rest = [] := fun h => hrest (by rw [hasRest_cons, h, Bool.or_true])
    have hok0 : accOK none 0 := accOK_zero _
    cases hk : f.kind with
    | pad size =>
      obtain ⟨rfl, hwf', _⟩ := fieldsWFAux_other _ f fs (by simp [hk]) hwf
      simp only [hk, reduceCtorEq, if_false] at hwf'
      rw [fitsFields_pad f fs vs size hk] at hfit
      simp only [encFields, decFields, hk, List.append_assoc]
      have hl : (List.replicate size (0 : UInt8)).length = size := List.length_replicate
      rw [drop_append_len _ _ _ hl, if_pos (by simp), ih vs none 0 rest hwf' hfit hok0 hrest']
    | scalar size bits bit part signed isBool =>
      obtain ⟨v, vs', rfl, hv, hfit'⟩ := fitsFields_nonpad f fs vs (by simp [hk]) hfit
      rw [hk] at hv
      by_cases h8 : bits = 8
      · subst h8
        obtain ⟨rfl, rfl, hs, hwf'⟩ := fieldsWFAux_whole _ f fs _ _ _ _ _ hk hwf
        obtain ⟨n, rfl, hsg, hus⟩ := fitsVal_whole _ _ _ _ _ _ hs hv
        simp only [encFields, decFields, hk, if_true, List.append_assoc]
        rw [take_append_len _ _ _ (putInt_length size n), drop_append_len _ _ _ (putInt_length size n),
          if_pos (by simp [putInt_length]), ih vs' none 0 rest hwf' hfit' hok0 hrest']
        cases signed with
        | true =>
          obtain ⟨a, b⟩ := hsg rfl
          simp only [if_true, Option.map_some, scalar_signed size n hs a b]
        | false =>
          obtain ⟨a, b⟩ := hus rfl
          simp only [Bool.false_eq_true, if_false, Option.map_some, scalar_unsigned size n a b]
      · obtain ⟨rfl, rfl, hb1, hbb, hcur, hwf'⟩ := fieldsWFAux_packed _ f fs _ _ _ _ _ _ hk h8 hwf
        obtain ⟨n, rfl, hn0, hn1⟩ := fitsVal_packed _ _ _ _ _ hb1 hv
        obtain ⟨hacc1, hacc2⟩ := hacc
        have hacc3 : acc % 2 ^ (8 - bit) = 0 := mod_two_pow_of_le _ _ _ hacc2 (by omega)
        simp only [encFields, decFields, hk, h8, if_false]
        cases part with
        | false =>
          obtain ⟨r1, r2, r3⟩ := packed_roundtrip bits bit acc 0 n hbb hn0 hn1 hacc1 hacc3 (Nat.pow_pos (by decide))
          rw [Nat.or_zero] at r3
          simp only [Bool.false_eq_true, if_false, List.cons_append, beNat_take_one, byte_toNat,
            List.drop_succ_cons, List.drop_zero] at hwf' ⊢
          rw [if_pos (by simp), ih vs' none 0 rest hwf' hfit' hok0 hrest']
          simp only [Option.map_some, r3]
        | true =>
          simp only [if_true] at hwf' ⊢
          obtain ⟨q, tail, hq, he⟩ := encFields_packed_head fs vs' (bit + bits) (acc ||| packedPart bits bit n) hwf' hfit'
          obtain ⟨r1, r2, r3⟩ := packed_roundtrip bits bit acc q n hbb hn0 hn1 hacc1 hacc3 hq
          have := ih vs' (some (bit + bits)) (acc ||| packedPart bits bit n) rest hwf' hfit' ⟨r1, r2⟩ hrest'
          rw [this]
          rw [he]
          simp only [List.cons_append, beNat_take_one, byte_toNat]
          rw [if_pos (by simp)]
          simp only [Option.map_some, r3]
    | fixedArr elem len =>
      obtain ⟨rfl, hwf', _⟩ := fieldsWFAux_other _ f fs (by simp [hk]) hwf
      simp only [hk, reduceCtorEq, if_false] at hwf'
      obtain ⟨v, vs', rfl, hv, hfit'⟩ := fitsFields_nonpad f fs vs (by simp [hk]) hfit
      rw [hk] at hv
      cases v <;> simp only [FKind.fitsVal, beq_iff_eq, Bool.false_eq_true] at hv
      rename_i b
      simp only [encFields, decFields, hk, List.append_assoc]
      rw [take_append_len _ _ _ hv, drop_append_len _ _ _ hv, if_pos (by simp [hv]),
        ih vs' none 0 rest hwf' hfit' hok0 hrest']
      rfl
    | arr elem =>
      obtain ⟨rfl, hwf', harr⟩ := fieldsWFAux_other _ f fs (by simp [hk]) hwf
      simp only [hk, reduceCtorEq, if_false] at hwf'
      have he1 := harr elem hk
      obtain ⟨v, vs', rfl, hv, hfit'⟩ := fitsFields_nonpad f fs vs (by simp [hk]) hfit
      rw [hk] at hv
      cases v with
      | bytes b =>
        simp only [FKind.fitsVal, Bool.and_eq_true, beq_iff_eq, decide_eq_true_eq] at hv
        obtain ⟨rfl, hlen⟩ := hv
        simp only [encFields, decFields, hk, List.append_assoc, if_true, Nat.mul_one]
        rw [take_append_len _ _ 2 rfl, drop_append_len _ _ 2 rfl, beNat_put16, Nat.mod_eq_of_lt hlen,
          if_pos (by simp [put16]), take_append_len _ _ _ rfl, drop_append_len _ _ _ rfl, if_pos (by simp),
          ih vs' none 0 rest hwf' hfit' hok0 hrest']
        rfl
      | nums l =>
        simp only [FKind.fitsVal, Bool.and_eq_true, bne_iff_ne, ne_eq, decide_eq_true_eq, List.all_eq_true] at hv
        obtain ⟨⟨hne, hlen⟩, hall⟩ := hv
        have hlen' : l.length < 65536 := Nat.lt_of_le_of_lt (Nat.le_mul_of_pos_right _ he1) hlen
        have hfl := flatMap_putNat_length elem l
        simp only [encFields, decFields, hk, List.append_assoc, hne, if_false]
        rw [take_append_len _ _ 2 rfl, drop_append_len _ _ 2 rfl, beNat_put16, Nat.mod_eq_of_lt hlen',
          if_pos (by simp [put16]), drop_append_len _ _ _ hfl, if_pos (by simp [hfl]),
          chunkNums_flatMap elem l _ hall,
          ih vs' none 0 rest hwf' hfit' hok0 hrest']
        rfl
      | _ => simp [FKind.fitsVal] at hv
    | str =>
      obtain ⟨rfl, hwf', _⟩ := fieldsWFAux_other _ f fs (by simp [hk]) hwf
      simp only [hk, reduceCtorEq, if_false] at hwf'
      obtain ⟨v, vs', rfl, hv, hfit'⟩ := fitsFields_nonpad f fs vs (by simp [hk]) hfit
      rw [hk] at hv
      cases v <;> simp only [FKind.fitsVal, decide_eq_true_eq, Bool.false_eq_true] at hv
      rename_i b
      simp only [encFields, decFields, hk, List.append_assoc]
      rw [take_append_len _ _ 2 rfl, drop_append_len _ _ 2 rfl, beNat_put16, Nat.mod_eq_of_lt hv,
        if_pos (by simp [put16]), take_append_len _ _ _ rfl, drop_append_len _ _ _ rfl, if_pos (by simp),
        ih vs' none 0 rest hwf' hfit' hok0 hrest']
      rfl
    | bitArr =>
      obtain ⟨rfl, hwf', _⟩ := fieldsWFAux_other _ f fs (by simp [hk]) hwf
      simp only [hk, reduceCtorEq, if_false] at hwf'
      obtain ⟨v, vs', rfl, hv, hfit'⟩ := fitsFields_nonpad f fs vs (by simp [hk]) hfit
      rw [hk] at hv
      cases v <;> simp only [FKind.fitsVal, Bool.and_eq_true, beq_iff_eq, decide_eq_true_eq, Bool.false_eq_true] at hv
      rename_i n b
      obtain ⟨hn, hb⟩ := hv
      simp only [encFields, decFields, hk, List.append_assoc]
      rw [take_append_len _ _ 2 rfl, drop_append_len _ _ 2 rfl, beNat_put16, Nat.mod_eq_of_lt hn,
        if_pos (by simp [put16]), take_append_len _ _ _ hb, drop_append_len _ _ _ hb, if_pos (by simp [hb]),
        ih vs' none 0 rest hwf' hfit' hok0 hrest']
      rfl
    | rest =>
      obtain ⟨rfl, hwf', _⟩ := fieldsWFAux_other _ f fs (by simp [hk]) hwf
      simp only [hk, if_true] at hwf'
      subst hwf'
      obtain ⟨v, vs', rfl, hv, hfit'⟩ := fitsFields_nonpad f [] vs (by simp [hk]) hfit
      cases fitsFields_nil vs' hfit'
      rw [hk] at hv
      have hr : rest = [] := hrest (by simp [hasRest_cons, hk])
      subst hr
      cases v <;> simp only [FKind.fitsVal, Bool.false_eq_true] at hv
      simp [encFields, decFields, hk]


/-! ## lengths -/

theorem wrap16_of_lt (n : Nat) (h : n < 65536) : wrap16 n = n := Nat.mod_eq_of_lt h

/-- the three length facts in one induction (any cursor, any accumulated byte) -/
theorem encFields_length_aux (fs : List Field) : ∀ (vs : List FVal) (cur : Option Nat) (acc : Nat),
    fieldsWFAux cur fs = true → fitsFields fs vs = true →
    (encFields fs vs acc).length = fieldsSz fs vs ∧
    (fs.map (·.kind.minSize)).sum ≤ (encFields fs vs acc).length ∧
    (fs.all (·.kind.isFixed) = true → (encFields fs vs acc).length = (fs.map (·.kind.minSize)).sum) := by
  induction fs with
  | nil => intro vs cur acc _ _; simp [encFields, fieldsSz]
  | cons f fs ih =>
    intro vs cur acc hwf hfit
    simp only [List.map_cons, List.sum_cons, List.all_cons, Bool.and_eq_true]
    generalize (List.map (fun x => x.kind.minSize) fs).sum = S at ih ⊢
    cases hk : f.kind with
    | pad size =>
      obtain ⟨rfl, hwf', _⟩ := fieldsWFAux_other _ f fs (by simp [hk]) hwf
      simp only [hk, reduceCtorEq, if_false] at hwf'
      rw [fitsFields_pad f fs vs size hk] at hfit
      obtain ⟨i1, i2, i3⟩ := ih vs none 0 hwf' hfit
      simp only [encFields, fieldsSz, hk, FKind.minSize, List.length_append, List.length_replicate]
      exact ⟨by omega, by omega, fun h => by have := i3 h.2; omega⟩
    | scalar size bits bit part signed isBool =>
      obtain ⟨v, vs', rfl, hv, hfit'⟩ := fitsFields_nonpad f fs vs (by simp [hk]) hfit
      rw [hk] at hv
      by_cases h8 : bits = 8
      · subst h8
        obtain ⟨rfl, rfl, hs, hwf'⟩ := fieldsWFAux_whole _ f fs _ _ _ _ _ hk hwf
        obtain ⟨n, rfl, _, _⟩ := fitsVal_whole _ _ _ _ _ _ hs hv
        obtain ⟨i1, i2, i3⟩ := ih vs' none 0 hwf' hfit'
        simp only [encFields, fieldsSz, hk, FKind.minSize, if_true, List.length_append, putInt_length,
          Bool.false_eq_true, if_false]
        exact ⟨by omega, by omega, fun h => by have := i3 h.2; omega⟩
      · obtain ⟨rfl, rfl, hb1, hbb, hcur, hwf'⟩ := fieldsWFAux_packed _ f fs _ _ _ _ _ _ hk h8 hwf
        obtain ⟨n, rfl, _, _⟩ := fitsVal_packed _ _ _ _ _ hb1 hv
        simp only [encFields, fieldsSz, hk, FKind.minSize, h8, if_false]
        cases part with
        | false =>
          obtain ⟨i1, i2, i3⟩ := ih vs' none 0 hwf' hfit'
          simp only [Bool.false_eq_true, if_false, List.length_cons]
          exact ⟨by omega, by omega, fun h => by have := i3 h.2; omega⟩
        | true =>
          obtain ⟨i1, i2, i3⟩ := ih vs' (some (bit + bits)) (acc ||| packedPart bits bit n) hwf' hfit'
          simp only [if_true]
          exact ⟨by omega, by omega, fun h => by have := i3 h.2; omega⟩
    | fixedArr elem len =>
      obtain ⟨rfl, hwf', _⟩ := fieldsWFAux_other _ f fs (by simp [hk]) hwf
      simp only [hk, reduceCtorEq, if_false] at hwf'
      obtain ⟨v, vs', rfl, hv, hfit'⟩ := fitsFields_nonpad f fs vs (by simp [hk]) hfit
      rw [hk] at hv
      cases v <;> simp only [FKind.fitsVal, beq_iff_eq, Bool.false_eq_true] at hv
      obtain ⟨i1, i2, i3⟩ := ih vs' none 0 hwf' hfit'
      simp only [encFields, fieldsSz, hk, FKind.minSize, List.length_append, List.tail_cons, hv]
      exact ⟨by omega, by omega, fun h => by have := i3 h.2; omega⟩
    | arr elem =>
      obtain ⟨rfl, hwf', harr⟩ := fieldsWFAux_other _ f fs (by simp [hk]) hwf
      simp only [hk, reduceCtorEq, if_false] at hwf'
      obtain ⟨v, vs', rfl, hv, hfit'⟩ := fitsFields_nonpad f fs vs (by simp [hk]) hfit
      rw [hk] at hv
      obtain ⟨i1, i2, i3⟩ := ih vs' none 0 hwf' hfit'
      cases v with
      | bytes b =>
        simp only [FKind.fitsVal, Bool.and_eq_true, beq_iff_eq, decide_eq_true_eq] at hv
        obtain ⟨rfl, hlen⟩ := hv
        simp only [encFields, fieldsSz, hk, FKind.minSize, FKind.isFixed, List.length_append, put16,
          List.length_cons, List.length_nil, Nat.mul_one, wrap16_of_lt _ hlen, Bool.false_eq_true, false_and,
          false_imp_iff, and_true]
        exact ⟨by omega, by omega⟩
      | nums l =>
        simp only [FKind.fitsVal, Bool.and_eq_true, bne_iff_ne, ne_eq, decide_eq_true_eq, List.all_eq_true] at hv
        obtain ⟨⟨hne, hlen⟩, hall⟩ := hv
        simp only [encFields, fieldsSz, hk, FKind.minSize, FKind.isFixed, List.length_append, put16,
          List.length_cons, List.length_nil, flatMap_putNat_length, wrap16_of_lt _ hlen, Bool.false_eq_true,
          false_and, false_imp_iff, and_true]
        exact ⟨by omega, by omega⟩
      | _ => simp [FKind.fitsVal] at hv
    | str =>
      obtain ⟨rfl, hwf', _⟩ := fieldsWFAux_other _ f fs (by simp [hk]) hwf
      simp only [hk, reduceCtorEq, if_false] at hwf'
      obtain ⟨v, vs', rfl, hv, hfit'⟩ := fitsFields_nonpad f fs vs (by simp [hk]) hfit
      rw [hk] at hv
      obtain ⟨i1, i2, i3⟩ := ih vs' none 0 hwf' hfit'
      cases v <;> simp only [FKind.fitsVal, decide_eq_true_eq, Bool.false_eq_true] at hv
      simp only [encFields, fieldsSz, hk, FKind.minSize, FKind.isFixed, List.length_append, put16,
        List.length_cons, List.length_nil, wrap16_of_lt _ hv, Bool.false_eq_true, false_and, false_imp_iff, and_true]
      exact ⟨by omega, by omega⟩
    | bitArr =>
      obtain ⟨rfl, hwf', _⟩ := fieldsWFAux_other _ f fs (by simp [hk]) hwf
      simp only [hk, reduceCtorEq, if_false] at hwf'
      obtain ⟨v, vs', rfl, hv, hfit'⟩ := fitsFields_nonpad f fs vs (by simp [hk]) hfit
      rw [hk] at hv
      obtain ⟨i1, i2, i3⟩ := ih vs' none 0 hwf' hfit'
      cases v <;> simp only [FKind.fitsVal, Bool.and_eq_true, beq_iff_eq, decide_eq_true_eq, Bool.false_eq_true] at hv
      rename_i n b
      obtain ⟨hn, hb⟩ := hv
      have hw : (n + 7) / 8 < 65536 := by omega
      simp only [encFields, fieldsSz, hk, FKind.minSize, FKind.isFixed, List.length_append, put16,
        List.length_cons, List.length_nil, wrap16_of_lt _ hw, hb, Bool.false_eq_true, false_and, false_imp_iff,
        and_true]
      exact ⟨by omega, by omega⟩
    | rest =>
      obtain ⟨rfl, hwf', _⟩ := fieldsWFAux_other _ f fs (by simp [hk]) hwf
      simp only [hk, if_true] at hwf'
      subst hwf'
      obtain ⟨v, vs', rfl, hv, hfit'⟩ := fitsFields_nonpad f [] vs (by simp [hk]) hfit
      rw [hk] at hv
      cases v <;> simp only [FKind.fitsVal, decide_eq_true_eq, Bool.false_eq_true] at hv
      obtain ⟨_, i2, _⟩ := ih vs' none 0 rfl hfit'
      simp only [encFields, List.length_nil] at i2
      simp [encFields, fieldsSz, hk, FKind.minSize, FKind.isFixed, wrap16_of_lt _ hv]
      omega


/-! ## the required statements -/

/-- the central one: decoding the encoded fields (followed by arbitrary `rest`) gives back the values and `rest`;
a `rest`-kind field swallows everything, so then `rest` must be empty -/
theorem decFields_encFields (fs : List Field) (vs : List FVal) (hwf : fieldsWF fs = true)
    (hfit : fitsFields fs vs = true) (rest : Bytes) (hrest : hasRest fs = true → rest = []) :
    decFields fs (encFields fs vs 0 ++ rest) = some (vs, rest) :=
  decFields_encFields_aux fs vs none 0 rest hwf hfit (accOK_zero _) hrest

/-- the size the header computation uses is the real length (under `fitsFields` no per-field `wrap16` bites) -/
theorem encFields_length (fs : List Field) (vs : List FVal) (hwf : fieldsWF fs = true)
    (hfit : fitsFields fs vs = true) :
    (encFields fs vs 0).length = fieldsSz fs vs :=
  (encFields_length_aux fs vs none 0 hwf hfit).1

/-- the table's minimum field size is a lower bound … -/
theorem fieldsMin_le (fs : List Field) (vs : List FVal) (hwf : fieldsWF fs = true)
    (hfit : fitsFields fs vs = true) :
    (fs.map (·.kind.minSize)).sum ≤ (encFields fs vs 0).length :=
  (encFields_length_aux fs vs none 0 hwf hfit).2.1

/-- … and exact for fixed-size field lists -/
theorem fieldsFixed_length (fs : List Field) (vs : List FVal) (hwf : fieldsWF fs = true)
    (hfit : fitsFields fs vs = true) (hfix : fs.all (·.kind.isFixed) = true) :
    (encFields fs vs 0).length = (fs.map (·.kind.minSize)).sum :=
  (encFields_length_aux fs vs none 0 hwf hfit).2.2 hfix

end LLRP
