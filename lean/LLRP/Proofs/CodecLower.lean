import LLRP.Proofs.CodecEnc
/-!
`lower S c` (Model/SchemaWF.lean) is a lower bound of the encoded length of every `fits` value; together with the
table check `minSize S c ≤ lower S c` this discharges the decoders' minimum-length pre-checks.
-/
namespace LLRP

theorem encP_param {S n ty v e} (h : EncP S n ty v e) : ∃ p, S.param? ty = some p := by
  obtain ⟨f, _, hf, _⟩ := h
  cases f with
  | zero => simp [fitsParam] at hf
  | succ f =>
    obtain ⟨fs, subs⟩ := v
    simp only [fitsParam] at hf
    cases hp : S.param? ty with
    | none => simp [hp] at hf
    | some p => exact ⟨p, rfl⟩

/-- length of an encoded parameter: header + fields + slots -/
theorem encP_length (S : Schema) (hS : SchemaWF S = true) {n : Nat} {ty : String} {v : Val} {e : Bytes}
    {p : Container} (hp : S.param? ty = some p) (h : EncP S n ty v e) :
    ∃ fs subs f, f + 1 ≤ n ∧ v = .node fs subs ∧ fitsFields p.fields fs = true ∧
      fitsSlots S f p.slots subs none = true ∧
      e.length = p.headerSize + (encFields p.fields fs 0).length + (encSlots S f p.slots subs none).length := by
  obtain ⟨fs, subs, f, hf, hv, hff, hfs, htlv, htv⟩ := (encP_shape S hS hp h).ex
  refine ⟨fs, subs, f, hf, hv, hff, hfs, ?_⟩
  rw [headerSize_param (param_mem hp).2]
  by_cases ht : p.isTLV = true
  · have := congrArg List.length (htlv ht).1
    simp only [List.length_append, List.length_cons, List.length_nil, put16] at this
    rw [if_pos ht]; omega
  · have ht' : p.isTLV = false := by simpa using ht
    have := congrArg List.length (htv ht')
    simp only [List.length_append, List.length_cons] at this
    rw [if_neg ht]; omega

theorem encP_pos (S : Schema) (hS : SchemaWF S = true) {n : Nat} {ty : String} {v : Val} {e : Bytes}
    (h : EncP S n ty v e) : 1 ≤ e.length := by
  obtain ⟨p, hp⟩ := encP_param h
  obtain ⟨_, _, _, _, _, _, _, hl⟩ := encP_length S hS hp h
  rw [headerSize_param (param_mem hp).2] at hl
  split at hl <;> omega

theorem minList_le {l : List Nat} {x : Nat} (h : x ∈ l) : minList l ≤ x := by
  induction l with
  | nil => cases h
  | cons y ys ih =>
    cases ys with
    | nil => simp only [List.mem_singleton] at h; subst h; simp [minList]
    | cons z zs =>
      simp only [minList]
      rcases List.mem_cons.mp h with rfl | h
      · exact Nat.min_le_left _ _
      · exact Nat.le_trans (Nat.min_le_right _ _) (ih h)

theorem groupKind_choice_isChoice {s : Slot} {g' : List Slot} (h : groupKind (s :: g') = .choice) :
    s.isChoice = true ∧ 1 ≤ g'.length := by
  simp only [groupKind, List.length_cons] at h
  split at h
  · cases h
  · rename_i h1
    split at h
    · rename_i h2
      simp only [Bool.and_eq_true, Bool.not_eq_true', Bool.or_eq_true, beq_iff_eq, not_and, not_or,
        Option.isNone_iff_eq_none] at h1
      simp only [Bool.not_eq_true', Bool.or_eq_false_iff] at h2
      have h3 := h1 h2.2
      refine ⟨?_, by omega⟩
      simp only [Slot.isChoice, h2.1, h2.2, Bool.not_false, Bool.and_true]
      cases hg : s.group with
      | none => exact absurd (by simp [h2.1]) (h3.2 hg)
      | some G => rfl
    · cases h

section
variable (S : Schema) (hS : SchemaWF S = true) (k : Nat)
  (ih : ∀ n ty p v e, S.param? ty = some p → EncP S n ty v e → lowerF S k p ≤ e.length)
include ih

theorem lower_encL {n ty p vs e} (hp : S.param? ty = some p) (h : EncL S n ty vs e) (hpos : 1 ≤ vs.length) :
    lowerF S k p ≤ e.length := by
  cases h with
  | nil => simp at hpos
  | cons h1 _ => have := ih _ _ _ _ _ hp h1; simp only [List.length_append]; omega

theorem lower_encS {n g vsg e} (h : EncS S n g vsg e) (hopt : ∀ s ∈ g, s.optional = false) :
    ((groupParams S g).map (lowerF S k)).sum ≤ e.length := by
  induction h with
  | nil => simp [groupParams]
  | @cons s ss vs vss e es hc hl _ ih' =>
    have hso := hopt s List.mem_cons_self
    have hpos : 1 ≤ vs.length := by
      simp only [cardB, hso, Bool.false_or, Bool.false_eq_true, if_false] at hc
      split at hc
      · simpa using hc
      · have : vs.length = 1 := by simpa using hc
        omega
    have ⟨p, hp⟩ : ∃ p, S.param? s.ty = some p := by
      cases hl with
      | nil => simp at hpos
      | cons h1 _ => exact encP_param h1
    have h1 := lower_encL S k ih hp hl hpos
    have h2 := ih' (fun x hx => hopt x (List.mem_cons_of_mem _ hx))
    simp only [groupParams, List.filterMap_cons, Schema.slotParam, hp, List.map_cons, List.sum_cons,
      List.length_append] at h2 ⊢
    omega

theorem lower_encC {n g vsg e} (h : EncC S n g vsg e) :
    ∃ p ∈ groupParams S g, lowerF S k p ≤ e.length := by
  induction h with
  | @here s ss v e hp _ =>
    obtain ⟨p, hpp⟩ := encP_param hp
    exact ⟨p, by simp [groupParams, Schema.slotParam, hpp], ih _ _ _ _ _ hpp hp⟩
  | @there s ss vss e _ ih' =>
    obtain ⟨p, hmem, hle⟩ := ih'
    refine ⟨p, ?_, hle⟩
    simp only [groupParams, List.filterMap_cons] at hmem ⊢
    split
    · exact hmem
    · exact List.mem_cons_of_mem _ hmem

theorem lower_group {n g vsg e} (h : GroupEnc S n g vsg e) (s : Slot) (g' : List Slot) (hg : g = s :: g')
    (hkey : ∀ y ∈ g', slotKey y = slotKey s) : lowerGroup S (lowerF S k) g ≤ e.length := by
  subst hg
  simp only [lowerGroup]
  by_cases hopt : s.optional = true
  · simp [hopt]
  · have hopt' : s.optional = false := by simpa using hopt
    rw [if_neg hopt]
    unfold GroupEnc at h
    by_cases hs : s.isChoice = true
    · simp only [isChoiceRun, hs, if_true] at h
      obtain ⟨p, hmem, hle⟩ := lower_encC S k ih h
      by_cases hk : (groupKind (s :: g') == .choice) = true
      · rw [if_pos hk]
        exact Nat.le_trans (minList_le (List.mem_map_of_mem hmem)) hle
      · rw [if_neg hk]
        -- a choice run that is not decoded by `decChoice` has a single member
        have hlen : g' = [] := by
          cases g' with
          | nil => rfl
          | cons y ys =>
            exfalso; apply hk
            obtain ⟨G, hG, hkk⟩ := isChoice_key hs
            simp only [slotKey, Prod.mk.injEq] at hkk
            simp [groupKind, hkk.1, hkk.2.1, hG]
        subst hlen
        cases h with
        | here hp _ =>
          obtain ⟨p', hp'⟩ := encP_param hp
          have := ih _ _ _ _ _ hp' hp
          simpa [groupParams, Schema.slotParam, hp'] using this
        | there h' => cases h'
    · have hs' : s.isChoice = false := by simpa using hs
      simp only [isChoiceRun, hs', Bool.false_eq_true, if_false] at h
      have hk : ¬ (groupKind (s :: g') == .choice) = true := by
        intro hk
        have := (groupKind_choice_isChoice (by simpa using hk)).1
        rw [hs'] at this; cases this
      rw [if_neg hk]
      refine lower_encS S k ih h ?_
      intro x hx
      rcases List.mem_cons.mp hx with rfl | hx
      · exact hopt'
      · have := hkey x hx
        simp only [slotKey, Prod.mk.injEq] at this
        rw [this.1]; exact hopt'

theorem lower_groups {n gs vss e} (h : GroupsEnc S n gs vss e) (hr : RunsOK slotKey gs) :
    (gs.map (lowerGroup S (lowerF S k))).sum ≤ e.length := by
  induction h with
  | nil => simp
  | @cons g gs vsg vss e es hg _ ih' =>
    obtain ⟨⟨s, g', hgg, hkey, _⟩, hr'⟩ := hr
    have h1 := lower_group S k ih hg s g' hgg hkey
    have h2 := ih' hr'
    simp only [List.map_cons, List.sum_cons, List.length_append]
    omega

end

theorem lowerF_le (S : Schema) (hS : SchemaWF S = true) : ∀ (k n : Nat) (ty : String) (p : Container) (v : Val)
    (e : Bytes), S.param? ty = some p → EncP S n ty v e → lowerF S k p ≤ e.length
  | 0, n, ty, p, v, e, hp, h => by
    obtain ⟨fs, subs, f, _, _, hff, _, hl⟩ := encP_length S hS hp h
    have := fieldsMin_le p.fields fs (wfc_of_param hS hp).fields hff
    simp only [lowerF]; omega
  | k+1, n, ty, p, v, e, hp, h => by
    obtain ⟨fs, subs, f, _, _, hff, hfs, hl⟩ := encP_length S hS hp h
    have h1 := fieldsMin_le p.fields fs (wfc_of_param hS hp).fields hff
    have h2 := lower_groups S k (lowerF_le S hS k) (groups_enc S p f subs hfs)
      (groupRuns_spec slotKey p.slots).2
    simp only [lowerF]; omega

/-- body form, for any container (message or parameter) -/
theorem lower_le_body (S : Schema) (hS : SchemaWF S = true) (c : Container) (hc : c ∈ S) (fs : List FVal)
    (subs : List (List Val)) (f : Nat) (hff : fitsFields c.fields fs = true)
    (hfs : fitsSlots S f c.slots subs none = true) :
    lower S c ≤ c.headerSize + (encFields c.fields fs 0 ++ encSlots S f c.slots subs none).length := by
  have h1 := fieldsMin_le c.fields fs (wfc_of_mem hS hc).fields hff
  have h2 := lower_groups S S.length (lowerF_le S hS S.length) (groups_enc S c f subs hfs)
    (groupRuns_spec slotKey c.slots).2
  simp only [lower, Schema.fuel, lowerF, List.length_append]; omega

end LLRP
