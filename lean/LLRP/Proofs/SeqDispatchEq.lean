import LLRP.Gen.Seq
import LLRP.Model.ReadSide
import LLRP.Proofs.SeqInitial
/-!
# `Client.passToHandler` as translated from the source (`Gen.llrp_Client_passToHandler`, go2seq, deferred drain
included) is the model `ReadSide.dispatch`.

`dispEnv` says what the calls mean over a byte stream: `c.conn` is the remaining stream (`io.ReadFull`, `io.CopyN`,
`io.Copy` through the `io.LimitReader` consume it; running out of bytes is EOF, which `io.Copy` treats as success);
the handler for the type / the default handler are those of `cfg`; a handler behaves as `beh` says (reads `k` bytes of
what it is offered, or obtains the payload through `data()`), a send on the reply channel hands the message to the
awaiting caller. The order of the tests, what is buffered, what each party is given, what the deferred drain consumes
and which error survives are the source's own.
-/
namespace LLRP.SeqGlue
open LLRP LLRP.GoSeq LLRP.ReadSide

/-- the three kinds of payload reader a `Message` can carry -/
inductive Rd where
  | conn
  | limited
  | buf (b : Bytes)
deriving DecidableEq, Repr

structure DWorld where
  stream : Bytes
  /-- what is left of the `io.LimitReader` over the connection -/
  lim : Nat := 0
  awaited : Bool
  deliveries : List Delivery := []
  unhandled : Bool := false
  allocs : List Nat := []

def handlerOf (cfg : Cfg) (typ : Int) : Option Party := if cfg.handlers.contains typ.toNat then some .handler else none
def defaultOf (cfg : Cfg) : Option Party := if cfg.hasDefault then some .dflt else none

/-- `handleGuarded(handler, Message{hdr, payload})` with a handler that behaves as `beh` -/
def runHandler (i : Nat) (beh : Beh) (w : DWorld) (p : Option Party) (m : Header × Rd) : DWorld :=
  match p with
  | none => w
  | some party =>
    let n := m.1.payloadLen
    match m.2 with
    | .buf b =>
      { w with deliveries := w.deliveries ++ [⟨i, party, m.1, some b, beh.took n n, beh.isPanic⟩],
               allocs := w.allocs ++ beh.allocs false n }
    | _ =>
      let avail := w.stream.take w.lim
      let k := beh.took n avail.length
      { w with deliveries := w.deliveries ++ [⟨i, party, m.1, some avail, k, beh.isPanic⟩],
               allocs := w.allocs ++ beh.allocs true n,
               stream := w.stream.drop k, lim := w.lim - k }

def dispEnv (cfg : Cfg) (i : Nat) (beh : Beh) : Gen.Env_llrp_Client_passToHandler where
  World := DWorld
  Header := Header
  Map_MessageType_MessageHandler := Unit
  MessageHandler := Option Party
  Chan_Message := Unit
  sync_Mutex := Unit
  Map_messageID_Chan_Message := Bool
  io_Writer := Unit
  net_Conn := Unit
  io_Reader := Rd
  Message := Header × Rd
  Ptr_bytes_Buffer := Bytes
  Client_handlers := fun _ => ()
  get_Header_typ := fun h => (h.typ : Int)
  index_Map_MessageType_MessageHandler := fun _ t => (handlerOf cfg t, (handlerOf cfg t).isSome)
  nil_Chan_Message := ()
  Client_awaitMu := fun _ => ()
  sync_Mutex_Lock_1 := fun w _ => w
  Client_awaiting := fun w => w.awaited
  get_Header_id := fun h => (h.id : Int)
  index_Map_messageID_Chan_Message := fun m _ => ((), m)
  delete_Map_messageID_Chan_Message := fun w _ _ => w
  sync_Mutex_Unlock_1 := fun w _ => w
  isNil_MessageHandler := fun h => h.isNone
  Client_defaultHandler := fun _ => defaultOf cfg
  global_io_Discard := ()
  Client_conn := fun _ => ()
  conv_net_Conn_to_io_Reader := fun _ => .conn
  get_Header_payloadLen := fun h => (h.payloadLen : Int)
  io_CopyN_1 := fun w _ _ n =>
    if n.toNat ≤ w.stream.length then ({ w with stream := w.stream.drop n.toNat, unhandled := true }, n, .nil)
    else ({ w with stream := [], unhandled := true }, 0, .global "io.EOF")
  io_LimitReader_1 := fun w _ n => ({ w with lim := n.toNat }, .limited)
  zero_Message := (default, .conn)
  set_Message_Header := fun m h => (h, m.2)
  send_Chan_Message := fun w _ m =>
    { w with deliveries := w.deliveries ++ [match m.2 with
        | .buf b => ⟨i, .caller, m.1, some b, b.length, false⟩
        | _ => ⟨i, .caller, m.1, none, 0, false⟩] }
  close_Chan_Message := fun w _ => w
  set_Message_payload := fun m r => (m.1, r)
  Client_handleGuarded_1 := fun w h m => runHandler i beh w h m
  Client_handleGuarded_2 := fun w h m => runHandler i beh w h m
  io_Copy_1 := fun w _ r => match r with
    | .limited => ({ w with stream := w.stream.drop w.lim, lim := 0 }, 0, .nil)
    | _ => (w, 0, .nil)
  io_ReadFull_1 := fun w _ b =>
    if b.length ≤ w.stream.length then
      ({ w with stream := w.stream.drop b.length, allocs := w.allocs ++ [b.length] }, toInts (w.stream.take b.length), b.length, .nil)
    else ({ w with stream := [], allocs := w.allocs ++ [b.length] }, b, 0, .global "io.ErrUnexpectedEOF")
  bytes_NewBuffer_1 := fun w b => (w, ofInts b)
  conv_Ptr_bytes_Buffer_to_io_Reader := fun b => .buf b
  bytes_NewBuffer_2 := fun w b => (w, ofInts b)

/-- what the run of the translated function shows, in the shape of the model's `FrameOut` -/
def outOf (r : DWorld × GoErr) : FrameOut :=
  { deliveries := r.1.deliveries, unhandled := r.1.unhandled, allocs := r.1.allocs, rest := r.1.stream,
    failed := !(r.2 == .nil), crashed := false }

theorem take_len_of_ge {n : Nat} {s : Bytes} (h : ¬ s.length < n) : (s.take n).length = n := by
  simp [List.length_take]; omega

set_option maxHeartbeats 8000000 in
/-- **Source = model**, for every handler table, every header, every content of the await map, every handler
behaviour and every remaining stream: what the translated `passToHandler` delivers, discards, allocates, consumes and
returns is what `ReadSide.dispatch` says (`inMap`: the header's id is in the await map; for the three unsolicited types
the map is not consulted). -/
theorem src_dispatch_eq (cfg : Cfg) (i : Nat) (h : Header) (inMap : Bool) (beh : Beh) (s : Bytes) :
    outOf (Gen.llrp_Client_passToHandler (dispEnv cfg i beh) { stream := s, awaited := inMap } h)
      = dispatch cfg i h (!unsolicited h.typ && inMap) beh s := by
  have hbig : (decide (((h.payloadLen : Nat) : Int) > 655360)) = !decide (h.payloadLen ≤ MaxBuf) := by
    by_cases hb : h.payloadLen ≤ MaxBuf
    · have : ¬ ((h.payloadLen : Int) > 655360) := by unfold MaxBuf Gen.MaxBufferedPayloadSz at hb; omega
      simp [hb, this]
    · have : ((h.payloadLen : Int) > 655360) := by unfold MaxBuf Gen.MaxBufferedPayloadSz at hb; omega
      simp [hb, this]
  cases hun : unsolicited h.typ <;> cases inMap <;> by_cases hh : h.typ ∈ cfg.handlers <;>
    by_cases hd : cfg.hasDefault = true <;> by_cases hb : h.payloadLen ≤ MaxBuf <;> by_cases hl : s.length < h.payloadLen <;>
    (first
      | (have hu' : (¬ (h.typ : Int) = 62 ∧ ¬ (h.typ : Int) = 61) ∧ ¬ (h.typ : Int) = 63 := by
           simp [unsolicited] at hun; omega
         first
           | (have hn : ¬ h.payloadLen ≤ s.length := by omega
              simp [Gen.llrp_Client_passToHandler, dispEnv, hu', hbig, dispatch, outOf, handlerParty, handlerOf, defaultOf, runHandler, hun, hh, hd, hb, hl, hn,
                ofInts_toInts, guarded, callRaw]; done)
           | (have hn : h.payloadLen ≤ s.length := by omega
              simp [Gen.llrp_Client_passToHandler, dispEnv, hu', hbig, dispatch, outOf, handlerParty, handlerOf, defaultOf, runHandler, hun, hh, hd, hb, hl, hn,
                ofInts_toInts, take_len_of_ge, List.length_take, Nat.min_eq_left hn, guarded, callRaw]; done))
      | (have hx : (h.typ = 62 ∨ h.typ = 61) ∨ h.typ = 63 := by simpa [unsolicited] using hun
         obtain ⟨ver, typ, plen, mid⟩ := h
         simp only at hx hh hb hl hbig
         rcases hx with (rfl | rfl) | rfl <;>
         first
           | (have hn : ¬ plen ≤ s.length := by omega
              simp [Gen.llrp_Client_passToHandler, dispEnv, hbig, dispatch, outOf, handlerParty, handlerOf, defaultOf, runHandler, unsolicited, hh, hd, hb, hl, hn,
                ofInts_toInts, guarded, callRaw]; done)
           | (have hn : plen ≤ s.length := by omega
              simp [Gen.llrp_Client_passToHandler, dispEnv, hbig, dispatch, outOf, handlerParty, handlerOf, defaultOf, runHandler, unsolicited, hh, hd, hb, hl, hn,
                ofInts_toInts, take_len_of_ge, List.length_take, Nat.min_eq_left hn, guarded, callRaw]; done)))

end LLRP.SeqGlue
