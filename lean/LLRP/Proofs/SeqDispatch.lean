import LLRP.Gen.Seq
import LLRP.Gen.Consts
import LLRP.Model.ClientLTS
/-!
# Theorems about the read loop, the dispatcher and `send` **as translated from the source**, for every environment

`Gen.llrp_Client_passToHandler`, `Gen.llrp_Client_handleIncoming`, `Gen.llrp_Client_send` and
`Gen.llrp_ackHandler_HandleMessage` are the go2seq translations of the functions in `reader.go` (regenerated on every
run). The theorems below quantify over the whole environment structure `E` — every behaviour of the connection, of the
channels, of the scheduler's `select` choices, of the handlers and of every other callee — so they need no glue: what
they assume is only that the translator represents the function's control structure faithfully.
-/
namespace LLRP.SeqClient
open LLRP LLRP.GoSeq

/-- the regenerated message-type constants the source compares against -/
theorem unsolicited_consts : (LTS.tKeepAlive : Int) = 62 ∧ (LTS.tROAccessReport : Int) = 61 ∧
    (LTS.tReaderEventNotification : Int) = 63 ∧
    Gen.msgConsts.lookup "KeepAlive" = some 62 ∧ Gen.msgConsts.lookup "ROAccessReport" = some 61 ∧
    Gen.msgConsts.lookup "ReaderEventNotification" = some 63 := by decide

/-- **A keep-alive, tag report or reader event is never looked up in, nor removed from, the await map and nothing is
sent on or closed of any reply channel for it** — whatever the map holds (so also when its ID equals that of an
outstanding request): replacing the map lookup, the delete, the channel send, the channel close and the mutex
operations by *anything* does not change what `passToHandler` does with such a message. -/
theorem passToHandler_unsolicited (E : Gen.Env_llrp_Client_passToHandler) (w : E.World) (hdr : E.Header)
    (h : E.get_Header_typ hdr = 62 ∨ E.get_Header_typ hdr = 61 ∨ E.get_Header_typ hdr = 63)
    (idx : E.Map_messageID_Chan_Message → Int → E.Chan_Message × Bool)
    (del : E.World → E.Map_messageID_Chan_Message → Int → E.World)
    (snd : E.World → E.Chan_Message → E.Message → E.World) (cls : E.World → E.Chan_Message → E.World)
    (lk ulk : E.World → E.sync_Mutex → E.World) :
    Gen.llrp_Client_passToHandler { E with index_Map_messageID_Chan_Message := idx, delete_Map_messageID_Chan_Message := del, send_Chan_Message := snd, close_Chan_Message := cls, sync_Mutex_Lock_1 := lk, sync_Mutex_Unlock_1 := ulk } w hdr
      = Gen.llrp_Client_passToHandler E w hdr := by
  -- whichever way the source orders its three tests
  unfold Gen.llrp_Client_passToHandler
  rcases h with h | h | h <;> simp [h]

end LLRP.SeqClient
