import LLRP.Model.Codec
/-!
C11: the decoder's result does not depend on its fuel cut-off.

* `dec*_length`: what a decoding step leaves unread is never longer than what it was given (a decoded parameter
  strictly shortens it);
* `dec*_fuel` (one mutual induction): a successful result is reproduced by every larger fuel **and** by every fuel
  above an explicit bound that is linear in the input length with a table-dependent slope;
* `decode_fuel`, `fuel_mono` for `decBody` and the public corollaries are in `LLRP.Props.C11`.
-/
namespace LLRP

/-- the slot groups `decBody` walks through -/
def groupsOf (c : Container) : List (List Slot) :=
  groupRuns (fun (s : Slot) => (s.optional, s.repeatable, s.group)) c.slots

/-- fuel decrements one nesting level can spend walking along its groups and slots -/
def walk : List (List Slot) → Nat
  | [] => 0
  | g :: gs => g.length + 1 + walk gs

theorem walk_groupRuns_le {β} [BEq β] (key : Slot → β) : ∀ (l : List Slot), walk (groupRuns key l) ≤ 2 * l.length := by
  intro l
  induction l with
  | nil => simp [groupRuns, walk]
  | cons x xs ih =>
    unfold groupRuns
    split
    · rename_i y ys rest heq
      rw [heq] at ih
      simp only [walk, List.length_cons] at ih
      split <;> simp only [walk, List.length_cons, List.length_nil] <;> omega
    · simp only [walk, List.length_cons, List.length_nil]; omega

theorem walk_groupsOf_le (c : Container) : walk (groupsOf c) ≤ 2 * c.slots.length :=
  walk_groupRuns_le _ c.slots

theorem le_maxSlots {S : Schema} {c : Container} (h : c ∈ S) : c.slots.length ≤ S.maxSlots := by
  induction S with
  | nil => cases h
  | cons x xs ih =>
    simp only [Schema.maxSlots]
    rcases List.mem_cons.mp h with rfl | h
    · exact Nat.le_max_left _ _
    · exact Nat.le_trans (ih h) (Nat.le_max_right _ _)

theorem slotParam_mem {S : Schema} {s : Slot} {p : Container} (h : S.slotParam s = some p) : p ∈ S :=
  List.mem_of_find?_eq_some h

/-! ## lengths -/

theorem decFields_length : ∀ (fs : List Field) (d : Bytes) (vs : List FVal) (r : Bytes),
    decFields fs d = some (vs, r) → r.length ≤ d.length := by
  intro fs
  induction fs with
  | nil => intro d vs r h; simp only [decFields, Option.some.injEq, Prod.mk.injEq] at h; rw [h.2]; exact Nat.le_refl _
  | cons f fs ih =>
    intro d vs r h
    unfold decFields at h
    split at h
    · -- pad
      split at h
      · have := ih _ _ _ h; simp only [List.length_drop] at this; omega
      · cases h
    · -- scalar
      split at h
      · simp only [] at h
        split at h
        · simp only [Option.map_eq_some_iff] at h
          obtain ⟨⟨vs', r'⟩, h1, h2⟩ := h
          simp only [Prod.mk.injEq] at h2
          have := ih _ _ _ h1; simp only [List.length_drop] at this; rw [← h2.2]; omega
        · simp only [Option.map_eq_some_iff] at h
          obtain ⟨⟨vs', r'⟩, h1, h2⟩ := h
          simp only [Prod.mk.injEq] at h2
          have := ih _ _ _ h1
          rw [← h2.2]
          split at this <;> (try simp only [List.length_drop] at this) <;> omega
      · cases h
    · -- fixedArr
      simp only [] at h
      split at h
      · simp only [Option.map_eq_some_iff] at h
        obtain ⟨⟨vs', r'⟩, h1, h2⟩ := h
        simp only [Prod.mk.injEq] at h2
        have := ih _ _ _ h1; simp only [List.length_drop] at this; rw [← h2.2]; omega
      · cases h
    · -- arr
      split at h
      · simp only [] at h
        split at h
        · simp only [Option.map_eq_some_iff] at h
          obtain ⟨⟨vs', r'⟩, h1, h2⟩ := h
          simp only [Prod.mk.injEq] at h2
          have := ih _ _ _ h1; simp only [List.length_drop] at this; rw [← h2.2]; omega
        · cases h
      · cases h
    · -- str
      split at h
      · simp only [] at h
        split at h
        · simp only [Option.map_eq_some_iff] at h
          obtain ⟨⟨vs', r'⟩, h1, h2⟩ := h
          simp only [Prod.mk.injEq] at h2
          have := ih _ _ _ h1; simp only [List.length_drop] at this; rw [← h2.2]; omega
        · cases h
      · cases h
    · -- bitArr
      split at h
      · simp only [] at h
        split at h
        · simp only [Option.map_eq_some_iff] at h
          obtain ⟨⟨vs', r'⟩, h1, h2⟩ := h
          simp only [Prod.mk.injEq] at h2
          have := ih _ _ _ h1; simp only [List.length_drop] at this; rw [← h2.2]; omega
        · cases h
      · cases h
    · -- rest
      simp only [Option.map_eq_some_iff] at h
      obtain ⟨⟨vs', r'⟩, h1, h2⟩ := h
      simp only [Prod.mk.injEq] at h2
      have := ih _ _ _ h1; simp only [List.length_nil] at this; rw [← h2.2]; omega

/-- a decoded parameter consumes at least one byte; its body is cut from the data and is at least one byte shorter -/
theorem decParam_lt (S : Schema) (fuel : Nat) (p : Container) (d : Bytes) (v : Val) (d' : Bytes)
    (h : decParam S fuel p d = some (v, d')) : d'.length < d.length := by
  cases fuel with
  | zero => simp [decParam] at h
  | succ fuel =>
    unfold decParam at h
    split at h
    · split at h
      · rename_i b0 b1 l0 l1 rest
        simp only [] at h
        split at h
        · cases h
        · rename_i hlen
          simp only [Option.map_eq_some_iff] at h
          obtain ⟨_, _, heq⟩ := h
          simp only [Prod.mk.injEq] at heq
          obtain ⟨_, rfl⟩ := heq
          simp only [Bool.or_eq_true, decide_eq_true_eq, not_or, Nat.not_lt] at hlen
          simp only [List.length_drop, List.length_cons] at *
          omega
      · cases h
    · simp only [] at h
      split at h
      · rename_i hn
        simp only [Option.map_eq_some_iff] at h
        obtain ⟨_, _, heq⟩ := h
        simp only [Prod.mk.injEq] at heq
        obtain ⟨_, rfl⟩ := heq
        simp only [Bool.and_eq_true, decide_eq_true_eq] at hn
        simp only [List.length_drop]
        omega
      · cases h

theorem decSingles_length (S : Schema) : ∀ (fuel : Nat) (ss : List Slot) (d : Bytes) (vss : List (List Val)) (r : Bytes),
    decSingles S fuel ss d = some (vss, r) → r.length ≤ d.length := by
  intro fuel
  induction fuel with
  | zero => intro ss d vss r h; simp [decSingles] at h
  | succ fuel ih =>
    intro ss d vss r h
    cases ss with
    | nil => simp only [decSingles, Option.some.injEq, Prod.mk.injEq] at h; rw [h.2]; exact Nat.le_refl _
    | cons s ss =>
      unfold decSingles at h
      split at h
      · cases h
      · rename_i p hp
        simp only [] at h
        split at h
        · cases h
        · simp only [Option.map_eq_some_iff] at h
          obtain ⟨⟨vss', r'⟩, h1, h2⟩ := h
          simp only [Prod.mk.injEq] at h2
          rw [← h2.2]; exact ih _ _ _ _ h1
        · rename_i v d' hhere
          simp only [Option.map_eq_some_iff] at h
          obtain ⟨⟨vss', r'⟩, h1, h2⟩ := h
          simp only [Prod.mk.injEq] at h2
          have hr := ih _ _ _ _ h1
          have hd' : d'.length < d.length := by
            split at hhere
            · split at hhere <;> simp at hhere
            · split at hhere
              · simp only [Option.map_eq_some_iff, Option.some.injEq] at hhere
                obtain ⟨x, hx, rfl⟩ := hhere
                exact decParam_lt S fuel p d v d' hx
              · split at hhere <;> simp at hhere
            · split at hhere
              · simp only [Option.map_eq_some_iff, Option.some.injEq] at hhere
                obtain ⟨x, hx, rfl⟩ := hhere
                exact decParam_lt S fuel p d v d' hx
              · split at hhere <;> simp at hhere
          rw [← h2.2]; omega

theorem decChoice_length (S : Schema) (fuel : Nat) (g : List Slot) (d : Bytes) (vss : List (List Val)) (r : Bytes)
    (h : decChoice S fuel g d = some (vss, r)) : r.length ≤ d.length := by
  cases fuel with
  | zero => simp [decChoice] at h
  | succ fuel =>
    unfold decChoice at h
    simp only [] at h
    repeat' (split at h)
    all_goals first
      | (cases h; done)
      | (simp only [Option.map_eq_some_iff] at h
         obtain ⟨⟨v, d'⟩, h1, h2⟩ := h
         simp only [Prod.mk.injEq] at h2
         have := decParam_lt S fuel _ d v d' h1
         rw [← h2.2]; omega)

theorem decLoop_length (S : Schema) : ∀ (fuel : Nat) (g : List Slot) (acc : List (List Val)) (d : Bytes) (k : Nat)
    (vss : List (List Val)) (r : Bytes), decLoop S fuel g acc d k = some (vss, r) → r.length ≤ d.length := by
  intro fuel
  induction fuel with
  | zero => intro g acc d k vss r h; simp [decLoop] at h
  | succ fuel ih =>
    intro g acc d k vss r h
    cases k with
    | zero => simp only [decLoop, Option.some.injEq, Prod.mk.injEq] at h; rw [h.2]; exact Nat.le_refl _
    | succ k =>
      unfold decLoop at h
      simp only [] at h
      repeat' (split at h)
      all_goals first
        | (cases h <;> exact Nat.le_refl _)
        | (have := ih _ _ _ _ _ _ h; omega)

theorem mul_step {W a b : Nat} (h : a + 1 ≤ b) : W * a + W ≤ W * b := by
  have := Nat.mul_le_mul_left W h
  rw [Nat.mul_succ] at this; exact this


theorem slotParam_of_getElem? {S : Schema} {g : List Slot} {i : Nat} {p : Container}
    (h : (g.filterMap (fun s => S.slotParam s))[i]? = some p) : ∃ ty, S.param? ty = some p := by
  have := List.mem_of_getElem? h
  simp only [List.mem_filterMap] at this
  obtain ⟨s, _, hs⟩ := this
  exact ⟨s.ty, hs⟩

set_option linter.unusedSectionVars false

/-! ## fuel: one mutual induction for monotonicity and sufficiency -/

section
variable (S : Schema) (W : Nat) (hW1 : 1 ≤ W) (hW : ∀ ty p, S.param? ty = some p → walk (groupsOf p) + 3 ≤ W)
include hW1 hW

mutual
theorem decBody_fuel : ∀ (n : Nat) (c : Container) (d : Bytes) (v : Val),
    decBody S n c d = some v → ∀ m, (n ≤ m ∨ walk (groupsOf c) + 3 + W * d.length ≤ m) → decBody S m c d = some v
  | 0, _, _, _, h => by simp [decBody] at h
  | n+1, c, d, v, h => by
    intro m hm
    obtain ⟨m, rfl⟩ : ∃ m', m = m' + 1 := ⟨m - 1, by omega⟩
    revert h
    unfold decBody
    simp only []
    repeat' split
    all_goals try (exact fun h => h)
    all_goals try (intro h; cases h; done)
    all_goals
      have hdf := ‹decFields c.fields d = some _›
      have hlen := decFields_length _ _ _ _ hdf
      have hmul := Nat.mul_le_mul_left W hlen
      have hn := ‹decGroups S n _ _ = some _›
      have hm' := decGroups_fuel n _ _ _ hn m (by unfold groupsOf at hm; omega)
      simp_all
theorem decGroups_fuel : ∀ (n : Nat) (gs : List (List Slot)) (d : Bytes) (r : List (List Val) × Bytes),
    decGroups S n gs d = some r → ∀ m, (n ≤ m ∨ walk gs + 2 + W * d.length ≤ m) → decGroups S m gs d = some r
  | 0, _, _, _, h => by simp [decGroups] at h
  | n+1, [], d, r, h => by
    intro m hm
    obtain ⟨m, rfl⟩ : ∃ m', m = m' + 1 := ⟨m - 1, by omega⟩
    simpa [decGroups] using h
  | n+1, g :: gs, d, r, h => by
    intro m hm
    obtain ⟨m, rfl⟩ : ∃ m', m = m' + 1 := ⟨m - 1, by omega⟩
    simp only [walk] at hm
    revert h
    unfold decGroups
    split
    · exact fun h => decGroups_fuel n _ _ _ h m (by simp only [List.length_nil] at hm; omega)
    · rename_i s tl
      simp only []
      have key : ∀ (X : Nat → Option (List (List Val) × Bytes)),
          (∀ x, X n = some x → X m = some x ∧ x.2.length ≤ d.length) →
          (match X n with
            | none => none
            | some (vs, d') => match decGroups S n gs d' with
              | none => none
              | some (vss, d'') => some (vs ++ vss, d'')) = some r →
          (match X m with
            | none => none
            | some (vs, d') => match decGroups S m gs d' with
              | none => none
              | some (vss, d'') => some (vs ++ vss, d'')) = some r := by
        intro X hX
        cases hx : X n with
        | none => intro h; cases h
        | some x =>
          obtain ⟨vs, d'⟩ := x
          obtain ⟨hx', hl⟩ := hX _ hx
          rw [hx']
          simp only []
          have hmul := Nat.mul_le_mul_left W hl
          cases hg : decGroups S n gs d' with
          | none => intro h; cases h
          | some y =>
            rw [decGroups_fuel n _ _ _ hg m (by simp only [] at hmul; omega)]
            exact fun h => h
      by_cases hc1 : (!s.repeatable && ((s :: tl).length == 1 || s.group.isNone && !s.optional)) = true
      · simp only [hc1, if_true]
        exact key (fun k => decSingles S k (s :: tl) d) (fun x hx =>
          ⟨decSingles_fuel n _ _ _ hx m (by omega), decSingles_length S n _ _ x.1 x.2 hx⟩)
      · simp only [hc1, if_false, Bool.false_eq_true]
        by_cases hc2 : (!(s.optional || s.repeatable)) = true
        · simp only [hc2, if_true]
          exact key (fun k => decChoice S k (s :: tl) d) (fun x hx =>
            ⟨decChoice_fuel n _ _ _ hx m (by omega), decChoice_length S n _ _ x.1 x.2 hx⟩)
        · simp only [hc2, if_false, Bool.false_eq_true]
          exact key (fun k => decLoop S k (s :: tl) (List.map (fun _ => []) (s :: tl)) d d.length) (fun x hx =>
            ⟨decLoop_fuel n _ _ _ _ _ hx m (by omega), decLoop_length S n _ _ _ _ x.1 x.2 hx⟩)
theorem decSingles_fuel : ∀ (n : Nat) (ss : List Slot) (d : Bytes) (r : List (List Val) × Bytes),
    decSingles S n ss d = some r → ∀ m, (n ≤ m ∨ ss.length + 2 + W * d.length ≤ m) → decSingles S m ss d = some r
  | 0, _, _, _, h => by simp [decSingles] at h
  | n+1, [], d, r, h => by
    intro m hm
    obtain ⟨m, rfl⟩ : ∃ m', m = m' + 1 := ⟨m - 1, by omega⟩
    simpa [decSingles] using h
  | n+1, s :: ss, d, r, h => by
    intro m hm
    obtain ⟨m, rfl⟩ : ∃ m', m = m' + 1 := ⟨m - 1, by omega⟩
    simp only [List.length_cons] at hm
    revert h
    unfold decSingles
    split
    · exact fun h => h
    · rename_i p hp
      have hpW := hW s.ty p hp
      have recS : ∀ (d' : Bytes) (f : List (List Val) × Bytes → List (List Val) × Bytes), d'.length ≤ d.length →
          (decSingles S n ss d').map f = some r → (decSingles S m ss d').map f = some r := by
        intro d' f hl h
        have hmul := Nat.mul_le_mul_left W hl
        simp only [Option.map_eq_some_iff] at h ⊢
        obtain ⟨y, hy, hr⟩ := h
        exact ⟨y, decSingles_fuel n _ _ _ hy m (by omega), hr⟩
      have hopt : (if s.optional = true then some (none : Option (Val × Bytes)) else none) = some none ∨
          (if s.optional = true then some (none : Option (Val × Bytes)) else none) = none := by
        by_cases ho : s.optional = true
        · left; simp only [ho, if_true]
        · right; simp only [ho, if_false, Bool.false_eq_true]
      have keyT : ∀ t : Nat,
          (match (if t = p.typeId then Option.map some (decParam S n p d) else if s.optional = true then some none else none) with
            | none => none
            | some none => Option.map (fun x => match x with | (vss, r) => ([] :: vss, r)) (decSingles S n ss d)
            | some (some (v, d')) => Option.map (fun x => match x with | (vss, r) => ([v] :: vss, r)) (decSingles S n ss d')) = some r →
          (match (if t = p.typeId then Option.map some (decParam S m p d) else if s.optional = true then some none else none) with
            | none => none
            | some none => Option.map (fun x => match x with | (vss, r) => ([] :: vss, r)) (decSingles S m ss d)
            | some (some (v, d')) => Option.map (fun x => match x with | (vss, r) => ([v] :: vss, r)) (decSingles S m ss d')) = some r := by
        intro t
        by_cases ht : t = p.typeId
        · simp only [if_pos ht]
          cases hP : decParam S n p d with
          | none => simp only [Option.map_none]; intro h; cases h
          | some x =>
            rw [decParam_fuel n p d x hpW hP m (by omega)]
            have hlt := decParam_lt S n p d x.1 x.2 hP
            simp only [Option.map_some]
            exact recS _ _ (by omega)
        · simp only [if_neg ht]
          rcases hopt with ho | ho <;> rw [ho]
          · exact recS _ _ (Nat.le_refl _)
          · exact fun h => h
      simp only []
      generalize peek (!p.isTLV) (!!p.isTLV) d = pk
      cases pk with
      | short =>
        simp only []
        rcases hopt with ho | ho <;> rw [ho]
        · exact recS _ _ (Nat.le_refl _)
        · exact fun h => h
      | tv t => exact keyT t
      | tlv t => exact keyT t
theorem decChoice_fuel : ∀ (n : Nat) (g : List Slot) (d : Bytes) (r : List (List Val) × Bytes),
    decChoice S n g d = some r → ∀ m, (n ≤ m ∨ 2 + W * d.length ≤ m) → decChoice S m g d = some r
  | 0, _, _, _, h => by simp [decChoice] at h
  | n+1, g, d, r, h => by
    intro m hm
    obtain ⟨m, rfl⟩ : ∃ m', m = m' + 1 := ⟨m - 1, by omega⟩
    revert h
    unfold decChoice
    simp only []
    repeat' split
    all_goals try (exact fun h => h)
    all_goals
      rename_i p hp
      obtain ⟨ty, hty⟩ := slotParam_of_getElem? hp
      have hpW := hW ty p hty
      intro h
      simp only [Option.map_eq_some_iff] at h ⊢
      obtain ⟨y, hy, hr⟩ := h
      exact ⟨y, decParam_fuel n p d y hpW hy m (by omega), hr⟩
theorem decLoop_fuel : ∀ (n : Nat) (g : List Slot) (acc : List (List Val)) (d : Bytes) (k : Nat) (r : List (List Val) × Bytes),
    decLoop S n g acc d k = some r → ∀ m, (n ≤ m ∨ 2 + W * d.length ≤ m) → decLoop S m g acc d k = some r
  | 0, _, _, _, _, _, h => by simp [decLoop] at h
  | n+1, g, acc, d, 0, r, h => by
    intro m hm
    obtain ⟨m, rfl⟩ : ∃ m', m = m' + 1 := ⟨m - 1, by omega⟩
    simpa [decLoop] using h
  | n+1, g, acc, d, k+1, r, h => by
    intro m hm
    obtain ⟨m, rfl⟩ : ∃ m', m = m' + 1 := ⟨m - 1, by omega⟩
    revert h
    unfold decLoop
    simp only []
    repeat' split
    all_goals try (exact fun h => h)
    all_goals try (intro h; cases h; done)
    all_goals
      have hpi := ‹(List.filterMap _ g)[_]? = some _›
      obtain ⟨ty, hty⟩ := slotParam_of_getElem? hpi
      have hpW := hW ty _ hty
      have hP := ‹decParam S n _ _ = some _›
      have hlt := decParam_lt S n _ _ _ _ hP
      have hP' := decParam_fuel n _ _ _ hpW hP m (by omega)
      have hstep := mul_step (W := W) (Nat.succ_le_of_lt hlt)
      simp_all
      all_goals first
        | omega
        | exact fun h => decLoop_fuel n _ _ _ _ _ h m (by omega)
theorem decParam_fuel : ∀ (n : Nat) (p : Container) (d : Bytes) (r : Val × Bytes), walk (groupsOf p) + 3 ≤ W →
    decParam S n p d = some r → ∀ m, (n ≤ m ∨ 1 + W * d.length ≤ m) → decParam S m p d = some r
  | 0, _, _, _, _, h => by simp [decParam] at h
  | n+1, p, d, r, hp, h => by
    intro m hm
    obtain ⟨m, rfl⟩ : ∃ m', m = m' + 1 := ⟨m - 1, by omega⟩
    revert h
    unfold decParam
    split
    · split
      · rename_i b0 b1 l0 l1 rest
        simp only []
        split
        · exact fun h => h
        · rename_i hlen
          intro h
          simp only [Option.map_eq_some_iff] at h ⊢
          obtain ⟨v, hv, hr⟩ := h
          simp only [Bool.or_eq_true, decide_eq_true_eq, not_or, Nat.not_lt] at hlen
          refine ⟨v, decBody_fuel n p _ v hv m ?_, hr⟩
          have : ((List.take (be16 l0 l1) (b0 :: b1 :: l0 :: l1 :: rest)).drop 4).length + 1 ≤ (b0 :: b1 :: l0 :: l1 :: rest).length := by
            simp only [List.length_drop, List.length_take, List.length_cons] at *; omega
          have := mul_step (W := W) this
          omega
      · exact fun h => h
    · simp only []
      split
      · rename_i hn
        intro h
        simp only [Option.map_eq_some_iff] at h ⊢
        obtain ⟨v, hv, hr⟩ := h
        simp only [Bool.and_eq_true, decide_eq_true_eq] at hn
        refine ⟨v, decBody_fuel n p _ v hv m ?_, hr⟩
        have : ((List.take (paramMinSize S p) d).drop 1).length + 1 ≤ d.length := by
          simp only [List.length_drop, List.length_take]; omega
        have := mul_step (W := W) this
        omega
      · exact fun h => h
end
end

/-! ## the table-dependent slope -/

/-- `W = 2·maxSlots + 4` pays for one nesting level of every parameter of the table -/
theorem slope_ok (S : Schema) : ∀ ty p, S.param? ty = some p → walk (groupsOf p) + 3 ≤ 2 * S.maxSlots + 4 := by
  intro ty p h
  have h1 := walk_groupsOf_le p
  have h2 := le_maxSlots (List.mem_of_find?_eq_some h)
  omega

end LLRP
