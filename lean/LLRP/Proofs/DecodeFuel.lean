import LLRP.Model.Codec
/-!
C11: the decoder's result does not depend on its fuel cut-off.

* `dec*_length`: what a decoding step leaves unread is never longer than what it was given (a decoded parameter
  strictly shortens it);
* `dec*_fuel` (one mutual induction): a successful result is reproduced by every larger fuel **and** by every fuel
  above an explicit bound that is linear in the input length with a table-dependent slope;
* `decode_fuel`, `fuel_mono` for `decBody` and the public corollaries are in `LLRP.Props.C11`.
-/
namespace LLRP

/-- the slot groups `decBody` walks through -/
def groupsOf (c : Container) : List (List Slot) :=
  groupRuns (fun (s : Slot) => (s.optional, s.repeatable, s.group)) c.slots

/-- fuel decrements one nesting level can spend walking along its groups and slots -/
def walk : List (List Slot) → Nat
  | [] => 0
  | g :: gs => g.length + 1 + walk gs

theorem walk_groupRuns_le {β} [BEq β] (key : Slot → β) : ∀ (l : List Slot), walk (groupRuns key l) ≤ 2 * l.length := by
  intro l
  induction l with
  | nil => simp [groupRuns, walk]
  | cons x xs ih =>
    unfold groupRuns
    split
    · rename_i y ys rest heq
      rw [heq] at ih
      simp only [walk, List.length_cons] at ih
      split <;> simp only [walk, List.length_cons, List.length_nil] <;> omega
    · simp only [walk, List.length_cons, List.length_nil]; omega

theorem walk_groupsOf_le (c : Container) : walk (groupsOf c) ≤ 2 * c.slots.length :=
  walk_groupRuns_le _ c.slots

theorem le_maxSlots {S : Schema} {c : Container} (h : c ∈ S) : c.slots.length ≤ S.maxSlots := by
  induction S with
  | nil => cases h
  | cons x xs ih =>
    simp only [Schema.maxSlots]
    rcases List.mem_cons.mp h with rfl | h
    · exact Nat.le_max_left _ _
    · exact Nat.le_trans (ih h) (Nat.le_max_right _ _)

theorem slotParam_mem {S : Schema} {s : Slot} {p : Container} (h : S.slotParam s = some p) : p ∈ S :=
  List.mem_of_find?_eq_some h

/-! ## lengths -/

theorem decFields_length : ∀ (fs : List Field) (d : Bytes) (vs : List FVal) (r : Bytes),
    decFields fs d = some (vs, r) → r.length ≤ d.length := by
  intro fs
  induction fs with
  | nil => intro d vs r h; simp only [decFields, Option.some.injEq, Prod.mk.injEq] at h; rw [h.2]; exact Nat.le_refl _
  | cons f fs ih =>
    intro d vs r h
    unfold decFields at h
    split at h
    · -- pad
      split at h
      · have := ih _ _ _ h; simp only [List.length_drop] at this; omega
      · cases h
    · -- scalar
      split at h
      · simp only [] at h
        split at h
        · simp only [Option.map_eq_some_iff] at h
          obtain ⟨⟨vs', r'⟩, h1, h2⟩ := h
          simp only [Prod.mk.injEq] at h2
          have := ih _ _ _ h1; simp only [List.length_drop] at this; rw [← h2.2]; omega
        · simp only [Option.map_eq_some_iff] at h
          obtain ⟨⟨vs', r'⟩, h1, h2⟩ := h
          simp only [Prod.mk.injEq] at h2
          have := ih _ _ _ h1
          rw [← h2.2]
          split at this <;> (try simp only [List.length_drop] at this) <;> omega
      · cases h
    · -- fixedArr
      simp only [] at h
      split at h
      · simp only [Option.map_eq_some_iff] at h
        obtain ⟨⟨vs', r'⟩, h1, h2⟩ := h
        simp only [Prod.mk.injEq] at h2
        have := ih _ _ _ h1; simp only [List.length_drop] at this; rw [← h2.2]; omega
      · cases h
    · -- arr
      split at h
      · simp only [] at h
        split at h
        · simp only [Option.map_eq_some_iff] at h
          obtain ⟨⟨vs', r'⟩, h1, h2⟩ := h
          simp only [Prod.mk.injEq] at h2
          have := ih _ _ _ h1; simp only [List.length_drop] at this; rw [← h2.2]; omega
        · cases h
      · cases h
    · -- str
      split at h
      · simp only [] at h
        split at h
        · simp only [Option.map_eq_some_iff] at h
          obtain ⟨⟨vs', r'⟩, h1, h2⟩ := h
          simp only [Prod.mk.injEq] at h2
          have := ih _ _ _ h1; simp only [List.length_drop] at this; rw [← h2.2]; omega
        · cases h
      · cases h
    · -- bitArr
      split at h
      · simp only [] at h
        split at h
        · simp only [Option.map_eq_some_iff] at h
          obtain ⟨⟨vs', r'⟩, h1, h2⟩ := h
          simp only [Prod.mk.injEq] at h2
          have := ih _ _ _ h1; simp only [List.length_drop] at this; rw [← h2.2]; omega
        · cases h
      · cases h
    · -- rest
      simp only [Option.map_eq_some_iff] at h
      obtain ⟨⟨vs', r'⟩, h1, h2⟩ := h
      simp only [Prod.mk.injEq] at h2
      have := ih _ _ _ h1; simp only [List.length_nil] at this; rw [← h2.2]; omega

/-- a decoded parameter consumes at least one byte; its body is cut from the data and is at least one byte shorter -/
theorem decParam_lt (S : Schema) (fuel : Nat) (p : Container) (d : Bytes) (v : Val) (d' : Bytes)
    (h : decParam S fuel p d = some (v, d')) : d'.length < d.length := by
  cases fuel with
  | zero => simp [decParam] at h
  | succ fuel =>
    unfold decParam at h
    split at h
    · split at h
      · rename_i b0 b1 l0 l1 rest
        simp only [] at h
        split at h
        · cases h
        · rename_i hlen
          simp only [Option.map_eq_some_iff] at h
          obtain ⟨_, _, heq⟩ := h
          simp only [Prod.mk.injEq] at heq
          obtain ⟨_, rfl⟩ := heq
          simp only [Bool.or_eq_true, decide_eq_true_eq, not_or, Nat.not_lt] at hlen
          simp only [List.length_drop, List.length_cons] at *
          omega
      · cases h
    · simp only [] at h
      split at h
      · rename_i hn
        simp only [Option.map_eq_some_iff] at h
        obtain ⟨_, _, heq⟩ := h
        simp only [Prod.mk.injEq] at heq
        obtain ⟨_, rfl⟩ := heq
        simp only [Bool.and_eq_true, decide_eq_true_eq] at hn
        simp only [List.length_drop]
        omega
      · cases h

theorem decSingles_length (S : Schema) : ∀ (fuel : Nat) (ss : List Slot) (d : Bytes) (vss : List (List Val)) (r : Bytes),
    decSingles S fuel ss d = some (vss, r) → r.length ≤ d.length := by
  intro fuel
  induction fuel with
  | zero => intro ss d vss r h; simp [decSingles] at h
  | succ fuel ih =>
    intro ss d vss r h
    cases ss with
    | nil => simp only [decSingles, Option.some.injEq, Prod.mk.injEq] at h; rw [h.2]; exact Nat.le_refl _
    | cons s ss =>
      unfold decSingles at h
      split at h
      · cases h
      · rename_i p hp
        simp only [] at h
        split at h
        · cases h
        · simp only [Option.map_eq_some_iff] at h
          obtain ⟨⟨vss', r'⟩, h1, h2⟩ := h
          simp only [Prod.mk.injEq] at h2
          rw [← h2.2]; exact ih _ _ _ _ h1
        · rename_i v d' hhere
          simp only [Option.map_eq_some_iff] at h
          obtain ⟨⟨vss', r'⟩, h1, h2⟩ := h
          simp only [Prod.mk.injEq] at h2
          have hr := ih _ _ _ _ h1
          have hd' : d'.length < d.length := by
            split at hhere
            · split at hhere <;> simp at hhere
            · split at hhere
              · simp only [Option.map_eq_some_iff, Option.some.injEq] at hhere
                obtain ⟨x, hx, rfl⟩ := hhere
                exact decParam_lt S fuel p d v d' hx
              · split at hhere <;> simp at hhere
            · split at hhere
              · simp only [Option.map_eq_some_iff, Option.some.injEq] at hhere
                obtain ⟨x, hx, rfl⟩ := hhere
                exact decParam_lt S fuel p d v d' hx
              · split at hhere <;> simp at hhere
          rw [← h2.2]; omega

end LLRP
