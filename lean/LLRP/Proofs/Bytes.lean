import LLRP.Model.Bytes
namespace LLRP

@[simp] theorem byte_toNat (n : Nat) : (byte n).toNat = n % 256 := by
  simp [byte, UInt8.toNat_ofNat']

theorem be16_lt (a b : UInt8) : be16 a b < 65536 := by
  have := a.toNat_lt; have := b.toNat_lt; unfold be16; omega

theorem be32_lt (a b c d : UInt8) : be32 a b c d < 4294967296 := by
  have := a.toNat_lt; have := b.toNat_lt; have := c.toNat_lt; have := d.toNat_lt; unfold be32; omega

theorem be16_put16 (n : Nat) : be16 (byte (n / 256)) (byte n) = n % 65536 := by
  simp only [be16, byte_toNat]; omega

theorem be32_put32 (n : Nat) :
    be32 (byte (n / 16777216)) (byte (n / 65536)) (byte (n / 256)) (byte n) = n % 4294967296 := by
  simp only [be32, byte_toNat]; omega

theorem byte_of_toNat (b : UInt8) : byte b.toNat = b := by
  simp [byte]

/-- shifting left by 10 and or-ing a 10-bit number is addition -/
theorem shl10_or (v t : Nat) (ht : t < 1024) : (v * 1024) ||| t = v * 1024 + t := by
  have : v * 1024 = v <<< 10 := by simp [Nat.shiftLeft_eq]
  rw [this]
  exact (Nat.shiftLeft_add_eq_or_of_lt (by simpa using ht) v).symm

end LLRP
