import LLRP.Model.Header
import LLRP.Proofs.Bytes
/-!
The header functions as go2lean translates them from messages.go / reader.go (`Gen.llrp_Header_UnmarshalBinary`,
`…_MarshalBinary`, `…_WriteTo`, `Gen.llrp_Client_writeHeader`) compute exactly what the hand-written header model
(`Header.unmarshal`, `Header.marshal`, `writeHeader`) says. With these, every C19/C05 theorem about the model is a
theorem about the translated source.
-/
namespace LLRP
open LLRP.GoInt

/-- a byte string as go2lean's functions see it -/
def ints (b : Bytes) : List Int := b.map fun x => (x.toNat : Int)

theorem wrapU_nat (bits n : Nat) (h : n < 2 ^ bits) : wrapU bits (n : Int) = n := by
  unfold wrapU
  have h2 : ((2 : Int) ^ bits) = ((2 ^ bits : Nat) : Int) := by push_cast; rfl
  rw [h2]
  exact Int.emod_eq_of_lt (by omega) (by exact_mod_cast h)

theorem goAnd_nat (bits n m : Nat) (hn : n < 2 ^ bits) (hm : m < 2 ^ bits) :
    goAnd bits false (n : Int) (m : Int) = ((n &&& m : Nat) : Int) := by
  unfold goAnd bitop wrap
  simp only [Bool.false_eq_true, if_false]
  rw [wrapU_nat bits n hn, wrapU_nat bits m hm]
  simp only [Int.toNat_natCast]
  have : n &&& m < 2 ^ bits := Nat.lt_of_le_of_lt Nat.and_le_left hn
  exact wrapU_nat bits _ this

theorem goOr_nat (bits n m : Nat) (hn : n < 2 ^ bits) (hm : m < 2 ^ bits) :
    goOr bits false (n : Int) (m : Int) = ((n ||| m : Nat) : Int) := by
  unfold goOr bitop wrap
  simp only [Bool.false_eq_true, if_false]
  rw [wrapU_nat bits n hn, wrapU_nat bits m hm]
  simp only [Int.toNat_natCast]
  exact wrapU_nat bits _ (Nat.or_lt_two_pow hn hm)

theorem goShr_nat (n k : Nat) : goShr (n : Int) (k : Int) = ((n / 2 ^ k : Nat) : Int) := by
  unfold goShr
  simp only [Int.toNat_natCast]
  push_cast
  rfl

theorem goShl_nat (bits n k : Nat) : goShl bits false (n : Int) (k : Int) = (((n * 2 ^ k) % 2 ^ bits : Nat) : Int) := by
  unfold goShl wrap wrapU
  simp only [Bool.false_eq_true, if_false, Int.toNat_natCast]
  push_cast
  rfl


def fieldsOf (h : Header) : Int × Int × Int × Int := (h.payloadLen, h.id, h.typ, h.version)

theorem ints_length (b : Bytes) : (ints b).length = b.length := by simp [ints]

/-- `Header.UnmarshalBinary` as translated from messages.go is the model's `Header.unmarshal`, on every byte string -/
theorem gen_unmarshal_eq (b : Bytes) :
    Gen.llrp_Header_UnmarshalBinary (ints b) = (Header.unmarshal b).map fieldsOf := by
  match b with
  | [] | [_] | [_,_] | [_,_,_] | [_,_,_,_] | [_,_,_,_,_] | [_,_,_,_,_,_] | [_,_,_,_,_,_,_]
  | [_,_,_,_,_,_,_,_] | [_,_,_,_,_,_,_,_,_] => simp [Gen.llrp_Header_UnmarshalBinary, ints, Header.unmarshal]
  | b0 :: b1 :: l0 :: l1 :: l2 :: l3 :: i0 :: i1 :: i2 :: i3 :: rest =>
    have hlen : ¬ ((Int.ofNat (ints (b0 :: b1 :: l0 :: l1 :: l2 :: l3 :: i0 :: i1 :: i2 :: i3 :: rest)).length) < 10) := by
      rw [ints_length]; simp only [List.length_cons, Int.ofNat_eq_natCast]; omega
    have e16 : be16At (ints (b0 :: b1 :: l0 :: l1 :: l2 :: l3 :: i0 :: i1 :: i2 :: i3 :: rest)) 0 = ((be16 b0 b1 : Nat) : Int) := by
      simp [be16At, byteAt, ints, be16]
    have e32a : be32At (ints (b0 :: b1 :: l0 :: l1 :: l2 :: l3 :: i0 :: i1 :: i2 :: i3 :: rest)) 2 = ((be32 l0 l1 l2 l3 : Nat) : Int) := by
      simp [be32At, byteAt, ints, be32]
    have e32b : be32At (ints (b0 :: b1 :: l0 :: l1 :: l2 :: l3 :: i0 :: i1 :: i2 :: i3 :: rest)) 6 = ((be32 i0 i1 i2 i3 : Nat) : Int) := by
      simp [be32At, byteAt, ints, be32]
    have e0 : byteAt (ints (b0 :: b1 :: l0 :: l1 :: l2 :: l3 :: i0 :: i1 :: i2 :: i3 :: rest)) 0 = ((b0.toNat : Nat) : Int) := by
      simp [byteAt, ints]
    have hb0 := b0.toNat_lt
    have h16 := be16_lt b0 b1
    have hl := be32_lt l0 l1 l2 l3
    have hver : goAnd 8 false (goShr ((b0.toNat : Nat) : Int) 2) 7 = (((b0.toNat / 4) % 8 : Nat) : Int) := by
      have h2 : goShr ((b0.toNat : Nat) : Int) 2 = ((b0.toNat / 2 ^ 2 : Nat) : Int) := goShr_nat b0.toNat 2
      rw [h2]
      have h7 : (7 : Int) = ((7 : Nat) : Int) := rfl
      rw [h7, goAnd_nat 8 _ 7 (by omega) (by omega)]
      have : (7 : Nat) = 2 ^ 3 - 1 := rfl
      rw [this, Nat.and_two_pow_sub_one_eq_mod]
    have htyp : goAnd 16 false ((be16 b0 b1 : Nat) : Int) 1023 = ((be16 b0 b1 % 1024 : Nat) : Int) := by
      have h1023 : (1023 : Int) = ((1023 : Nat) : Int) := rfl
      rw [h1023, goAnd_nat 16 _ 1023 (by omega) (by omega)]
      have : (1023 : Nat) = 2 ^ 10 - 1 := rfl
      rw [this, Nat.and_two_pow_sub_one_eq_mod]
    simp only [Gen.llrp_Header_UnmarshalBinary, hlen, decide_false, Bool.false_eq_true, if_false, e16, e32a, e32b, e0, hver, htyp,
      Header.unmarshal, Gen.HeaderSz]
    by_cases hsmall : be32 l0 l1 l2 l3 < 10
    · have : ((be32 l0 l1 l2 l3 : Nat) : Int) < 10 := by exact_mod_cast hsmall
      simp [hsmall, this]
    · have : ¬ ((be32 l0 l1 l2 l3 : Nat) : Int) < 10 := by omega
      simp only [hsmall, this, decide_false, Bool.false_eq_true, if_false, Option.map_some, fieldsOf]
      congr 2
      rw [show ((be32 l0 l1 l2 l3 : Nat) : Int) - 10 = ((be32 l0 l1 l2 l3 - 10 : Nat) : Int) by omega]
      exact wrapU_nat 32 _ (by omega)


theorem wrapU_nat_mod (bits n : Nat) : wrapU bits (n : Int) = ((n % 2 ^ bits : Nat) : Int) := by
  unfold wrapU
  push_cast
  rfl

/-- the translated `PutUint…` sequence on a fresh 10-byte buffer, spelled out -/
theorem put_seq (w l i : Int) :
    putBE16 (putBE32 (putBE32 (List.replicate 10 0) 6 i) 2 l) 0 w =
      [w / 256 % 256, w % 256, l / 16777216 % 256, l / 65536 % 256, l / 256 % 256, l % 256,
       i / 16777216 % 256, i / 65536 % 256, i / 256 % 256, i % 256] := rfl

theorem ints_put (W L I : Nat) :
    ints (put16 W ++ put32 L ++ put32 I) =
      [((W / 256 % 256 : Nat) : Int), ((W % 256 : Nat) : Int), ((L / 16777216 % 256 : Nat) : Int), ((L / 65536 % 256 : Nat) : Int),
       ((L / 256 % 256 : Nat) : Int), ((L % 256 : Nat) : Int), ((I / 16777216 % 256 : Nat) : Int), ((I / 65536 % 256 : Nat) : Int),
       ((I / 256 % 256 : Nat) : Int), ((I % 256 : Nat) : Int)] := by
  simp only [ints, put16, put32, List.cons_append, List.nil_append, List.map, byte_toNat]

/-- the ten header bytes the translated `PutUint…` sequence produces are the model's `Header.put` -/
theorem gen_put_eq (h : Header) (hr : h.InRange) :
    putBE16 (putBE32 (putBE32 (List.replicate 10 0) 6 (h.id : Int)) 2 (wrapU 32 ((h.payloadLen : Int) + 10))) 0
        (goOr 16 false (goShl 16 false (h.version : Int) 10) (h.typ : Int)) = ints h.put := by
  obtain ⟨hv, ht, hp, hi⟩ := hr
  have hw : goOr 16 false (goShl 16 false (h.version : Int) 10) (h.typ : Int) =
      ((((h.version * 1024) % 65536) ||| h.typ : Nat) : Int) := by
    have h10 : (10 : Int) = ((10 : Nat) : Int) := rfl
    rw [h10, goShl_nat 16 h.version 10]
    exact goOr_nat 16 _ h.typ (Nat.mod_lt _ (by decide)) (by omega)
  have hl : wrapU 32 ((h.payloadLen : Int) + 10) = (((h.payloadLen + Gen.HeaderSz) % 4294967296 : Nat) : Int) := by
    have : ((h.payloadLen : Int) + 10) = ((h.payloadLen + 10 : Nat) : Int) := by push_cast; rfl
    rw [this, wrapU_nat_mod]
    rfl
  rw [hw, hl, put_seq]
  unfold Header.put
  rw [ints_put]
  generalize ((h.version * 1024) % 65536) ||| h.typ = W
  generalize (h.payloadLen + Gen.HeaderSz) % 4294967296 = L
  simp only [List.cons.injEq, and_true]
  refine ⟨?_, ?_, ?_, ?_, ?_, ?_, ?_, ?_, ?_, ?_⟩ <;> omega

def intsOpt (o : Option Bytes) : Option (List Int) := o.map ints

/-- `Header.MarshalBinary` as translated from messages.go is the model's `Header.marshal` -/
theorem gen_marshal_eq (h : Header) (hr : h.InRange) :
    Gen.llrp_Header_MarshalBinary h.payloadLen h.id h.typ h.version = intsOpt h.marshal := by
  unfold Gen.llrp_Header_MarshalBinary Header.marshal intsOpt
  by_cases hv : Gen.llrp_validateHeader h.payloadLen h.typ = true
  · simp only [hv, Bool.not_true, Bool.false_eq_true, if_false, if_true, Option.map_some]
    rw [gen_put_eq h hr]
  · simp only [Bool.not_eq_true] at hv
    simp [hv]

/-- `Header.WriteTo` writes the same bytes -/
theorem gen_writeTo_eq (h : Header) (hr : h.InRange) :
    Gen.llrp_Header_WriteTo h.payloadLen h.id h.typ h.version = intsOpt h.marshal := by
  have : Gen.llrp_Header_WriteTo h.payloadLen h.id h.typ h.version =
      Gen.llrp_Header_MarshalBinary h.payloadLen h.id h.typ h.version := rfl
  rw [this, gen_marshal_eq h hr]

/-- `Client.writeHeader` as translated from reader.go writes the model's `writeHeader` bytes (no validation) -/
theorem gen_writeHeader_eq (h : Header) (hr : h.InRange) :
    Gen.llrp_Client_writeHeader h.payloadLen h.id h.typ h.version = some (ints (writeHeader h)) := by
  unfold Gen.llrp_Client_writeHeader writeHeader
  simp only []
  rw [gen_put_eq h hr]

end LLRP
