import LLRP.Model.ClientLTS
import LLRP.Model.ClientMon
/-! Invariants of the client LTS (`LLRP.LTS`): `Corr` (correlation: C03) and `Life` (lifecycle: C08, C09), each proved
by `Inv init` and `Inv s → enabled s a → Inv (eff s a)`, hence for every reachable state. -/
namespace LLRP.LTS

/-! ## list helpers -/

theorem lookup_mem {l : List (Nat × Nat)} {k v : Nat} (h : lookup k l = some v) : (k, v) ∈ l := by
  induction l with
  | nil => simp [lookup] at h
  | cons e l ih =>
    obtain ⟨a, b⟩ := e
    simp only [lookup] at h
    split at h
    · rename_i heq; simp at h; subst heq; subst h; exact List.mem_cons_self
    · exact List.mem_cons_of_mem _ (ih h)

theorem lookup_none {l : List (Nat × Nat)} {k : Nat} (h : lookup k l = none) (v : Nat) : (k, v) ∉ l := by
  induction l with
  | nil => simp
  | cons e l ih =>
    obtain ⟨a, b⟩ := e
    simp only [lookup] at h
    split at h
    · simp at h
    · rename_i hne
      simp only [List.mem_cons, Prod.mk.injEq, not_or, not_and]
      exact ⟨fun e => absurd e.symm hne, ih h⟩

theorem mem_erase {l : List (Nat × Nat)} {k id v : Nat} : (k, v) ∈ erase id l ↔ (k, v) ∈ l ∧ k ≠ id := by
  simp [erase]

theorem getLast_idx {α} {l : List α} {a : α} (h : l.getLast? = some a) : l[l.length - 1]? = some a := by
  rw [← List.getLast?_eq_getElem?]; exact h

/-! ## correlation invariant -/

def started : Pc → Bool
  | .waitToken _ | .waitReply _ | .done _ => true
  | _ => false

def waitsFor (p : Pc) (id : Nat) : Prop := p = .waitToken id ∨ p = .waitReply id

def rdBusy : Rd → Bool
  | .hdr _ | .deliver _ _ => true
  | _ => false

structure Corr (s : St) : Prop where
  widLt : ∀ c id, (s.callers c).wid = some id → id < s.nextId
  widInj : ∀ c c' id, (s.callers c).wid = some id → (s.callers c').wid = some id → c = c'
  fresh : ∀ c, started (s.callers c).pc = false →
    (s.callers c).chan = none ∧ (s.callers c).chanClosed = false ∧ (s.callers c).wid = none
  waitWid : ∀ c id, waitsFor (s.callers c).pc id → (s.callers c).wid = some id
  owner : ∀ id c, (id, c) ∈ s.awaiting →
    waitsFor (s.callers c).pc id ∧ (s.callers c).chan = none ∧ (s.callers c).chanClosed = false
  rdDel : ∀ f c, s.rd = .deliver f c →
    (s.callers c).chan = none ∧ (s.callers c).chanClosed = false ∧ (s.callers c).wid = some f.id ∧
    unsolicited f.typ = false ∧ (∀ id, (id, c) ∉ s.awaiting) ∧ s.received.getLast? = some f
  rdHdr : ∀ f, s.rd = .hdr f → s.received.getLast? = some f
  chanOk : ∀ c f i, (s.callers c).chan = some (f, i) →
    (s.callers c).chanClosed = true ∧ (s.callers c).wid = some f.id ∧ unsolicited f.typ = false ∧
    s.received[i]? = some f ∧ (c, i) ∈ s.delivered
  gotOk : ∀ c f i, (s.callers c).pc = .done (.reply f i) →
    (s.callers c).wid = some f.id ∧ unsolicited f.typ = false ∧ s.received[i]? = some f ∧ (c, i) ∈ s.delivered
  closedDone : ∀ c, (s.callers c).chanClosed = true → (s.callers c).chan = none → ∃ r, (s.callers c).pc = .done r
  noZero : ∀ c, (s.callers c).pc ≠ .done .zero
  delIdx : ∀ c i, (c, i) ∈ s.delivered → i < s.received.length ∧ (rdBusy s.rd = true → i + 1 < s.received.length)
  delNodup : (s.delivered.map (·.2)).Nodup
  delOk : ∀ c i, (c, i) ∈ s.delivered →
    ∃ f, s.received[i]? = some f ∧ (s.callers c).wid = some f.id ∧ unsolicited f.typ = false
  noPanic : s.panicked = false

theorem corr_init : Corr init := by
  constructor <;> simp [init, started, waitsFor, rdBusy]

/-- actions that leave every field the invariant mentions untouched -/
theorem corr_frame {s s' : St} (h : Corr s) (h1 : s'.callers = s.callers) (h2 : s'.nextId = s.nextId)
    (h3 : s'.awaiting = s.awaiting) (h4 : s'.rd = s.rd) (h5 : s'.received = s.received)
    (h6 : s'.delivered = s.delivered) (h7 : s'.panicked = s.panicked) : Corr s' := by
  obtain ⟨a1, a2, a3, a4, a5, a6, a7, a8, a9, a10, a11, a12, a13, a14, a15⟩ := h
  constructor <;> simp only [h1, h2, h3, h4, h5, h6, h7] <;> assumption

/-- … and those that only move the read loop to a state that holds no frame -/
theorem corr_rd {s s' : St} (h : Corr s) (h1 : s'.callers = s.callers) (h2 : s'.nextId = s.nextId)
    (h3 : s'.awaiting = s.awaiting) (h4 : rdBusy s'.rd = false) (h5 : s'.received = s.received)
    (h6 : s'.delivered = s.delivered) (h7 : s'.panicked = s.panicked) : Corr s' := by
  obtain ⟨a1, a2, a3, a4, a5, a6, a7, a8, a9, a10, a11, a12, a13, a14, a15⟩ := h
  constructor <;> simp only [h1, h2, h3, h5, h6, h7] <;> try assumption
  · intro f c hr; rw [hr] at h4; simp [rdBusy] at h4
  · intro f hr; rw [hr] at h4; simp [rdBusy] at h4
  · intro c i hm; exact ⟨(a12 c i hm).1, fun hb => by rw [h4] at hb; simp at hb⟩

set_option linter.unusedVariables false

theorem t_issue {s : St} (c typ pay : Nat) (nw : Bool) (h : Corr s) (he : enabled s (.callIssue c typ pay nw) = true) :
    Corr (eff s (.callIssue c typ pay nw)) := by
  obtain ⟨a1, a2, a3, a4, a5, a6, a7, a8, a9, a10, a11, a12, a13, a14, a15⟩ := h
  simp [enabled] at he
  have hf := a3 c (by simp [he, started])
  constructor <;> simp only [eff, setC] <;> grind [started, waitsFor]

theorem t_cancel {s : St} (c : Nat) (h : Corr s) : Corr (eff s (.cancel c)) := by
  obtain ⟨a1, a2, a3, a4, a5, a6, a7, a8, a9, a10, a11, a12, a13, a14, a15⟩ := h
  constructor <;> simp only [eff, setC] <;> grind [started, waitsFor]

theorem t_ready {s : St} (c : Nat) (h : Corr s) (he : enabled s (.callReady c) = true) : Corr (eff s (.callReady c)) := by
  obtain ⟨a1, a2, a3, a4, a5, a6, a7, a8, a9, a10, a11, a12, a13, a14, a15⟩ := h
  simp [enabled] at he
  have hf := a3 c (by simp [he, started])
  constructor <;> simp only [eff, setC] <;> grind [started, waitsFor]

theorem t_negsend {s : St} (c typ pay : Nat) (h : Corr s) (he : enabled s (.connNegSend c typ pay) = true) :
    Corr (eff s (.connNegSend c typ pay)) := by
  obtain ⟨a1, a2, a3, a4, a5, a6, a7, a8, a9, a10, a11, a12, a13, a14, a15⟩ := h
  simp [enabled] at he
  have hf := a3 c (by simp [he, started])
  constructor <;> simp only [eff, setC] <;> grind [started, waitsFor]

theorem t_token {s : St} (c : Nat) (h : Corr s) (he : enabled s (.callToken c) = true) : Corr (eff s (.callToken c)) := by
  obtain ⟨a1, a2, a3, a4, a5, a6, a7, a8, a9, a10, a11, a12, a13, a14, a15⟩ := h
  simp only [eff]
  split
  · rename_i id hp
    have hw := a4 c id (Or.inl hp)
    constructor <;> simp only [setC] <;> grind [started, waitsFor]
  · exact ⟨a1, a2, a3, a4, a5, a6, a7, a8, a9, a10, a11, a12, a13, a14, a15⟩

theorem t_getreply {s : St} (c : Nat) (h : Corr s) (he : enabled s (.callGetReply c) = true) : Corr (eff s (.callGetReply c)) := by
  obtain ⟨a1, a2, a3, a4, a5, a6, a7, a8, a9, a10, a11, a12, a13, a14, a15⟩ := h
  simp only [enabled] at he
  split at he
  · rename_i id hp
    have hw := a4 c id (Or.inr hp)
    simp only [eff]
    split
    · rename_i f i hc
      have hk := a8 c f i hc
      constructor <;> simp only [setC] <;> grind [started, waitsFor]
    · rename_i hc
      simp [hc] at he
      have := a10 c he hc
      grind
  · simp at he

theorem t_pick {s : St} (c : Nat) (h : Corr s) (he : enabled s (.wrPickReq c) = true) : Corr (eff s (.wrPickReq c)) := by
  obtain ⟨a1, a2, a3, a4, a5, a6, a7, a8, a9, a10, a11, a12, a13, a14, a15⟩ := h
  simp [enabled] at he
  have hf := a3 c (by simp [he, started])
  simp only [eff]
  split
  · constructor <;> simp only [setC] <;> grind [started, waitsFor]
  · constructor <;> simp only [setC] <;> grind [started, waitsFor]

theorem t_leave {s : St} (c : Nat) (r : Res) (h : Corr s) (hc : canLeave (s.callers c).pc = true)
    (hr : r = .closed ∨ r = .ctx) : Corr (leave s c r) := by
  obtain ⟨a1, a2, a3, a4, a5, a6, a7, a8, a9, a10, a11, a12, a13, a14, a15⟩ := h
  unfold leave
  split
  · rename_i id hp
    have hw := a4 c id (Or.inr hp)
    split
    · rename_i c' hl
      have hm := lookup_mem hl
      have ho := a5 id c' hm
      have hw' := a4 c' id ho.1
      have hcc : c' = c := a2 c' c id hw' hw
      subst hcc
      simp only [ho.2.2]
      have hnm : ∀ id' c'', (id', c'') ∈ erase id s.awaiting ↔ (id', c'') ∈ s.awaiting ∧ id' ≠ id := fun _ _ => mem_erase
      constructor <;> simp only [setC] <;> grind [started, waitsFor]
    · rename_i hl
      have hn := lookup_none hl
      constructor <;> simp only [setC] <;> grind [started, waitsFor]
  · rename_i hp
    have : started (s.callers c).pc = false := by
      revert hc hp; cases (s.callers c).pc <;> simp [canLeave, started]
    have hf := a3 c this
    constructor <;> simp only [setC] <;> grind [started, waitsFor]

theorem getElem?_append_old {α} (l : List α) (x : α) (i : Nat) (a : α) (h : l[i]? = some a) : (l ++ [x])[i]? = some a := by
  have hi : i < l.length := by
    rcases Nat.lt_or_ge i l.length with h' | h'
    · exact h'
    · rw [List.getElem?_eq_none h'] at h; simp at h
  rw [List.getElem?_append_left hi]; exact h

theorem t_rdHeader {s : St} (h : Corr s) (he : enabled s .rdHeader = true) : Corr (eff s .rdHeader) := by
  obtain ⟨a1, a2, a3, a4, a5, a6, a7, a8, a9, a10, a11, a12, a13, a14, a15⟩ := h
  simp [enabled] at he
  simp only [eff]
  split
  · rename_i f rest hi
    have hold := fun i a => getElem?_append_old s.received f i a
    constructor <;> simp only [] <;> grind [rdBusy]
  · exact ⟨a1, a2, a3, a4, a5, a6, a7, a8, a9, a10, a11, a12, a13, a14, a15⟩

theorem t_rdDispatch {s : St} (h : Corr s) (he : enabled s .rdDispatch = true) : Corr (eff s .rdDispatch) := by
  obtain ⟨a1, a2, a3, a4, a5, a6, a7, a8, a9, a10, a11, a12, a13, a14, a15⟩ := h
  simp only [eff]
  split
  · rename_i f hr
    have hl := a7 f hr
    split
    · constructor <;> simp only [] <;> grind [rdBusy]
    · rename_i hu
      split
      · rename_i c hlk
        have hm := lookup_mem hlk
        have ho := a5 f.id c hm
        have hw := a4 c f.id ho.1
        have hnm : ∀ id' c'', (id', c'') ∈ erase f.id s.awaiting ↔ (id', c'') ∈ s.awaiting ∧ id' ≠ f.id := fun _ _ => mem_erase
        constructor <;> simp only [] <;> grind [rdBusy, waitsFor]
      · constructor <;> simp only [] <;> grind [rdBusy]
  · exact ⟨a1, a2, a3, a4, a5, a6, a7, a8, a9, a10, a11, a12, a13, a14, a15⟩

theorem t_rdDeliver {s : St} (h : Corr s) (he : enabled s .rdDeliver = true) : Corr (eff s .rdDeliver) := by
  obtain ⟨a1, a2, a3, a4, a5, a6, a7, a8, a9, a10, a11, a12, a13, a14, a15⟩ := h
  simp only [eff]
  split
  · rename_i f c hr
    have hd := a6 f c hr
    have hidx := getLast_idx hd.2.2.2.2.2
    simp only [hd.2.1]
    have hb : rdBusy s.rd = true := by simp [hr, rdBusy]
    have hfresh : ∀ c' i, (c', i) ∈ s.delivered → i ≠ s.received.length - 1 := by
      intro c' i hm; have := (a12 c' i hm).2 hb; omega
    constructor <;> simp only [setC] <;> try grind [rdBusy, waitsFor, started]
  · exact ⟨a1, a2, a3, a4, a5, a6, a7, a8, a9, a10, a11, a12, a13, a14, a15⟩

macro "frame_case" h:ident : tactic =>
  `(tactic| ((simp only [eff]; repeat' split) <;>
      first
      | exact $h
      | exact corr_frame $h rfl rfl rfl rfl rfl rfl rfl
      | exact corr_rd $h rfl rfl rfl rfl rfl rfl rfl))

theorem corr_step {s : St} {a : Act} (h : Corr s) (he : enabled s a = true) : Corr (eff s a) := by
  cases a with
  | peerSend f => frame_case h
  | peerClose => frame_case h
  | close => frame_case h
  | rdSeeDone => frame_case h
  | rdEof => frame_case h
  | rdFail => frame_case h
  | rdHandle => frame_case h
  | rdWaitDone => frame_case h
  | wrSeeDone => frame_case h
  | wrPickAck => frame_case h
  | wrWrite => frame_case h
  | wrFail => frame_case h
  | wrParkedDone => frame_case h
  | connStart => frame_case h
  | connInitial p n => frame_case h
  | connInitialFail e => frame_case h
  | connRejectReady => frame_case h
  | connNegDone n => frame_case h
  | connNegErrs => frame_case h
  | connNegClosed => frame_case h
  | connReady => frame_case h
  | connServeErr => frame_case h
  | connServeDone => frame_case h
  | connReturn => frame_case h
  | connFailReturn => frame_case h
  | callIssue c typ pay nw => exact t_issue c typ pay nw h he
  | cancel c => exact t_cancel c h
  | callReady c => exact t_ready c h he
  | callSeeDone c =>
    simp only [enabled, Bool.and_eq_true] at he
    exact t_leave c .closed h he.2 (Or.inl rfl)
  | callSeeCtx c =>
    simp only [enabled, Bool.and_eq_true] at he
    exact t_leave c .ctx h he.2 (Or.inr rfl)
  | callToken c => exact t_token c h he
  | callGetReply c => exact t_getreply c h he
  | rdHeader => exact t_rdHeader h he
  | rdDispatch => exact t_rdDispatch h he
  | rdDeliver => exact t_rdDeliver h he
  | wrPickReq c => exact t_pick c h he
  | connNegSend c typ pay => exact t_negsend c typ pay h he

theorem corr_of_step {s : St} (a : Act) (h : Corr s) : Corr (step s a) := by
  unfold step; split
  · rename_i he; exact corr_step h he
  · exact h

theorem corr_reachable {s : St} (h : Reachable s) : Corr s := by
  induction h with
  | init => exact corr_init
  | step a _ ih => exact corr_of_step a ih

/-! ## lifecycle invariant -/

def gatedOut : Pc → Bool
  | .idle | .waitReady | .done .closed | .done .ctx => true
  | _ => false
def unserved : Pc → Bool
  | .idle | .waitReady | .queued | .done .closed | .done .ctx => true
  | _ => false
def exitedCount (s : St) : Nat := (if s.rd.isExited then 1 else 0) + (if s.wr.isExited then 1 else 0)
def connSetup : Conn → Bool
  | .off | .initial | .rejected => true
  | _ => false
def connLive : Conn → Bool
  | .negIdle _ | .negotiating _ _ | .readying | .serving => true
  | _ => false
def extOrigin : Origin → Bool
  | .caller _ false => true
  | _ => false

structure Life (s : St) : Prop where
  notAcc : s.accepted = false → s.rd = .off ∧ s.wr = .off ∧ s.errs = [] ∧ s.negotiated = false
  wrOff : s.wr = .off → s.written = []
  setup : connSetup s.conn = true → s.accepted = false
  early : (s.conn = .off ∨ s.conn = .initial) → s.first = none ∧ s.ready = false
  gate : ∀ c, (s.callers c).internal = false → s.ready = false → gatedOut (s.callers c).pc = true
  readyNeg : s.ready = true → s.accepted = true → s.negotiated = true
  unservedExt : s.negotiated = false → ∀ c, (s.callers c).internal = false → unserved (s.callers c).pc = true
  gatedW : ∀ w ∈ s.written, extOrigin w.origin = true → w.negotiated = true
  gatedWr : ∀ f o, s.wr = .writing f o → extOrigin o = true → s.negotiated = true
  errsCount : connLive s.conn = true → s.errs.length = exitedCount s
  closeLast : ∀ w ∈ s.written.dropLast, w.f.typ ≠ tCloseConnection
  closePark : (∃ w ∈ s.written, w.f.typ = tCloseConnection) → s.wr = .parked ∨ s.wr.isExited = true
  waitDone : ∀ e, s.conn = .waitLoops e → s.done = true
  retDone : ∀ e, s.conn = .returned e → s.done = true
  wOrigin : ∀ w ∈ s.written, ∀ c i, w.origin = .caller c i → started (s.callers c).pc = true
  wrOrigin : ∀ f c i, s.wr = .writing f (.caller c i) → started (s.callers c).pc = true
  accLive : connLive s.conn = true → s.accepted = true

theorem life_init : Life init := by
  constructor <;> simp [init, connSetup, connLive, gatedOut, unserved, exitedCount, Rd.isExited, Wr.isExited]

macro "life_case" : tactic =>
  `(tactic| ((simp only [eff, leave]; repeat' split) <;> constructor <;> (try simp only [setC]) <;>
      grind [enabled, canLeave, gatedOut, unserved, exitedCount, connSetup, connLive, extOrigin,
      started, Rd.isExited, Wr.isExited, initialOk]))

theorem life_peerSend {s : St} (f : _) (h : Life s) (he : enabled s (.peerSend f) = true) : Life (eff s (.peerSend f)) := by
  obtain ⟨a1, a2, a3, a4, a5, a6, a7, a8, a9, a10, a11, a12, a13, a14, a15, a16, a17⟩ := h
  life_case

theorem life_peerClose {s : St}  (h : Life s) (he : enabled s .peerClose = true) : Life (eff s .peerClose) := by
  obtain ⟨a1, a2, a3, a4, a5, a6, a7, a8, a9, a10, a11, a12, a13, a14, a15, a16, a17⟩ := h
  life_case

theorem life_callIssue {s : St} (c : _) (t : _) (p : _) (n : _) (h : Life s) (he : enabled s (.callIssue c t p n) = true) : Life (eff s (.callIssue c t p n)) := by
  obtain ⟨a1, a2, a3, a4, a5, a6, a7, a8, a9, a10, a11, a12, a13, a14, a15, a16, a17⟩ := h
  life_case

theorem life_cancel {s : St} (c : _) (h : Life s) (he : enabled s (.cancel c) = true) : Life (eff s (.cancel c)) := by
  obtain ⟨a1, a2, a3, a4, a5, a6, a7, a8, a9, a10, a11, a12, a13, a14, a15, a16, a17⟩ := h
  life_case

theorem life_close {s : St}  (h : Life s) (he : enabled s .close = true) : Life (eff s .close) := by
  obtain ⟨a1, a2, a3, a4, a5, a6, a7, a8, a9, a10, a11, a12, a13, a14, a15, a16, a17⟩ := h
  life_case

theorem life_callReady {s : St} (c : _) (h : Life s) (he : enabled s (.callReady c) = true) : Life (eff s (.callReady c)) := by
  obtain ⟨a1, a2, a3, a4, a5, a6, a7, a8, a9, a10, a11, a12, a13, a14, a15, a16, a17⟩ := h
  life_case

theorem life_callSeeDone {s : St} (c : _) (h : Life s) (he : enabled s (.callSeeDone c) = true) : Life (eff s (.callSeeDone c)) := by
  obtain ⟨a1, a2, a3, a4, a5, a6, a7, a8, a9, a10, a11, a12, a13, a14, a15, a16, a17⟩ := h
  life_case

theorem life_callSeeCtx {s : St} (c : _) (h : Life s) (he : enabled s (.callSeeCtx c) = true) : Life (eff s (.callSeeCtx c)) := by
  obtain ⟨a1, a2, a3, a4, a5, a6, a7, a8, a9, a10, a11, a12, a13, a14, a15, a16, a17⟩ := h
  life_case

theorem life_callToken {s : St} (c : _) (h : Life s) (he : enabled s (.callToken c) = true) : Life (eff s (.callToken c)) := by
  obtain ⟨a1, a2, a3, a4, a5, a6, a7, a8, a9, a10, a11, a12, a13, a14, a15, a16, a17⟩ := h
  life_case

theorem life_callGetReply {s : St} (c : _) (h : Life s) (he : enabled s (.callGetReply c) = true) : Life (eff s (.callGetReply c)) := by
  obtain ⟨a1, a2, a3, a4, a5, a6, a7, a8, a9, a10, a11, a12, a13, a14, a15, a16, a17⟩ := h
  life_case

theorem life_rdSeeDone {s : St}  (h : Life s) (he : enabled s .rdSeeDone = true) : Life (eff s .rdSeeDone) := by
  obtain ⟨a1, a2, a3, a4, a5, a6, a7, a8, a9, a10, a11, a12, a13, a14, a15, a16, a17⟩ := h
  life_case

theorem life_rdHeader {s : St}  (h : Life s) (he : enabled s .rdHeader = true) : Life (eff s .rdHeader) := by
  obtain ⟨a1, a2, a3, a4, a5, a6, a7, a8, a9, a10, a11, a12, a13, a14, a15, a16, a17⟩ := h
  life_case

theorem life_rdEof {s : St}  (h : Life s) (he : enabled s .rdEof = true) : Life (eff s .rdEof) := by
  obtain ⟨a1, a2, a3, a4, a5, a6, a7, a8, a9, a10, a11, a12, a13, a14, a15, a16, a17⟩ := h
  life_case

theorem life_rdFail {s : St}  (h : Life s) (he : enabled s .rdFail = true) : Life (eff s .rdFail) := by
  obtain ⟨a1, a2, a3, a4, a5, a6, a7, a8, a9, a10, a11, a12, a13, a14, a15, a16, a17⟩ := h
  life_case

theorem life_rdDispatch {s : St}  (h : Life s) (he : enabled s .rdDispatch = true) : Life (eff s .rdDispatch) := by
  obtain ⟨a1, a2, a3, a4, a5, a6, a7, a8, a9, a10, a11, a12, a13, a14, a15, a16, a17⟩ := h
  life_case

theorem life_rdDeliver {s : St}  (h : Life s) (he : enabled s .rdDeliver = true) : Life (eff s .rdDeliver) := by
  obtain ⟨a1, a2, a3, a4, a5, a6, a7, a8, a9, a10, a11, a12, a13, a14, a15, a16, a17⟩ := h
  life_case

theorem life_rdHandle {s : St}  (h : Life s) (he : enabled s .rdHandle = true) : Life (eff s .rdHandle) := by
  obtain ⟨a1, a2, a3, a4, a5, a6, a7, a8, a9, a10, a11, a12, a13, a14, a15, a16, a17⟩ := h
  life_case

theorem life_rdWaitDone {s : St}  (h : Life s) (he : enabled s .rdWaitDone = true) : Life (eff s .rdWaitDone) := by
  obtain ⟨a1, a2, a3, a4, a5, a6, a7, a8, a9, a10, a11, a12, a13, a14, a15, a16, a17⟩ := h
  life_case

theorem life_wrSeeDone {s : St}  (h : Life s) (he : enabled s .wrSeeDone = true) : Life (eff s .wrSeeDone) := by
  obtain ⟨a1, a2, a3, a4, a5, a6, a7, a8, a9, a10, a11, a12, a13, a14, a15, a16, a17⟩ := h
  life_case

theorem life_wrPickAck {s : St}  (h : Life s) (he : enabled s .wrPickAck = true) : Life (eff s .wrPickAck) := by
  obtain ⟨a1, a2, a3, a4, a5, a6, a7, a8, a9, a10, a11, a12, a13, a14, a15, a16, a17⟩ := h
  life_case

theorem life_wrPickReq {s : St} (c : _) (h : Life s) (he : enabled s (.wrPickReq c) = true) : Life (eff s (.wrPickReq c)) := by
  obtain ⟨a1, a2, a3, a4, a5, a6, a7, a8, a9, a10, a11, a12, a13, a14, a15, a16, a17⟩ := h
  simp [enabled] at he
  have hacc : s.accepted = true := by
    cases hq : s.accepted
    · have := (a1 hq).2.1; rw [this] at he; simp at he
    · rfl
  have hneg : (s.callers c).internal = false → s.negotiated = true := by
    intro hi
    cases hr : s.ready
    · have := a5 c hi hr; rw [he.2] at this; simp [gatedOut] at this
    · exact a6 hr hacc
  life_case

theorem life_wrWrite {s : St}  (h : Life s) (he : enabled s .wrWrite = true) : Life (eff s .wrWrite) := by
  obtain ⟨a1, a2, a3, a4, a5, a6, a7, a8, a9, a10, a11, a12, a13, a14, a15, a16, a17⟩ := h
  life_case

theorem life_wrFail {s : St}  (h : Life s) (he : enabled s .wrFail = true) : Life (eff s .wrFail) := by
  obtain ⟨a1, a2, a3, a4, a5, a6, a7, a8, a9, a10, a11, a12, a13, a14, a15, a16, a17⟩ := h
  life_case

theorem life_wrParkedDone {s : St}  (h : Life s) (he : enabled s .wrParkedDone = true) : Life (eff s .wrParkedDone) := by
  obtain ⟨a1, a2, a3, a4, a5, a6, a7, a8, a9, a10, a11, a12, a13, a14, a15, a16, a17⟩ := h
  life_case

theorem life_connStart {s : St}  (h : Life s) (he : enabled s .connStart = true) : Life (eff s .connStart) := by
  obtain ⟨a1, a2, a3, a4, a5, a6, a7, a8, a9, a10, a11, a12, a13, a14, a15, a16, a17⟩ := h
  life_case

theorem life_connInitial {s : St} (p : _) (n : _) (h : Life s) (he : enabled s (.connInitial p n) = true) : Life (eff s (.connInitial p n)) := by
  obtain ⟨a1, a2, a3, a4, a5, a6, a7, a8, a9, a10, a11, a12, a13, a14, a15, a16, a17⟩ := h
  life_case

theorem life_connInitialFail {s : St} (e : _) (h : Life s) (he : enabled s (.connInitialFail e) = true) : Life (eff s (.connInitialFail e)) := by
  obtain ⟨a1, a2, a3, a4, a5, a6, a7, a8, a9, a10, a11, a12, a13, a14, a15, a16, a17⟩ := h
  life_case

theorem life_connRejectReady {s : St}  (h : Life s) (he : enabled s .connRejectReady = true) : Life (eff s .connRejectReady) := by
  obtain ⟨a1, a2, a3, a4, a5, a6, a7, a8, a9, a10, a11, a12, a13, a14, a15, a16, a17⟩ := h
  life_case

theorem life_connNegSend {s : St} (c : _) (t : _) (p : _) (h : Life s) (he : enabled s (.connNegSend c t p) = true) : Life (eff s (.connNegSend c t p)) := by
  obtain ⟨a1, a2, a3, a4, a5, a6, a7, a8, a9, a10, a11, a12, a13, a14, a15, a16, a17⟩ := h
  life_case

theorem life_connNegDone {s : St} (n : _) (h : Life s) (he : enabled s (.connNegDone n) = true) : Life (eff s (.connNegDone n)) := by
  obtain ⟨a1, a2, a3, a4, a5, a6, a7, a8, a9, a10, a11, a12, a13, a14, a15, a16, a17⟩ := h
  life_case

theorem life_connNegErrs {s : St}  (h : Life s) (he : enabled s .connNegErrs = true) : Life (eff s .connNegErrs) := by
  obtain ⟨a1, a2, a3, a4, a5, a6, a7, a8, a9, a10, a11, a12, a13, a14, a15, a16, a17⟩ := h
  life_case

theorem life_connNegClosed {s : St}  (h : Life s) (he : enabled s .connNegClosed = true) : Life (eff s .connNegClosed) := by
  obtain ⟨a1, a2, a3, a4, a5, a6, a7, a8, a9, a10, a11, a12, a13, a14, a15, a16, a17⟩ := h
  life_case

theorem life_connReady {s : St}  (h : Life s) (he : enabled s .connReady = true) : Life (eff s .connReady) := by
  obtain ⟨a1, a2, a3, a4, a5, a6, a7, a8, a9, a10, a11, a12, a13, a14, a15, a16, a17⟩ := h
  simp [enabled] at he
  life_case

theorem life_connServeErr {s : St}  (h : Life s) (he : enabled s .connServeErr = true) : Life (eff s .connServeErr) := by
  obtain ⟨a1, a2, a3, a4, a5, a6, a7, a8, a9, a10, a11, a12, a13, a14, a15, a16, a17⟩ := h
  life_case

theorem life_connServeDone {s : St}  (h : Life s) (he : enabled s .connServeDone = true) : Life (eff s .connServeDone) := by
  obtain ⟨a1, a2, a3, a4, a5, a6, a7, a8, a9, a10, a11, a12, a13, a14, a15, a16, a17⟩ := h
  life_case

theorem life_connReturn {s : St}  (h : Life s) (he : enabled s .connReturn = true) : Life (eff s .connReturn) := by
  obtain ⟨a1, a2, a3, a4, a5, a6, a7, a8, a9, a10, a11, a12, a13, a14, a15, a16, a17⟩ := h
  life_case

theorem life_connFailReturn {s : St}  (h : Life s) (he : enabled s .connFailReturn = true) : Life (eff s .connFailReturn) := by
  obtain ⟨a1, a2, a3, a4, a5, a6, a7, a8, a9, a10, a11, a12, a13, a14, a15, a16, a17⟩ := h
  life_case

theorem life_step {s : St} {a : Act} (h : Life s) (he : enabled s a = true) : Life (eff s a) := by
  cases a with
  | peerSend f => exact life_peerSend f h he
  | peerClose  => exact life_peerClose  h he
  | callIssue c t p n => exact life_callIssue c t p n h he
  | cancel c => exact life_cancel c h he
  | close  => exact life_close  h he
  | callReady c => exact life_callReady c h he
  | callSeeDone c => exact life_callSeeDone c h he
  | callSeeCtx c => exact life_callSeeCtx c h he
  | callToken c => exact life_callToken c h he
  | callGetReply c => exact life_callGetReply c h he
  | rdSeeDone  => exact life_rdSeeDone  h he
  | rdHeader  => exact life_rdHeader  h he
  | rdEof  => exact life_rdEof  h he
  | rdFail  => exact life_rdFail  h he
  | rdDispatch  => exact life_rdDispatch  h he
  | rdDeliver  => exact life_rdDeliver  h he
  | rdHandle  => exact life_rdHandle  h he
  | rdWaitDone  => exact life_rdWaitDone  h he
  | wrSeeDone  => exact life_wrSeeDone  h he
  | wrPickAck  => exact life_wrPickAck  h he
  | wrPickReq c => exact life_wrPickReq c h he
  | wrWrite  => exact life_wrWrite  h he
  | wrFail  => exact life_wrFail  h he
  | wrParkedDone  => exact life_wrParkedDone  h he
  | connStart  => exact life_connStart  h he
  | connInitial p n => exact life_connInitial p n h he
  | connInitialFail e => exact life_connInitialFail e h he
  | connRejectReady  => exact life_connRejectReady  h he
  | connNegSend c t p => exact life_connNegSend c t p h he
  | connNegDone n => exact life_connNegDone n h he
  | connNegErrs  => exact life_connNegErrs  h he
  | connNegClosed  => exact life_connNegClosed  h he
  | connReady  => exact life_connReady  h he
  | connServeErr  => exact life_connServeErr  h he
  | connServeDone  => exact life_connServeDone  h he
  | connReturn  => exact life_connReturn  h he
  | connFailReturn  => exact life_connFailReturn  h he

theorem life_of_step {s : St} (a : Act) (h : Life s) : Life (step s a) := by
  unfold step; split
  · rename_i he; exact life_step h he
  · exact h

theorem life_reachable {s : St} (h : Reachable s) : Life s := by
  induction h with
  | init => exact life_init
  | step a _ ih => exact life_of_step a ih

end LLRP.LTS
