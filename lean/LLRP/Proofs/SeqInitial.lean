import LLRP.Gen.Seq
import LLRP.Gen.Consts
import LLRP.Model.Initial
/-!
# `Client.checkInitialMessage` as translated from the source (`Gen.llrp_Client_checkInitialMessage`, go2seq) is the model
`Initial.checkInitial` / `Initial.ackOnFirst`.

`initEnv` says what the operations the function uses mean in terms of the model: the connection delivers the first
message (`First`), `ReaderEventNotification.UnmarshalBinary` is the codec model over the regenerated table, the only
registered handler is the KeepAlive acknowledger. The decision structure — which test comes first, which outcome each
branch has — is the source's own.
-/
namespace LLRP.SeqGlue
open LLRP LLRP.GoSeq LLRP.Initial

def toInts (b : Bytes) : List Int := b.map (fun x => (x.toNat : Int))
def ofInts (l : List Int) : Bytes := l.map (fun i => UInt8.ofNat i.toNat)

theorem ofInts_toInts (b : Bytes) : ofInts (toInts b) = b := by
  unfold ofInts toInts
  rw [List.map_map]
  conv => rhs; rw [← List.map_id b]
  apply List.map_congr_left
  intro x _
  simp

structure IWorld where
  first : Option First
  /-- the first message was handed to a registered handler -/
  acked : Bool

/-- the environment, for any payload decoder `D` -/
def initEnvD (D : Bytes → Option Val) : Gen.Env_llrp_Client_checkInitialMessage where
  World := IWorld
  Header := Nat × Nat                      -- (type, declared payload length)
  net_Conn := Unit
  io_Reader := Unit
  Map_MessageType_MessageHandler := Unit
  MessageHandler := Unit
  Message := Unit
  Ptr_bytes_Buffer := Unit
  ReaderEventNotification := Val
  ReaderEventNotificationData := Val
  Ptr_ConnectionAttemptEvent := Option Int
  Client_readHeader_1 := fun w => match w.first with
    | some f => (w, (f.typ, f.declared), .nil)
    | none => (w, (0, 0), .ext "no header")
  get_Header_payloadLen := fun h => (h.2 : Int)
  Client_conn := fun _ => ()
  conv_net_Conn_to_io_Reader := fun _ => ()
  io_ReadFull_1 := fun w _ buf => match w.first with
    | some f => if f.payload.length < buf.length then (w, buf, 0, .ext "short read")
                else (w, toInts (f.payload.take buf.length), buf.length, .nil)
    | none => (w, buf, 0, .ext "no message")
  Client_handlers := fun _ => ()
  get_Header_typ := fun h => (h.1 : Int)
  -- by default exactly one handler is registered: the acknowledger, for KeepAlive
  index_Map_MessageType_MessageHandler := fun _ t => ((), t == (LTS.tKeepAlive : Int))
  zero_Message := ()
  set_Message_Header := fun _ _ => ()
  bytes_NewBuffer_1 := fun w _ => (w, ())
  set_Message_payload := fun _ _ => ()
  conv_Ptr_bytes_Buffer_to_io_Reader := fun _ => ()
  Client_handleGuarded_1 := fun w _ _ => { w with acked := true }
  zero_ReaderEventNotification := .node [] []
  ReaderEventNotification_UnmarshalBinary_1 := fun w ren buf =>
    match D (ofInts buf) with
    | some v => (w, v, .nil)
    | none => (w, ren, .ext "decode")
  get_ReaderEventNotification_ReaderEventNotificationData := fun v => v
  get_ReaderEventNotificationData_ConnectionAttemptEvent := fun v => connAttempt v
  isNil_Ptr_ConnectionAttemptEvent := fun p => p.isNone
  deref_Ptr_ConnectionAttemptEvent := fun _ p => p.getD 0

def initEnv : Gen.Env_llrp_Client_checkInitialMessage := initEnvD (decode Gen.schema Gen.m_ReaderEventNotification)

theorem declared_gt (n : Nat) : decide ((n : Int) > 655360) = decide (n > Gen.MaxBufferedPayloadSz) := by
  simp [Gen.MaxBufferedPayloadSz]; omega

/-- `checkInitial` with the decoder abstracted -/
def checkInitialD (D : Bytes → Option Val) (f : First) : Bool :=
  if f.declared > Gen.MaxBufferedPayloadSz then false
  else if f.payload.length < f.declared then false
  else if f.typ ≠ LTS.tReaderEventNotification then false
  else match D (f.payload.take f.declared) with
    | some v => connAttempt v == some (Gen.ConnSuccess : Int)
    | none => false

theorem checkInitial_eq (f : First) : checkInitial (some f) = checkInitialD (decode Gen.schema Gen.m_ReaderEventNotification) f := by
  have hdef : checkInitial (some f) = (if f.declared > Gen.MaxBufferedPayloadSz then false
         else if f.payload.length < f.declared then false
         else if f.typ ≠ LTS.tReaderEventNotification then false
         else payloadOk (f.payload.take f.declared)) := rfl
  rw [hdef]; unfold checkInitialD payloadOk
  generalize decode Gen.schema Gen.m_ReaderEventNotification (List.take f.declared f.payload) = d
  cases d <;> rfl

theorem src_checkInitialD (D : Bytes → Option Val) (f : First) :
    ((Gen.llrp_Client_checkInitialMessage (initEnvD D) ⟨some f, false⟩).2 == GoErr.nil) = checkInitialD D f ∧
    (Gen.llrp_Client_checkInitialMessage (initEnvD D) ⟨some f, false⟩).1.acked = ackOnFirst (some f) := by
  by_cases h1 : f.declared > Gen.MaxBufferedPayloadSz
  · have h1' : ¬ f.declared ≤ Gen.MaxBufferedPayloadSz := by omega
    simp [Gen.llrp_Client_checkInitialMessage, initEnvD, checkInitialD, ackOnFirst, declared_gt, h1, h1']
  · have h1' : f.declared ≤ Gen.MaxBufferedPayloadSz := by omega
    by_cases h2 : f.payload.length < f.declared
    · have h2' : ¬ f.declared ≤ f.payload.length := by omega
      simp [Gen.llrp_Client_checkInitialMessage, initEnvD, checkInitialD, ackOnFirst, declared_gt, h1, h1', h2, h2']
    · have h2' : f.declared ≤ f.payload.length := by omega
      by_cases h3 : f.typ = 63
      · cases hd : D (f.payload.take f.declared) with
        | none =>
          simp [Gen.llrp_Client_checkInitialMessage, initEnvD, checkInitialD, ackOnFirst, declared_gt, h1, h1', h2, h2', h3,
            LTS.tKeepAlive, LTS.tReaderEventNotification, ofInts_toInts, hd]
        | some v =>
          cases hc : connAttempt v with
          | none =>
            simp [Gen.llrp_Client_checkInitialMessage, initEnvD, checkInitialD, ackOnFirst, declared_gt, h1, h1', h2, h2', h3,
              LTS.tKeepAlive, LTS.tReaderEventNotification, ofInts_toInts, hd, hc]
          | some c =>
            by_cases c0 : c = 0
            · simp [Gen.llrp_Client_checkInitialMessage, initEnvD, checkInitialD, ackOnFirst, declared_gt, h1, h1', h2, h2', h3,
                LTS.tKeepAlive, LTS.tReaderEventNotification, ofInts_toInts, hd, hc, c0, Gen.ConnSuccess]
            · simp [Gen.llrp_Client_checkInitialMessage, initEnvD, checkInitialD, ackOnFirst, declared_gt, h1, h1', h2, h2', h3,
                LTS.tKeepAlive, LTS.tReaderEventNotification, ofInts_toInts, hd, hc, c0, Gen.ConnSuccess]
              have c0' : (c == 0) = false := by simpa using c0
              by_cases c12 : c = 2 ∨ c = 1
              · simp [c12, c0']
              · by_cases c4 : c = 4 <;> simp [c12, c4, c0']
      · by_cases h4 : f.typ = 62
        · simp [Gen.llrp_Client_checkInitialMessage, initEnvD, checkInitialD, ackOnFirst, declared_gt, h1, h1', h2, h2', h3, h4,
            LTS.tKeepAlive, LTS.tReaderEventNotification]
        · have h3' : ¬ (f.typ : Int) = 63 := by omega
          have h4' : ¬ (f.typ : Int) = 62 := by omega
          simp [Gen.llrp_Client_checkInitialMessage, initEnvD, checkInitialD, ackOnFirst, declared_gt, h1, h1', h2, h2', h3, h4, h3', h4',
            LTS.tKeepAlive, LTS.tReaderEventNotification]

/-- **Source = model.** Running the translated `checkInitialMessage` on a connection that delivers `f` returns nil
exactly when the model accepts `f`, and hands the first message to the acknowledger exactly when the model says so. -/
theorem src_checkInitial (f : Option First) :
    ((Gen.llrp_Client_checkInitialMessage initEnv ⟨f, false⟩).2 == GoErr.nil) = checkInitial f ∧
    (Gen.llrp_Client_checkInitialMessage initEnv ⟨f, false⟩).1.acked = ackOnFirst f := by
  cases f with
  | none => simp [Gen.llrp_Client_checkInitialMessage, initEnv, initEnvD, checkInitial, ackOnFirst]
  | some f => rw [checkInitial_eq]; exact src_checkInitialD _ f

end LLRP.SeqGlue
