import LLRP.Proofs.LayoutParam
/-!
C02 `tlv_lengths_exact`: a recursive well-formedness predicate for parameter blocks and the proof that everything the
layout writes consists of such blocks, at every nesting level.
-/
namespace LLRP
open Layout

/-- `Block S ty b`: the byte string `b` is exactly one parameter of type `ty`:
* TLV (`typeId ≥ 128`): 16-bit type, 16-bit length **equal to the number of bytes of the whole block**, then the body;
* TV: the type code with the top bit set, then the body;
and the body is some field bytes followed by complete blocks, each of a type one of the container's slots admits and
each well-formed in turn. -/
inductive Block (S : Schema) : String → Bytes → Prop
  | tlv (ty : String) (c : Container) (l0 l1 : UInt8) (fb : Bytes) (subs : List (String × Bytes)) :
      S.param? ty = some c → c.typeId ≥ 128 →
      (∀ p ∈ subs, p.1 ∈ c.slots.map (·.ty)) → (∀ p ∈ subs, Block S p.1 p.2) →
      be16 l0 l1 = (beBytes 2 c.typeId ++ l0 :: l1 :: (fb ++ (subs.map (·.2)).flatten)).length →
      Block S ty (beBytes 2 c.typeId ++ l0 :: l1 :: (fb ++ (subs.map (·.2)).flatten))
  | tv (ty : String) (c : Container) (fb : Bytes) (subs : List (String × Bytes)) :
      S.param? ty = some c → c.typeId < 128 →
      (∀ p ∈ subs, p.1 ∈ c.slots.map (·.ty)) → (∀ p ∈ subs, Block S p.1 p.2) →
      Block S ty (byte (128 + c.typeId) :: (fb ++ (subs.map (·.2)).flatten))

theorem be16_beBytes2 (n : Nat) (h : n < 65536) :
    ∃ l0 l1, beBytes 2 n = [l0, l1] ∧ be16 l0 l1 = n := by
  refine ⟨byte (n / 256), byte n, by simp [beBytes], ?_⟩
  rw [be16_put16]; omega

mutual
theorem param_blocks (S : Schema) : ∀ (fuel : Nat) (ty : String) (v : Val),
    (Layout.param S fuel ty v).length < 65536 →
    Layout.param S fuel ty v = [] ∨ Block S ty (Layout.param S fuel ty v)
  | 0, _, _, _ => by simp [Layout.param]
  | fuel+1, ty, .node fs subs, h => by
    cases hc : S.param? ty with
    | none => simp [Layout.param, hc]
    | some c =>
      right
      simp only [Layout.param, hc] at h ⊢
      by_cases htlv : c.typeId ≥ 128
      · simp only [htlv, if_true] at h ⊢
        simp only [List.length_append, length_beBytes] at h
        obtain ⟨sb, hsb, hall⟩ := slots_blocks S fuel c.slots subs none (by omega)
        obtain ⟨l0, l1, hl, hbe⟩ := be16_beBytes2 (4 + (Layout.fields c.fields fs 0 ++ Layout.slots S fuel c.slots subs none).length)
          (by simp only [List.length_append]; omega)
        rw [hl, hsb]
        rw [hsb] at hbe
        simp only [List.append_assoc, List.cons_append, List.nil_append]
        refine Block.tlv ty c l0 l1 _ sb hc htlv (fun p hp => (hall p hp).1) (fun p hp => (hall p hp).2) ?_
        rw [hbe]; simp only [List.length_append, List.length_cons, length_beBytes]; omega
      · simp only [htlv, if_false] at h ⊢
        obtain ⟨sb, hsb, hall⟩ := slots_blocks S fuel c.slots subs none (by
          simp only [List.length_cons, List.length_append] at h; omega)
        rw [hsb]
        exact Block.tv ty c _ sb hc (by omega) (fun p hp => (hall p hp).1) (fun p hp => (hall p hp).2)
theorem slots_blocks (S : Schema) : ∀ (fuel : Nat) (ss : List Slot) (vss : List (List Val)) (done : Option String),
    (Layout.slots S fuel ss vss done).length < 65536 →
    ∃ sb : List (String × Bytes), Layout.slots S fuel ss vss done = (sb.map (·.2)).flatten ∧
      ∀ p ∈ sb, p.1 ∈ ss.map (·.ty) ∧ Block S p.1 p.2
  | 0, _, _, _, _ => ⟨[], by simp [Layout.slots]⟩
  | fuel+1, [], _, _, _ => ⟨[], by simp [Layout.slots]⟩
  | fuel+1, _ :: _, [], _, _ => ⟨[], by simp [Layout.slots]⟩
  | fuel+1, s :: ss, vs :: vss, done, h => by
    simp only [Layout.slots] at h ⊢
    have lift : ∀ {sb : List (String × Bytes)}, (∀ p ∈ sb, p.1 ∈ ss.map (·.ty) ∧ Block S p.1 p.2) →
        ∀ p ∈ sb, p.1 ∈ (s :: ss).map (·.ty) ∧ Block S p.1 p.2 :=
      fun hall p hp => ⟨List.mem_cons_of_mem _ (hall p hp).1, (hall p hp).2⟩
    have here : ∀ (l : List Val), (Layout.params S fuel s.ty l).length < 65536 →
        ∃ sb : List (String × Bytes), Layout.params S fuel s.ty l = (sb.map (·.2)).flatten ∧
          ∀ p ∈ sb, p.1 ∈ (s :: ss).map (·.ty) ∧ Block S p.1 p.2 := by
      intro l hl
      obtain ⟨bl, hbl, hall⟩ := params_blocks S fuel s.ty l hl
      refine ⟨bl.map (fun b => (s.ty, b)), by simpa [List.map_map, Function.comp_def] using hbl, ?_⟩
      intro p hp
      obtain ⟨b, hb, rfl⟩ := List.mem_map.mp hp
      exact ⟨by simp, hall b hb⟩
    by_cases hch : s.isChoice = true
    · simp only [hch, if_true] at h ⊢
      by_cases hd : (done == s.group || vs.isEmpty) = true
      · simp only [hd, if_true] at h ⊢
        obtain ⟨sb, hsb, hall⟩ := slots_blocks S fuel ss vss done h
        exact ⟨sb, hsb, lift hall⟩
      · simp only [hd, if_false, Bool.false_eq_true, List.length_append] at h ⊢
        obtain ⟨sb1, hsb1, hall1⟩ := here (vs.take 1) (by omega)
        obtain ⟨sb2, hsb2, hall2⟩ := slots_blocks S fuel ss vss s.group (by omega)
        refine ⟨sb1 ++ sb2, by rw [hsb1, hsb2]; simp, ?_⟩
        intro p hp
        rcases List.mem_append.mp hp with hp | hp
        · exact hall1 p hp
        · exact lift hall2 p hp
    · simp only [hch, if_false, Bool.false_eq_true, List.length_append] at h ⊢
      obtain ⟨sb1, hsb1, hall1⟩ := here vs (by omega)
      obtain ⟨sb2, hsb2, hall2⟩ := slots_blocks S fuel ss vss none (by omega)
      refine ⟨sb1 ++ sb2, by rw [hsb1, hsb2]; simp, ?_⟩
      intro p hp
      rcases List.mem_append.mp hp with hp | hp
      · exact hall1 p hp
      · exact lift hall2 p hp
theorem params_blocks (S : Schema) : ∀ (fuel : Nat) (ty : String) (vs : List Val),
    (Layout.params S fuel ty vs).length < 65536 →
    ∃ bl : List Bytes, Layout.params S fuel ty vs = bl.flatten ∧ ∀ b ∈ bl, Block S ty b
  | 0, _, _, _ => ⟨[], by simp [Layout.params]⟩
  | fuel+1, _, [], _ => ⟨[], by simp [Layout.params]⟩
  | fuel+1, ty, v :: vs, h => by
    simp only [Layout.params, List.length_append] at h ⊢
    obtain ⟨bl, hbl, hall⟩ := params_blocks S fuel ty vs (by omega)
    rcases param_blocks S fuel ty v (by omega) with h0 | hb
    · exact ⟨bl, by rw [h0, hbl]; simp, hall⟩
    · refine ⟨Layout.param S fuel ty v :: bl, by rw [hbl]; simp, ?_⟩
      intro b hb'
      rcases List.mem_cons.mp hb' with rfl | hb'
      · exact hb
      · exact hall b hb'
end


/-! ## under `fits`: no bound on the total length is needed, every parameter is below 2^16 on its own -/

theorem szParam_lt (S : Schema) (fuel : Nat) (ty : String) (v : Val) : szParam S fuel ty v < 65536 := by
  cases fuel with
  | zero => simp [szParam]
  | succ fuel =>
    cases v with
    | node fs subs =>
      simp only [szParam]
      split
      · omega
      · simp only [wrap16]; omega

theorem param_block_fits (S : Schema) (hS : layoutWF S = true) (fuel : Nat) (ty : String) (v : Val)
    (hv : fitsParam S fuel ty v = true) : Block S ty (Layout.param S fuel ty v) := by
  obtain ⟨heq, hsz⟩ := encParam_layout S hS fuel ty v hv
  have hlt := szParam_lt S fuel ty v
  rw [hsz, heq] at hlt
  rcases param_blocks S fuel ty v hlt with h0 | hb
  · exfalso
    cases fuel with
    | zero => simp [fitsParam] at hv
    | succ fuel =>
      cases v with
      | node fs subs =>
        cases hc : S.param? ty with
        | none => simp [fitsParam, hc] at hv
        | some c =>
          simp only [Layout.param, hc] at h0
          split at h0 <;> simp [beBytes] at h0
  · exact hb

theorem params_blocks_fits (S : Schema) (hS : layoutWF S = true) : ∀ (fuel : Nat) (ty : String) (vs : List Val),
    fitsList S fuel ty vs = true →
    ∃ bl : List Bytes, Layout.params S fuel ty vs = bl.flatten ∧ ∀ b ∈ bl, Block S ty b
  | 0, _, _, h => by simp [fitsList] at h
  | fuel+1, _, [], _ => ⟨[], by simp [Layout.params]⟩
  | fuel+1, ty, v :: vs, h => by
    simp only [fitsList, Bool.and_eq_true] at h
    obtain ⟨bl, hbl, hall⟩ := params_blocks_fits S hS fuel ty vs h.2
    refine ⟨Layout.param S fuel ty v :: bl, by simp only [Layout.params]; rw [hbl]; simp, ?_⟩
    intro b hb
    rcases List.mem_cons.mp hb with rfl | hb
    · exact param_block_fits S hS fuel ty v h.1
    · exact hall b hb

theorem slots_blocks_fits (S : Schema) (hS : layoutWF S = true) : ∀ (fuel : Nat) (ss : List Slot)
    (vss : List (List Val)) (st : Option (String × Bool)) (done : Option String),
    fitsSlots S fuel ss vss st = true →
    ∃ sb : List (String × Bytes), Layout.slots S fuel ss vss done = (sb.map (·.2)).flatten ∧
      ∀ p ∈ sb, p.1 ∈ ss.map (·.ty) ∧ Block S p.1 p.2
  | 0, _, _, _, _, h => by simp [fitsSlots] at h
  | fuel+1, [], _, _, _, _ => ⟨[], by simp [Layout.slots]⟩
  | fuel+1, _ :: _, [], _, _, h => by simp [fitsSlots] at h
  | fuel+1, s :: ss, vs :: vss, st, done, h => by
    simp only [fitsSlots] at h
    simp only [Layout.slots]
    have lift : ∀ {sb : List (String × Bytes)}, (∀ p ∈ sb, p.1 ∈ ss.map (·.ty) ∧ Block S p.1 p.2) →
        ∀ p ∈ sb, p.1 ∈ (s :: ss).map (·.ty) ∧ Block S p.1 p.2 :=
      fun hall p hp => ⟨List.mem_cons_of_mem _ (hall p hp).1, (hall p hp).2⟩
    have here : ∀ (l : List Val), fitsList S fuel s.ty l = true →
        ∃ sb : List (String × Bytes), Layout.params S fuel s.ty l = (sb.map (·.2)).flatten ∧
          ∀ p ∈ sb, p.1 ∈ (s :: ss).map (·.ty) ∧ Block S p.1 p.2 := by
      intro l hl
      obtain ⟨bl, hbl, hall⟩ := params_blocks_fits S hS fuel s.ty l hl
      refine ⟨bl.map (fun b => (s.ty, b)), by simpa [List.map_map, Function.comp_def] using hbl, ?_⟩
      intro p hp
      obtain ⟨b, hb, rfl⟩ := List.mem_map.mp hp
      exact ⟨by simp, hall b hb⟩
    have join : ∀ {a b : Bytes} {sb1 sb2 : List (String × Bytes)},
        a = (sb1.map (·.2)).flatten → b = (sb2.map (·.2)).flatten →
        (∀ p ∈ sb1, p.1 ∈ (s :: ss).map (·.ty) ∧ Block S p.1 p.2) →
        (∀ p ∈ sb2, p.1 ∈ ss.map (·.ty) ∧ Block S p.1 p.2) →
        ∃ sb : List (String × Bytes), a ++ b = (sb.map (·.2)).flatten ∧
          ∀ p ∈ sb, p.1 ∈ (s :: ss).map (·.ty) ∧ Block S p.1 p.2 := by
      intro a b sb1 sb2 h1 h2 hall1 hall2
      refine ⟨sb1 ++ sb2, by rw [h1, h2]; simp, ?_⟩
      intro p hp
      rcases List.mem_append.mp hp with hp | hp
      · exact hall1 p hp
      · exact lift hall2 p hp
    by_cases hch : s.isChoice = true
    · simp only [hch, if_true, Bool.and_eq_true] at h ⊢
      obtain ⟨⟨⟨⟨⟨_, heach⟩, _⟩, _⟩, _⟩, hrest⟩ := h
      by_cases hd : (done == s.group || vs.isEmpty) = true
      · simp only [hd, if_true]
        obtain ⟨sb, hsb, hall⟩ := slots_blocks_fits S hS fuel ss vss _ done hrest
        exact ⟨sb, hsb, lift hall⟩
      · simp only [hd, if_false, Bool.false_eq_true]
        obtain ⟨sb1, hsb1, hall1⟩ := here (vs.take 1) (fitsList_take S fuel s.ty vs 1 heach)
        obtain ⟨sb2, hsb2, hall2⟩ := slots_blocks_fits S hS fuel ss vss _ s.group hrest
        exact join hsb1 hsb2 hall1 hall2
    · simp only [hch, if_false, Bool.and_eq_true, Bool.false_eq_true] at h ⊢
      obtain ⟨⟨⟨_, heach⟩, _⟩, hrest⟩ := h
      obtain ⟨sb1, hsb1, hall1⟩ := here vs heach
      obtain ⟨sb2, hsb2, hall2⟩ := slots_blocks_fits S hS fuel ss vss _ none hrest
      exact join hsb1 hsb2 hall1 hall2

end LLRP
