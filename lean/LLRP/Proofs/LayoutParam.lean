import LLRP.Proofs.LayoutFields
/-!
C02: the encoder's parameter writer is the declarative layout (mutual induction on the shared fuel), and the
`paramHeader.sz` that `getHeader` computes is the number of bytes written.
-/
namespace LLRP
open Layout

theorem put16_congr {a b : Nat} (h : a % 65536 = b % 65536) : put16 a = beBytes 2 b := by
  rw [← put16_eq_beBytes]
  unfold put16
  rw [byte_congr (a := a / 256) (b := b / 256) (by omega), byte_congr (a := a) (b := b) (by omega)]

theorem tv_header_byte (t : Nat) (h : t < 128) : byte (t ||| 128) = byte (128 + t) := by
  have : t ||| 128 = 128 + t := by
    have h1 : (128 : Nat) = 1 <<< 7 := by decide
    rw [Nat.or_comm, h1, Nat.shiftLeft_add_eq_or_of_lt (by simpa using h) 1]
  rw [this]

theorem param?_mem {S : Schema} {ty : String} {c : Container} (h : S.param? ty = some c) : c ∈ S :=
  List.mem_of_find?_eq_some h

theorem param?_notMsg {S : Schema} {ty : String} {c : Container} (h : S.param? ty = some c) : c.isMsg = false := by
  have := List.find?_some h
  simp only [Bool.and_eq_true, Bool.not_eq_true'] at this
  exact this.1

theorem layoutWF_of_mem {S : Schema} (hS : layoutWF S = true) {c : Container} (h : c ∈ S) :
    layoutFieldsWF c.fields 0 = true := by
  unfold layoutWF at hS
  exact List.all_eq_true.mp hS c h

theorem fitsList_take (S : Schema) : ∀ (fuel : Nat) (ty : String) (vs : List Val) (k : Nat),
    fitsList S fuel ty vs = true → fitsList S fuel ty (vs.take k) = true := by
  intro fuel
  induction fuel with
  | zero => intro ty vs k h; simp [fitsList] at h
  | succ fuel ih =>
    intro ty vs k h
    cases vs with
    | nil => simpa using h
    | cons v vs =>
      cases k with
      | zero => simp [fitsList]
      | succ k =>
        simp only [fitsList, Bool.and_eq_true] at h
        simp only [List.take_succ_cons, fitsList, Bool.and_eq_true]
        exact ⟨h.1, ih ty vs k h.2⟩

mutual
theorem encParam_layout (S : Schema) (hS : layoutWF S = true) : ∀ (fuel : Nat) (ty : String) (v : Val),
    fitsParam S fuel ty v = true →
    encParam S fuel ty v = Layout.param S fuel ty v ∧
      szParam S fuel ty v = (encParam S fuel ty v).length
  | 0, _, _, h => by simp [fitsParam] at h
  | fuel+1, ty, .node fs subs, h => by
    cases hc : S.param? ty with
    | none => simp [fitsParam, hc] at h
    | some c =>
      simp only [fitsParam, hc, Bool.and_eq_true, decide_eq_true_eq] at h
      obtain ⟨⟨hff, hfs⟩, hlt⟩ := h
      have hwf := layoutWF_of_mem hS (param?_mem hc)
      have hmsg := param?_notMsg hc
      have hF := encFields_eq_layout c.fields fs 0 0 hwf hff (by simp)
      have hFsz := fieldsSz_exact c.fields fs 0 0 hwf hff
      obtain ⟨hSl, hSlsz⟩ := encSlots_layout S hS fuel c.slots subs none none hfs
      simp only [encParam, Layout.param, szParam, hc, hF, hSl]
      rw [hF] at hFsz
      rw [hSl] at hSlsz
      by_cases htlv : c.typeId ≥ 128
      · have hT : c.isTLV = true := by simp [Container.isTLV, htlv]
        have hH : c.headerSize = 4 := by simp [Container.headerSize, hmsg, hT]
        simp only [hT, htlv, if_true, hH, wrap16]
        constructor
        · rw [put16_congr (b := 4 + (Layout.fields c.fields fs 0 ++ Layout.slots S fuel c.slots subs none).length)]
          · simp [beBytes]
          · simp only [List.length_append]; omega
        · simp only [List.length_append, List.length_cons, List.length_nil, put16]; omega
      · have hT : c.isTLV = false := by simp [Container.isTLV, htlv]
        have hH : c.headerSize = 1 := by simp [Container.headerSize, hmsg, hT]
        simp only [hT, htlv, if_false, hH, wrap16, Bool.false_eq_true]
        constructor
        · rw [tv_header_byte _ (by omega)]
        · simp only [List.length_append, List.length_cons]; omega
theorem encSlots_layout (S : Schema) (hS : layoutWF S = true) : ∀ (fuel : Nat) (ss : List Slot) (vss : List (List Val))
    (st : Option (String × Bool)) (done : Option String),
    fitsSlots S fuel ss vss st = true →
    encSlots S fuel ss vss done = Layout.slots S fuel ss vss done ∧
      szSlots S fuel ss vss done = (encSlots S fuel ss vss done).length
  | 0, _, _, _, _, h => by simp [fitsSlots] at h
  | fuel+1, [], [], _, _, _ => by simp [encSlots, Layout.slots, szSlots]
  | fuel+1, [], _ :: _, _, _, h => by simp [fitsSlots] at h
  | fuel+1, _ :: _, [], _, _, h => by simp [fitsSlots] at h
  | fuel+1, s :: ss, vs :: vss, st, done, h => by
    simp only [fitsSlots] at h
    simp only [encSlots, Layout.slots, szSlots]
    by_cases hch : s.isChoice = true
    · simp only [hch, if_true, Bool.and_eq_true] at h ⊢
      obtain ⟨⟨⟨⟨⟨_, heach⟩, _⟩, _⟩, _⟩, hrest⟩ := h
      by_cases hd : (done == s.group || vs.isEmpty) = true
      · simp only [hd, if_true]
        exact encSlots_layout S hS fuel ss vss _ done hrest
      · simp only [hd, if_false, Bool.false_eq_true]
        obtain ⟨h1, h1s⟩ := encList_layout S hS fuel s.ty (vs.take 1) (fitsList_take S fuel s.ty vs 1 heach)
        obtain ⟨h2, h2s⟩ := encSlots_layout S hS fuel ss vss _ s.group hrest
        rw [h1, h2] at *
        refine ⟨rfl, ?_⟩
        simp only [List.length_append]; omega
    · simp only [hch, if_false, Bool.and_eq_true, Bool.false_eq_true] at h ⊢
      obtain ⟨⟨⟨_, heach⟩, _⟩, hrest⟩ := h
      obtain ⟨h1, h1s⟩ := encList_layout S hS fuel s.ty vs heach
      obtain ⟨h2, h2s⟩ := encSlots_layout S hS fuel ss vss _ none hrest
      rw [h1, h2] at *
      refine ⟨rfl, ?_⟩
      simp only [List.length_append]; omega
theorem encList_layout (S : Schema) (hS : layoutWF S = true) : ∀ (fuel : Nat) (ty : String) (vs : List Val),
    fitsList S fuel ty vs = true →
    encList S fuel ty vs = Layout.params S fuel ty vs ∧
      szList S fuel ty vs = (encList S fuel ty vs).length
  | 0, _, _, h => by simp [fitsList] at h
  | fuel+1, _, [], _ => by simp [encList, Layout.params, szList]
  | fuel+1, ty, v :: vs, h => by
    simp only [fitsList, Bool.and_eq_true] at h
    obtain ⟨h1, h1s⟩ := encParam_layout S hS fuel ty v h.1
    obtain ⟨h2, h2s⟩ := encList_layout S hS fuel ty vs h.2
    simp only [encList, Layout.params, szList]
    rw [h1, h2] at *
    refine ⟨rfl, ?_⟩
    simp only [List.length_append]; omega
end

end LLRP
