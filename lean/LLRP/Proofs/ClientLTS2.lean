import LLRP.Proofs.ClientLTS
namespace LLRP.LTS
set_option linter.unusedVariables false

/-! ## history, wire ids, outcomes -/

structure Hist (s : St) : Prop where
  sub : (s.received ++ s.inbox).Sublist s.peerSent

structure Wire (s : St) : Prop where
  wW : ∀ w ∈ s.written, ∀ c i, w.origin = .caller c i → (s.callers c).wid = some w.f.id
  wWr : ∀ f c i, s.wr = .writing f (.caller c i) → (s.callers c).wid = some f.id

def connOver : Conn → Bool
  | .waitLoops _ | .returned _ => true
  | _ => false
def connLate : Conn → Bool
  | .serving | .waitLoops _ | .returned _ => true
  | _ => false

structure Outcome (s : St) : Prop where
  verdictAcc : s.accepted = true ↔ s.verdict = some true
  verdictSet : s.verdict = none ↔ (s.conn = .off ∨ s.conn = .initial)
  doneWhy : s.done = true → s.closedLocally = true ∨ connOver s.conn = true
  errsClosed : .closed ∈ s.errs → s.closedLocally = true ∨ connOver s.conn = true
  errsFail : .fail ∈ s.errs → s.broken = true
  callClosed : ∀ c, (s.callers c).pc = .done .closed → s.done = true
  callCtx : ∀ c, (s.callers c).pc = .done .ctx → (s.callers c).cancelled = true
  resClosed : (s.conn = .waitLoops .closed ∨ s.conn = .returned .closed ∨ s.conn = .failing .closed) → s.closedLocally = true
  resFailW : s.conn = .waitLoops .fail → s.broken = true
  resFail : s.conn = .returned .fail → s.negotiated = true → s.broken = true
  negLate : s.negotiated = true → connLate s.conn = true

theorem hist_init : Hist init := by constructor; simp [init]
theorem wire_init : Wire init := by constructor <;> simp [init]
theorem outcome_init : Outcome init := by constructor <;> simp [init, connOver, connLate]

macro "hist_case" : tactic =>
  `(tactic| ((simp only [eff, leave]; repeat' split) <;> constructor <;> (try simp only [setC]) <;> grind [enabled]))
macro "wire_case" : tactic =>
  `(tactic| ((simp only [eff, leave]; repeat' split) <;> constructor <;> (try simp only [setC]) <;> grind [enabled, started]))
macro "outcome_case" : tactic =>
  `(tactic| ((simp only [eff, leave]; repeat' split) <;> constructor <;> (try simp only [setC]) <;>
      grind [enabled, canLeave, connOver, connLate, initialOk]))

theorem hist_peerSend {s : St} (f : _) (h : Hist s) (he : enabled s (.peerSend f) = true) : Hist (eff s (.peerSend f)) := by
  obtain ⟨a1⟩ := h
  hist_case
theorem wire_peerSend {s : St} (f : _) (hl : Life s) (h : Wire s) (he : enabled s (.peerSend f) = true) : Wire (eff s (.peerSend f)) := by
  obtain ⟨a1, a2⟩ := h
  have l1 := hl.wOrigin
  have l2 := hl.wrOrigin
  wire_case
theorem outcome_peerSend {s : St} (f : _) (h : Outcome s) (he : enabled s (.peerSend f) = true) : Outcome (eff s (.peerSend f)) := by
  obtain ⟨a1, a2, a3, a4, a5, a6, a7, a8, a9, a10, a11⟩ := h
  outcome_case

theorem hist_peerClose {s : St}  (h : Hist s) (he : enabled s .peerClose = true) : Hist (eff s .peerClose) := by
  obtain ⟨a1⟩ := h
  hist_case
theorem wire_peerClose {s : St}  (hl : Life s) (h : Wire s) (he : enabled s .peerClose = true) : Wire (eff s .peerClose) := by
  obtain ⟨a1, a2⟩ := h
  have l1 := hl.wOrigin
  have l2 := hl.wrOrigin
  wire_case
theorem outcome_peerClose {s : St}  (h : Outcome s) (he : enabled s .peerClose = true) : Outcome (eff s .peerClose) := by
  obtain ⟨a1, a2, a3, a4, a5, a6, a7, a8, a9, a10, a11⟩ := h
  outcome_case

theorem hist_callIssue {s : St} (c : _) (t : _) (p : _) (n : _) (h : Hist s) (he : enabled s (.callIssue c t p n) = true) : Hist (eff s (.callIssue c t p n)) := by
  obtain ⟨a1⟩ := h
  hist_case
theorem wire_callIssue {s : St} (c : _) (t : _) (p : _) (n : _) (hl : Life s) (h : Wire s) (he : enabled s (.callIssue c t p n) = true) : Wire (eff s (.callIssue c t p n)) := by
  obtain ⟨a1, a2⟩ := h
  have l1 := hl.wOrigin
  have l2 := hl.wrOrigin
  wire_case
theorem outcome_callIssue {s : St} (c : _) (t : _) (p : _) (n : _) (h : Outcome s) (he : enabled s (.callIssue c t p n) = true) : Outcome (eff s (.callIssue c t p n)) := by
  obtain ⟨a1, a2, a3, a4, a5, a6, a7, a8, a9, a10, a11⟩ := h
  outcome_case

theorem hist_cancel {s : St} (c : _) (h : Hist s) (he : enabled s (.cancel c) = true) : Hist (eff s (.cancel c)) := by
  obtain ⟨a1⟩ := h
  hist_case
theorem wire_cancel {s : St} (c : _) (hl : Life s) (h : Wire s) (he : enabled s (.cancel c) = true) : Wire (eff s (.cancel c)) := by
  obtain ⟨a1, a2⟩ := h
  have l1 := hl.wOrigin
  have l2 := hl.wrOrigin
  wire_case
theorem outcome_cancel {s : St} (c : _) (h : Outcome s) (he : enabled s (.cancel c) = true) : Outcome (eff s (.cancel c)) := by
  obtain ⟨a1, a2, a3, a4, a5, a6, a7, a8, a9, a10, a11⟩ := h
  outcome_case

theorem hist_close {s : St}  (h : Hist s) (he : enabled s .close = true) : Hist (eff s .close) := by
  obtain ⟨a1⟩ := h
  hist_case
theorem wire_close {s : St}  (hl : Life s) (h : Wire s) (he : enabled s .close = true) : Wire (eff s .close) := by
  obtain ⟨a1, a2⟩ := h
  have l1 := hl.wOrigin
  have l2 := hl.wrOrigin
  wire_case
theorem outcome_close {s : St}  (h : Outcome s) (he : enabled s .close = true) : Outcome (eff s .close) := by
  obtain ⟨a1, a2, a3, a4, a5, a6, a7, a8, a9, a10, a11⟩ := h
  outcome_case

theorem hist_callReady {s : St} (c : _) (h : Hist s) (he : enabled s (.callReady c) = true) : Hist (eff s (.callReady c)) := by
  obtain ⟨a1⟩ := h
  hist_case
theorem wire_callReady {s : St} (c : _) (hl : Life s) (h : Wire s) (he : enabled s (.callReady c) = true) : Wire (eff s (.callReady c)) := by
  obtain ⟨a1, a2⟩ := h
  have l1 := hl.wOrigin
  have l2 := hl.wrOrigin
  wire_case
theorem outcome_callReady {s : St} (c : _) (h : Outcome s) (he : enabled s (.callReady c) = true) : Outcome (eff s (.callReady c)) := by
  obtain ⟨a1, a2, a3, a4, a5, a6, a7, a8, a9, a10, a11⟩ := h
  outcome_case

theorem hist_callSeeDone {s : St} (c : _) (h : Hist s) (he : enabled s (.callSeeDone c) = true) : Hist (eff s (.callSeeDone c)) := by
  obtain ⟨a1⟩ := h
  hist_case
theorem wire_callSeeDone {s : St} (c : _) (hl : Life s) (h : Wire s) (he : enabled s (.callSeeDone c) = true) : Wire (eff s (.callSeeDone c)) := by
  obtain ⟨a1, a2⟩ := h
  have l1 := hl.wOrigin
  have l2 := hl.wrOrigin
  wire_case
theorem outcome_callSeeDone {s : St} (c : _) (h : Outcome s) (he : enabled s (.callSeeDone c) = true) : Outcome (eff s (.callSeeDone c)) := by
  obtain ⟨a1, a2, a3, a4, a5, a6, a7, a8, a9, a10, a11⟩ := h
  outcome_case

theorem hist_callSeeCtx {s : St} (c : _) (h : Hist s) (he : enabled s (.callSeeCtx c) = true) : Hist (eff s (.callSeeCtx c)) := by
  obtain ⟨a1⟩ := h
  hist_case
theorem wire_callSeeCtx {s : St} (c : _) (hl : Life s) (h : Wire s) (he : enabled s (.callSeeCtx c) = true) : Wire (eff s (.callSeeCtx c)) := by
  obtain ⟨a1, a2⟩ := h
  have l1 := hl.wOrigin
  have l2 := hl.wrOrigin
  wire_case
theorem outcome_callSeeCtx {s : St} (c : _) (h : Outcome s) (he : enabled s (.callSeeCtx c) = true) : Outcome (eff s (.callSeeCtx c)) := by
  obtain ⟨a1, a2, a3, a4, a5, a6, a7, a8, a9, a10, a11⟩ := h
  outcome_case

theorem hist_callToken {s : St} (c : _) (h : Hist s) (he : enabled s (.callToken c) = true) : Hist (eff s (.callToken c)) := by
  obtain ⟨a1⟩ := h
  hist_case
theorem wire_callToken {s : St} (c : _) (hl : Life s) (h : Wire s) (he : enabled s (.callToken c) = true) : Wire (eff s (.callToken c)) := by
  obtain ⟨a1, a2⟩ := h
  have l1 := hl.wOrigin
  have l2 := hl.wrOrigin
  wire_case
theorem outcome_callToken {s : St} (c : _) (h : Outcome s) (he : enabled s (.callToken c) = true) : Outcome (eff s (.callToken c)) := by
  obtain ⟨a1, a2, a3, a4, a5, a6, a7, a8, a9, a10, a11⟩ := h
  outcome_case

theorem hist_callGetReply {s : St} (c : _) (h : Hist s) (he : enabled s (.callGetReply c) = true) : Hist (eff s (.callGetReply c)) := by
  obtain ⟨a1⟩ := h
  hist_case
theorem wire_callGetReply {s : St} (c : _) (hl : Life s) (h : Wire s) (he : enabled s (.callGetReply c) = true) : Wire (eff s (.callGetReply c)) := by
  obtain ⟨a1, a2⟩ := h
  have l1 := hl.wOrigin
  have l2 := hl.wrOrigin
  wire_case
theorem outcome_callGetReply {s : St} (c : _) (h : Outcome s) (he : enabled s (.callGetReply c) = true) : Outcome (eff s (.callGetReply c)) := by
  obtain ⟨a1, a2, a3, a4, a5, a6, a7, a8, a9, a10, a11⟩ := h
  outcome_case

theorem hist_rdSeeDone {s : St}  (h : Hist s) (he : enabled s .rdSeeDone = true) : Hist (eff s .rdSeeDone) := by
  obtain ⟨a1⟩ := h
  hist_case
theorem wire_rdSeeDone {s : St}  (hl : Life s) (h : Wire s) (he : enabled s .rdSeeDone = true) : Wire (eff s .rdSeeDone) := by
  obtain ⟨a1, a2⟩ := h
  have l1 := hl.wOrigin
  have l2 := hl.wrOrigin
  wire_case
theorem outcome_rdSeeDone {s : St}  (h : Outcome s) (he : enabled s .rdSeeDone = true) : Outcome (eff s .rdSeeDone) := by
  obtain ⟨a1, a2, a3, a4, a5, a6, a7, a8, a9, a10, a11⟩ := h
  outcome_case

theorem hist_rdHeader {s : St}  (h : Hist s) (he : enabled s .rdHeader = true) : Hist (eff s .rdHeader) := by
  obtain ⟨a1⟩ := h
  hist_case
theorem wire_rdHeader {s : St}  (hl : Life s) (h : Wire s) (he : enabled s .rdHeader = true) : Wire (eff s .rdHeader) := by
  obtain ⟨a1, a2⟩ := h
  have l1 := hl.wOrigin
  have l2 := hl.wrOrigin
  wire_case
theorem outcome_rdHeader {s : St}  (h : Outcome s) (he : enabled s .rdHeader = true) : Outcome (eff s .rdHeader) := by
  obtain ⟨a1, a2, a3, a4, a5, a6, a7, a8, a9, a10, a11⟩ := h
  outcome_case

theorem hist_rdEof {s : St}  (h : Hist s) (he : enabled s .rdEof = true) : Hist (eff s .rdEof) := by
  obtain ⟨a1⟩ := h
  hist_case
theorem wire_rdEof {s : St}  (hl : Life s) (h : Wire s) (he : enabled s .rdEof = true) : Wire (eff s .rdEof) := by
  obtain ⟨a1, a2⟩ := h
  have l1 := hl.wOrigin
  have l2 := hl.wrOrigin
  wire_case
theorem outcome_rdEof {s : St}  (h : Outcome s) (he : enabled s .rdEof = true) : Outcome (eff s .rdEof) := by
  obtain ⟨a1, a2, a3, a4, a5, a6, a7, a8, a9, a10, a11⟩ := h
  outcome_case

theorem hist_rdFail {s : St}  (h : Hist s) (he : enabled s .rdFail = true) : Hist (eff s .rdFail) := by
  obtain ⟨a1⟩ := h
  hist_case
theorem wire_rdFail {s : St}  (hl : Life s) (h : Wire s) (he : enabled s .rdFail = true) : Wire (eff s .rdFail) := by
  obtain ⟨a1, a2⟩ := h
  have l1 := hl.wOrigin
  have l2 := hl.wrOrigin
  wire_case
theorem outcome_rdFail {s : St}  (h : Outcome s) (he : enabled s .rdFail = true) : Outcome (eff s .rdFail) := by
  obtain ⟨a1, a2, a3, a4, a5, a6, a7, a8, a9, a10, a11⟩ := h
  outcome_case

theorem hist_rdDispatch {s : St}  (h : Hist s) (he : enabled s .rdDispatch = true) : Hist (eff s .rdDispatch) := by
  obtain ⟨a1⟩ := h
  hist_case
theorem wire_rdDispatch {s : St}  (hl : Life s) (h : Wire s) (he : enabled s .rdDispatch = true) : Wire (eff s .rdDispatch) := by
  obtain ⟨a1, a2⟩ := h
  have l1 := hl.wOrigin
  have l2 := hl.wrOrigin
  wire_case
theorem outcome_rdDispatch {s : St}  (h : Outcome s) (he : enabled s .rdDispatch = true) : Outcome (eff s .rdDispatch) := by
  obtain ⟨a1, a2, a3, a4, a5, a6, a7, a8, a9, a10, a11⟩ := h
  outcome_case

theorem hist_rdDeliver {s : St}  (h : Hist s) (he : enabled s .rdDeliver = true) : Hist (eff s .rdDeliver) := by
  obtain ⟨a1⟩ := h
  hist_case
theorem wire_rdDeliver {s : St}  (hl : Life s) (h : Wire s) (he : enabled s .rdDeliver = true) : Wire (eff s .rdDeliver) := by
  obtain ⟨a1, a2⟩ := h
  have l1 := hl.wOrigin
  have l2 := hl.wrOrigin
  wire_case
theorem outcome_rdDeliver {s : St}  (h : Outcome s) (he : enabled s .rdDeliver = true) : Outcome (eff s .rdDeliver) := by
  obtain ⟨a1, a2, a3, a4, a5, a6, a7, a8, a9, a10, a11⟩ := h
  outcome_case

theorem hist_rdHandle {s : St}  (h : Hist s) (he : enabled s .rdHandle = true) : Hist (eff s .rdHandle) := by
  obtain ⟨a1⟩ := h
  hist_case
theorem wire_rdHandle {s : St}  (hl : Life s) (h : Wire s) (he : enabled s .rdHandle = true) : Wire (eff s .rdHandle) := by
  obtain ⟨a1, a2⟩ := h
  have l1 := hl.wOrigin
  have l2 := hl.wrOrigin
  wire_case
theorem outcome_rdHandle {s : St}  (h : Outcome s) (he : enabled s .rdHandle = true) : Outcome (eff s .rdHandle) := by
  obtain ⟨a1, a2, a3, a4, a5, a6, a7, a8, a9, a10, a11⟩ := h
  outcome_case

theorem hist_rdWaitDone {s : St}  (h : Hist s) (he : enabled s .rdWaitDone = true) : Hist (eff s .rdWaitDone) := by
  obtain ⟨a1⟩ := h
  hist_case
theorem wire_rdWaitDone {s : St}  (hl : Life s) (h : Wire s) (he : enabled s .rdWaitDone = true) : Wire (eff s .rdWaitDone) := by
  obtain ⟨a1, a2⟩ := h
  have l1 := hl.wOrigin
  have l2 := hl.wrOrigin
  wire_case
theorem outcome_rdWaitDone {s : St}  (h : Outcome s) (he : enabled s .rdWaitDone = true) : Outcome (eff s .rdWaitDone) := by
  obtain ⟨a1, a2, a3, a4, a5, a6, a7, a8, a9, a10, a11⟩ := h
  outcome_case

theorem hist_wrSeeDone {s : St}  (h : Hist s) (he : enabled s .wrSeeDone = true) : Hist (eff s .wrSeeDone) := by
  obtain ⟨a1⟩ := h
  hist_case
theorem wire_wrSeeDone {s : St}  (hl : Life s) (h : Wire s) (he : enabled s .wrSeeDone = true) : Wire (eff s .wrSeeDone) := by
  obtain ⟨a1, a2⟩ := h
  have l1 := hl.wOrigin
  have l2 := hl.wrOrigin
  wire_case
theorem outcome_wrSeeDone {s : St}  (h : Outcome s) (he : enabled s .wrSeeDone = true) : Outcome (eff s .wrSeeDone) := by
  obtain ⟨a1, a2, a3, a4, a5, a6, a7, a8, a9, a10, a11⟩ := h
  outcome_case

theorem hist_wrPickAck {s : St}  (h : Hist s) (he : enabled s .wrPickAck = true) : Hist (eff s .wrPickAck) := by
  obtain ⟨a1⟩ := h
  hist_case
theorem wire_wrPickAck {s : St}  (hl : Life s) (h : Wire s) (he : enabled s .wrPickAck = true) : Wire (eff s .wrPickAck) := by
  obtain ⟨a1, a2⟩ := h
  have l1 := hl.wOrigin
  have l2 := hl.wrOrigin
  wire_case
theorem outcome_wrPickAck {s : St}  (h : Outcome s) (he : enabled s .wrPickAck = true) : Outcome (eff s .wrPickAck) := by
  obtain ⟨a1, a2, a3, a4, a5, a6, a7, a8, a9, a10, a11⟩ := h
  outcome_case

theorem hist_wrPickReq {s : St} (c : _) (h : Hist s) (he : enabled s (.wrPickReq c) = true) : Hist (eff s (.wrPickReq c)) := by
  obtain ⟨a1⟩ := h
  hist_case
theorem wire_wrPickReq {s : St} (c : _) (hl : Life s) (h : Wire s) (he : enabled s (.wrPickReq c) = true) : Wire (eff s (.wrPickReq c)) := by
  obtain ⟨a1, a2⟩ := h
  have l1 := hl.wOrigin
  have l2 := hl.wrOrigin
  wire_case
theorem outcome_wrPickReq {s : St} (c : _) (h : Outcome s) (he : enabled s (.wrPickReq c) = true) : Outcome (eff s (.wrPickReq c)) := by
  obtain ⟨a1, a2, a3, a4, a5, a6, a7, a8, a9, a10, a11⟩ := h
  outcome_case

theorem hist_wrWrite {s : St}  (h : Hist s) (he : enabled s .wrWrite = true) : Hist (eff s .wrWrite) := by
  obtain ⟨a1⟩ := h
  hist_case
theorem wire_wrWrite {s : St}  (hl : Life s) (h : Wire s) (he : enabled s .wrWrite = true) : Wire (eff s .wrWrite) := by
  obtain ⟨a1, a2⟩ := h
  have l1 := hl.wOrigin
  have l2 := hl.wrOrigin
  wire_case
theorem outcome_wrWrite {s : St}  (h : Outcome s) (he : enabled s .wrWrite = true) : Outcome (eff s .wrWrite) := by
  obtain ⟨a1, a2, a3, a4, a5, a6, a7, a8, a9, a10, a11⟩ := h
  outcome_case

theorem hist_wrFail {s : St}  (h : Hist s) (he : enabled s .wrFail = true) : Hist (eff s .wrFail) := by
  obtain ⟨a1⟩ := h
  hist_case
theorem wire_wrFail {s : St}  (hl : Life s) (h : Wire s) (he : enabled s .wrFail = true) : Wire (eff s .wrFail) := by
  obtain ⟨a1, a2⟩ := h
  have l1 := hl.wOrigin
  have l2 := hl.wrOrigin
  wire_case
theorem outcome_wrFail {s : St}  (h : Outcome s) (he : enabled s .wrFail = true) : Outcome (eff s .wrFail) := by
  obtain ⟨a1, a2, a3, a4, a5, a6, a7, a8, a9, a10, a11⟩ := h
  outcome_case

theorem hist_wrParkedDone {s : St}  (h : Hist s) (he : enabled s .wrParkedDone = true) : Hist (eff s .wrParkedDone) := by
  obtain ⟨a1⟩ := h
  hist_case
theorem wire_wrParkedDone {s : St}  (hl : Life s) (h : Wire s) (he : enabled s .wrParkedDone = true) : Wire (eff s .wrParkedDone) := by
  obtain ⟨a1, a2⟩ := h
  have l1 := hl.wOrigin
  have l2 := hl.wrOrigin
  wire_case
theorem outcome_wrParkedDone {s : St}  (h : Outcome s) (he : enabled s .wrParkedDone = true) : Outcome (eff s .wrParkedDone) := by
  obtain ⟨a1, a2, a3, a4, a5, a6, a7, a8, a9, a10, a11⟩ := h
  outcome_case

theorem hist_connStart {s : St}  (h : Hist s) (he : enabled s .connStart = true) : Hist (eff s .connStart) := by
  obtain ⟨a1⟩ := h
  hist_case
theorem wire_connStart {s : St}  (hl : Life s) (h : Wire s) (he : enabled s .connStart = true) : Wire (eff s .connStart) := by
  obtain ⟨a1, a2⟩ := h
  have l1 := hl.wOrigin
  have l2 := hl.wrOrigin
  wire_case
theorem outcome_connStart {s : St}  (h : Outcome s) (he : enabled s .connStart = true) : Outcome (eff s .connStart) := by
  obtain ⟨a1, a2, a3, a4, a5, a6, a7, a8, a9, a10, a11⟩ := h
  outcome_case

theorem hist_connInitial {s : St} (p : _) (n : _) (h : Hist s) (he : enabled s (.connInitial p n) = true) : Hist (eff s (.connInitial p n)) := by
  obtain ⟨a1⟩ := h
  simp only [eff]
  split
  · rename_i f rest hi
    have : (s.received ++ rest).Sublist s.peerSent := by
      rw [hi] at a1
      exact List.Sublist.trans (List.Sublist.append_left (List.sublist_cons_self f rest) _) a1
    split <;> constructor <;> exact this
  · exact ⟨a1⟩
theorem wire_connInitial {s : St} (p : _) (n : _) (hl : Life s) (h : Wire s) (he : enabled s (.connInitial p n) = true) : Wire (eff s (.connInitial p n)) := by
  obtain ⟨a1, a2⟩ := h
  have l1 := hl.wOrigin
  have l2 := hl.wrOrigin
  wire_case
theorem outcome_connInitial {s : St} (p : _) (n : _) (h : Outcome s) (he : enabled s (.connInitial p n) = true) : Outcome (eff s (.connInitial p n)) := by
  obtain ⟨a1, a2, a3, a4, a5, a6, a7, a8, a9, a10, a11⟩ := h
  outcome_case

theorem hist_connInitialFail {s : St} (e : _) (h : Hist s) (he : enabled s (.connInitialFail e) = true) : Hist (eff s (.connInitialFail e)) := by
  obtain ⟨a1⟩ := h
  hist_case
theorem wire_connInitialFail {s : St} (e : _) (hl : Life s) (h : Wire s) (he : enabled s (.connInitialFail e) = true) : Wire (eff s (.connInitialFail e)) := by
  obtain ⟨a1, a2⟩ := h
  have l1 := hl.wOrigin
  have l2 := hl.wrOrigin
  wire_case
theorem outcome_connInitialFail {s : St} (e : _) (h : Outcome s) (he : enabled s (.connInitialFail e) = true) : Outcome (eff s (.connInitialFail e)) := by
  obtain ⟨a1, a2, a3, a4, a5, a6, a7, a8, a9, a10, a11⟩ := h
  outcome_case

theorem hist_connRejectReady {s : St}  (h : Hist s) (he : enabled s .connRejectReady = true) : Hist (eff s .connRejectReady) := by
  obtain ⟨a1⟩ := h
  hist_case
theorem wire_connRejectReady {s : St}  (hl : Life s) (h : Wire s) (he : enabled s .connRejectReady = true) : Wire (eff s .connRejectReady) := by
  obtain ⟨a1, a2⟩ := h
  have l1 := hl.wOrigin
  have l2 := hl.wrOrigin
  wire_case
theorem outcome_connRejectReady {s : St}  (h : Outcome s) (he : enabled s .connRejectReady = true) : Outcome (eff s .connRejectReady) := by
  obtain ⟨a1, a2, a3, a4, a5, a6, a7, a8, a9, a10, a11⟩ := h
  outcome_case

theorem hist_connNegSend {s : St} (c : _) (t : _) (p : _) (h : Hist s) (he : enabled s (.connNegSend c t p) = true) : Hist (eff s (.connNegSend c t p)) := by
  obtain ⟨a1⟩ := h
  hist_case
theorem wire_connNegSend {s : St} (c : _) (t : _) (p : _) (hl : Life s) (h : Wire s) (he : enabled s (.connNegSend c t p) = true) : Wire (eff s (.connNegSend c t p)) := by
  obtain ⟨a1, a2⟩ := h
  have l1 := hl.wOrigin
  have l2 := hl.wrOrigin
  wire_case
theorem outcome_connNegSend {s : St} (c : _) (t : _) (p : _) (h : Outcome s) (he : enabled s (.connNegSend c t p) = true) : Outcome (eff s (.connNegSend c t p)) := by
  obtain ⟨a1, a2, a3, a4, a5, a6, a7, a8, a9, a10, a11⟩ := h
  outcome_case

theorem hist_connNegDone {s : St} (n : _) (h : Hist s) (he : enabled s (.connNegDone n) = true) : Hist (eff s (.connNegDone n)) := by
  obtain ⟨a1⟩ := h
  hist_case
theorem wire_connNegDone {s : St} (n : _) (hl : Life s) (h : Wire s) (he : enabled s (.connNegDone n) = true) : Wire (eff s (.connNegDone n)) := by
  obtain ⟨a1, a2⟩ := h
  have l1 := hl.wOrigin
  have l2 := hl.wrOrigin
  wire_case
theorem outcome_connNegDone {s : St} (n : _) (h : Outcome s) (he : enabled s (.connNegDone n) = true) : Outcome (eff s (.connNegDone n)) := by
  obtain ⟨a1, a2, a3, a4, a5, a6, a7, a8, a9, a10, a11⟩ := h
  outcome_case

theorem hist_connNegErrs {s : St}  (h : Hist s) (he : enabled s .connNegErrs = true) : Hist (eff s .connNegErrs) := by
  obtain ⟨a1⟩ := h
  hist_case
theorem wire_connNegErrs {s : St}  (hl : Life s) (h : Wire s) (he : enabled s .connNegErrs = true) : Wire (eff s .connNegErrs) := by
  obtain ⟨a1, a2⟩ := h
  have l1 := hl.wOrigin
  have l2 := hl.wrOrigin
  wire_case
theorem outcome_connNegErrs {s : St}  (h : Outcome s) (he : enabled s .connNegErrs = true) : Outcome (eff s .connNegErrs) := by
  obtain ⟨a1, a2, a3, a4, a5, a6, a7, a8, a9, a10, a11⟩ := h
  outcome_case

theorem hist_connNegClosed {s : St}  (h : Hist s) (he : enabled s .connNegClosed = true) : Hist (eff s .connNegClosed) := by
  obtain ⟨a1⟩ := h
  hist_case
theorem wire_connNegClosed {s : St}  (hl : Life s) (h : Wire s) (he : enabled s .connNegClosed = true) : Wire (eff s .connNegClosed) := by
  obtain ⟨a1, a2⟩ := h
  have l1 := hl.wOrigin
  have l2 := hl.wrOrigin
  wire_case
theorem outcome_connNegClosed {s : St}  (h : Outcome s) (he : enabled s .connNegClosed = true) : Outcome (eff s .connNegClosed) := by
  obtain ⟨a1, a2, a3, a4, a5, a6, a7, a8, a9, a10, a11⟩ := h
  simp [enabled] at he
  outcome_case

theorem hist_connReady {s : St}  (h : Hist s) (he : enabled s .connReady = true) : Hist (eff s .connReady) := by
  obtain ⟨a1⟩ := h
  hist_case
theorem wire_connReady {s : St}  (hl : Life s) (h : Wire s) (he : enabled s .connReady = true) : Wire (eff s .connReady) := by
  obtain ⟨a1, a2⟩ := h
  have l1 := hl.wOrigin
  have l2 := hl.wrOrigin
  wire_case
theorem outcome_connReady {s : St}  (h : Outcome s) (he : enabled s .connReady = true) : Outcome (eff s .connReady) := by
  obtain ⟨a1, a2, a3, a4, a5, a6, a7, a8, a9, a10, a11⟩ := h
  outcome_case

theorem hist_connServeErr {s : St}  (h : Hist s) (he : enabled s .connServeErr = true) : Hist (eff s .connServeErr) := by
  obtain ⟨a1⟩ := h
  hist_case
theorem wire_connServeErr {s : St}  (hl : Life s) (h : Wire s) (he : enabled s .connServeErr = true) : Wire (eff s .connServeErr) := by
  obtain ⟨a1, a2⟩ := h
  have l1 := hl.wOrigin
  have l2 := hl.wrOrigin
  wire_case
theorem outcome_connServeErr {s : St}  (h : Outcome s) (he : enabled s .connServeErr = true) : Outcome (eff s .connServeErr) := by
  obtain ⟨a1, a2, a3, a4, a5, a6, a7, a8, a9, a10, a11⟩ := h
  outcome_case

theorem hist_connServeDone {s : St}  (h : Hist s) (he : enabled s .connServeDone = true) : Hist (eff s .connServeDone) := by
  obtain ⟨a1⟩ := h
  hist_case
theorem wire_connServeDone {s : St}  (hl : Life s) (h : Wire s) (he : enabled s .connServeDone = true) : Wire (eff s .connServeDone) := by
  obtain ⟨a1, a2⟩ := h
  have l1 := hl.wOrigin
  have l2 := hl.wrOrigin
  wire_case
theorem outcome_connServeDone {s : St}  (h : Outcome s) (he : enabled s .connServeDone = true) : Outcome (eff s .connServeDone) := by
  obtain ⟨a1, a2, a3, a4, a5, a6, a7, a8, a9, a10, a11⟩ := h
  outcome_case

theorem hist_connReturn {s : St}  (h : Hist s) (he : enabled s .connReturn = true) : Hist (eff s .connReturn) := by
  obtain ⟨a1⟩ := h
  hist_case
theorem wire_connReturn {s : St}  (hl : Life s) (h : Wire s) (he : enabled s .connReturn = true) : Wire (eff s .connReturn) := by
  obtain ⟨a1, a2⟩ := h
  have l1 := hl.wOrigin
  have l2 := hl.wrOrigin
  wire_case
theorem outcome_connReturn {s : St}  (h : Outcome s) (he : enabled s .connReturn = true) : Outcome (eff s .connReturn) := by
  obtain ⟨a1, a2, a3, a4, a5, a6, a7, a8, a9, a10, a11⟩ := h
  outcome_case

theorem hist_connFailReturn {s : St}  (h : Hist s) (he : enabled s .connFailReturn = true) : Hist (eff s .connFailReturn) := by
  obtain ⟨a1⟩ := h
  hist_case
theorem wire_connFailReturn {s : St}  (hl : Life s) (h : Wire s) (he : enabled s .connFailReturn = true) : Wire (eff s .connFailReturn) := by
  obtain ⟨a1, a2⟩ := h
  have l1 := hl.wOrigin
  have l2 := hl.wrOrigin
  wire_case
theorem outcome_connFailReturn {s : St}  (h : Outcome s) (he : enabled s .connFailReturn = true) : Outcome (eff s .connFailReturn) := by
  obtain ⟨a1, a2, a3, a4, a5, a6, a7, a8, a9, a10, a11⟩ := h
  outcome_case

theorem hist_step {s : St} {a : Act} (h : Hist s) (he : enabled s a = true) : Hist (eff s a) := by
  cases a with
  | peerSend f => exact hist_peerSend f h he
  | peerClose  => exact hist_peerClose  h he
  | callIssue c t p n => exact hist_callIssue c t p n h he
  | cancel c => exact hist_cancel c h he
  | close  => exact hist_close  h he
  | callReady c => exact hist_callReady c h he
  | callSeeDone c => exact hist_callSeeDone c h he
  | callSeeCtx c => exact hist_callSeeCtx c h he
  | callToken c => exact hist_callToken c h he
  | callGetReply c => exact hist_callGetReply c h he
  | rdSeeDone  => exact hist_rdSeeDone  h he
  | rdHeader  => exact hist_rdHeader  h he
  | rdEof  => exact hist_rdEof  h he
  | rdFail  => exact hist_rdFail  h he
  | rdDispatch  => exact hist_rdDispatch  h he
  | rdDeliver  => exact hist_rdDeliver  h he
  | rdHandle  => exact hist_rdHandle  h he
  | rdWaitDone  => exact hist_rdWaitDone  h he
  | wrSeeDone  => exact hist_wrSeeDone  h he
  | wrPickAck  => exact hist_wrPickAck  h he
  | wrPickReq c => exact hist_wrPickReq c h he
  | wrWrite  => exact hist_wrWrite  h he
  | wrFail  => exact hist_wrFail  h he
  | wrParkedDone  => exact hist_wrParkedDone  h he
  | connStart  => exact hist_connStart  h he
  | connInitial p n => exact hist_connInitial p n h he
  | connInitialFail e => exact hist_connInitialFail e h he
  | connRejectReady  => exact hist_connRejectReady  h he
  | connNegSend c t p => exact hist_connNegSend c t p h he
  | connNegDone n => exact hist_connNegDone n h he
  | connNegErrs  => exact hist_connNegErrs  h he
  | connNegClosed  => exact hist_connNegClosed  h he
  | connReady  => exact hist_connReady  h he
  | connServeErr  => exact hist_connServeErr  h he
  | connServeDone  => exact hist_connServeDone  h he
  | connReturn  => exact hist_connReturn  h he
  | connFailReturn  => exact hist_connFailReturn  h he

theorem wire_step {s : St} {a : Act} (hl : Life s) (h : Wire s) (he : enabled s a = true) : Wire (eff s a) := by
  cases a with
  | peerSend f => exact wire_peerSend f hl h he
  | peerClose  => exact wire_peerClose  hl h he
  | callIssue c t p n => exact wire_callIssue c t p n hl h he
  | cancel c => exact wire_cancel c hl h he
  | close  => exact wire_close  hl h he
  | callReady c => exact wire_callReady c hl h he
  | callSeeDone c => exact wire_callSeeDone c hl h he
  | callSeeCtx c => exact wire_callSeeCtx c hl h he
  | callToken c => exact wire_callToken c hl h he
  | callGetReply c => exact wire_callGetReply c hl h he
  | rdSeeDone  => exact wire_rdSeeDone  hl h he
  | rdHeader  => exact wire_rdHeader  hl h he
  | rdEof  => exact wire_rdEof  hl h he
  | rdFail  => exact wire_rdFail  hl h he
  | rdDispatch  => exact wire_rdDispatch  hl h he
  | rdDeliver  => exact wire_rdDeliver  hl h he
  | rdHandle  => exact wire_rdHandle  hl h he
  | rdWaitDone  => exact wire_rdWaitDone  hl h he
  | wrSeeDone  => exact wire_wrSeeDone  hl h he
  | wrPickAck  => exact wire_wrPickAck  hl h he
  | wrPickReq c => exact wire_wrPickReq c hl h he
  | wrWrite  => exact wire_wrWrite  hl h he
  | wrFail  => exact wire_wrFail  hl h he
  | wrParkedDone  => exact wire_wrParkedDone  hl h he
  | connStart  => exact wire_connStart  hl h he
  | connInitial p n => exact wire_connInitial p n hl h he
  | connInitialFail e => exact wire_connInitialFail e hl h he
  | connRejectReady  => exact wire_connRejectReady  hl h he
  | connNegSend c t p => exact wire_connNegSend c t p hl h he
  | connNegDone n => exact wire_connNegDone n hl h he
  | connNegErrs  => exact wire_connNegErrs  hl h he
  | connNegClosed  => exact wire_connNegClosed  hl h he
  | connReady  => exact wire_connReady  hl h he
  | connServeErr  => exact wire_connServeErr  hl h he
  | connServeDone  => exact wire_connServeDone  hl h he
  | connReturn  => exact wire_connReturn  hl h he
  | connFailReturn  => exact wire_connFailReturn  hl h he

theorem outcome_step {s : St} {a : Act} (h : Outcome s) (he : enabled s a = true) : Outcome (eff s a) := by
  cases a with
  | peerSend f => exact outcome_peerSend f h he
  | peerClose  => exact outcome_peerClose  h he
  | callIssue c t p n => exact outcome_callIssue c t p n h he
  | cancel c => exact outcome_cancel c h he
  | close  => exact outcome_close  h he
  | callReady c => exact outcome_callReady c h he
  | callSeeDone c => exact outcome_callSeeDone c h he
  | callSeeCtx c => exact outcome_callSeeCtx c h he
  | callToken c => exact outcome_callToken c h he
  | callGetReply c => exact outcome_callGetReply c h he
  | rdSeeDone  => exact outcome_rdSeeDone  h he
  | rdHeader  => exact outcome_rdHeader  h he
  | rdEof  => exact outcome_rdEof  h he
  | rdFail  => exact outcome_rdFail  h he
  | rdDispatch  => exact outcome_rdDispatch  h he
  | rdDeliver  => exact outcome_rdDeliver  h he
  | rdHandle  => exact outcome_rdHandle  h he
  | rdWaitDone  => exact outcome_rdWaitDone  h he
  | wrSeeDone  => exact outcome_wrSeeDone  h he
  | wrPickAck  => exact outcome_wrPickAck  h he
  | wrPickReq c => exact outcome_wrPickReq c h he
  | wrWrite  => exact outcome_wrWrite  h he
  | wrFail  => exact outcome_wrFail  h he
  | wrParkedDone  => exact outcome_wrParkedDone  h he
  | connStart  => exact outcome_connStart  h he
  | connInitial p n => exact outcome_connInitial p n h he
  | connInitialFail e => exact outcome_connInitialFail e h he
  | connRejectReady  => exact outcome_connRejectReady  h he
  | connNegSend c t p => exact outcome_connNegSend c t p h he
  | connNegDone n => exact outcome_connNegDone n h he
  | connNegErrs  => exact outcome_connNegErrs  h he
  | connNegClosed  => exact outcome_connNegClosed  h he
  | connReady  => exact outcome_connReady  h he
  | connServeErr  => exact outcome_connServeErr  h he
  | connServeDone  => exact outcome_connServeDone  h he
  | connReturn  => exact outcome_connReturn  h he
  | connFailReturn  => exact outcome_connFailReturn  h he


structure All (s : St) : Prop where
  corr : Corr s
  life : Life s
  hist : Hist s
  wire : Wire s
  outcome : Outcome s

theorem all_reachable {s : St} (h : Reachable s) : All s := by
  induction h with
  | init => exact ⟨corr_init, life_init, hist_init, wire_init, outcome_init⟩
  | step a _ ih =>
    unfold step; split
    · rename_i he
      exact ⟨corr_step ih.corr he, life_step ih.life he, hist_step ih.hist he, wire_step ih.life ih.wire he, outcome_step ih.outcome he⟩
    · exact ih

end LLRP.LTS
