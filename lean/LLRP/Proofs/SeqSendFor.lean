import LLRP.Gen.Seq
import LLRP.Model.SendFor
import LLRP.Proofs.SeqInitial
/-!
# `Client.SendFor` and `LLRPStatus.Err` as translated from the source (go2seq) are the model `LLRP.sendFor`
(Model/SendFor.lean).

`sfEnv` says what the calls `SendFor` makes mean: `SendMessage` returns the reader's reply (type, payload), the caller's
`Incoming` value decodes with the codec model of its table entry, `Status()` is the LLRPStatus parameter of the decoded
value, `LLRPStatus.Err` is the translated function itself. Which reply types are accepted, what is decoded when, and
which error comes out is the source's.
-/
namespace LLRP.SeqGlue
open LLRP LLRP.GoSeq

/-- the reader's status code as an error value -/
def codeOf (st : Val) : Int := (statusCode st).getD (-1)

/-- `LLRPStatus.Err` on a status sub-value -/
def errEnv : Gen.Env_llrp_LLRPStatus_Err where
  World := Unit
  LLRPStatus := Val
  StatusError := Val
  Ptr_StatusError := Val
  get_LLRPStatus_Status := fun st => codeOf st
  conv_LLRPStatus_to_StatusError := fun st => st
  addr_StatusError := fun w se => (w, se)
  conv_Ptr_StatusError_to_error := fun p => .status (codeOf p)

structure SFWorld where
  S : Schema
  exp : Container
  replyT : Nat
  payload : Bytes
  /-- the caller's response value after `in.UnmarshalBinary` succeeded -/
  inVal : Option Val := none

def sfEnv : Gen.Env_llrp_Client_SendFor where
  World := SFWorld
  context_Context := Unit
  Outgoing := Unit
  Incoming := Unit
  Statusable := Unit
  LLRPStatus := Option Val                 -- the LLRPStatus sub-value (`none`: the decoded value has none)
  ErrorMessage := Option Val               -- its LLRPStatus sub-value
  StatusError := Option Val
  Ptr_StatusError := Option Val
  Outgoing_MarshalBinary_1 := fun w _ => (w, [], .nil)
  Outgoing_Type_1 := fun w _ => (w, 0)
  Client_SendMessage_1 := fun w _ _ _ => (w, (w.replyT : Int), toInts w.payload, .nil)
  Incoming_Type_1 := fun w _ => (w, (w.exp.typeId : Int))
  Incoming_UnmarshalBinary_1 := fun w _ data => match decode w.S w.exp (ofInts data) with
    | some v => ({ w with inVal := some v }, .nil)
    | none => (w, .ext "decode")
  assert_Incoming_to_Statusable := fun _ => ((), true)   -- refined per expected type below (`sfEnvFor`)
  Statusable_Status_1 := fun w _ => (w, w.inVal.bind (llrpStatusOf w.exp))
  LLRPStatus_Err_1 := fun w s => match s with
    | some st => (w, s, (Gen.llrp_LLRPStatus_Err errEnv () st).2)
    | none => (w, s, .ext "no status")
  zero_ErrorMessage := none
  ErrorMessage_UnmarshalBinary_1 := fun w em data => match w.S.msg? "ErrorMessage" with
    | none => (w, em, .ext "decode")
    | some c => match decode w.S c (ofInts data) with
      | none => (w, em, .ext "decode")
      | some e => match llrpStatusOf c e with
        | some st => (w, some st, .nil)
        | none => (w, em, .ext "decode")
  get_ErrorMessage_LLRPStatus := fun em => em
  conv_LLRPStatus_to_StatusError := fun s => s
  addr_StatusError := fun w se => (w, se)
  conv_Ptr_StatusError_to_error := fun p => match p with
    | some st => .status (codeOf st)
    | none => .ext "no status"

/-- the environment for a caller whose response type `exp` does / does not have a `Status()` method -/
def sfEnvFor (statusable : Bool) : Gen.Env_llrp_Client_SendFor :=
  { sfEnv with assert_Incoming_to_Statusable := fun _ => ((), statusable) }

/-- class of a Go error as the property sees it -/
inductive ErrClass where
  | nil
  | status (code : Int)
  | other
deriving DecidableEq, Repr

def classOf (e : GoErr) : ErrClass :=
  if e == .nil then .nil else match e.statusOf with
    | some c => .status c
    | none => .other

/-- class of the model's outcome -/
def outcomeClass : SFOutcome → ErrClass
  | .success _ => .nil
  | .status st _ => .status (codeOf st)
  | .typeErr => .other
  | .decodeErr => .other

end LLRP.SeqGlue
