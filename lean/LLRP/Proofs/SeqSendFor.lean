import LLRP.Gen.Seq
import LLRP.Model.SendFor
import LLRP.Proofs.SeqInitial
/-!
# `Client.SendFor` and `LLRPStatus.Err` as translated from the source (go2seq) are the model `LLRP.sendFor`
(Model/SendFor.lean).

`sfEnv` says what the calls `SendFor` makes mean: `SendMessage` returns the reader's reply (type, payload), the caller's
`Incoming` value decodes with the codec model of its table entry, `Status()` is the LLRPStatus parameter of the decoded
value, `LLRPStatus.Err` is the translated function itself. Which reply types are accepted, what is decoded when, and
which error comes out is the source's.
-/
namespace LLRP.SeqGlue
open LLRP LLRP.GoSeq

/-- the reader's status code as an error value -/
def codeOf (st : Val) : Int := (statusCode st).getD (-1)

/-- `LLRPStatus.Err` on a status sub-value -/
def errEnv : Gen.Env_llrp_LLRPStatus_Err where
  World := Unit
  LLRPStatus := Val
  StatusError := Val
  Ptr_StatusError := Val
  get_LLRPStatus_Status := fun st => codeOf st
  conv_LLRPStatus_to_StatusError := fun st => st
  addr_StatusError := fun w se => (w, se)
  conv_Ptr_StatusError_to_error := fun p => .status (codeOf p)

structure SFWorld where
  S : Schema
  exp : Container
  replyT : Nat
  payload : Bytes
  /-- the caller's response value after `in.UnmarshalBinary` succeeded -/
  inVal : Option Val := none

def sfEnv : Gen.Env_llrp_Client_SendFor where
  World := SFWorld
  context_Context := Unit
  Outgoing := Unit
  Incoming := Unit
  Statusable := Unit
  LLRPStatus := Option Val                 -- the LLRPStatus sub-value (`none`: the decoded value has none)
  ErrorMessage := Option Val               -- its LLRPStatus sub-value
  StatusError := Option Val
  Ptr_StatusError := Option Val
  Outgoing_MarshalBinary_1 := fun w _ => (w, [], .nil)
  Outgoing_Type_1 := fun w _ => (w, 0)
  Client_SendMessage_1 := fun w _ _ _ => (w, (w.replyT : Int), toInts w.payload, .nil)
  Incoming_Type_1 := fun w _ => (w, (w.exp.typeId : Int))
  Incoming_UnmarshalBinary_1 := fun w _ data => match decode w.S w.exp (ofInts data) with
    | some v => ({ w with inVal := some v }, .nil)
    | none => (w, .ext "decode")
  assert_Incoming_to_Statusable := fun _ => ((), true)   -- refined per expected type below (`sfEnvFor`)
  Statusable_Status_1 := fun w _ => (w, w.inVal.bind (llrpStatusOf w.exp))
  LLRPStatus_Err_1 := fun w s => match s with
    | some st => (w, s, (Gen.llrp_LLRPStatus_Err errEnv () st).2)
    | none => (w, s, .ext "no status")
  zero_ErrorMessage := none
  ErrorMessage_UnmarshalBinary_1 := fun w em data => match w.S.msg? "ErrorMessage" with
    | none => (w, em, .ext "decode")
    | some c => match decode w.S c (ofInts data) with
      | none => (w, em, .ext "decode")
      | some e => match llrpStatusOf c e with
        | some st => (w, some st, .nil)
        | none => (w, em, .ext "decode")
  get_ErrorMessage_LLRPStatus := fun em => em
  conv_LLRPStatus_to_StatusError := fun s => s
  addr_StatusError := fun w se => (w, se)
  conv_Ptr_StatusError_to_error := fun p => match p with
    | some st => .status (codeOf st)
    | none => .ext "no status"

/-- the environment for a caller whose response type `exp` does / does not have a `Status()` method -/
def sfEnvFor (statusable : Bool) : Gen.Env_llrp_Client_SendFor :=
  { sfEnv with assert_Incoming_to_Statusable := fun _ => ((), statusable) }

/-- class of a Go error as the property sees it -/
inductive ErrClass where
  | nil
  | status (code : Int)
  | other
deriving DecidableEq, Repr

def classOf (e : GoErr) : ErrClass :=
  if e == .nil then .nil else match e.statusOf with
    | some c => .status c
    | none => .other

/-- class of the model's outcome -/
def outcomeClass : SFOutcome → ErrClass
  | .success _ => .nil
  | .status st _ => .status (codeOf st)
  | .typeErr => .other
  | .decodeErr => .other

/-- the caller's response value as the model leaves it -/
def outcomeVal : SFOutcome → Option Val
  | .success v => some v
  | .status _ iv => iv
  | .typeErr => none
  | .decodeErr => none

theorem err_spec (st : Val) :
    (Gen.llrp_LLRPStatus_Err errEnv () st).2 = if codeOf st = 0 then GoErr.nil else GoErr.status (codeOf st) := by
  by_cases h : codeOf st = 0 <;> simp [Gen.llrp_LLRPStatus_Err, errEnv, h]

theorem codeOf_zero_iff (st : Val) : codeOf st = 0 ↔ statusCode st = some 0 := by
  unfold codeOf
  cases h : statusCode st with
  | none => simp
  | some c => simp

theorem src_sendFor (S : Schema) (exp : Container) (replyT : Nat) (payload : Bytes) :
    classOf (Gen.llrp_Client_SendFor (sfEnvFor exp.statusable) ⟨S, exp, replyT, payload, none⟩ () () ()).2
      = outcomeClass (sendFor S exp replyT payload) := by
  unfold sendFor
  by_cases ht : replyT = exp.typeId
  · have ht' : ((replyT : Int) = (exp.typeId : Int)) := by omega
    cases hd : decode S exp payload with
    | none =>
      simp [Gen.llrp_Client_SendFor, sfEnvFor, sfEnv, ht, hd, ofInts_toInts, classOf, outcomeClass, GoErr.statusOf]
    | some v =>
      by_cases hs : exp.statusable = true
      · cases hst : llrpStatusOf exp v with
        | none =>
          simp [Gen.llrp_Client_SendFor, sfEnvFor, sfEnv, ht, hd, ofInts_toInts, classOf, outcomeClass, GoErr.statusOf, hs, hst]
        | some st =>
          by_cases h0 : statusCode st = some 0
          · have : codeOf st = 0 := (codeOf_zero_iff st).mpr h0
            simp [Gen.llrp_Client_SendFor, sfEnvFor, sfEnv, ht, hd, ofInts_toInts, classOf, outcomeClass, GoErr.statusOf, hs, hst, h0, err_spec, this]
          · have : ¬ codeOf st = 0 := fun h => h0 ((codeOf_zero_iff st).mp h)
            simp [Gen.llrp_Client_SendFor, sfEnvFor, sfEnv, ht, hd, ofInts_toInts, classOf, outcomeClass, GoErr.statusOf, hs, hst, h0, err_spec, this]
      · simp [Gen.llrp_Client_SendFor, sfEnvFor, sfEnv, ht, hd, ofInts_toInts, classOf, outcomeClass, GoErr.statusOf, hs]
  · have ht' : ¬ ((replyT : Int) = (exp.typeId : Int)) := by omega
    by_cases he : replyT = errorMessageType
    · subst he
      have ht' : ¬ ((errorMessageType : Int) = (exp.typeId : Int)) := by omega
      have he' : ((errorMessageType : Int) = 100) := by decide
      have he : errorMessageType = errorMessageType := rfl
      have h100 : ¬ ((100 : Int) = (exp.typeId : Int)) := by unfold errorMessageType at ht; omega
      cases hm : S.msg? "ErrorMessage" with
      | none => simp [Gen.llrp_Client_SendFor, sfEnvFor, sfEnv, ht, ht', he, he', h100, hm, ofInts_toInts, classOf, outcomeClass, GoErr.statusOf]
      | some em =>
        cases hd : decode S em payload with
        | none => simp [Gen.llrp_Client_SendFor, sfEnvFor, sfEnv, ht, ht', he, he', h100, hm, hd, ofInts_toInts, classOf, outcomeClass, GoErr.statusOf]
        | some e =>
          cases hst : llrpStatusOf em e with
          | none => simp [Gen.llrp_Client_SendFor, sfEnvFor, sfEnv, ht, ht', he, he', h100, hm, hd, hst, ofInts_toInts, classOf, outcomeClass, GoErr.statusOf]
          | some st => simp [Gen.llrp_Client_SendFor, sfEnvFor, sfEnv, ht, ht', he, he', h100, hm, hd, hst, ofInts_toInts, classOf, outcomeClass, GoErr.statusOf]
    · have he' : ¬ ((replyT : Int) = 100) := by unfold errorMessageType at he; omega
      simp [Gen.llrp_Client_SendFor, sfEnvFor, sfEnv, ht, ht', he, he', classOf, outcomeClass, GoErr.statusOf]

theorem src_sendFor_value (S : Schema) (exp : Container) (replyT : Nat) (payload : Bytes)
    (hne : sendFor S exp replyT payload ≠ .decodeErr) :
    (Gen.llrp_Client_SendFor (sfEnvFor exp.statusable) ⟨S, exp, replyT, payload, none⟩ () () ()).1.inVal
      = outcomeVal (sendFor S exp replyT payload) := by
  revert hne
  unfold sendFor
  by_cases ht : replyT = exp.typeId
  · have ht' : ((replyT : Int) = (exp.typeId : Int)) := by omega
    cases hd : decode S exp payload with
    | none =>
      simp [Gen.llrp_Client_SendFor, sfEnvFor, sfEnv, ht, hd, ofInts_toInts, outcomeVal]
    | some v =>
      by_cases hs : exp.statusable = true
      · cases hst : llrpStatusOf exp v with
        | none =>
          simp [Gen.llrp_Client_SendFor, sfEnvFor, sfEnv, ht, hd, ofInts_toInts, outcomeVal, hs, hst]
        | some st =>
          by_cases h0 : statusCode st = some 0
          · have : codeOf st = 0 := (codeOf_zero_iff st).mpr h0
            simp [Gen.llrp_Client_SendFor, sfEnvFor, sfEnv, ht, hd, ofInts_toInts, outcomeVal, hs, hst, h0, err_spec, this]
          · have : ¬ codeOf st = 0 := fun h => h0 ((codeOf_zero_iff st).mp h)
            simp [Gen.llrp_Client_SendFor, sfEnvFor, sfEnv, ht, hd, ofInts_toInts, outcomeVal, hs, hst, h0, err_spec, this]
      · simp [Gen.llrp_Client_SendFor, sfEnvFor, sfEnv, ht, hd, ofInts_toInts, outcomeVal, hs]
  · have ht' : ¬ ((replyT : Int) = (exp.typeId : Int)) := by omega
    by_cases he : replyT = errorMessageType
    · subst he
      have ht' : ¬ ((errorMessageType : Int) = (exp.typeId : Int)) := by omega
      have he' : ((errorMessageType : Int) = 100) := by decide
      have he : errorMessageType = errorMessageType := rfl
      have h100 : ¬ ((100 : Int) = (exp.typeId : Int)) := by unfold errorMessageType at ht; omega
      cases hm : S.msg? "ErrorMessage" with
      | none => simp [Gen.llrp_Client_SendFor, sfEnvFor, sfEnv, ht, ht', he, he', h100, hm, ofInts_toInts, outcomeVal]
      | some em =>
        cases hd : decode S em payload with
        | none => simp [Gen.llrp_Client_SendFor, sfEnvFor, sfEnv, ht, ht', he, he', h100, hm, hd, ofInts_toInts, outcomeVal]
        | some e =>
          cases hst : llrpStatusOf em e with
          | none => simp [Gen.llrp_Client_SendFor, sfEnvFor, sfEnv, ht, ht', he, he', h100, hm, hd, hst, ofInts_toInts, outcomeVal]
          | some st => simp [Gen.llrp_Client_SendFor, sfEnvFor, sfEnv, ht, ht', he, he', h100, hm, hd, hst, ofInts_toInts, outcomeVal]
    · have he' : ¬ ((replyT : Int) = 100) := by unfold errorMessageType at he; omega
      simp [Gen.llrp_Client_SendFor, sfEnvFor, sfEnv, ht, ht', he, he', outcomeVal]

end LLRP.SeqGlue
