import LLRP.Model.Retry
/-! Helper lemmas for C18 (core Lean only). -/
namespace LLRP.Retry
open LLRP LLRP.GoInt

theorem wrapS64_id {x : Int} (h0 : -2^63 ≤ x) (h1 : x < 2^63) : wrapS 64 x = x := by
  unfold wrapS; omega

/-- `1 ≤ 2^k ≤ 2^61` for `k ≤ 61` -/
theorem two_pow_mono {k m : Nat} (hk : k ≤ m) : (2 : Int) ^ k ≤ 2 ^ m := by
  have h1 : (2 : Nat) ^ k ≤ 2 ^ m := Nat.pow_le_pow_right (by decide) hk
  have hc : ((2 ^ k : Nat) : Int) = (2 : Int) ^ k := by simp
  have hc' : ((2 ^ m : Nat) : Int) = (2 : Int) ^ m := by simp
  rw [← hc, ← hc']; exact Int.ofNat_le.mpr h1

theorem two_pow_bounds {k : Nat} (hk : k ≤ 61) : (1 : Int) ≤ 2 ^ k ∧ (2 : Int) ^ k ≤ 2 ^ 61 := by
  have h1 : (2 : Nat) ^ k ≤ 2 ^ 61 := Nat.pow_le_pow_right (by decide) hk
  have h2 : 1 ≤ (2 : Nat) ^ k := Nat.one_le_two_pow
  have hc : ((2 ^ k : Nat) : Int) = (2 : Int) ^ k := by simp
  have hc' : ((2 ^ 61 : Nat) : Int) = (2 : Int) ^ 61 := by simp
  constructor
  · rw [← hc]; exact Int.ofNat_le.mpr h2
  · rw [← hc, ← hc']; exact Int.ofNat_le.mpr h1

/-- `1 << k` on int64 for `0 ≤ k ≤ 61` is `2^k` -/
theorem shl_one {k : Int} (h0 : 0 ≤ k) (h1 : k ≤ 62) : goShl 64 true 1 k = 2 ^ k.toNat := by
  have hk : k.toNat ≤ 62 := by omega
  have a := two_pow_mono (Nat.zero_le k.toNat)
  have b := two_pow_mono hk
  unfold goShl wrap
  simp only [if_true, Int.one_mul]
  exact wrapS64_id (by omega) (by omega)



/-- truncated division of a non-negative by a positive: the comparison `b ≤ m / p` is `b * p ≤ m` -/
theorem le_goDiv_iff {b m p : Int} (hm : 0 ≤ m) (hp : 0 < p) : b ≤ goDiv m p ↔ b * p ≤ m := by
  unfold goDiv
  rw [Int.tdiv_eq_ediv_of_nonneg hm]
  exact Int.le_ediv_iff_mul_le hp

theorem goDiv_bounds {m p : Int} (hm : 0 ≤ m) (hp : 0 < p) : 0 ≤ goDiv m p ∧ goDiv m p ≤ m := by
  unfold goDiv
  rw [Int.tdiv_eq_ediv_of_nonneg hm]
  exact ⟨Int.ediv_nonneg hm (Int.le_of_lt hp), Int.ediv_le_self _ hm⟩

/-- no jitter, 1 ≤ n ≤ 62, base and max positive int64 values -/
theorem nw_nojitter_mid (base max keep n rnd : Int) (hn1 : 1 ≤ n) (hn2 : n ≤ 62)
    (hb : 1 ≤ base) (hm : 1 ≤ max) (hm' : max < 2 ^ 63) :
    Gen.retry_nextWait base max keep false n rnd = min max (base * 2 ^ (n - 1).toNat) := by
  have hw : wrapS 64 (n - 1) = n - 1 := wrapS64_id (by omega) (by omega)
  have hs : goShl 64 true 1 (n - 1) = 2 ^ (n - 1).toNat := shl_one (by omega) (by omega)
  have ⟨p1, p2⟩ := two_pow_bounds (k := (n - 1).toNat) (by omega)
  generalize hp : (2 : Int) ^ (n - 1).toNat = p at *
  have ⟨d1, d2⟩ := goDiv_bounds (m := max) (p := p) (by omega) (by omega)
  have hd : wrapS 64 (goDiv max p) = goDiv max p := wrapS64_id (by omega) (by omega)
  have hiff := le_goDiv_iff (b := base) (m := max) (p := p) (by omega) (by omega)
  unfold Gen.retry_nextWait
  have c1 : ¬ (n ≤ 0) := by omega
  have c2 : ¬ (max = 0) := by omega
  have c3 : ¬ (base = 0) := by omega
  have c4 : ¬ (n ≥ 63) := by omega
  simp only [c1, c2, c3, c4, decide_false, Bool.or_false, Bool.false_eq_true, if_false, hw, hs, hd]
  by_cases h : base ≤ goDiv max p
  · have hmul : base * p ≤ max := hiff.mp h
    have hnn : 0 ≤ base * p := Int.mul_nonneg (by omega) (by omega)
    simp only [h, decide_true, if_true]
    rw [wrapS64_id (by omega) (by omega)]
    omega
  · have hmul : ¬ base * p ≤ max := fun x => h (hiff.mpr x)
    simp only [h, decide_false, Bool.false_eq_true, if_false]
    omega

/-- jitter, 1 ≤ n ≤ 62, base and max positive int64 values, any non-negative draw -/
theorem nw_jitter_mid (base max keep n s : Int) (hn1 : 1 ≤ n) (hn2 : n ≤ 62)
    (hb : 1 ≤ base) (hm : 1 ≤ max) (hm' : max < 2 ^ 63) (hs : 0 ≤ s) :
    Gen.retry_nextWait base max keep true n s = min max (base * s) := by
  unfold Gen.retry_nextWait
  have c1 : ¬ (n ≤ 0) := by omega
  have c2 : ¬ (max = 0) := by omega
  have c3 : ¬ (base = 0) := by omega
  have c4 : ¬ (n ≥ 63) := by omega
  simp only [c1, c2, c3, c4, decide_false, Bool.or_false, Bool.false_eq_true, if_false, if_true]
  by_cases h0 : s > 0
  · have ⟨d1, d2⟩ := goDiv_bounds (m := max) (p := s) (by omega) h0
    have hd : wrapS 64 (goDiv max s) = goDiv max s := wrapS64_id (by omega) (by omega)
    have hiff := le_goDiv_iff (b := base) (m := max) (p := s) (by omega) h0
    rw [hd]
    by_cases h : base > goDiv max s
    · have : ¬ base * s ≤ max := fun x => by have := hiff.mpr x; omega
      simp only [h0, h, decide_true, Bool.and_self, if_true]
      omega
    · have hmul : base * s ≤ max := hiff.mp (by omega)
      have hnn : 0 ≤ base * s := Int.mul_nonneg (by omega) hs
      simp only [h0, h, decide_true, decide_false, Bool.and_false, Bool.false_eq_true, if_false]
      rw [wrapS64_id (by omega) (by omega)]
      omega
  · have : s = 0 := by omega
    subst this
    simp only [Int.lt_irrefl, gt_iff_lt, decide_false, Bool.false_and, Bool.false_eq_true, if_false, Int.mul_zero]
    rw [wrapS64_id (by omega) (by omega)]
    omega

/-! ## the retry loop -/

section
variable (c : Cfg) (retries : Int) (op : Nat → Outcome) (ev : Nat → WaitEv) (rnd : Nat → Int)

/-- the loop condition `retries == Forever || attempt < retries` -/
def cont (retries : Int) (n : Nat) : Prop := retries = forever ∨ (n : Int) < retries

instance (retries : Int) (n : Nat) : Decidable (cont retries n) := by unfold cont; infer_instance

/-- `Reaches (n, re, ws) (m, re', ws')`: the loop, entered with `n` calls made, goes round `m - n` times (each time:
loop condition true, the timer fires first, the call returns a recoverable error) and is then at its head again -/
inductive Reaches : Nat → FErr → List Int → Nat → FErr → List Int → Prop
  | refl (n re ws) : Reaches n re ws n re ws
  | step {n re ws m re' ws'} : cont retries n → ev n = .pass → op (n + 1) = .retry →
      Reaches (n + 1) (re.addErr (.op (n + 1))) (ws ++ [c.nextWait n (rnd n)]) m re' ws' →
      Reaches n re ws m re' ws'

/-- how the loop is left from its head at `m` calls -/
inductive Exit (m : Nat) (re : FErr) (ws : List Int) : Out → Prop
  | exhausted : ¬ cont retries m → Exit m re ws ⟨m, some { re with main := .retriesExceeded }, ws, false⟩
  | exceeds : cont retries m → ev m = .exceeds →
      Exit m re ws ⟨m, some { re with main := .waitExceedsDeadline }, ws ++ [c.nextWait m (rnd m)], false⟩
  | ends (e) : cont retries m → ev m = .ends e →
      Exit m re ws ⟨m, some { re with main := e }, ws ++ [c.nextWait m (rnd m)], false⟩
  | ok : cont retries m → ev m = .pass → op (m + 1) = .ok →
      Exit m re ws ⟨m + 1, none, ws ++ [c.nextWait m (rnd m)], false⟩
  | fatal : cont retries m → ev m = .pass → op (m + 1) = .fatal →
      Exit m re ws ⟨m + 1, some { re with main := .op (m + 1) }, ws ++ [c.nextWait m (rnd m)], false⟩

theorem loop_master : ∀ (fuel n : Nat) (re : FErr) (ws : List Int),
    (loop c retries op ev rnd fuel n re ws).exhausted = false →
    ∃ m re' ws', Reaches c retries op ev rnd n re ws m re' ws' ∧
      Exit c retries op ev rnd m re' ws' (loop c retries op ev rnd fuel n re ws) := by
  intro fuel
  induction fuel with
  | zero => intro n re ws h; simp [loop] at h
  | succ fuel ih =>
    intro n re ws h
    unfold loop at h ⊢
    by_cases hc : retries = forever ∨ (n : Int) < retries
    · simp only [hc, if_true] at h ⊢
      cases hev : ev n with
      | exceeds => exact ⟨n, re, ws, .refl .., .exceeds hc hev⟩
      | ends e => exact ⟨n, re, ws, .refl .., .ends e hc hev⟩
      | pass =>
        simp only [hev] at h ⊢
        cases hop : op (n + 1) with
        | ok => exact ⟨n, re, ws, .refl .., .ok hc hev hop⟩
        | fatal => exact ⟨n, re, ws, .refl .., .fatal hc hev hop⟩
        | retry =>
          simp only [hop] at h ⊢
          obtain ⟨m, re', ws', hr, hx⟩ := ih _ _ _ h
          exact ⟨m, re', ws', .step hc hev hop hr, hx⟩
    · simp only [hc, if_false]
      exact ⟨n, re, ws, .refl .., .exhausted hc⟩

theorem reaches_facts {n re ws m re' ws'} (h : Reaches c retries op ev rnd n re ws m re' ws') :
    n ≤ m ∧ ∀ j, n ≤ j → j < m → cont retries j ∧ ev j = .pass ∧ op (j + 1) = .retry := by
  induction h with
  | refl n re ws => exact ⟨Nat.le_refl _, fun j h1 h2 => by omega⟩
  | @step n re ws m re' ws' hc hev hop _ ih =>
    refine ⟨by omega, fun j h1 h2 => ?_⟩
    by_cases hj : j = n
    · subst hj; exact ⟨hc, hev, hop⟩
    · exact ih.2 j (by omega) h2

/-- from the first call on: every call up to the loop head failed recoverably, the loop condition held and the timer
fired first at every earlier wait -/
theorem reaches_from_one {re ws m re' ws'} (h : Reaches c retries op ev rnd 1 re ws m re' ws') (h1 : op 1 = .retry) :
    1 ≤ m ∧ (∀ j, 1 ≤ j → j ≤ m → op j = .retry) ∧ (∀ j, 1 ≤ j → j < m → cont retries j ∧ ev j = .pass) := by
  have ⟨a, b⟩ := reaches_facts c retries op ev rnd h
  refine ⟨a, fun j h2 h3 => ?_, fun j h2 h3 => ⟨(b j h2 h3).1, (b j h2 h3).2.1⟩⟩
  by_cases hj : j = 1
  · subst hj; exact h1
  · have := (b (j - 1) (by omega) (by omega)).2.2
    rwa [show j - 1 + 1 = j by omega] at this

/-- what `newFError`/`addErr` maintain: the ring buffer never exceeds `max(1, KeepErrs)`, its index stays inside it,
and it holds only errors that calls made so far really returned -/
structure FInv (op : Nat → Outcome) (keep : Int) (n : Nat) (re : FErr) : Prop where
  max_eq : re.max = keep
  len_pos : 1 ≤ re.others.length
  len_le : (re.others.length : Int) ≤ max 1 keep
  last_lt : re.last < re.others.length
  mem : ∀ x ∈ re.others, ∃ i, 1 ≤ i ∧ i ≤ n ∧ x = .op i ∧ op i ≠ .ok

theorem finv_new (keep : Int) (h1 : op 1 ≠ .ok) : FInv op keep 1 (newFError (.op 1) keep) := by
  refine ⟨rfl, by simp [newFError], by simp [newFError]; omega, by simp [newFError], ?_⟩
  intro x hx
  simp [newFError] at hx
  exact ⟨1, by omega, by omega, hx, h1⟩

theorem finv_addErr {keep : Int} {n : Nat} {re : FErr} (h : FInv op keep n re) (hop : op (n + 1) = .retry) :
    FInv op keep (n + 1) (re.addErr (.op (n + 1))) := by
  have hmem : ∀ x ∈ re.others, ∃ i, 1 ≤ i ∧ i ≤ n + 1 ∧ x = .op i ∧ op i ≠ .ok := fun x hx => by
    obtain ⟨i, a, b, c, d⟩ := h.mem x hx
    exact ⟨i, a, by omega, c, d⟩
  have hnew : ∃ i, 1 ≤ i ∧ i ≤ n + 1 ∧ Err.op (n + 1) = .op i ∧ op i ≠ .ok :=
    ⟨n + 1, by omega, by omega, rfl, by rw [hop]; decide⟩
  have h1 := h.len_pos; have h2 := h.len_le; have h3 := h.last_lt; have h4 := h.max_eq
  unfold FErr.addErr
  simp only
  by_cases hz : re.max = 0
  · simp only [hz, if_true]
    exact ⟨by rw [← h4]; exact hz.symm ▸ rfl, h1, h2, h3, hmem⟩
  · simp only [hz, if_false]
    by_cases hl : (re.others.length : Int) < re.max
    · simp only [hl, if_true]
      refine ⟨h4, by simp, by simp; omega, by simp; omega, ?_⟩
      intro x hx
      simp only [List.mem_append, List.mem_singleton] at hx
      rcases hx with hx | hx
      · exact hmem x hx
      · subst hx; exact hnew
    · simp only [hl, if_false]
      refine ⟨h4, by simp; omega, by simp; omega, by simp; split <;> omega, ?_⟩
      intro x hx
      rcases List.mem_or_eq_of_mem_set hx with hx | hx
      · exact hmem x hx
      · subst hx; exact hnew

theorem reaches_finv {keep : Int} {n re ws m re' ws'} (h : Reaches c retries op ev rnd n re ws m re' ws')
    (hi : FInv op keep n re) : FInv op keep m re' := by
  induction h with
  | refl => exact hi
  | step _ _ hop _ ih => exact ih (finv_addErr op hi hop)

/-- the waits computed so far are `nextWait 1, …, nextWait (n-1)` -/
def WInv (n : Nat) (ws : List Int) : Prop :=
  ws = (List.range' 1 (n - 1)).map (fun k : Nat => c.nextWait k (rnd k))

theorem winv_step {n : Nat} {ws : List Int} (hn : 1 ≤ n) (h : WInv c rnd n ws) :
    WInv c rnd (n + 1) (ws ++ [c.nextWait n (rnd n)]) := by
  unfold WInv at *
  have : n + 1 - 1 = (n - 1) + 1 := by omega
  have h2 : 1 + (n - 1) = n := by omega
  rw [this, List.range'_concat, List.map_append, ← h, Nat.one_mul, h2]
  rfl

theorem reaches_winv {n re ws m re' ws'} (h : Reaches c retries op ev rnd n re ws m re' ws')
    (hn : 1 ≤ n) (hi : WInv c rnd n ws) : WInv c rnd m ws' := by
  induction h with
  | refl => exact hi
  | step _ _ _ _ ih => exact ih (by omega) (winv_step c rnd hn hi)

/-- enough fuel: the bounded loop leaves by its condition -/
theorem loop_total_bounded (hr : retries ≠ forever) : ∀ (fuel n : Nat) (re : FErr) (ws : List Int),
    1 ≤ fuel → retries < (n : Int) + fuel → (loop c retries op ev rnd fuel n re ws).exhausted = false := by
  intro fuel
  induction fuel with
  | zero => intro n re ws h; omega
  | succ fuel ih =>
    intro n re ws _ h
    unfold loop
    by_cases hc : retries = forever ∨ (n : Int) < retries
    · have hlt : (n : Int) < retries := by rcases hc with hc | hc; exact absurd hc hr; exact hc
      simp only [hc, if_true]
      split
      · rfl
      · rfl
      · split
        · rfl
        · rfl
        · exact ih _ _ _ (by omega) (by omega)
    · simp only [hc, if_false]

/-- enough fuel: some call within reach does not fail recoverably, or some wait is interrupted -/
theorem loop_total_stop : ∀ (fuel n : Nat) (re : FErr) (ws : List Int) (k : Nat),
    n ≤ k → k < n + fuel → (ev k ≠ .pass ∨ op (k + 1) ≠ .retry) →
    (loop c retries op ev rnd fuel n re ws).exhausted = false := by
  intro fuel
  induction fuel with
  | zero => intro n re ws k h1 h2; omega
  | succ fuel ih =>
    intro n re ws k h1 h2 h3
    unfold loop
    by_cases hc : retries = forever ∨ (n : Int) < retries
    · simp only [hc, if_true]
      cases hev : ev n with
      | exceeds => rfl
      | ends e => rfl
      | pass =>
        simp only
        cases hop : op (n + 1) with
        | ok => rfl
        | fatal => rfl
        | retry =>
          simp only
          have : k ≠ n := by
            intro hk; subst hk
            rcases h3 with h3 | h3
            · exact h3 hev
            · exact h3 hop
          exact ih _ _ _ k (by omega) (by omega) h3
    · simp only [hc, if_false]

end
end LLRP.Retry
