import LLRP.Proofs.ClientLTS2
/-! Variants and run invariants behind C09 (caller rank, Connect rank, late sends) -/
namespace LLRP.LTS
set_option linter.unusedVariables false

def rank : Pc → Nat
  | .idle => 5
  | .waitReady => 4
  | .queued => 3
  | .waitToken _ => 2
  | .waitReply _ => 1
  | .done _ => 0


theorem leave_pc (s : St) (c : Nat) (r : Res) : ((leave s c r).callers c).pc = .done r := by
  unfold leave; grind [setC]

theorem leave_other_pc (s : St) (c c' : Nat) (r : Res) (h : c' ≠ c) : ((leave s c r).callers c').pc = (s.callers c').pc := by
  unfold leave; grind [setC]


theorem canLeave_rank {p : Pc} (h : canLeave p = true) : 1 ≤ rank p := by
  cases p <;> simp [canLeave, rank] at h ⊢

theorem actor_caller {a : Act} {c : Nat} (h : actor a = .caller c) :
    a = .callReady c ∨ a = .callSeeDone c ∨ a = .callSeeCtx c ∨ a = .callToken c ∨ a = .callGetReply c := by
  cases a <;> simp [actor] at h ⊢ <;> first | exact h | (rename_i b; cases b <;> simp at h)

theorem step_pc_cases (s : St) (a : Act) (c : Nat) :
    ((step s a).callers c).pc = (s.callers c).pc ∨
    (enabled s a = true ∧ (s.callers c).pc = .idle) ∨
    (enabled s a = true ∧ rank ((step s a).callers c).pc < rank (s.callers c).pc ∧
      (actor a = .caller c ∨ a = .wrPickReq c)) := by
  unfold step
  split
  · rename_i he
    have he0 := he
    cases a <;> (try simp [enabled] at he) <;> (simp only [eff, leave]; repeat' split) <;> (try simp only [setC]) <;> grind [rank, canLeave, actor, canLeave_rank]
  · exact Or.inl rfl

/-- A caller's rank never increases, whoever moves (once the call has been issued). -/
theorem rank_mono (s : St) (a : Act) (c : Nat) (hi : (s.callers c).pc ≠ .idle) :
    rank ((step s a).callers c).pc ≤ rank (s.callers c).pc := by
  rcases step_pc_cases s a c with h | h | h
  · rw [h]; exact Nat.le_refl _
  · exact absurd h.2 hi
  · exact Nat.le_of_lt h.2.1

/-- Every enabled step of the caller itself strictly decreases its rank. -/
theorem own_step_decreases (s : St) (a : Act) (c : Nat) (ha : actor a = .caller c) (he : enabled s a = true) :
    rank ((step s a).callers c).pc < rank (s.callers c).pc := by
  rcases step_pc_cases s a c with h | h | h
  · exfalso
    unfold step at h; rw [if_pos he] at h
    rcases actor_caller ha with e | e | e | e | e <;> subst e <;> simp [enabled] at he
    · simp [eff, setC, he.1] at h
    · simp [eff, leave_pc] at h; rw [← h] at he; simp [canLeave] at he
    · simp [eff, leave_pc] at h; rw [← h] at he; simp [canLeave] at he
    · revert he h; simp only [eff]; cases hp : (s.callers c).pc <;> simp [setC, hp]
    · revert he h; simp only [eff]
      cases hp : (s.callers c).pc <;> simp
      cases hc : (s.callers c).chan <;> simp [setC, hp]
  · exfalso
    rcases actor_caller ha with e | e | e | e | e <;> subst e <;> simp [enabled, h.2, canLeave] at he
  · exact h.2.1


/-- a caller, once issued, never returns to `idle` -/
theorem not_idle_step (s : St) (a : Act) (c : Nat) (hi : (s.callers c).pc ≠ .idle) : ((step s a).callers c).pc ≠ .idle := by
  rcases step_pc_cases s a c with h | h | h
  · rw [h]; exact hi
  · exact absurd h.2 hi
  · intro e; rw [e] at h
    have h5 : rank Pc.idle = 5 := rfl
    have := h.2.1; rw [h5] at this
    have : rank (s.callers c).pc ≤ 5 := by cases (s.callers c).pc <;> simp [rank]
    omega


def connRank : Conn → Nat
  | .off => 11
  | .initial => 10
  | .negIdle false => 8
  | .negotiating _ false => 7
  | .negIdle true => 6
  | .negotiating _ true => 5
  | .readying => 4
  | .serving => 3
  | .rejected => 2
  | .waitLoops _ => 1
  | .failing _ => 1
  | .returned _ => 0


/-- every enabled step of Connect itself strictly decreases its rank: Connect takes at most 10 steps -/
theorem connect_variant (s : St) (a : Act) (ha : actor a = .conn) (he : enabled s a = true) :
    connRank (step s a).conn < connRank s.conn := by
  unfold step; rw [if_pos he]
  cases a <;> simp [actor] at ha <;> cases hc : s.conn <;> simp [enabled, hc] at he <;>
    (try (rename_i b; cases b)) <;> (try simp at he) <;>
    (simp only [eff, hc]; repeat' split) <;> (try simp only [setC]) <;> (try simp_all [connRank]) <;> grind [connRank, initialOk]


def lateInv (s : St) (c : Nat) : Prop :=
  s.done = true ∧ (s.callers c).wid = none ∧ unserved (s.callers c).pc = true

theorem lateInv_step (s : St) (a : Act) (c : Nat) (h : lateInv s c) : lateInv (step s a) c := by
  unfold step; split
  · rename_i he
    obtain ⟨h1, h2, h3⟩ := h
    cases a <;> (try simp [enabled] at he) <;> (simp only [lateInv, eff, leave]; repeat' split) <;>
      (try simp only [setC]) <;> grind [unserved, canLeave]
  · exact h

theorem lateInv_run (s : St) (c : Nat) (h : lateInv s c) (as : List Act) : lateInv (run s as) c := by
  induction as generalizing s with
  | nil => exact h
  | cons a as ih => exact ih _ (lateInv_step s a c h)


theorem mem_dropLast_of_split {α} (pre post : List α) (w : α) (hp : post ≠ []) : w ∈ (pre ++ w :: post).dropLast := by
  induction pre with
  | nil =>
    cases post with
    | nil => exact absurd rfl hp
    | cons x l => simp [List.dropLast]
  | cons y pre ih =>
    have : (y :: pre ++ w :: post).dropLast = y :: (pre ++ w :: post).dropLast := by
      cases hq : pre ++ w :: post with
      | nil => simp at hq
      | cons z l => simp [List.dropLast, hq]
    rw [this]; exact List.mem_cons_of_mem _ ih


theorem afterClose_of {l : List WFrame} (h : ∀ w ∈ l.dropLast, w.f.typ ≠ tCloseConnection) :
    afterClose (l.map (·.f.typ)) = true := by
  induction l with
  | nil => rfl
  | cons x l ih =>
    simp only [List.map_cons, afterClose]
    split
    · rename_i hx
      cases l with
      | nil => rfl
      | cons y l' => exact absurd hx (h x (by simp [List.dropLast]))
    · cases l with
      | nil => rfl
      | cons y l' =>
        apply ih
        intro w hw
        exact h w (by simp only [List.dropLast]; exact List.mem_cons_of_mem _ hw)


/-! ## the error channel of Connect never overflows -/

/-- every loop reports at most once: the reports still queued never outnumber the loops that have exited -/
def ErrsInv (s : St) : Prop := s.errs.length ≤ exitedCount s

theorem errsInv_step (s : St) (a : Act) (hl : Life s) (h : ErrsInv s) : ErrsInv (step s a) := by
  unfold step; split
  · rename_i he
    unfold ErrsInv at h ⊢
    have l1 := hl.notAcc
    have l2 := hl.setup
    cases a <;> (try simp [enabled] at he) <;> (simp only [eff, leave]; repeat' split) <;> (try simp only [setC]) <;>
      grind [exitedCount, Rd.isExited, Wr.isExited, connSetup]
  · exact h

theorem errsInv_reachable {s : St} (h : Reachable s) : ErrsInv s := by
  induction h with
  | init => simp [ErrsInv, init, exitedCount, Rd.isExited, Wr.isExited]
  | step a hr ih => exact errsInv_step _ a (life_reachable hr) ih

end LLRP.LTS
