import LLRP.Gen.Seq
import LLRP.Gen.Consts
import LLRP.Gen.MsgTables
import LLRP.Model.Negotiate
/-!
# `Client.negotiate` and `Client.getSupportedVersion` as translated from the source (go2seq) are the model
`LLRP.negotiate` (Model/Negotiate.lean).

The environments below say what the calls these functions make mean at the level of the model: the write loop takes a
request (an item is appended), the reader reacts with the scripted `Reply` class (`r1` to GetSupportedVersion, `r2` to
SetProtocolVersion), decoding a reply gives what its class says, `isResponseTo` looks the pair up in the regenerated
`mirrorType` table. Which calls are made, in which order, on which condition, and what is returned is the source's.
-/
namespace LLRP.SeqGlue
open LLRP LLRP.GoSeq

structure NMsg where
  typ : Int
  payload : List Int
deriving Repr, Inhabited

structure NWorld where
  /-- `Client.version` -/
  ver : Nat
  /-- `Client.timeout` (nanoseconds; 0 = none) -/
  timeout : Int
  /-- the reader's reaction to GetSupportedVersion / SetProtocolVersion -/
  r1 : Reply
  r2 : Reply
  /-- what reached the write loop because of negotiation, in order -/
  items : List WItem := []
  /-- class of the reply received last -/
  cur : Reply := .lost
  /-- pointee of the `*GetSupportedVersionResponse` that `getSupportedVersion` returns: (current, max, status) -/
  heapGSV : Nat × Nat × Nat := (0, 0, 0)
  /-- pointee of negotiate's `&SetProtocolVersionResponse{}`: its status code -/
  heapSPV : Nat := 0

/-- type of the reply frame a reply class stands for -/
def replyTyp (req : Int) : Reply → Int
  | .errorMsg _ => 100
  | .wrongType => 0
  | _ => req + 10

/-- `Client.send` for negotiation's own messages: the write loop takes the message, the reader reacts as scripted -/
def nSend (w : NWorld) (m : NMsg) : NWorld × NMsg × GoErr :=
  let rep := if m.typ = 46 then w.r1 else w.r2
  let it : WItem := if m.typ = 46 then gsvItem else spvItem (m.payload.headD 0).toNat
  let w' := { w with items := w.items ++ [it], cur := rep }
  match rep with
  | .lost => (w', default, .ext "no reply")
  | _ => (w', ⟨replyTyp m.typ rep, []⟩, .nil)

def statusErr (s : Nat) : GoErr := if s = 0 then .nil else .status s

def gsvEnv : Gen.Env_llrp_Client_getSupportedVersion where
  World := NWorld
  context_Context := Unit
  Message := NMsg
  Ptr_GetSupportedVersionResponse := Bool            -- false = nil
  GetSupportedVersionResponse := Nat × Nat × Nat     -- (current, max, status)
  Header := Int
  ErrorMessage := Nat                                -- its status code
  LLRPStatus := Nat
  NewHdrOnlyMsg_1 := fun w t => (w, ⟨t, []⟩)
  Client_send_1 := fun w _ m => nSend w m
  nil_Ptr_GetSupportedVersionResponse := false
  Message_Close_1 := fun w _ => (w, .nil)
  Message_data_1 := fun w m => match w.cur with
    | .oversize => (w, m, [], .ext "payload exceeds buffer limit")
    | _ => (w, m, [], .nil)
  zero_GetSupportedVersionResponse := (0, 0, 0)
  set_GetSupportedVersionResponse_CurrentVersion := fun sv v => (v.toNat, sv.2.1, sv.2.2)
  set_GetSupportedVersionResponse_MaxSupportedVersion := fun sv v => (sv.1, v.toNat, sv.2.2)
  get_Message_Header := fun m => m.typ
  get_Header_typ := fun h => h
  zero_ErrorMessage := 0
  ErrorMessage_UnmarshalBinary_1 := fun w em _ => match w.cur with
    | .errorMsg c => (w, c, .nil)
    | _ => (w, em, .ext "undecodable")
  get_ErrorMessage_LLRPStatus := fun em => em
  set_GetSupportedVersionResponse_LLRPStatus := fun sv st => (sv.1, sv.2.1, st)
  get_GetSupportedVersionResponse_LLRPStatus := fun sv => sv.2.2
  get_LLRPStatus_Status := fun s => (s : Int)
  StatusError := Nat
  Ptr_StatusError := Nat
  conv_LLRPStatus_to_StatusError := fun s => s
  addr_StatusError := fun w s => (w, s)
  conv_Ptr_StatusError_to_error := fun s => .status s
  LLRPStatus_Err_1 := fun w s => (w, s, statusErr s)
  LLRPStatus_Err_2 := fun w s => (w, s, statusErr s)
  addr_GetSupportedVersionResponse := fun w sv => ({ w with heapGSV := sv }, true)
  GetSupportedVersionResponse_UnmarshalBinary_1 := fun w sv _ => match w.cur with
    | .ok c m => (w, (c, m, 0), .nil)
    | .refused code => (w, (sv.1, sv.2.1, code), .nil)
    | _ => (w, sv, .ext "undecodable")

/-- `MessageType.Converse` over the regenerated `mirrorType` table -/
def converse (t : Int) : Int × Bool :=
  match Gen.mirrorType.lookup t.toNat with
  | some r => (r, true)
  | none => (0, false)

def isrEnv : Gen.Env_llrp_Message_isResponseTo where
  World := NWorld
  Message := NMsg
  Header := Int
  MessageType_Converse_1 := fun w t => (w, (converse t).1, (converse t).2)
  get_Message_Header := fun m => m.typ
  get_Header_typ := fun h => h

def negEnv : Gen.Env_llrp_Client_negotiate where
  World := NWorld
  context_Context := Unit
  context_CancelFunc := Unit
  Ptr_GetSupportedVersionResponse := Bool
  GetSupportedVersionResponse := Nat × Nat × Nat
  Message := NMsg
  SetProtocolVersionResponse := Nat                  -- its status code
  Ptr_SetProtocolVersionResponse := Unit
  encoding_BinaryUnmarshaler := Unit
  LLRPStatus := Nat
  context_Background_1 := fun w => (w, ())
  Client_timeout := fun w => w.timeout
  nil_context_CancelFunc := ()
  context_WithTimeout_1 := fun w _ _ => (w, (), ())
  call_context_CancelFunc_1 := fun w _ => w
  -- the translated getSupportedVersion itself
  Client_getSupportedVersion_1 := fun w ctx => Gen.llrp_Client_getSupportedVersion gsvEnv w ctx
  Client_ver_1 := fun w => (w, (w.ver : Int))
  deref_Ptr_GetSupportedVersionResponse := fun w _ => w.heapGSV
  get_GetSupportedVersionResponse_MaxSupportedVersion := fun sv => (sv.2.1 : Int)
  Client_setVer_1 := fun w v => { w with ver := v.toNat, items := w.items ++ [.setVer v.toNat] }
  get_GetSupportedVersionResponse_CurrentVersion := fun sv => (sv.1 : Int)
  Client_ver_2 := fun w => (w, (w.ver : Int))
  Client_ver_3 := fun w => (w, (w.ver : Int))
  NewByteMessage_1 := fun w t p => (w, ⟨t, p⟩, .nil)
  context_Background_2 := fun w => (w, ())
  context_WithTimeout_2 := fun w _ _ => (w, (), ())
  call_context_CancelFunc_2 := fun w _ => w
  Client_send_1 := fun w _ m => nSend w m
  Message_Close_1 := fun w _ => (w, .nil)
  -- the translated isResponseTo itself
  Message_isResponseTo_1 := fun w m t => Gen.llrp_Message_isResponseTo isrEnv w m t
  zero_SetProtocolVersionResponse := 0
  addr_SetProtocolVersionResponse := fun w v => ({ w with heapSPV := v }, ())
  conv_Ptr_SetProtocolVersionResponse_to_encoding_BinaryUnmarshaler := fun _ => ()
  Message_UnmarshalTo_1 := fun w m _ => match w.cur with
    | .oversize => (w, m, .ext "payload exceeds buffer limit")
    | .ok _ _ => ({ w with heapSPV := 0 }, m, .nil)
    | .refused c => ({ w with heapSPV := c }, m, .nil)
    | _ => (w, m, .ext "undecodable")
  deref_Ptr_SetProtocolVersionResponse := fun w _ => w.heapSPV
  get_SetProtocolVersionResponse_LLRPStatus := fun s => s
  LLRPStatus_Err_1 := fun w s => (w, statusErr s)

def nInit (clientMax : Nat) (timeout : Int) (r1 r2 : Reply) : NWorld :=
  { ver := clientMax, timeout := timeout, r1 := r1, r2 := r2 }

/-- what the translated `getSupportedVersion` does, in closed form -/
def gsvOut (w : NWorld) : NWorld × Bool × GoErr :=
  let w1 := { w with items := w.items ++ [gsvItem], cur := w.r1 }
  match w.r1 with
  | .ok c m => ({ w1 with heapGSV := (c, m, 0) }, true, .nil)
  | .refused code => if code = 0 then ({ w1 with heapGSV := (1, 1, 0) }, true, .nil) else (w1, false, .new "%v returned an error: %v")
  | .errorMsg code =>
    if code = 110 then ({ w1 with heapGSV := (1, 1, 0) }, true, .nil)
    else (w1, false, .wrap "%v returned an error: %w" (.status code))
  | .wrongType => (w1, false, .new "unexpected response to %v: %v")
  | .undecodable => (w1, false, .ext "undecodable")
  | .oversize => (w1, false, .ext "payload exceeds buffer limit")
  | .lost => (w1, false, .ext "no reply")

theorem gsv_eq (w : NWorld) : Gen.llrp_Client_getSupportedVersion gsvEnv w () = gsvOut w := by
  unfold gsvOut
  cases h : w.r1 with
  | ok c m => simp [Gen.llrp_Client_getSupportedVersion, gsvEnv, nSend, replyTyp, h, statusErr]
  | refused code => 
    by_cases hc : code = 0
    · simp [Gen.llrp_Client_getSupportedVersion, gsvEnv, nSend, replyTyp, h, statusErr, hc]
    · simp [Gen.llrp_Client_getSupportedVersion, gsvEnv, nSend, replyTyp, h, statusErr, hc]
  | errorMsg code =>
    by_cases h110 : code = 110
    · simp [Gen.llrp_Client_getSupportedVersion, gsvEnv, nSend, replyTyp, h, statusErr, h110]
    · have : ¬ ((code : Int) = 110) := by omega
      simp [Gen.llrp_Client_getSupportedVersion, gsvEnv, nSend, replyTyp, h, statusErr, h110, this]
  | wrongType => simp [Gen.llrp_Client_getSupportedVersion, gsvEnv, nSend, replyTyp, h, statusErr]
  | undecodable => simp [Gen.llrp_Client_getSupportedVersion, gsvEnv, nSend, replyTyp, h, statusErr]
  | oversize => simp [Gen.llrp_Client_getSupportedVersion, gsvEnv, nSend, replyTyp, h, statusErr]
  | lost => simp [Gen.llrp_Client_getSupportedVersion, gsvEnv, nSend, replyTyp, h, statusErr]

theorem converse_47 : converse 47 = (57, true) := by decide

/-- a `refused` class carries a status other than Success (the classification of raw replies never produces `refused 0`) -/
def ReplyWF : Reply → Prop
  | .refused c => c ≠ 0
  | _ => True

theorem src_negotiate (clientMax : Nat) (t : Int) (r1 r2 : Reply) (hm : clientMax > Gen.Version1_0_1)
    (hw1 : ReplyWF r1) (hw2 : ReplyWF r2) :
    ((Gen.llrp_Client_negotiate negEnv (nInit clientMax t r1 r2)).2 == GoErr.nil) = (negotiate clientMax r1 r2).result.isSome ∧
    (Gen.llrp_Client_negotiate negEnv (nInit clientMax t r1 r2)).1.items = (negotiate clientMax r1 r2).items ∧
    (Gen.llrp_Client_negotiate negEnv (nInit clientMax t r1 r2)).1.ver = (negotiate clientMax r1 r2).version := by
  have hm' : ¬ clientMax ≤ Gen.Version1_0_1 := by omega
  by_cases ht : t = 0
  all_goals
    cases r1 with
    | ok c m =>
      by_cases h1 : clientMax > m
      · by_cases h2 : c = m
        · simp [Gen.llrp_Client_negotiate, negEnv, gsv_eq, gsvOut, nInit, negotiate, supported, ht, hm', h1, h2]
        · have h2' : ¬ ((c : Int) = (m : Int)) := by omega
          cases r2 <;> (try have hc2 := hw2) <;> (try unfold ReplyWF at hc2) <;>
            simp [*, Gen.llrp_Client_negotiate, negEnv, gsv_eq, gsvOut, nInit, negotiate, supported, ht, hm', h1, h2, h2', nSend, replyTyp,
              Gen.llrp_Message_isResponseTo, isrEnv, converse_47, statusErr, accepted, spvItem, gsvItem]
      · by_cases h2 : c = clientMax
        · simp [Gen.llrp_Client_negotiate, negEnv, gsv_eq, gsvOut, nInit, negotiate, supported, ht, hm', h1, h2]
        · have h2' : ¬ ((c : Int) = (clientMax : Int)) := by omega
          cases r2 <;> (try have hc2 := hw2) <;> (try unfold ReplyWF at hc2) <;>
            simp [*, Gen.llrp_Client_negotiate, negEnv, gsv_eq, gsvOut, nInit, negotiate, supported, ht, hm', h1, h2, h2', nSend, replyTyp,
              Gen.llrp_Message_isResponseTo, isrEnv, converse_47, statusErr, accepted, spvItem, gsvItem]
    | refused code =>
      have hc : ¬ code = 0 := hw1
      simp [Gen.llrp_Client_negotiate, negEnv, gsv_eq, gsvOut, nInit, negotiate, supported, ht, hm', hc, gsvItem]
    | errorMsg code =>
      have hv : Gen.Version1_0_1 = 1 := rfl
      have hgt : clientMax > 1 := by omega
      have hgt' : ((clientMax : Int) > 1) := by omega
      have hle : ¬ clientMax ≤ 1 := by omega
      by_cases hc : code = 110
      · simp [Gen.llrp_Client_negotiate, negEnv, gsv_eq, gsvOut, nInit, negotiate, supported, ht, hm', hc, gsvItem,
          Gen.StatusMsgVerUnsupported, Gen.StatusSuccess, hv, hgt, hgt', hle]
      · simp [Gen.llrp_Client_negotiate, negEnv, gsv_eq, gsvOut, nInit, negotiate, supported, ht, hm', hc, gsvItem,
          Gen.StatusMsgVerUnsupported, Gen.StatusSuccess, hv, hgt, hgt', hle]
    | wrongType => simp [Gen.llrp_Client_negotiate, negEnv, gsv_eq, gsvOut, nInit, negotiate, supported, ht, hm', gsvItem]
    | undecodable => simp [Gen.llrp_Client_negotiate, negEnv, gsv_eq, gsvOut, nInit, negotiate, supported, ht, hm', gsvItem]
    | oversize => simp [Gen.llrp_Client_negotiate, negEnv, gsv_eq, gsvOut, nInit, negotiate, supported, ht, hm', gsvItem]
    | lost => simp [Gen.llrp_Client_negotiate, negEnv, gsv_eq, gsvOut, nInit, negotiate, supported, ht, hm', gsvItem]

/-- the classification of a raw reply never yields `refused 0` -/
theorem classify_wf (S : Schema) (step typ : Nat) (payload : Bytes) : ReplyWF (classify S step typ payload) := by
  unfold classify
  repeat' split
  all_goals (first | trivial | (unfold ReplyWF; simp_all) | skip)

end LLRP.SeqGlue
