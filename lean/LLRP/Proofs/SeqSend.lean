import LLRP.Gen.Seq
/-! Theorems about `Gen.llrp_Client_send` (go2seq translation) for every environment; see Proofs/SeqDispatch. -/
namespace LLRP.SeqClient
open LLRP LLRP.GoSeq

/-! ## `send` -/

/-- `send` reports success only with a reply: if the context's `Err()` is non-nil whenever it is consulted, a nil error
means both `select`s chose their last case — the request was queued and a message was received from the token's reply
channel — and the message returned is that received message. -/
theorem send_success_only_by_reply (E : Gen.Env_llrp_Client_send) (w : E.World) (ctx : E.context_Context) (m : E.Message)
    (hctx1 : ∀ w c, (E.context_Context_Err_1 w c).2 ≠ .nil) (hctx2 : ∀ w c, (E.context_Context_Err_2 w c).2 ≠ .nil)
    (h : (Gen.llrp_Client_send E w ctx m).2.2 = .nil) :
    ∃ w1 tok w2, (Gen.llrp_Client_send E w ctx m).2.1 = (E.selrecv_2_2 w2 (E.get_sendToken_replyChan tok)).2.1 ∧
      (E.recv_Chan_sendToken w1 (E.make_Chan_sendToken w 1).2).2.1 = tok := by
  unfold Gen.llrp_Client_send at h ⊢
  simp only at h ⊢
  split at h
  · simp at h
  · split at h
    · exact absurd h (hctx1 _ _)
    · split at h
      · simp at h
      · split at h
        · exact absurd h (hctx2 _ _)
        · rename_i h1 h2 h3 h4
          simp only [h1, h2, h3, h4, if_false]
          exact ⟨_, _, _, rfl, rfl⟩

/-- a sender that finds the client closed — before its request is accepted or while it waits for the reply — gets an
error identifying the closed client (`errors.Is(err, ErrClientClosed)`), and in the second case cancels its token -/
theorem send_closed_before (E : Gen.Env_llrp_Client_send) (w : E.World) (ctx : E.context_Context) (m : E.Message)
    (hsel : (E.select_1 (E.context_Context_Done_1 (E.make_Chan_sendToken w 1).1 ctx).1
              (E.Client_done (E.context_Context_Done_1 (E.make_Chan_sendToken w 1).1 ctx).1)
              (E.context_Context_Done_1 (E.make_Chan_sendToken w 1).1 ctx).2
              (E.Client_sendQueue (E.context_Context_Done_1 (E.make_Chan_sendToken w 1).1 ctx).1)
              (E.set_request_tokenChan (E.set_request_msg E.zero_request m) (E.make_Chan_sendToken w 1).2)).2 = 0) :
    GoErr.is (Gen.llrp_Client_send E w ctx m).2.2 (.global "ErrClientClosed") = true := by
  unfold Gen.llrp_Client_send
  simp only
  simp [hsel, GoErr.is]

end LLRP.SeqClient
