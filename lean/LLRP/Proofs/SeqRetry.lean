import LLRP.Gen.Seq
import LLRP.Model.Retry
/-!
# `ExpBackOff.RetryWithCtx` as translated from the source (`Gen.retry_ExpBackOff_RetryWithCtx`, go2seq with a loop on
fuel) is the model `Retry.run`.

`retryEnv` says what the calls the function makes mean in terms of the model's scripts:

* `f(ctx)` is the scripted operation: its k-th call returns what `op k` says (`ok` = nil error; `retry` = an error with
  `recoverable = true`; `fatal` = an error with `recoverable = false`); the error of the k-th call is `GoErr.extN k`;
* `ctx.Err()` at entry is `entry`; at the wait after the n-th call, `ev n` says what the context does: `ends e` — the
  `select` sees `ctx.Done()` (or, when `late n`, the timer wins the race and the re-check of `ctx.Err()` that follows
  sees the error: both paths are covered); `exceeds` — `time.Now().Add(wait).After(deadline)`; `pass` — the timer fires
  and the context is still alive;
* `ebo.nextWait(attempt)` is the go2lean translation of `nextWait` (`Cfg.nextWait`) with the scripted jitter draw;
* `newFError` / `addErr` / `re.MainErr = …` act on the one `*FError` of the run (`Retry.newFError`, `FErr.addErr`);
* timers have no effect on the outcome.

The control structure — which test comes first, what each branch stores and returns, when the loop ends — is the
source's own. -/
namespace LLRP.SeqGlue
open LLRP LLRP.GoSeq LLRP.Retry

def encErr : Err → GoErr
  | .retriesExceeded => .global "ErrRetriesExceeded"
  | .canceled => .global "context.Canceled"
  | .deadlineExceeded => .global "context.DeadlineExceeded"
  | .waitExceedsDeadline => .global "ErrWaitExceedsDeadline"
  | .op i => .extN i

def decErr : GoErr → Err
  | .extN i => .op i
  | .global s =>
    if s = "context.Canceled" then .canceled
    else if s = "context.DeadlineExceeded" then .deadlineExceeded
    else if s = "ErrWaitExceedsDeadline" then .waitExceedsDeadline
    else .retriesExceeded
  | _ => .retriesExceeded

@[simp] theorem decErr_encErr (e : Err) : decErr (encErr e) = e := by
  cases e <;> simp [encErr, decErr]

@[simp] theorem encErr_ne_nil (e : Err) : (encErr e == GoErr.nil) = false := by
  cases e <;> simp [encErr]

structure RWorld where
  /-- calls of the operation made so far -/
  calls : Nat
  /-- the `*FError` of this run -/
  re : FErr
  /-- the pauses computed so far -/
  waits : List Int

def zeroFErr : FErr := { main := .retriesExceeded, others := [], attempts := 0, max := 0, last := 0 }

def callOp (op : Nat → Outcome) (w : RWorld) : RWorld × Bool × GoErr :=
  let k := w.calls + 1
  ({ w with calls := k },
    match op k with
    | .ok => (true, .nil)
    | .retry => (true, .extN k)
    | .fatal => (false, .extN k))

def isExceeds : WaitEv → Bool
  | .exceeds => true
  | _ => false

def retryEnv (op : Nat → Outcome) (entry : Option Err) (ev : Nat → WaitEv) (rnd : Nat → Int) (late : Nat → Bool)
    (hd : Bool) : Gen.Env_retry_ExpBackOff_RetryWithCtx where
  World := RWorld
  ExpBackOff := Cfg
  context_Context := Unit
  Func := Unit
  FError := FErr
  Ptr_FError := Unit
  Ptr_time_Timer := Unit
  time_Time := Unit
  Chan_Struct_struct := Unit
  time_Timer := Unit
  Chan_time_Time := Unit
  context_Context_Err_1 := fun w _ => (w, match entry with | some e => encErr e | none => .nil)
  zero_FError := zeroFErr
  set_FError_MainErr := fun f e => { f with main := decErr e }
  addr_FError := fun w f => ({ w with re := f }, ())
  conv_Ptr_FError_to_error := fun _ => .ext "*FError"
  call_Func_1 := fun w _ _ => callOp op w
  get_ExpBackOff_KeepErrs := fun c => c.keepErrs
  newFError_1 := fun w e keep => ({ w with re := newFError (decErr e) keep }, ())
  store_FError_MainErr := fun w _ e => { w with re := { w.re with main := decErr e } }
  get_ExpBackOff_Max := fun c => c.max
  set_ExpBackOff_Max := fun c v => { c with max := v }
  get_ExpBackOff_BackOff := fun c => c.backOff
  set_ExpBackOff_BackOff := fun c v => { c with backOff := v }
  time_NewTimer_1 := fun w _ => (w, ())
  time_Timer_Stop_1 := fun w _ => (w, true)
  recv_Chan_time_Time := fun w _ => (w, (), true)
  context_Context_Deadline_1 := fun w _ => (w, (), hd)
  ExpBackOff_nextWait_1 := fun w c n =>
    let v := c.nextWait n (rnd w.calls)
    ({ w with waits := w.waits ++ [v] }, v)
  time_Now_1 := fun w => (w, ())
  time_Time_Add_1 := fun w _ _ => (w, ())
  time_Time_After_1 := fun w _ _ => (w, isExceeds (ev w.calls))
  time_Timer_Reset_1 := fun w _ _ => (w, false)
  context_Context_Done_1 := fun w _ => (w, ())
  deref_Ptr_time_Timer := fun _ _ => ()
  get_time_Timer_C := fun _ => ()
  select_1 := fun w _ _ => (w, match ev w.calls with | .ends _ => if late w.calls then 1 else 0 | _ => 1)
  context_Context_Err_2 := fun w _ => (w, match ev w.calls with | .ends e => encErr e | _ => .global "context.Canceled")
  time_Timer_Stop_2 := fun w _ => (w, true)
  context_Context_Err_3 := fun w _ => (w, match ev w.calls with | .ends e => encErr e | _ => .nil)
  call_Func_2 := fun w _ _ => callOp op w
  FError_addErr_1 := fun w _ e => { w with re := w.re.addErr (decErr e) }

/-- what is observed of a run of the translated function: calls made, the `*FError` returned (none = nil), pauses -/
def obsT : Option (RWorld × GoErr) → Option (Nat × Option FErr × List Int)
  | none => none
  | some (w, r) => some (w.calls, if r == .nil then none else some w.re, w.waits)

/-- the same observation of the model's output (`none` = the fuel ran out) -/
def obsM (o : Out) : Option (Nat × Option FErr × List Int) :=
  if o.exhausted then none else some (o.calls, o.res, o.waits)

end LLRP.SeqGlue

namespace LLRP.SeqGlue
open LLRP LLRP.GoSeq LLRP.Retry LLRP.GoInt

theorem wrapS64_id (x : Int) (h0 : 0 ≤ x) (h1 : x < 2 ^ 63) : wrapS 64 x = x := by
  unfold wrapS
  omega

/-- the loop: from any state in which `n` calls have been made (`attempt = n`), the translated loop and the model's
loop make the same observation; the fuel is the same on both sides (the counter cannot wrap within `2^63` steps) -/
theorem src_retry_loop (op : Nat → Outcome) (entry : Option Err) (ev : Nat → WaitEv) (rnd : Nat → Int)
    (late : Nat → Bool) (hd : Bool) (hhd : hd = true ∨ ∀ n, isExceeds (ev n) = false)
    (c : Cfg) (retries : Int) :
    ∀ (fuel n : Nat) (re : FErr) (ws : List Int) (cont : Bool) (err : GoErr), (n : Int) + fuel < 2 ^ 63 →
      obsT (Gen.retry_ExpBackOff_RetryWithCtx_loop1 (retryEnv op entry ev rnd late hd) fuel ⟨n, re, ws⟩
              c () retries () cont err () () () hd (n : Int))
        = obsM (loop c retries op ev rnd fuel n re ws) := by
  intro fuel
  induction fuel with
  | zero => intro n re ws cont err _; simp [Gen.retry_ExpBackOff_RetryWithCtx_loop1, loop, obsT, obsM]
  | succ fuel ih =>
    intro n re ws cont err hn
    have hw : wrapS 64 ((n : Int) + 1) = ((n + 1 : Nat) : Int) := by
      rw [wrapS64_id] <;> omega
    refine (congrArg obsT (Gen.retry_ExpBackOff_RetryWithCtx_loop1.eq_2 (retryEnv op entry ev rnd late hd) ⟨n, re, ws⟩
      c () retries () cont err () () () hd (n : Int) fuel)).trans ?_
    unfold loop
    by_cases hc : retries = forever ∨ (n : Int) < retries
    · have hc' : (decide (retries = -1) || decide ((n : Int) < retries)) = true := by
        simpa [forever] using hc
      simp only [hc', if_true, hc]
      cases hev : ev n with
      | exceeds =>
        rcases hhd with hhd | hhd
        · simp [retryEnv, hev, hhd, isExceeds, obsT, obsM, decErr]
        · have := hhd n; simp [hev, isExceeds] at this
      | ends e =>
        cases hl : late n <;> cases hd <;>
          simp [retryEnv, hev, hl, isExceeds, obsT, obsM]
      | pass =>
        cases hop : op (n + 1) with
        | ok => cases hd <;> simp [retryEnv, hev, hop, isExceeds, obsT, obsM, callOp]
        | fatal => cases hd <;> simp [retryEnv, hev, hop, isExceeds, obsT, obsM, callOp, decErr]
        | retry =>
          have ih' := ih (n + 1) (re.addErr (.op (n + 1))) (ws ++ [c.nextWait n (rnd n)]) true (.extN (n + 1)) (by omega)
          cases hd <;> simp [retryEnv, hev, hop, isExceeds, callOp, decErr, hw] <;> simpa [retryEnv, callOp, decErr, isExceeds] using ih'
    · have hc' : (decide (retries = -1) || decide ((n : Int) < retries)) = false := by
        simpa [forever] using hc
      simp [hc', hc, retryEnv, obsT, obsM, decErr]

/-- **Source = model.** For every policy, retry count, operation script, context script, jitter draws, resolution of
the timer/`Done` race (`late`) and fuel below `2^63`, the translated `RetryWithCtx` and `Retry.run` make the same
observation: same number of calls, same `*FError` (or nil), same pauses — or both run out of fuel. -/
theorem src_retry_run (c : Cfg) (retries : Int) (op : Nat → Outcome) (ctx : Ctx) (rnd : Nat → Int)
    (late : Nat → Bool) (hd : Bool) (hhd : hd = true ∨ ∀ n, isExceeds (ctx.ev n) = false)
    (fuel : Nat) (hf : (fuel : Int) + 1 < 2 ^ 63) :
    obsT (Gen.retry_ExpBackOff_RetryWithCtx (retryEnv op ctx.entry ctx.ev rnd late hd) fuel ⟨0, zeroFErr, []⟩ c () retries ())
      = obsM (run c retries op ctx rnd fuel) := by
  obtain ⟨entry, ev⟩ := ctx
  unfold Gen.retry_ExpBackOff_RetryWithCtx run
  cases entry with
  | some e => simp [retryEnv, obsT, obsM, zeroFErr]
  | none =>
    cases hop : op 1 with
    | ok => simp [retryEnv, hop, obsT, obsM, callOp]
    | fatal => simp [retryEnv, hop, obsT, obsM, callOp, decErr, newFError]
    | retry =>
      have h := src_retry_loop op none ev rnd late hd hhd c.norm retries fuel 1
        (newFError (.op 1) c.keepErrs) [] true (.extN 1) (by omega)
      by_cases hm : c.max ≤ 0 <;> by_cases hb : c.backOff ≤ 0 <;>
        simp [retryEnv, hop, callOp, decErr, isExceeds, Cfg.norm, hm, hb, maxInt64] at h ⊢ <;> exact h

end LLRP.SeqGlue
