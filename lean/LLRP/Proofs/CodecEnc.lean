import LLRP.Model.SchemaWF
import LLRP.Proofs.CodecFields
/-!
Encoder side of the round-trip proof (C01): fuel-free descriptions of what `encode` emits for a `fits` value
(`EncP` one parameter, `EncL` a list, `EncS` a run of plain slots, `EncC` a choice run, `GroupsEnc` the decoder's
groups), obtained from `fitsSlots`/`encSlots` by following their choice-group state machines.
-/
namespace LLRP

/-! ## equation lemmas -/

def stOK : Option (String × Bool) → Bool
  | some (_, served) => served
  | none => true
def cardB (s : Slot) (k : Nat) : Bool :=
  if s.repeatable then (s.optional || decide (1 ≤ k)) else if s.optional then decide (k ≤ 1) else k == 1
def inlOf (S : Schema) (ty : String) : Bool := match S.param? ty with | some p => p.canInline | none => false

theorem fitsSlots_zero (S : Schema) (ss vss st) : fitsSlots S 0 ss vss st = false := by
  simp only [fitsSlots]

theorem fitsSlots_nil (S : Schema) (f) (vss st) (h : fitsSlots S f [] vss st = true) :
    vss = [] ∧ stOK st = true ∧ 0 < f := by
  cases f with
  | zero => simp [fitsSlots] at h
  | succ f =>
    cases vss with
    | nil =>
      refine ⟨rfl, ?_, Nat.succ_pos _⟩
      simp only [fitsSlots] at h
      cases st with
      | none => rfl
      | some p => obtain ⟨g, sv⟩ := p; simpa [stOK] using h
    | cons a b => simp [fitsSlots] at h

theorem fitsSlots_cons_nil (S : Schema) (f) (s ss st) : fitsSlots S f (s :: ss) [] st = false := by
  cases f <;> simp [fitsSlots]

theorem fitsSlots_plain (S : Schema) (f : Nat) (s : Slot) (ss vs vss st) (h : s.isChoice = false) :
    fitsSlots S (f+1) (s :: ss) (vs :: vss) st =
      (stOK st && fitsList S f s.ty vs && cardB s vs.length && fitsSlots S f ss vss none) := by
  simp only [fitsSlots, h, stOK, cardB]
  rfl

theorem fitsSlots_choice_same (S : Schema) (f : Nat) (s : Slot) (ss vs vss G sv) (h : s.isChoice = true)
    (hG : s.group = some G) :
    fitsSlots S (f+1) (s :: ss) (vs :: vss) (some (G, sv)) =
      (fitsList S f s.ty vs && decide (vs.length ≤ 1) && !(sv && vs.length == 1) &&
        vs.all (fun v => !v.zeroLike (inlOf S s.ty)) &&
        fitsSlots S f ss vss (some (G, sv || vs.length == 1))) := by
  simp only [fitsSlots, h, hG, inlOf]
  cases S.param? s.ty <;> simp

theorem fitsSlots_choice_new (S : Schema) (f : Nat) (s : Slot) (ss vs vss G st) (h : s.isChoice = true)
    (hG : s.group = some G) (hst : ∀ sv, st ≠ some (G, sv)) :
    fitsSlots S (f+1) (s :: ss) (vs :: vss) st =
      (stOK st && fitsSlots S (f+1) (s :: ss) (vs :: vss) (some (G, false))) := by
  rw [fitsSlots_choice_same S f s ss vs vss G false h hG]
  simp only [fitsSlots, h, hG]
  match st, hst with
  | none, _ => cases hp : S.param? s.ty <;> simp [stOK, inlOf, hp]
  | some (G', sv), hst =>
    have : G' ≠ G := fun e => hst sv (by rw [e])
    cases hp : S.param? s.ty <;> cases sv <;> simp [stOK, inlOf, this, hp]

theorem encSlots_nil (S : Schema) (f vss dn) : encSlots S f [] vss dn = [] := by
  cases f <;> simp [encSlots]

theorem encSlots_plain (S : Schema) (f : Nat) (s : Slot) (ss vs vss dn) (h : s.isChoice = false) :
    encSlots S (f+1) (s :: ss) (vs :: vss) dn = encList S f s.ty vs ++ encSlots S f ss vss none := by
  simp [encSlots, h]

theorem encSlots_choice (S : Schema) (f : Nat) (s : Slot) (ss vs vss dn) (h : s.isChoice = true) :
    encSlots S (f+1) (s :: ss) (vs :: vss) dn =
      if dn == s.group || vs.isEmpty then encSlots S f ss vss dn
      else encList S f s.ty (vs.take 1) ++ encSlots S f ss vss s.group := by
  simp [encSlots, h]

theorem szSlots_nil (S : Schema) (f vss dn) : szSlots S f [] vss dn = 0 := by
  cases f <;> simp [szSlots]

/-! ## `groupRuns` -/

section runs
variable {α β : Type} [BEq β] [LawfulBEq β] (key : α → β)

/-- what `groupRuns` returns: non-empty runs of equal key, adjacent runs differ -/
def RunsOK : List (List α) → Prop
  | [] => True
  | g :: gs =>
    (∃ x xs, g = x :: xs ∧ (∀ y ∈ xs, key y = key x) ∧
      (∀ z zs gs', gs = (z :: zs) :: gs' → key z ≠ key x)) ∧ RunsOK gs

theorem groupRuns_spec (l : List α) : (groupRuns key l).flatten = l ∧ RunsOK key (groupRuns key l) := by
  induction l with
  | nil => simp [groupRuns, RunsOK]
  | cons x xs ih =>
    obtain ⟨ihf, ihr⟩ := ih
    unfold groupRuns
    split
    · rename_i y ys rest heq
      rw [heq] at ihf ihr
      by_cases hk : (key x == key y) = true
      · simp only [hk, if_true]
        have hxy : key x = key y := by simpa using hk
        refine ⟨by simpa using ihf, ?_⟩
        obtain ⟨⟨y', ys', hg, hall, hnext⟩, hrest⟩ := ihr
        simp only [List.cons.injEq] at hg
        obtain ⟨rfl, rfl⟩ := hg
        refine ⟨⟨x, y :: ys, rfl, ?_, ?_⟩, hrest⟩
        · intro z hz
          rcases List.mem_cons.mp hz with rfl | hz
          · exact hxy.symm
          · rw [hall z hz, hxy]
        · intro z zs gs' e; rw [hxy]; exact hnext z zs gs' e
      · simp only [hk]
        have hxy : key x ≠ key y := by simpa using hk
        refine ⟨by simpa using ihf, ⟨x, [], rfl, by simp, ?_⟩, ihr⟩
        intro z zs gs' e
        simp only [List.cons.injEq] at e
        obtain ⟨⟨rfl, _⟩, _⟩ := e
        exact fun h => hxy h.symm
    · rename_i hne
      cases hg : groupRuns key xs with
      | nil =>
        rw [hg] at ihf
        simp only [List.flatten_nil] at ihf
        subst ihf
        refine ⟨by simp, ⟨x, [], rfl, by simp, by simp⟩, trivial⟩
      | cons g gs =>
        rw [hg] at ihr
        obtain ⟨⟨y, ys, rfl, _⟩, _⟩ := ihr
        exact absurd hg (hne y ys gs)
end runs

/-! ## fuel-free descriptions -/

/-- `e` is the encoding of the well-formed value `v` of parameter type `ty` (at some fuel `≤ n`) -/
def EncP (S : Schema) (n : Nat) (ty : String) (v : Val) (e : Bytes) : Prop :=
  ∃ f, f ≤ n ∧ fitsParam S f ty v = true ∧ encParam S f ty v = e

inductive EncL (S : Schema) (n : Nat) (ty : String) : List Val → Bytes → Prop
  | nil : EncL S n ty [] []
  | cons {v vs e es} : EncP S n ty v e → EncL S n ty vs es → EncL S n ty (v :: vs) (e ++ es)

/-- a run of plain (non-choice) slots -/
inductive EncS (S : Schema) (n : Nat) : List Slot → List (List Val) → Bytes → Prop
  | nil : EncS S n [] [] []
  | cons {s ss vs vss e es} : cardB s vs.length = true → EncL S n s.ty vs e → EncS S n ss vss es →
      EncS S n (s :: ss) (vs :: vss) (e ++ es)

/-- a choice run: exactly one member is present, and it passes the encoder's "present?" test -/
inductive EncC (S : Schema) (n : Nat) : List Slot → List (List Val) → Bytes → Prop
  | here {s ss v e} : EncP S n s.ty v e → v.zeroLike (inlOf S s.ty) = false →
      EncC S n (s :: ss) ([v] :: ss.map (fun _ => [])) e
  | there {s ss vss e} : EncC S n ss vss e → EncC S n (s :: ss) ([] :: vss) e

def isChoiceRun (g : List Slot) : Bool := match g with | s :: _ => s.isChoice | [] => false

def GroupEnc (S : Schema) (n : Nat) (g : List Slot) (vsg : List (List Val)) (e : Bytes) : Prop :=
  if isChoiceRun g then EncC S n g vsg e else EncS S n g vsg e

inductive GroupsEnc (S : Schema) (n : Nat) : List (List Slot) → List (List Val) → Bytes → Prop
  | nil : GroupsEnc S n [] [] []
  | cons {g gs vsg vss e es} : GroupEnc S n g vsg e → GroupsEnc S n gs vss es →
      GroupsEnc S n (g :: gs) (vsg ++ vss) (e ++ es)

theorem EncP.mono {S n m ty v e} (h : EncP S n ty v e) (hnm : n ≤ m) : EncP S m ty v e := by
  obtain ⟨f, hf, h1, h2⟩ := h
  exact ⟨f, Nat.le_trans hf hnm, h1, h2⟩

theorem EncL.mono {S n m ty vs e} (h : EncL S n ty vs e) (hnm : n ≤ m) : EncL S m ty vs e := by
  induction h with
  | nil => exact .nil
  | cons hp _ ih => exact .cons (hp.mono hnm) ih

theorem EncS.mono {S n m g vsg e} (h : EncS S n g vsg e) (hnm : n ≤ m) : EncS S m g vsg e := by
  induction h with
  | nil => exact .nil
  | cons hc hl _ ih => exact .cons hc (hl.mono hnm) ih

theorem EncC.mono {S n m g vsg e} (h : EncC S n g vsg e) (hnm : n ≤ m) : EncC S m g vsg e := by
  induction h with
  | here hp hz => exact .here (hp.mono hnm) hz
  | there _ ih => exact .there ih

theorem encL_of_fits (S : Schema) (ty : String) : ∀ (vs : List Val) (f : Nat),
    fitsList S f ty vs = true → EncL S f ty vs (encList S f ty vs)
  | [], f, _ => by cases f <;> simp [encList] <;> exact .nil
  | v :: vs, 0, h => by simp [fitsList] at h
  | v :: vs, f+1, h => by
    simp only [fitsList, Bool.and_eq_true] at h
    simp only [encList]
    exact .cons ⟨f, Nat.le_succ f, h.1, rfl⟩ ((encL_of_fits S ty vs f h.2).mono (Nat.le_succ f))

/-! ## splitting `fitsSlots`/`encSlots` into the decoder's groups -/

/-- a run of plain slots at the head of the slot list -/
theorem plain_run (S : Schema) : ∀ (g : List Slot), g ≠ [] → (∀ s ∈ g, s.isChoice = false) →
    ∀ (f : Nat) (ss : List Slot) (vss : List (List Val)) (st dn),
    fitsSlots S f (g ++ ss) vss st = true →
    ∃ vsg vss' eg f', vss = vsg ++ vss' ∧ EncS S f g vsg eg ∧ f' ≤ f ∧ stOK st = true ∧
      encSlots S f (g ++ ss) vss dn = eg ++ encSlots S f' ss vss' none ∧
      fitsSlots S f' ss vss' none = true
  | [], hne, _, _, _, _, _, _, _ => absurd rfl hne
  | s :: g, _, hall, f, ss, vss, st, dn, h => by
    have hs : s.isChoice = false := hall s List.mem_cons_self
    cases f with
    | zero => simp [fitsSlots_zero] at h
    | succ f =>
      cases vss with
      | nil => simp [fitsSlots_cons_nil] at h
      | cons vs vss =>
        simp only [List.cons_append] at h ⊢
        rw [fitsSlots_plain S f s _ vs vss st hs] at h
        simp only [Bool.and_eq_true] at h
        obtain ⟨⟨⟨hst, hl⟩, hc⟩, hrest⟩ := h
        rw [encSlots_plain S f s _ vs vss dn hs]
        have hL := (encL_of_fits S s.ty vs f hl).mono (Nat.le_succ f)
        cases g with
        | nil =>
          refine ⟨[vs], vss, encList S f s.ty vs ++ [], f, rfl, .cons hc hL .nil, Nat.le_succ f, hst, ?_, hrest⟩
          simp
        | cons s' g' =>
          obtain ⟨vsg, vss', eg, f', rfl, hE, hf', _, henc, hfit⟩ :=
            plain_run S (s' :: g') (by simp) (fun x hx => hall x (List.mem_cons_of_mem _ hx)) f ss vss none none hrest
          refine ⟨vs :: vsg, vss', encList S f s.ty vs ++ eg, f', rfl, .cons hc hL (hE.mono (Nat.le_succ f)),
            Nat.le_trans hf' (Nat.le_succ f), hst, ?_, hfit⟩
          rw [henc, List.append_assoc]

theorem encL_single {S n ty v e} (h : EncL S n ty [v] e) : EncP S n ty v e := by
  cases h with
  | cons hp hn => cases hn; simpa using hp

/-- the members of one choice group `G` at the head of the slot list; `sv` = the group has been served already -/
theorem choice_run (S : Schema) (G : String) : ∀ (g : List Slot),
    (∀ s ∈ g, s.isChoice = true ∧ s.group = some G) →
    ∀ (f : Nat) (ss : List Slot) (vss : List (List Val)) (sv : Bool) (dn : Option String),
    fitsSlots S f (g ++ ss) vss (some (G, sv)) = true →
    (sv = true → dn = some G) → (sv = false → dn ≠ some G) →
    ∃ vsg vss' f', vss = vsg ++ vss' ∧ f' ≤ f ∧
      ((sv = true ∧ vsg = g.map (fun _ => []) ∧
          encSlots S f (g ++ ss) vss dn = encSlots S f' ss vss' (some G) ∧
          fitsSlots S f' ss vss' (some (G, true)) = true) ∨
       (sv = false ∧ vsg = g.map (fun _ => []) ∧
          encSlots S f (g ++ ss) vss dn = encSlots S f' ss vss' dn ∧
          fitsSlots S f' ss vss' (some (G, false)) = true) ∨
       (sv = false ∧ ∃ e, EncC S f g vsg e ∧
          encSlots S f (g ++ ss) vss dn = e ++ encSlots S f' ss vss' (some G) ∧
          fitsSlots S f' ss vss' (some (G, true)) = true))
  | [], _, f, ss, vss, sv, dn, h, h1, h2 => by
    refine ⟨[], vss, f, rfl, Nat.le_refl f, ?_⟩
    cases sv with
    | true => left; rw [h1 rfl]; exact ⟨rfl, rfl, rfl, h⟩
    | false => right; left; exact ⟨rfl, rfl, rfl, h⟩
  | s :: g, hall, f, ss, vss, sv, dn, h, h1, h2 => by
    obtain ⟨hs, hG⟩ := hall s List.mem_cons_self
    have hall' : ∀ x ∈ g, x.isChoice = true ∧ x.group = some G := fun x hx => hall x (List.mem_cons_of_mem _ hx)
    cases f with
    | zero => simp [fitsSlots_zero] at h
    | succ f =>
      cases vss with
      | nil => simp [fitsSlots_cons_nil] at h
      | cons vs vss =>
        simp only [List.cons_append] at h ⊢
        rw [fitsSlots_choice_same S f s _ vs vss G sv hs hG] at h
        simp only [Bool.and_eq_true] at h
        obtain ⟨⟨⟨⟨hl, hlen⟩, hns⟩, hz⟩, hrest⟩ := h
        rw [encSlots_choice S f s _ vs vss dn hs]
        match vs, hl, hlen, hns, hz, hrest with
        | [], hl, hlen, hns, hz, hrest =>
          have hrest' : fitsSlots S f (g ++ ss) vss (some (G, sv)) = true := by simpa using hrest
          obtain ⟨vsg, vss', f', rfl, hf', hcases⟩ := choice_run S G g hall' f ss vss sv dn hrest' h1 h2
          refine ⟨[] :: vsg, vss', f', rfl, Nat.le_trans hf' (Nat.le_succ f), ?_⟩
          simp only [List.isEmpty_nil, Bool.or_true, if_true]
          rcases hcases with ⟨a, b, c, d⟩ | ⟨a, b, c, d⟩ | ⟨a, e, b, c, d⟩
          · left; exact ⟨a, by simp [b], c, d⟩
          · right; left; exact ⟨a, by simp [b], c, d⟩
          · right; right; exact ⟨a, e, .there (b.mono (Nat.le_succ f)), c, d⟩
        | [v], hl, hlen, hns, hz, hrest =>
          have hsv : sv = false := by simpa using hns
          subst hsv
          have hdn : (dn == s.group) = false := by
            rw [hG]; exact beq_false_of_ne (h2 rfl)
          have hrest' : fitsSlots S f (g ++ ss) vss (some (G, true)) = true := by simpa using hrest
          obtain ⟨vsg, vss', f', rfl, hf', hcases⟩ :=
            choice_run S G g hall' f ss vss true (some G) hrest' (fun _ => rfl) (fun h => by cases h)
          refine ⟨[v] :: vsg, vss', f', rfl, Nat.le_trans hf' (Nat.le_succ f), ?_⟩
          rcases hcases with ⟨_, b, c, d⟩ | ⟨a, _⟩ | ⟨a, _⟩
          · right; right
            refine ⟨rfl, encList S f s.ty [v], ?_, ?_, d⟩
            · rw [b]
              refine .here (encL_single ((encL_of_fits S s.ty [v] f hl).mono (Nat.le_succ f))) ?_
              simpa using hz
            · rw [hdn]; simp [hG, c]
          · cases a
          · cases a
        | _ :: _ :: _, hl, hlen, hns, hz, hrest => simp at hlen

theorem GroupEnc.mono {S n m g vsg e} (h : GroupEnc S n g vsg e) (hnm : n ≤ m) : GroupEnc S m g vsg e := by
  unfold GroupEnc at h ⊢
  split
  · rename_i hc; rw [if_pos hc] at h; exact h.mono hnm
  · rename_i hc; rw [if_neg hc] at h; exact h.mono hnm

theorem GroupsEnc.mono {S n m gs vss e} (h : GroupsEnc S n gs vss e) (hnm : n ≤ m) : GroupsEnc S m gs vss e := by
  induction h with
  | nil => exact .nil
  | cons hg _ ih => exact .cons (hg.mono hnm) ih

theorem isChoice_key {s : Slot} (h : s.isChoice = true) : ∃ G, s.group = some G ∧ slotKey s = (false, false, some G) := by
  unfold Slot.isChoice at h
  cases hg : s.group with
  | none => simp [hg] at h
  | some G =>
    simp only [hg, Option.isSome_some, Bool.true_and, Bool.and_eq_true, Bool.not_eq_true'] at h
    exact ⟨G, rfl, by simp [slotKey, h.1, h.2, hg]⟩

theorem isChoice_of_key {s t : Slot} (h : slotKey t = slotKey s) : t.isChoice = s.isChoice ∧ t.group = s.group := by
  simp only [slotKey, Prod.mk.injEq] at h
  simp [Slot.isChoice, h.1, h.2.1, h.2.2]

theorem unserved_exit (S : Schema) (f ss vss G) (h : fitsSlots S f ss vss (some (G, false)) = true) :
    ∃ s ss', ss = s :: ss' ∧ slotKey s = (false, false, some G) := by
  cases ss with
  | nil => have := (fitsSlots_nil S f vss _ h).2.1; simp [stOK] at this
  | cons s ss' =>
    refine ⟨s, ss', rfl, ?_⟩
    cases f with
    | zero => simp [fitsSlots_zero] at h
    | succ f =>
      cases vss with
      | nil => simp [fitsSlots_cons_nil] at h
      | cons vs vss =>
        by_cases hs : s.isChoice = true
        · obtain ⟨G', hG', hk⟩ := isChoice_key hs
          by_cases hGG : G' = G
          · rw [hk, hGG]
          · rw [fitsSlots_choice_new S f s ss' vs vss G' _ hs hG'
              (by intro sv e; simp only [Option.some.injEq, Prod.mk.injEq] at e; exact hGG e.1.symm)] at h
            simp [stOK] at h
        · rw [fitsSlots_plain S f s ss' vs vss _ (by simpa using hs)] at h
          simp [stOK] at h

/-- relation between the choice-group states of `fitsSlots` and `encSlots` at a group boundary -/
def StInv (st : Option (String × Bool)) (dn : Option String) : Prop :=
  match st with
  | none => dn = none
  | some (G, true) => dn = some G
  | some (_, false) => True

theorem groups_enc_aux (S : Schema) : ∀ (gs : List (List Slot)), RunsOK slotKey gs →
    ∀ (f : Nat) (vss : List (List Val)) (st : Option (String × Bool)) (dn : Option String),
    fitsSlots S f gs.flatten vss st = true → StInv st dn →
    (∀ G sv s g gs', st = some (G, sv) → gs = (s :: g) :: gs' → slotKey s ≠ (false, false, some G)) →
    GroupsEnc S f gs vss (encSlots S f gs.flatten vss dn)
  | [], _, f, vss, st, dn, h, _, _ => by
    simp only [List.flatten_nil] at h ⊢
    obtain ⟨rfl, _, _⟩ := fitsSlots_nil S f vss st h
    rw [encSlots_nil]
    exact .nil
  | g :: gs, hruns, f, vss, st, dn, h, hinv, hcompat => by
    obtain ⟨⟨s, g', rfl, hkey, hnext⟩, hruns'⟩ := hruns
    simp only [List.flatten_cons] at h ⊢
    by_cases hs : s.isChoice = true
    · obtain ⟨G, hG, hk⟩ := isChoice_key hs
      have hall : ∀ x ∈ s :: g', x.isChoice = true ∧ x.group = some G := by
        intro x hx
        rcases List.mem_cons.mp hx with rfl | hx
        · exact ⟨hs, hG⟩
        · have := isChoice_of_key (hkey x hx); rw [this.1, this.2]; exact ⟨hs, hG⟩
      have hst : ∀ sv, st ≠ some (G, sv) := fun sv e => hcompat G sv s g' gs e rfl hk
      cases f with
      | zero => simp [fitsSlots_zero] at h
      | succ f =>
        cases vss with
        | nil => simp [fitsSlots_cons_nil] at h
        | cons vs vss =>
          have h' := h
          simp only [List.cons_append] at h'
          rw [fitsSlots_choice_new S f s _ vs vss G st hs hG hst] at h'
          simp only [Bool.and_eq_true] at h'
          obtain ⟨hstok, h'⟩ := h'
          have hdn : dn ≠ some G := by
            match st, hinv, hst, hstok with
            | none, hinv, _, _ => simp only [StInv] at hinv; rw [hinv]; simp
            | some (G', true), hinv, hst, _ =>
              simp only [StInv] at hinv; rw [hinv]
              intro e; simp only [Option.some.injEq] at e; exact hst true (by rw [e])
            | some (G', false), _, _, hstok => simp [stOK] at hstok
          obtain ⟨vsg, vss', f', hvss, hf', hcases⟩ :=
            choice_run S G (s :: g') hall (f+1) gs.flatten (vs :: vss) false dn
              (by simpa only [List.cons_append] using h') (fun h => by cases h) (fun _ => hdn)
          rcases hcases with ⟨a, _⟩ | ⟨_, _, _, d⟩ | ⟨_, e, b, c, d⟩
          · cases a
          · exfalso
            obtain ⟨z, zs, hz, hzk⟩ := unserved_exit S f' _ _ G d
            cases gs with
            | nil => simp at hz
            | cons g2 gs2 =>
              obtain ⟨⟨z', zs', rfl, _, _⟩, _⟩ := hruns'
              simp only [List.flatten_cons, List.cons_append, List.cons.injEq] at hz
              obtain ⟨rfl, _⟩ := hz
              exact hnext z' zs' gs2 rfl (by rw [hzk, hk])
          · rw [hvss] at c ⊢; rw [c]
            refine .cons (by unfold GroupEnc; simp only [isChoiceRun, hs, if_true]; exact b) ?_
            refine (groups_enc_aux S gs hruns' f' vss' (some (G, true)) (some G) d (by simp [StInv]) ?_).mono hf'
            intro G2 sv2 z zs gs2 e1 e2
            simp only [Option.some.injEq, Prod.mk.injEq] at e1
            rw [← e1.1, ← hk]
            exact hnext z zs gs2 e2
    · have hs' : s.isChoice = false := by simpa using hs
      have hall : ∀ x ∈ s :: g', x.isChoice = false := by
        intro x hx
        rcases List.mem_cons.mp hx with rfl | hx
        · exact hs'
        · rw [(isChoice_of_key (hkey x hx)).1]; exact hs'
      obtain ⟨vsg, vss', eg, f', rfl, hE, hf', _, henc, hfit⟩ :=
        plain_run S (s :: g') (by simp) hall f gs.flatten vss st dn h
      rw [henc]
      refine .cons (by unfold GroupEnc; simp only [isChoiceRun, hs', Bool.false_eq_true, if_false]; exact hE) ?_
      refine (groups_enc_aux S gs hruns' f' vss' none none hfit (by simp [StInv]) ?_).mono hf'
      intro G2 sv2 z zs gs2 e1; cases e1

/-- what `encode` emits for the slots of a container, by decoder group -/
theorem groups_enc (S : Schema) (c : Container) (f : Nat) (subs : List (List Val))
    (h : fitsSlots S f c.slots subs none = true) :
    GroupsEnc S f c.groups subs (encSlots S f c.slots subs none) := by
  have hsp := groupRuns_spec slotKey c.slots
  have := groups_enc_aux S c.groups hsp.2 f subs none none (by rw [Container.groups, hsp.1]; exact h) rfl
    (by intro _ _ _ _ _ e; cases e)
  rwa [Container.groups, hsp.1] at this

/-! ## what `SchemaWF` gives for one container -/

structure WFC (S : Schema) (c : Container) : Prop where
  fields : fieldsWF c.fields = true
  rest : hasRest c.fields = true → c.slots = []
  tlvId : c.isMsg = false → c.isTLV = true → c.typeId < 1024
  tv : c.isMsg = false → c.isTLV = false → 1 ≤ c.typeId ∧ c.slots = [] ∧ c.fields.all (·.kind.isFixed) = true
  groups : groupsOK S c.groups = true
  cost : groupsCost c.groups ≤ 7
  fixed : fixedSize S c = true → c.slots = []
  min : minSize S c ≤ lower S c

theorem wfc_of_wfContainer {S : Schema} {c : Container} (h : wfContainer S c = true) : WFC S c := by
  unfold wfContainer at h
  simp only [Bool.and_eq_true, Bool.or_eq_true, Bool.not_eq_true', decide_eq_true_eq, List.isEmpty_iff] at h
  obtain ⟨⟨⟨⟨⟨⟨h1, h2⟩, h3⟩, h4⟩, h5⟩, h6⟩, h7⟩ := h
  refine ⟨h1, ?_, ?_, ?_, h4, h5, ?_, h7⟩
  · intro hr; rcases h2 with h | h
    · rw [hr] at h; cases h
    · exact h
  · intro hm ht
    rcases h3 with h | h
    · rw [hm] at h; cases h
    · rw [if_pos ht] at h; simpa using h
  · intro hm ht
    rcases h3 with h | h
    · rw [hm] at h; cases h
    · rw [if_neg (by simp [ht])] at h
      simpa [Bool.and_eq_true, List.isEmpty_iff, and_assoc] using h
  · intro hf; rcases h6 with h | h
    · rw [hf] at h; cases h
    · exact h

theorem wfc_of_mem {S : Schema} (hS : SchemaWF S = true) {c : Container} (hc : c ∈ S) : WFC S c :=
  wfc_of_wfContainer (List.all_eq_true.mp hS c hc)

theorem param_mem {S : Schema} {ty : String} {p : Container} (h : S.param? ty = some p) :
    p ∈ S ∧ p.isMsg = false := by
  unfold Schema.param? at h
  refine ⟨List.mem_of_find?_eq_some h, ?_⟩
  have := List.find?_some h
  simp only [Bool.and_eq_true, Bool.not_eq_true'] at this
  exact this.1

theorem wfc_of_param {S : Schema} (hS : SchemaWF S = true) {ty : String} {p : Container}
    (h : S.param? ty = some p) : WFC S p := wfc_of_mem hS (param_mem h).1

theorem headerSize_param {c : Container} (hm : c.isMsg = false) :
    c.headerSize = if c.isTLV then 4 else 1 := by
  simp [Container.headerSize, hm]

/-! ## `paramHeader.sz` is the real length on `fits` values (also C02's `implSize_exact`) -/

theorem take_one_of_le {α} (l : List α) (h : l.length ≤ 1) : l.take 1 = l := by
  match l, h with
  | [], _ => rfl
  | [_], _ => rfl

theorem sz_eq_length (S : Schema) (hS : SchemaWF S = true) : ∀ f : Nat,
    (∀ ty v, fitsParam S f ty v = true → szParam S f ty v = (encParam S f ty v).length) ∧
    (∀ ty vs, fitsList S f ty vs = true → szList S f ty vs = (encList S f ty vs).length) ∧
    (∀ ss vss st dn, fitsSlots S f ss vss st = true → szSlots S f ss vss dn = (encSlots S f ss vss dn).length)
  | 0 => by
    refine ⟨?_, ?_, ?_⟩
    · intro ty v h; simp [fitsParam] at h
    · intro ty vs h; simp [fitsList] at h
    · intro ss vss st dn h; simp [fitsSlots_zero] at h
  | f+1 => by
    obtain ⟨ihP, ihL, ihS⟩ := sz_eq_length S hS f
    refine ⟨?_, ?_, ?_⟩
    · intro ty v h
      obtain ⟨fs, subs⟩ := v
      simp only [fitsParam] at h
      simp only [szParam, encParam]
      cases hp : S.param? ty with
      | none => simp [hp] at h
      | some c =>
        simp only [hp, Bool.and_eq_true, decide_eq_true_eq] at h ⊢
        obtain ⟨⟨hff, hfs⟩, hlt⟩ := h
        have hw := wfc_of_param hS hp
        have hm := (param_mem hp).2
        rw [wrap16_of_lt _ hlt, ihS _ _ _ none hfs, ← encFields_length c.fields fs hw.fields hff,
          headerSize_param hm]
        by_cases ht : c.isTLV = true
        · simp [ht, put16]; omega
        · simp [ht]; omega
    · intro ty vs h
      cases vs with
      | nil => simp [szList, encList]
      | cons v vs =>
        simp only [fitsList, Bool.and_eq_true] at h
        simp only [szList, encList, List.length_append]
        rw [ihP ty v h.1, ihL ty vs h.2]
    · intro ss vss st dn h
      cases ss with
      | nil => rw [szSlots_nil, encSlots_nil]; rfl
      | cons s ss =>
        cases vss with
        | nil => simp [fitsSlots_cons_nil] at h
        | cons vs vss =>
          by_cases hs : s.isChoice = true
          · obtain ⟨G, hG, _⟩ := isChoice_key hs
            have key : fitsList S f s.ty vs = true ∧ vs.length ≤ 1 ∧ ∃ st', fitsSlots S f ss vss st' = true := by
              by_cases hst : ∃ sv, st = some (G, sv)
              · obtain ⟨sv, rfl⟩ := hst
                rw [fitsSlots_choice_same S f s ss vs vss G sv hs hG] at h
                simp only [Bool.and_eq_true, decide_eq_true_eq] at h
                exact ⟨h.1.1.1.1, h.1.1.1.2, _, h.2⟩
              · rw [fitsSlots_choice_new S f s ss vs vss G st hs hG (fun sv e => hst ⟨sv, e⟩),
                  fitsSlots_choice_same S f s ss vs vss G false hs hG] at h
                simp only [Bool.and_eq_true, decide_eq_true_eq] at h
                exact ⟨h.2.1.1.1.1, h.2.1.1.1.2, _, h.2.2⟩
            obtain ⟨hl, hlen, st', hrest⟩ := key
            simp only [szSlots, encSlots, hs, if_true]
            split
            · exact ihS ss vss st' dn hrest
            · rw [take_one_of_le vs hlen, List.length_append, ihL _ _ hl, ihS ss vss st' _ hrest]
          · have hs' : s.isChoice = false := by simpa using hs
            rw [fitsSlots_plain S f s ss vs vss st hs'] at h
            simp only [Bool.and_eq_true] at h
            simp only [szSlots, encSlots, hs', Bool.false_eq_true, if_false, List.length_append]
            rw [ihL _ _ h.1.1.2, ihS ss vss none none h.2]

/-! ## shape of an encoded parameter -/

theorem or_128 {t : Nat} (h : t < 128) : t ||| 128 = t + 128 := by
  have := Nat.shiftLeft_add_eq_or_of_lt (a := 1) (i := 7) (b := t) (by simpa using h)
  rw [Nat.or_comm]
  have h2 : (1 : Nat) <<< 7 = 128 := by decide
  rw [h2] at this
  omega

theorem isTLV_false {c : Container} (h : c.isTLV = false) : c.typeId < 128 := by
  simpa [Container.isTLV] using h

structure ParamShape (S : Schema) (n : Nat) (p : Container) (v : Val) (e : Bytes) : Prop where
  ex : ∃ fs subs f, f + 1 ≤ n ∧ v = .node fs subs ∧ fitsFields p.fields fs = true ∧
    fitsSlots S f p.slots subs none = true ∧
    (p.isTLV = true → e = [byte (p.typeId / 256), byte p.typeId] ++ put16 e.length ++
        (encFields p.fields fs 0 ++ encSlots S f p.slots subs none) ∧ e.length < 65536) ∧
    (p.isTLV = false → e = byte (p.typeId + 128) :: (encFields p.fields fs 0 ++ encSlots S f p.slots subs none))

theorem encP_shape (S : Schema) (hS : SchemaWF S = true) {n : Nat} {ty : String} {v : Val} {e : Bytes}
    {p : Container} (hp : S.param? ty = some p) (h : EncP S n ty v e) : ParamShape S n p v e := by
  obtain ⟨f0, hf0, hfit, henc⟩ := h
  have hsz := (sz_eq_length S hS f0).1 ty v hfit
  cases f0 with
  | zero => simp [fitsParam] at hfit
  | succ f =>
    obtain ⟨fs, subs⟩ := v
    simp only [fitsParam, hp, Bool.and_eq_true, decide_eq_true_eq] at hfit
    obtain ⟨⟨hff, hfs⟩, hlt⟩ := hfit
    simp only [szParam, hp] at hsz
    rw [wrap16_of_lt _ hlt] at hsz
    simp only [encParam, hp] at henc hsz
    have hm := (param_mem hp).2
    refine ⟨fs, subs, f, hf0, rfl, hff, hfs, ?_, ?_⟩
    · intro ht
      rw [if_pos ht] at henc hsz
      rw [headerSize_param hm, if_pos ht] at hsz hlt
      have hlen : e.length = wrap16 (4 + fieldsSz p.fields fs + szSlots S f p.slots subs none) := by
        rw [wrap16_of_lt _ hlt, hsz, henc]
      refine ⟨?_, ?_⟩
      · rw [hlen]; exact henc.symm
      · rw [hlen, wrap16_of_lt _ hlt]; exact hlt
    · intro ht
      rw [if_neg (by simp [ht])] at henc
      rw [← henc, or_128 (isTLV_false ht)]

/-- a TV parameter occupies exactly its table size -/
theorem tv_length (S : Schema) (hS : SchemaWF S = true) {n : Nat} {ty : String} {v : Val} {e : Bytes}
    {p : Container} (hp : S.param? ty = some p) (h : EncP S n ty v e) (ht : p.isTLV = false) :
    e.length = paramMinSize S p := by
  have hw := wfc_of_param hS hp
  have hm := (param_mem hp).2
  obtain ⟨hid, hsl, hfix⟩ := hw.tv hm ht
  obtain ⟨fs, subs, f, _, _, hff, _, _, htv⟩ := (encP_shape S hS hp h).ex
  rw [htv ht, hsl, encSlots_nil]
  simp only [List.append_nil, List.length_cons, fieldsFixed_length p.fields fs hw.fields hff hfix]
  simp [paramMinSize, Schema.fuel, paramMinSizeF, hsl, groupRuns, headerSize_param hm, ht]
  omega

end LLRP
