import LLRP.Model.Discover
/-!
Lemmas for C16/C17: the arithmetic characterisation of the generator's bit operations
(`a & mask = a - a % 2^(32-len)`, `netId ^ ^mask = netId + 2^(32-len) - 1`), proved once for every address
below 2^32 and every prefix length ≤ 32, and the closed form of `hosts`.
-/
namespace LLRP.Discover

/-- size of an address block of prefix length `len` -/
def blk (len : Nat) : Nat := 2 ^ (32 - len)

theorem blk_pos (len : Nat) : 0 < blk len := Nat.two_pow_pos _

theorem two_pow_split {len : Nat} (h : len ≤ 32) : 2 ^ len * blk len = 4294967296 := by
  unfold blk
  rw [← Nat.pow_add]
  have : len + (32 - len) = 32 := by omega
  rw [this]

/-- the mask is `2^32 − 2^(32−len)` -/
theorem mask_eq {len : Nat} (h : len ≤ 32) : mask len = 4294967296 - blk len := by
  unfold mask
  rw [Nat.shiftLeft_eq, Nat.sub_mul, Nat.one_mul]
  have := two_pow_split h
  unfold blk at *
  rw [this]

theorem blk_le {len : Nat} (h : len ≤ 32) : blk len ≤ 4294967296 := by
  have := two_pow_split h
  have hp : 0 < 2 ^ len := Nat.two_pow_pos _
  calc blk len = 1 * blk len := (Nat.one_mul _).symm
    _ ≤ 2 ^ len * blk len := Nat.mul_le_mul_right _ hp
    _ = 4294967296 := this

theorem testBit_mask (len i : Nat) : (mask len).testBit i = (decide (32 - len ≤ i) && decide (i - (32 - len) < len)) := by
  unfold mask
  rw [Nat.testBit_shiftLeft, Nat.testBit_two_pow_sub_one]

theorem testBit_ge32 {a i : Nat} (ha : a < 4294967296) (hi : 32 ≤ i) : a.testBit i = false := by
  apply Nat.testBit_lt_two_pow
  calc a < 2 ^ 32 := ha
    _ ≤ 2 ^ i := Nat.pow_le_pow_right (by decide) hi

/-- `a & mask = a − a mod 2^(32−len)` for every 32-bit `a` -/
theorem and_mask {a len : Nat} (ha : a < 4294967296) (h : len ≤ 32) : a &&& mask len = a - a % blk len := by
  have e : a - a % blk len = 2 ^ (32 - len) * (a / 2 ^ (32 - len)) := by
    have := Nat.div_add_mod a (2 ^ (32 - len))
    unfold blk
    omega
  rw [e]
  apply Nat.eq_of_testBit_eq
  intro i
  rw [Nat.testBit_and, testBit_mask, Nat.testBit_two_pow_mul, Nat.testBit_div_two_pow]
  by_cases h1 : 32 - len ≤ i
  · have e2 : i - (32 - len) + (32 - len) = i := by omega
    by_cases h2 : i - (32 - len) < len
    · simp [h1, h2, e2]
    · have : a.testBit i = false := testBit_ge32 ha (by omega)
      simp [h1, h2, e2, this]
  · simp [h1]

theorem netId_eq {a len : Nat} (ha : a < 4294967296) (h : len ≤ 32) : netId a len = a - a % blk len :=
  and_mask ha h

theorem netId_le (a len : Nat) (ha : a < 4294967296) (h : len ≤ 32) : netId a len ≤ a := by
  rw [netId_eq ha h]; omega

theorem netId_dvd {a len : Nat} (ha : a < 4294967296) (h : len ≤ 32) : netId a len % blk len = 0 := by
  rw [netId_eq ha h]
  have := Nat.div_add_mod a (blk len)
  have e : a - a % blk len = blk len * (a / blk len) := by omega
  rw [e, Nat.mul_mod_right]

/-- masking is idempotent: what `ipGenerator` recomputes from `inet.IP` is `inet.IP` -/
theorem netId_idem {a len : Nat} (ha : a < 4294967296) (h : len ≤ 32) : netId (netId a len) len = netId a len := by
  have hl : netId a len < 4294967296 := Nat.lt_of_le_of_lt (netId_le a len ha h) ha
  rw [netId_eq hl h, netId_dvd ha h]; omega

/-- `^umask = 2^(32−len) − 1` -/
theorem not32_mask {len : Nat} (h : len ≤ 32) : not32 (mask len) = blk len - 1 := by
  apply Nat.eq_of_testBit_eq
  intro i
  unfold not32 blk
  have e : (4294967295 : Nat) = 2 ^ 32 - 1 := by decide
  rw [Nat.testBit_xor, testBit_mask, e, Nat.testBit_two_pow_sub_one, Nat.testBit_two_pow_sub_one]
  by_cases h1 : 32 - len ≤ i <;> by_cases h2 : i - (32 - len) < len <;> by_cases h3 : i < 32 <;>
    by_cases h4 : i < 32 - len <;> simp [h1, h2, h3, h4] <;> omega

/-- xor with the low-bit mask adds it when the left side is a multiple of the block size -/
theorem xor_low {n k : Nat} (hn : n % 2 ^ k = 0) : n ^^^ (2 ^ k - 1) = n + (2 ^ k - 1) := by
  have e : n = 2 ^ k * (n / 2 ^ k) := by
    have := Nat.div_add_mod n (2 ^ k); omega
  have hlt : 2 ^ k - 1 < 2 ^ k := by have := Nat.two_pow_pos k; omega
  rw [e, Nat.two_pow_add_eq_or_of_lt hlt]
  apply Nat.eq_of_testBit_eq
  intro i
  rw [Nat.testBit_xor, Nat.testBit_or, Nat.testBit_two_pow_mul, Nat.testBit_two_pow_sub_one]
  by_cases h1 : i ≥ k <;> by_cases h2 : i < k <;> simp [h1, h2] <;> omega

theorem bcast_eq {a len : Nat} (ha : a < 4294967296) (h : len ≤ 32) : bcast a len = netId a len + (blk len - 1) := by
  unfold bcast
  rw [not32_mask h]
  exact xor_low (netId_dvd ha h)

/-- every address of the block has the block's network id -/
theorem netId_of_mem {a len x : Nat} (ha : a < 4294967296) (h : len ≤ 32)
    (h1 : netId a len ≤ x) (h2 : x < netId a len + blk len) : netId x len = netId a len := by
  have hb := blk_le h
  have hd := netId_dvd ha h
  have hna := netId_le a len ha h
  -- netId a + blk ≤ 2^32 because both are multiples of blk … simpler: x - netId < blk and netId multiple of blk
  have hx32 : x < 4294967296 := by
    -- netId a len = blk * q, q < 2^len, so netId + blk ≤ blk * 2^len = 2^32
    have hs := two_pow_split h
    have e : netId a len = blk len * (netId a len / blk len) := by
      have := Nat.div_add_mod (netId a len) (blk len); omega
    have hq : netId a len / blk len < 2 ^ len := by
      apply Nat.div_lt_of_lt_mul
      rw [Nat.mul_comm, hs]; omega
    have : blk len * (netId a len / blk len + 1) ≤ blk len * 2 ^ len := Nat.mul_le_mul_left _ hq
    rw [Nat.mul_add, Nat.mul_one, ← e, Nat.mul_comm, hs] at this
    omega
  rw [netId_eq hx32 h]
  have e : x = netId a len + (x - netId a len) := by omega
  have hm : x % blk len = x - netId a len := by
    have e2 : netId a len = blk len * (netId a len / blk len) := by
      have := Nat.div_add_mod (netId a len) (blk len); omega
    rw [e, e2, Nat.mul_add_mod, ← e2]
    have : x - netId a len < blk len := by omega
    rw [Nat.mod_eq_of_lt]
    · omega
    · omega
  omega

/-- the loop's filter never rejects: closed form of `hosts` for 2 ≤ len ≤ 30 -/
theorem hosts_closed {a len : Nat} (ha : a < 4294967296) (h2 : 2 ≤ len) (h30 : len ≤ 30) :
    hosts a len = List.range' (netId a len + 1) (blk len - 2) := by
  have h32 : len ≤ 32 := by omega
  have hidem := netId_idem ha h32
  unfold hosts gen
  have c1 : ¬ len ≤ 1 := by omega
  have c2 : ¬ len ≥ 31 := by omega
  simp only [c1, c2, if_false]
  have hnid : netId a len &&& mask len = netId a len := hidem
  rw [hnid, hnid]
  have hbc : netId a len ^^^ not32 (mask len) = netId a len + (blk len - 1) := bcast_eq ha h32
  rw [hbc]
  have hb := blk_pos len
  have en : netId a len + (blk len - 1) - (netId a len + 1) = blk len - 2 := by omega
  rw [en, List.filter_eq_self]
  intro x hx
  rw [List.mem_range'_1] at hx
  have := netId_of_mem (x := x) ha h32 (by omega) (by omega)
  unfold netId at this
  simp only [beq_iff_eq]
  rw [this]
  rfl

theorem blk_ge4 {len : Nat} (h30 : len ≤ 30) : 4 ≤ blk len := by
  unfold blk
  calc 4 = 2 ^ 2 := by decide
    _ ≤ 2 ^ (32 - len) := Nat.pow_le_pow_right (by decide) (by omega)

theorem hosts_hi {a len : Nat} (h31 : 31 ≤ len) : hosts a len = [netId a len] := by
  unfold hosts gen
  have c1 : ¬ len ≤ 1 := by omega
  simp [c1, h31]

theorem hostsCount_eq {a len : Nat} (ha : a < 4294967296) (h32 : len ≤ 32) : hostsCount a len = (hosts a len).length := by
  unfold hostsCount
  by_cases c1 : len ≤ 1
  · have : hosts a len = [] := by unfold hosts gen; simp [c1]
    simp [c1, this]
  · by_cases c2 : len ≥ 31
    · simp [c1, c2, hosts_hi c2]
    · rw [hosts_closed ha (by omega) (by omega), bcast_eq ha h32]
      have := blk_pos len
      simp only [c1, c2, if_false, List.length_range']
      omega

theorem hostsSlice_eq {a len : Nat} (ha : a < 4294967296) (h32 : len ≤ 32) (i k : Nat) :
    hostsSlice a len i k = ((hosts a len).drop i).take k := by
  unfold hostsSlice
  by_cases c1 : len ≤ 1
  · have : hosts a len = [] := by unfold hosts gen; simp [c1]
    simp [c1, this]
  · by_cases c2 : len ≥ 31
    · simp [c1, c2, hosts_hi c2]
    · rw [hosts_closed ha (by omega) (by omega), bcast_eq ha h32]
      have := blk_pos len
      simp only [c1, c2, if_false]
      rw [List.drop_range']
      have en : netId a len + (blk len - 1) - (netId a len + 1) - i = blk len - 2 - i := by omega
      rw [en, Nat.mul_one]
      by_cases hk : k ≤ blk len - 2 - i
      · rw [List.take_range'_of_length_ge hk, Nat.min_eq_left hk]
      · rw [List.take_range'_of_length_le (by omega), Nat.min_eq_right (by omega)]

end LLRP.Discover
