import LLRP.Gen.Seq
/-!
# The write loop `Client.handleOutgoing` as translated from the source (`Gen.llrp_Client_handleOutgoing`, go2seq),
run against an *arbitrary* environment behaviour

`woEnv O` is an environment whose every choice — which `select` case proceeds, which id comes out of the ack queue,
which request comes out of the send queue, whether a write fails, what `c.ver()` and `c.timeout` are — is read from
the oracle `O` at the current step (the World counts the environment-visible steps). Headers and messages are concrete
records, so the field operations are ordinary projections. The World logs what the loop does to the outside: headers
written, payloads copied, ids dequeued from the ack queue, requests dequeued, reply listeners registered, the
`closeSent` flag, the final wait for `done`. The theorems quantify over the oracle: they hold for every behaviour of
the connection, the channels and the scheduler.
-/
namespace LLRP.SeqWrite
open LLRP LLRP.GoSeq

structure Hdr where
  typ : Int := 0
  id : Int := 0
  ver : Int := 0
  plen : Int := 0
deriving DecidableEq, Repr, Inhabited

structure Msg where
  hdr : Hdr := {}
  /-- the message has a payload reader -/
  pay : Bool := false
deriving DecidableEq, Repr, Inhabited

structure Req where
  msg : Msg := {}
  /-- the sender wants a reply (`tokenChan != nil`) -/
  wantsReply : Bool := false
deriving DecidableEq, Repr, Inhabited

inductive Ev where
  | ackDeq (id : Int)
  | reqDeq (r : Req)
  | register (id : Int)
  | token (id : Int)
  | ver (v : Int)
  | closeSent
  | hdr (h : Hdr)
  | payload
  | waitDone
deriving DecidableEq, Repr

/-- everything the environment decides, as functions of the step number -/
structure Oracle where
  sel : Nat → Int
  ackId : Nat → Int
  req : Nat → Req
  ver : Nat → Int
  err : Nat → GoErr
  timeout : Int

structure WW where
  step : Nat := 0
  log : List Ev := []

def tick (w : WW) (e : List Ev) : WW := { step := w.step + 1, log := w.log ++ e }

def woEnv (O : Oracle) : Gen.Env_llrp_Client_handleOutgoing where
  World := WW
  Message := Msg
  Chan_Struct_struct := Unit
  Chan_messageID := Unit
  Header := Hdr
  net_Conn := Unit
  time_Time := Unit
  Ptr_uint32 := Unit
  io_Reader := Bool
  io_Writer := Unit
  Struct_struct := Unit
  Chan_request := Unit
  request := Req
  Chan_sendToken := Bool        -- false = nil
  Chan_Message := Unit
  sync_Mutex := Unit
  Map_messageID_Chan_Message := Unit
  sendToken := Unit
  Func_func := Unit
  zero_Message := {}
  Client_done := fun _ => ()
  Client_ackQueue := fun _ => ()
  selrecv_1_1 := fun w _ => (tick w [.ackDeq (O.ackId w.step)], O.ackId w.step, true)
  select_1 := fun w _ _ => (tick w [], O.sel w.step)
  zero_Header := {}
  set_Header_id := fun h v => { h with id := v }
  set_Header_typ := fun h v => { h with typ := v }
  set_Message_Header := fun m h => { m with hdr := h }
  get_Message_Header := fun m => m.hdr
  get_Header_typ := fun h => h.typ
  set_Header_version := fun h v => { h with ver := v }
  Client_ver_1 := fun w => (tick w [.ver (O.ver w.step)], O.ver w.step)
  Client_timeout := fun _ => O.timeout
  Client_conn := fun _ => ()
  time_Now_1 := fun w => (w, ())
  time_Time_Add_1 := fun w _ _ => (w, ())
  net_Conn_SetWriteDeadline_1 := fun w _ _ => (tick w [], O.err w.step)
  Client_closeSent := fun _ => 0
  addr_uint32 := fun w _ => (w, ())
  atomic_StoreUint32_1 := fun w _ _ => tick w [.closeSent]
  Client_writeHeader_1 := fun w h => (tick w [.hdr h], O.err w.step)
  get_Header_payloadLen := fun h => h.plen
  get_Message_payload := fun m => m.pay
  isNil_io_Reader := fun p => !p
  conv_net_Conn_to_io_Writer := fun _ => ()
  io_Copy_1 := fun w _ _ => (tick w [.payload], 0, O.err w.step)
  recv_Chan_Struct_struct := fun w _ => (tick w [.waitDone], (), false)
  selrecv_2_1 := fun w _ => (tick w [.ackDeq (O.ackId w.step)], O.ackId w.step, true)
  Client_sendQueue := fun _ => ()
  selrecv_2_2 := fun w _ => (tick w [.reqDeq (O.req w.step)], O.req w.step, true)
  select_2 := fun w _ _ _ => (tick w [], O.sel w.step)
  get_request_msg := fun r => r.msg
  get_Header_id := fun h => h.id
  get_request_tokenChan := fun r => r.wantsReply
  isNil_Chan_sendToken := fun c => !c
  make_Chan_Message := fun w _ => (w, ())
  Client_awaitMu := fun _ => ()
  sync_Mutex_Lock_1 := fun w _ => w
  Client_awaiting := fun _ => ()
  mapset_Map_messageID_Chan_Message := fun w _ id _ => tick w [.register id]
  sync_Mutex_Unlock_1 := fun w _ => w
  zero_sendToken := ()
  set_sendToken_replyChan := fun _ _ => ()
  closure_1 := fun w _ => (w, ())
  set_sendToken_cancel := fun _ _ => ()
  send_Chan_sendToken := fun w _ _ => w
  close_Chan_sendToken := fun w _ => w

/-- run the translated loop from a given log, message-id counter and step -/
def runLoop (O : Oracle) (fuel : Nat) (w : WW) (next : Int) : Option (WW × GoErr) :=
  Gen.llrp_Client_handleOutgoing_loop1 (woEnv O) fuel w next

/-- a result that is not a success -/
def NN {W : Type} (r : Option (W × GoErr)) : Prop := ∀ w e, r = some (w, e) → e ≠ .nil

theorem nn_none {W : Type} : NN (none : Option (W × GoErr)) := by intro w e h; cases h
theorem nn_some {W : Type} (w : W) (e : GoErr) (h : e ≠ .nil) : NN (some (w, e)) := by
  intro w' e' h'; cases h'; exact h

/-- the part of the loop body after the selects (stamp the version, write the frame, park after CloseConnection)
returns a non-nil error or goes on with the loop -/
theorem k1_nn (E : Gen.Env_llrp_Client_handleOutgoing) (rec_ : E.World → Int → Option (E.World × GoErr))
    (hrec : ∀ w n, NN (rec_ w n)) (w : E.World) (next : Int) (msg : E.Message) :
    NN (Gen.llrp_Client_handleOutgoing_k1 E rec_ w next msg) := by
  unfold Gen.llrp_Client_handleOutgoing_k1
  repeat' (first | split | (dsimp only; split))
  all_goals first
    | exact hrec _ _
    | (apply nn_some; intro hc; cases hc)
    | (apply nn_some; intro hc; simp_all)

/-- **The write loop never returns success** — for every environment structure: whenever it returns, it returns a
non-nil error. -/
theorem write_loop_never_nil (E : Gen.Env_llrp_Client_handleOutgoing) :
    ∀ (fuel : Nat) (w : E.World) (next : Int), NN (Gen.llrp_Client_handleOutgoing_loop1 E fuel w next) := by
  intro fuel
  induction fuel with
  | zero => intro w next; rw [Gen.llrp_Client_handleOutgoing_loop1.eq_1]; exact nn_none
  | succ fuel ih =>
    intro w next
    rw [Gen.llrp_Client_handleOutgoing_loop1.eq_2]
    repeat' (first | split | (dsimp only; split))
    all_goals first
      | exact k1_nn E _ ih _ _ _
      | (apply nn_some; intro hc; cases hc)
      | (apply nn_some; intro hc; simp_all)

/-! ## what the loop does to the outside, judged by a monitor over its log -/

/-- monitor state -/
structure MS where
  ok : Bool := true
  /-- an id was taken from the ack queue and its header has not been written yet -/
  pending : Option Int := none
  /-- the value `c.ver()` returned since the last header -/
  lastVer : Option Int := none
  /-- a CloseConnection header has been written -/
  closed : Bool := false
deriving Repr

/-- the rules:
* **C07** an id taken from the ack queue is followed by exactly the header (KeepAliveAck = 72, that id, no payload)
  before anything else is dequeued;
* **C06** a header is stamped 1.1 (2) when it is GetSupportedVersion / SetProtocolVersion (46 / 47), otherwise with the
  value `c.ver()` returned for this very message;
* **C09** once a CloseConnection (14) header is written nothing more is dequeued, registered or written; the loop waits
  for `done` only then. -/
def mstep (s : MS) : Ev → MS
  | .ackDeq id => { s with ok := s.ok && !s.closed && s.pending.isNone, pending := some id }
  | .reqDeq _ => { s with ok := s.ok && !s.closed && s.pending.isNone }
  | .register _ => { s with ok := s.ok && !s.closed }
  | .token _ => { s with ok := s.ok && !s.closed }
  | .ver v => { s with lastVer := some v }
  | .closeSent => s
  | .hdr h =>
    let stampOK := if h.typ = 46 ∨ h.typ = 47 then h.ver == 2 else s.lastVer == some h.ver
    let ackOK := match s.pending with
      | some id => h.typ == 72 && h.id == id && h.plen == 0
      | none => true
    { ok := s.ok && !s.closed && stampOK && ackOK, pending := none, lastVer := none, closed := h.typ == 14 }
  | .payload => s
  | .waitDone => { s with ok := s.ok && s.closed }

def mrun (l : List Ev) : MS := l.foldl mstep {}

theorem mrun_append (l es : List Ev) : mrun (l ++ es) = es.foldl mstep (mrun l) := by
  simp [mrun, List.foldl_append]

/-- the state at the top of an iteration -/
def AtTop (s : MS) : Prop := s.ok = true ∧ s.pending = none ∧ s.closed = false

/-- the state in which the rest of the iteration (`k1`) is entered with message `m` -/
def AtK (s : MS) (m : Msg) : Prop :=
  s.ok = true ∧ s.closed = false ∧
    (s.pending = none ∨ (s.pending = some m.hdr.id ∧ m.hdr.typ = 72 ∧ m.hdr.plen = 0))

/-- the rest of an iteration keeps the monitor satisfied and hands a top-of-iteration state to the next iteration -/
theorem k1_mon (O : Oracle) (rec_ : WW → Int → Option (WW × GoErr)) (w : WW) (next : Int) (m : Msg)
    (hk : AtK (mrun w.log) m)
    (hrec : ∀ w1 n w' e, AtTop (mrun w1.log) → rec_ w1 n = some (w', e) → (mrun w'.log).ok = true)
    (w' : WW) (e : GoErr)
    (h : Gen.llrp_Client_handleOutgoing_k1 (woEnv O) rec_ w next m = some (w', e)) : (mrun w'.log).ok = true := by
  obtain ⟨hok, hcl, hp⟩ := hk
  generalize hs : mrun w.log = s at hok hcl hp
  unfold Gen.llrp_Client_handleOutgoing_k1 at h
  have hp' : s.pending = none ∨ (s.pending = some m.hdr.id ∧ m.hdr.typ = 72 ∧ m.hdr.plen = 0) := hp
  by_cases a46 : m.hdr.typ = 46 <;> by_cases a47 : m.hdr.typ = 47 <;> by_cases ht : O.timeout > 0 <;>
    by_cases h14 : m.hdr.typ = 14 <;> by_cases hpl : m.hdr.plen = 0 <;> by_cases hpay : m.pay = true <;>
    simp [woEnv, tick, a46, a47, ht, h14, hpl, hpay] at h <;>
    (repeat' split at h) <;>
    first
      | (exfalso; simp_all; done)
      | (simp only [Option.some.injEq, Prod.mk.injEq] at h
         obtain ⟨rfl, _⟩ := h
         rcases hp' with hp' | ⟨hp', h72, hp0⟩ <;>
           simp_all [mrun_append, mstep])
      | (refine hrec _ _ _ _ ?_ h
         rcases hp' with hp' | ⟨hp', h72, hp0⟩ <;>
           simp_all [AtTop, mrun_append, mstep])

/-- **For every behaviour of the environment** (`O`) and every number of iterations: from a state in which the monitor
is satisfied at the top of an iteration, whenever the translated write loop returns, the monitor is satisfied by
everything it did. -/
theorem loop_mon (O : Oracle) :
    ∀ (fuel : Nat) (w : WW) (next : Int) (w' : WW) (e : GoErr), AtTop (mrun w.log) →
      runLoop O fuel w next = some (w', e) → (mrun w'.log).ok = true := by
  intro fuel
  induction fuel with
  | zero => intro w next w' e _ h; simp [runLoop, Gen.llrp_Client_handleOutgoing_loop1] at h
  | succ fuel ih =>
    intro w next w' e htop h
    have h' := (Gen.llrp_Client_handleOutgoing_loop1.eq_2 (woEnv O) w next fuel).symm.trans h
    obtain ⟨hok, hp, hcl⟩ := htop
    generalize hs : mrun w.log = s at hok hp hcl
    have hrec : ∀ w1 n w' e, AtTop (mrun w1.log) →
        Gen.llrp_Client_handleOutgoing_loop1 (woEnv O) fuel w1 n = some (w', e) → (mrun w'.log).ok = true :=
      fun w1 n w' e ht hh => ih w1 n w' e ht hh
    by_cases s0 : O.sel w.step = 0 <;> by_cases s1 : O.sel w.step = 1 <;>
      by_cases t0 : O.sel (w.step + 1) = 0 <;> by_cases t1 : O.sel (w.step + 1) = 1 <;>
      by_cases i0 : (O.req (w.step + 1 + 1)).msg.hdr.id = 0 <;> by_cases wr : (O.req (w.step + 1 + 1)).wantsReply = true <;>
      simp [woEnv, tick, s0, s1, t0, t1, i0, wr] at h' <;>
      first
        | (exfalso; simp_all; done)
        | (obtain ⟨rfl, _⟩ := h'; simp_all [mrun_append, mstep])
        | (refine k1_mon O _ _ _ _ ?_ hrec w' e h'
           simp_all [AtK, mrun_append, mstep])

/-- the loop as `Connect` starts it: empty log, message ids from 0 -/
theorem src_write_loop_monitor (O : Oracle) (fuel : Nat) (w' : WW) (e : GoErr)
    (h : Gen.llrp_Client_handleOutgoing (woEnv O) fuel {} = some (w', e)) : (mrun w'.log).ok = true :=
  loop_mon O fuel {} 0 w' e (by simp [AtTop, mrun]) h

/-! ## the monitor and the translated loop on concrete behaviours (non-vacuity) -/

/-- an environment that offers: an ack (id 7), then a request of type 2 without id that wants a reply, then a
CloseConnection request; no write fails; `c.ver()` = 2 -/
def demoOracle : Oracle where
  sel := fun k => if k = 0 then 1 else 2
  ackId := fun _ => 7
  req := fun k => if k < 12 then ⟨⟨⟨2, 0, 1, 3⟩, true⟩, true⟩ else ⟨⟨⟨14, 0, 1, 0⟩, false⟩, true⟩
  ver := fun _ => 2
  err := fun _ => .nil
  timeout := 0

example : (Gen.llrp_Client_handleOutgoing (woEnv demoOracle) 5 {}).map (fun r => (r.1.log, r.2)) =
    some ([.ackDeq 7, .ver 2, .hdr ⟨72, 7, 2, 0⟩,
           .reqDeq ⟨⟨⟨2, 0, 1, 3⟩, true⟩, true⟩, .register 0, .ver 2, .hdr ⟨2, 0, 2, 3⟩, .payload,
           .reqDeq ⟨⟨⟨14, 0, 1, 0⟩, false⟩, true⟩, .register 1, .ver 2, .closeSent, .hdr ⟨14, 1, 2, 0⟩, .waitDone],
          .global "ErrClientClosed") := by decide

/-- the monitor rejects: an ack written with another id; a request stamped with a stale version; a frame after
CloseConnection; an ack id dequeued and never written before the next dequeue -/
example : (mrun [.ackDeq 7, .ver 2, .hdr ⟨72, 8, 2, 0⟩]).ok = false ∧
    (mrun [.reqDeq default, .hdr ⟨2, 0, 1, 0⟩]).ok = false ∧
    (mrun [.ver 2, .hdr ⟨14, 0, 2, 0⟩, .ackDeq 3, .ver 2, .hdr ⟨72, 3, 2, 0⟩]).ok = false ∧
    (mrun [.ackDeq 7, .ackDeq 8]).ok = false ∧
    (mrun [.ver 1, .hdr ⟨46, 0, 1, 0⟩]).ok = false := by decide

end LLRP.SeqWrite
