import LLRP.Proofs.CodecDec
/-!
Round trip of the codec model (C01), assembled: `decBody` on the encoding of a `fits` value returns the value, for
every decoder fuel `≥ 4 * length + 8`.
-/
namespace LLRP

theorem fixedSize_fields {S : Schema} {c : Container} (h : fixedSize S c = true) :
    c.fields.all (·.kind.isFixed) = true := by
  simp only [fixedSize, Schema.fuel, fixedSizeF, Bool.and_eq_true] at h
  exact h.1

theorem body_of_param (S : Schema) (hS : SchemaWF S = true) (n : Nat) (ih : ParamOK S n) : BodyOK S n := by
  intro c fs subs f fd hc hf hff hfs hfd
  have hw := wfc_of_mem hS hc
  obtain ⟨k, rfl⟩ : ∃ k, fd = k + 1 := ⟨fd - 1, by omega⟩
  have hlow := lower_le_body S hS c hc fs subs f hff hfs
  have hmin := hw.min
  have hgroups := decGroups_ok S hS n ih ((groups_enc S c f subs hfs).mono hf)
    (groupRuns_spec slotKey c.slots).2 hw.groups k (by omega)
  have hfields := decFields_encFields c.fields fs hw.fields hff (encSlots S f c.slots subs none)
    (by intro hr; rw [hw.rest hr, encSlots_nil])
  unfold decBody
  simp only [show groupRuns (fun (s : Slot) => (s.optional, s.repeatable, s.group)) c.slots = c.groups from rfl]
  by_cases hm : c.isMsg = true
  · simp only [hm, if_true, Bool.true_and]
    by_cases he : c.empty = true
    · have he' := he
      simp only [Container.empty, Bool.and_eq_true, List.isEmpty_iff] at he'
      rw [he'.1] at hff
      have hfs0 : fs = [] := fitsFields_nil fs hff
      rw [he'.2] at hfs
      obtain ⟨hsubs, _, _⟩ := fitsSlots_nil S f subs none hfs
      simp [he, he'.1, he'.2, encFields, encSlots_nil, hfs0, hsubs]
    · simp only [he, Bool.false_eq_true, if_false]
      have hpre : (if fixedSize S c = true then
          (encFields c.fields fs 0 ++ encSlots S f c.slots subs none).length == msgMinSize S c
          else decide (msgMinSize S c ≤ (encFields c.fields fs 0 ++ encSlots S f c.slots subs none).length)) = true := by
        split
        · rename_i hfix
          have hsl := hw.fixed hfix
          have := fieldsFixed_length c.fields fs hw.fields hff (fixedSize_fields hfix)
          simp [hsl, encSlots_nil, msgMinSize, this]
        · simp only [minSize, hm, if_true, Container.headerSize] at hmin hlow
          simp only [decide_eq_true_eq]; omega
      simp only [hpre, Bool.not_true, Bool.false_eq_true, if_false, hfields, hgroups, List.length_nil,
        Nat.lt_irrefl, decide_false, Bool.and_false]
  · have hm' : c.isMsg = false := by simpa using hm
    simp only [hm', Bool.false_eq_true, if_false, Bool.false_and]
    have hpre : decide (paramMinSize S c - c.headerSize ≤
        (encFields c.fields fs 0 ++ encSlots S f c.slots subs none).length) = true := by
      simp only [minSize, hm', Bool.false_eq_true, if_false] at hmin
      simp only [decide_eq_true_eq]; omega
    simp only [hpre, Bool.not_true, Bool.false_eq_true, if_false, hfields, hgroups, List.length_nil,
      Nat.lt_irrefl, decide_false, Bool.and_false]

theorem paramOK_all (S : Schema) (hS : SchemaWF S = true) : ∀ n, ParamOK S n
  | 0 => by
    intro ty p v e rest fd _ hE _
    obtain ⟨f, hf, hfit, _⟩ := hE
    have : f = 0 := by omega
    subst this
    simp [fitsParam] at hfit
  | n+1 => param_of_body S hS n (body_of_param S hS n (paramOK_all S hS n))

/-- the round trip with the decoder fuel left open: any fuel of at least 4 per byte plus 8 will do -/
theorem decBody_encode (S : Schema) (hS : SchemaWF S = true) (c : Container) (hc : c ∈ S) (v : Val)
    (hv : fits S c v = true) (fd : Nat) (hfd : 4 * (encode S c v).length + 8 ≤ fd) :
    decBody S fd c (encode S c v) = some v := by
  obtain ⟨fs, subs⟩ := v
  simp only [fits, Bool.and_eq_true] at hv
  simp only [encode] at hfd ⊢
  have hcost := (wfc_of_mem hS hc).cost
  exact body_of_param S hS _ (paramOK_all S hS _) c fs subs _ fd hc (Nat.le_refl _) hv.1 hv.2 (by
    simp only [List.length_append] at hfd; omega)

end LLRP
