import LLRP.Proofs.DecodeFuel
/-!
C11: the decoded value is no bigger than its input — every parameter that ends up in the value consumed at least one
byte of its own (`decParam_lt`), so a successful decoding of `d` yields at most `d.length` parameters.
-/
namespace LLRP

mutual
/-- number of parameter nodes of a value, the root included -/
def Val.nodes : Val → Nat
  | .node _ subs => 1 + nodesSlots subs
def nodesSlots : List (List Val) → Nat
  | [] => 0
  | vs :: vss => nodesList vs + nodesSlots vss
def nodesList : List Val → Nat
  | [] => 0
  | v :: vs => v.nodes + nodesList vs
end

theorem nodesList_append (a b : List Val) : nodesList (a ++ b) = nodesList a + nodesList b := by
  induction a with
  | nil => simp [nodesList]
  | cons x xs ih => simp only [List.cons_append, nodesList, ih]; omega

theorem nodesSlots_append (a b : List (List Val)) : nodesSlots (a ++ b) = nodesSlots a + nodesSlots b := by
  induction a with
  | nil => simp [nodesSlots]
  | cons x xs ih => simp only [List.cons_append, nodesSlots, ih]; omega

theorem nodesSlots_map_nil {α} (g : List α) : nodesSlots (g.map fun _ => []) = 0 := by
  induction g with
  | nil => simp [nodesSlots]
  | cons x xs ih => simp only [List.map_cons, nodesSlots, nodesList, ih]

theorem mapIdx_id {α} : ∀ l : List α, (l.mapIdx fun _ y => y) = l := by
  intro l
  induction l with
  | nil => rfl
  | cons x xs ih => simp only [List.mapIdx_cons, ih]

theorem nodesSlots_mapIdx_le (f : List Val → List Val) (c : Nat) (hf : ∀ x, nodesList (f x) ≤ nodesList x + c) :
    ∀ (l : List (List Val)) (P : Nat → Prop) [DecidablePred P],
      (∀ a b, P a → P b → a = b) →
      nodesSlots (l.mapIdx fun j x => if P j then f x else x) ≤ nodesSlots l + c := by
  intro l
  induction l with
  | nil => intro P _ _; simp [nodesSlots]
  | cons x xs ih =>
    intro P _ huniq
    simp only [List.mapIdx_cons, nodesSlots]
    by_cases h0 : P 0
    · simp only [h0, if_true]
      have hrest : (xs.mapIdx fun j y => if P (j + 1) then f y else y) = xs := by
        have : ∀ j, ¬ P (j + 1) := fun j hj => by have := huniq _ _ hj h0; omega
        simp only [this, if_false]
        exact mapIdx_id xs
      rw [hrest]
      have := hf x; omega
    · simp only [h0, if_false]
      have := ih (fun j => P (j + 1)) (fun a b ha hb => by have := huniq _ _ ha hb; omega)
      omega

theorem nodesSlots_replaceAt_le (l : List (List Val)) (i : Nat) (f : List Val → List Val) (c : Nat)
    (hf : ∀ x, nodesList (f x) ≤ nodesList x + c) : nodesSlots (replaceAt l i f) ≤ nodesSlots l + c := by
  unfold replaceAt
  exact nodesSlots_mapIdx_le f c hf l (fun j => j = i) (fun a b ha hb => by omega)

/-! ## every decoded parameter paid for itself with at least one byte -/

mutual
theorem decBody_size (S : Schema) : ∀ (n : Nat) (c : Container) (d : Bytes) (v : Val),
    decBody S n c d = some v → v.nodes ≤ 1 + d.length
  | 0, _, _, _, h => by simp [decBody] at h
  | n+1, c, d, v, h => by
    unfold decBody at h
    simp only [] at h
    repeat' split at h
    all_goals try (cases h; done)
    all_goals
      first
      | (cases h; simp [Val.nodes, nodesSlots]; done)
      | (have hdf := ‹decFields c.fields d = some _›
         have hlen := decFields_length _ _ _ _ hdf
         have hg := decGroups_size S n _ _ _ _ ‹decGroups S n _ _ = some _›
         cases h; simp only [Val.nodes]; omega)
theorem decGroups_size (S : Schema) : ∀ (n : Nat) (gs : List (List Slot)) (d : Bytes) (vss : List (List Val)) (d' : Bytes),
    decGroups S n gs d = some (vss, d') → nodesSlots vss + d'.length ≤ d.length
  | 0, _, _, _, _, h => by simp [decGroups] at h
  | n+1, [], d, vss, d', h => by
    simp only [decGroups, Option.some.injEq, Prod.mk.injEq] at h
    obtain ⟨rfl, rfl⟩ := h
    simp [nodesSlots]
  | n+1, g :: gs, d, vss, d', h => by
    unfold decGroups at h
    split at h
    · exact decGroups_size S n _ _ _ _ h
    · rename_i s tl
      simp only [] at h
      have key : ∀ (X : Option (List (List Val) × Bytes)),
          (∀ vs d1, X = some (vs, d1) → nodesSlots vs + d1.length ≤ d.length) →
          (match X with
            | none => none
            | some (vs, d1) => match decGroups S n gs d1 with
              | none => none
              | some (vss, d'') => some (vs ++ vss, d'')) = some (vss, d') →
          nodesSlots vss + d'.length ≤ d.length := by
        intro X hX hm
        cases hx : X with
        | none => rw [hx] at hm; cases hm
        | some x =>
          obtain ⟨vs, d1⟩ := x
          rw [hx] at hm
          simp only [] at hm
          have h1 := hX vs d1 hx
          cases hg : decGroups S n gs d1 with
          | none => rw [hg] at hm; cases hm
          | some y =>
            obtain ⟨vss2, d2⟩ := y
            rw [hg] at hm
            simp only [Option.some.injEq, Prod.mk.injEq] at hm
            obtain ⟨rfl, rfl⟩ := hm
            have h2 := decGroups_size S n _ _ _ _ hg
            rw [nodesSlots_append]; omega
      by_cases hc1 : (!s.repeatable && ((s :: tl).length == 1 || s.group.isNone && !s.optional)) = true
      · simp only [hc1, if_true] at h
        exact key _ (fun vs d1 hx => decSingles_size S n _ _ _ _ hx) h
      · simp only [hc1, if_false, Bool.false_eq_true] at h
        by_cases hc2 : (!(s.optional || s.repeatable)) = true
        · simp only [hc2, if_true] at h
          exact key _ (fun vs d1 hx => decChoice_size S n _ _ _ _ hx) h
        · simp only [hc2, if_false, Bool.false_eq_true] at h
          exact key _ (fun vs d1 hx => by
            have := decLoop_size S n _ _ _ _ _ _ hx
            rw [nodesSlots_map_nil] at this; omega) h
theorem decSingles_size (S : Schema) : ∀ (n : Nat) (ss : List Slot) (d : Bytes) (vss : List (List Val)) (d' : Bytes),
    decSingles S n ss d = some (vss, d') → nodesSlots vss + d'.length ≤ d.length
  | 0, _, _, _, _, h => by simp [decSingles] at h
  | n+1, [], d, vss, d', h => by
    simp only [decSingles, Option.some.injEq, Prod.mk.injEq] at h
    obtain ⟨rfl, rfl⟩ := h
    simp [nodesSlots]
  | n+1, s :: ss, d, vss, d', h => by
    unfold decSingles at h
    split at h
    · cases h
    · rename_i p hp
      simp only [] at h
      split at h
      · cases h
      · simp only [Option.map_eq_some_iff] at h
        obtain ⟨⟨vss', r'⟩, h1, h2⟩ := h
        simp only [Prod.mk.injEq] at h2
        obtain ⟨rfl, rfl⟩ := h2
        have := decSingles_size S n _ _ _ _ h1
        simp only [nodesSlots, nodesList]; omega
      · rename_i v d1 hhere
        simp only [Option.map_eq_some_iff] at h
        obtain ⟨⟨vss', r'⟩, h1, h2⟩ := h
        simp only [Prod.mk.injEq] at h2
        obtain ⟨rfl, rfl⟩ := h2
        have hr := decSingles_size S n _ _ _ _ h1
        have hP : decParam S n p d = some (v, d1) := by
          split at hhere
          · split at hhere <;> simp at hhere
          · split at hhere
            · simp only [Option.map_eq_some_iff, Option.some.injEq] at hhere
              obtain ⟨x, hx, rfl⟩ := hhere
              exact hx
            · split at hhere <;> simp at hhere
          · split at hhere
            · simp only [Option.map_eq_some_iff, Option.some.injEq] at hhere
              obtain ⟨x, hx, rfl⟩ := hhere
              exact hx
            · split at hhere <;> simp at hhere
        have := decParam_size S n _ _ _ _ hP
        simp only [nodesSlots, nodesList]; omega
theorem decChoice_size (S : Schema) : ∀ (n : Nat) (g : List Slot) (d : Bytes) (vss : List (List Val)) (d' : Bytes),
    decChoice S n g d = some (vss, d') → nodesSlots vss + d'.length ≤ d.length
  | 0, _, _, _, _, h => by simp [decChoice] at h
  | n+1, g, d, vss, d', h => by
    unfold decChoice at h
    simp only [] at h
    repeat' split at h
    all_goals try (cases h; done)
    all_goals
      simp only [Option.map_eq_some_iff] at h
      obtain ⟨⟨v, d1⟩, h1, h2⟩ := h
      simp only [Prod.mk.injEq] at h2
      obtain ⟨rfl, rfl⟩ := h2
      have hp := decParam_size S n _ _ _ _ h1
      have hr := nodesSlots_replaceAt_le (g.map fun _ => []) ‹Nat›
        (fun _ => if v.zeroLike (Container.canInline ‹Container›) = true then [] else [v]) v.nodes
        (by intro x; split <;> simp [nodesList])
      rw [nodesSlots_map_nil] at hr
      omega
theorem decLoop_size (S : Schema) : ∀ (n : Nat) (g : List Slot) (acc : List (List Val)) (d : Bytes) (k : Nat)
    (vss : List (List Val)) (d' : Bytes),
    decLoop S n g acc d k = some (vss, d') → nodesSlots vss + d'.length ≤ nodesSlots acc + d.length
  | 0, _, _, _, _, _, _, h => by simp [decLoop] at h
  | n+1, g, acc, d, 0, vss, d', h => by
    simp only [decLoop, Option.some.injEq, Prod.mk.injEq] at h
    obtain ⟨rfl, rfl⟩ := h
    exact Nat.le_refl _
  | n+1, g, acc, d, k+1, vss, d', h => by
    unfold decLoop at h
    simp only [] at h
    repeat' split at h
    all_goals try (cases h; done)
    all_goals
      first
      | (simp only [Option.some.injEq, Prod.mk.injEq] at h; obtain ⟨rfl, rfl⟩ := h; exact Nat.le_refl _)
      | (have hP := ‹decParam S n _ _ = some _›
         have hp := decParam_size S n _ _ _ _ hP
         have hl := decLoop_size S n _ _ _ _ _ _ h
         first
         | (have hr := nodesSlots_replaceAt_le acc ‹Nat› (fun old => old ++ [‹Val›]) (Val.nodes ‹Val›)
              (by intro x; simp [nodesList, nodesList_append])
            omega)
         | (have hr := nodesSlots_replaceAt_le acc ‹Nat› (fun _ => [‹Val›]) (Val.nodes ‹Val›)
              (by intro x; simp [nodesList])
            omega))
theorem decParam_size (S : Schema) : ∀ (n : Nat) (p : Container) (d : Bytes) (v : Val) (d' : Bytes),
    decParam S n p d = some (v, d') → v.nodes + d'.length ≤ d.length
  | 0, _, _, _, _, h => by simp [decParam] at h
  | n+1, p, d, v, d', h => by
    unfold decParam at h
    split at h
    · split at h
      · rename_i b0 b1 l0 l1 rest
        simp only [] at h
        split at h
        · cases h
        · rename_i hlen
          simp only [Option.map_eq_some_iff] at h
          obtain ⟨v0, hv0, heq⟩ := h
          simp only [Prod.mk.injEq] at heq
          obtain ⟨rfl, rfl⟩ := heq
          have := decBody_size S n _ _ _ hv0
          simp only [Bool.or_eq_true, decide_eq_true_eq, not_or, Nat.not_lt] at hlen
          simp only [List.length_drop, List.length_take, List.length_cons] at *
          omega
      · cases h
    · simp only [] at h
      split at h
      · rename_i hn
        simp only [Option.map_eq_some_iff] at h
        obtain ⟨v0, hv0, heq⟩ := h
        simp only [Prod.mk.injEq] at heq
        obtain ⟨rfl, rfl⟩ := heq
        have := decBody_size S n _ _ _ hv0
        simp only [Bool.and_eq_true, decide_eq_true_eq] at hn
        simp only [List.length_drop, List.length_take] at *
        omega
      · cases h
end

end LLRP
