import LLRP.Gen.Seq
import LLRP.Gen.Consts
/-!
# `LLRPDevice.TrySend` as translated from the source (`Gen.driver_LLRPDevice_TrySend`, go2seq): whatever KeepAliveSpec
the caller's SetReaderConfig carries — none, a periodic one with another interval, another trigger, or already the
enforced one — the request handed to the retried `SendFor` carries the periodic KeepAliveSpec of 30 000 ms.

`ksEnv` is a one-object heap: `spec` is the KeepAliveSpec the request's pointer refers to (`none` = nil pointer), `fresh`
the KeepAliveSpec literal whose address was taken last; `sent` records the request's spec at the moment
`retry.Quick.RetryWithCtx` is called (the retried closure sends that very request).
-/
namespace LLRP.SeqGlue
open LLRP LLRP.GoSeq

structure KWorld where
  spec : Option (Int × Int) := none       -- (Trigger, Interval) behind req.KeepAliveSpec
  fresh : Int × Int := (0, 0)
  sent : Option (Option (Int × Int)) := none
  attempts : Int := 0
deriving DecidableEq, Repr

def ksEnv (isSRC : Bool) : Gen.Env_driver_LLRPDevice_TrySend where
  World := KWorld
  context_Context := Unit
  llrp_Outgoing := Unit
  llrp_Incoming := Unit
  Ptr_llrp_SetReaderConfig := Unit
  llrp_SetReaderConfig := Bool              -- does it have a KeepAliveSpec
  Ptr_llrp_KeepAliveSpec := Bool            -- false = nil
  llrp_KeepAliveSpec := Int × Int
  retry_ExpBackOff := Unit
  Func_funcctxcontext_Contextboolerror := Unit
  retry_Func := Unit
  assert_llrp_Outgoing_to_Ptr_llrp_SetReaderConfig := fun _ => ((), isSRC)
  time_Duration_Milliseconds_1 := fun w d => (w, d / 1000000)
  deref_Ptr_llrp_SetReaderConfig := fun w _ => w.spec.isSome
  get_llrp_SetReaderConfig_KeepAliveSpec := fun b => b
  isNil_Ptr_llrp_KeepAliveSpec := fun p => !p
  deref_Ptr_llrp_KeepAliveSpec := fun w _ => w.spec.getD (0, 0)
  get_llrp_KeepAliveSpec_Interval := fun s => s.2
  get_llrp_KeepAliveSpec_Trigger := fun s => s.1
  store_llrp_KeepAliveSpec_Interval := fun w _ v => { w with spec := w.spec.map (fun s => (s.1, v)) }
  store_llrp_KeepAliveSpec_Trigger := fun w _ v => { w with spec := w.spec.map (fun s => (v, s.2)) }
  zero_llrp_KeepAliveSpec := (0, 0)
  set_llrp_KeepAliveSpec_Trigger := fun s v => (v, s.2)
  set_llrp_KeepAliveSpec_Interval := fun s v => (s.1, v)
  addr_llrp_KeepAliveSpec := fun w s => ({ w with fresh := s }, true)
  store_llrp_SetReaderConfig_KeepAliveSpec := fun w _ _ => { w with spec := some w.fresh }
  global_retry_Quick := ()
  closure_1 := fun w _ _ => (w, ())
  conv_Func_funcctxcontext_Contextboolerror_to_retry_Func := fun _ => ()
  retry_ExpBackOff_RetryWithCtx_1 := fun w _ _ n _ => ({ w with sent := some w.spec, attempts := n }, .nil)

/-- `KATriggerPeriodic` and the enforced interval (ms) -/
def kaPeriodic : Int := 1
def kaIntervalMs : Int := 30000

/-- **Every SetReaderConfig that `TrySend` sends carries the periodic 30 s KeepAliveSpec, whatever the caller supplied**
(no spec, any trigger, any interval), and `TrySend` makes `maxSendAttempts` = 3 attempts through `retry.Quick`. -/
theorem src_trysend_enforces_ka (spec : Option (Int × Int)) :
    (Gen.driver_LLRPDevice_TrySend (ksEnv true) { spec := spec } () () ()).1.sent = some (some (kaPeriodic, kaIntervalMs)) ∧
    (Gen.driver_LLRPDevice_TrySend (ksEnv true) { spec := spec } () () ()).1.attempts = 3 := by
  cases spec with
  | none => simp [Gen.driver_LLRPDevice_TrySend, ksEnv, kaPeriodic, kaIntervalMs, GoInt.wrapU]
  | some s =>
    obtain ⟨t, i⟩ := s
    by_cases h1 : i = 30000 <;> by_cases h2 : t = 1 <;>
      simp [Gen.driver_LLRPDevice_TrySend, ksEnv, kaPeriodic, kaIntervalMs, GoInt.wrapU, h1, h2]

/-- any other request is sent as it is -/
theorem src_trysend_other_untouched (spec : Option (Int × Int)) :
    (Gen.driver_LLRPDevice_TrySend (ksEnv false) { spec := spec } () () ()).1.sent = some spec := by
  simp [Gen.driver_LLRPDevice_TrySend, ksEnv]

end LLRP.SeqGlue
