import LLRP.Model.WriteSide
import LLRP.Proofs.Bytes
/-! Lemmas about the write-side fold `wr` (used by C05, C06, C07). Core Lean only. -/
namespace LLRP

/-! ### field projections of the small state updates -/
section proj
variable (s : WState) (w : Bool) (i c p : Nat) (f : Frame)

@[simp] theorem register_out : (register s w i c).out = s.out := by unfold register; split <;> rfl
@[simp] theorem register_bytes : (register s w i c).bytes = s.bytes := by unfold register; split <;> rfl
@[simp] theorem register_version : (register s w i c).version = s.version := by unfold register; split <;> rfl
@[simp] theorem register_nextId : (register s w i c).nextId = s.nextId := by unfold register; split <;> rfl
@[simp] theorem register_parked : (register s w i c).parked = s.parked := by unfold register; split <;> rfl
@[simp] theorem register_failed : (register s w i c).failed = s.failed := by unfold register; split <;> rfl
@[simp] theorem register_reqOut : (register s w i c).reqOut = s.reqOut := by unfold register; split <;> rfl
@[simp] theorem register_ackOut : (register s w i c).ackOut = s.ackOut := by unfold register; split <;> rfl
@[simp] theorem bumpId_out : (bumpId s p).out = s.out := by unfold bumpId; split <;> rfl
@[simp] theorem bumpId_bytes : (bumpId s p).bytes = s.bytes := by unfold bumpId; split <;> rfl
@[simp] theorem bumpId_version : (bumpId s p).version = s.version := by unfold bumpId; split <;> rfl
@[simp] theorem bumpId_parked : (bumpId s p).parked = s.parked := by unfold bumpId; split <;> rfl
@[simp] theorem bumpId_failed : (bumpId s p).failed = s.failed := by unfold bumpId; split <;> rfl
@[simp] theorem bumpId_reqOut : (bumpId s p).reqOut = s.reqOut := by unfold bumpId; split <;> rfl
@[simp] theorem bumpId_ackOut : (bumpId s p).ackOut = s.ackOut := by unfold bumpId; split <;> rfl
@[simp] theorem bumpId_tokens : (bumpId s p).tokens = s.tokens := by unfold bumpId; split <;> rfl
@[simp] theorem bumpId_awaiting : (bumpId s p).awaiting = s.awaiting := by unfold bumpId; split <;> rfl
@[simp] theorem emit_out : (emit s f).out = s.out ++ [f] := rfl
@[simp] theorem emit_bytes : (emit s f).bytes = s.bytes ++ f.bytes := rfl
@[simp] theorem emit_version : (emit s f).version = s.version := rfl
@[simp] theorem emit_nextId : (emit s f).nextId = s.nextId := rfl
@[simp] theorem emit_parked : (emit s f).parked = s.parked := rfl
@[simp] theorem emit_failed : (emit s f).failed = s.failed := rfl
@[simp] theorem emit_reqOut : (emit s f).reqOut = s.reqOut := rfl
@[simp] theorem emit_ackOut : (emit s f).ackOut = s.ackOut := rfl
@[simp] theorem emit_tokens : (emit s f).tokens = s.tokens := rfl
@[simp] theorem emit_awaiting : (emit s f).awaiting = s.awaiting := rfl
end proj

@[simp] theorem init_out (v : Nat) : (WState.init v).out = [] := rfl
@[simp] theorem init_reqOut (v : Nat) : (WState.init v).reqOut = [] := rfl
@[simp] theorem init_ackOut (v : Nat) : (WState.init v).ackOut = [] := rfl
@[simp] theorem init_tokens (v : Nat) : (WState.init v).tokens = [] := rfl
@[simp] theorem init_bytes (v : Nat) : (WState.init v).bytes = [] := rfl
@[simp] theorem init_nextId (v : Nat) : (WState.init v).nextId = 0 := rfl
@[simp] theorem init_version (v : Nat) : (WState.init v).version = v := rfl
@[simp] theorem init_parked (v : Nat) : (WState.init v).parked = false := rfl
@[simp] theorem init_stopped (v : Nat) : (WState.init v).stopped = false := rfl

theorem wr_of_stopped {s : WState} (h : s.stopped = true) (it : WItem) : wr s it = s := by
  unfold wr; simp [h]

theorem run_of_stopped {s : WState} (h : s.stopped = true) (items : List WItem) : run s items = s := by
  induction items with
  | nil => rfl
  | cons it items ih => simp only [run, List.foldl_cons, wr_of_stopped h] at ih ⊢; exact ih

theorem run_cons (s : WState) (it : WItem) (items : List WItem) : run s (it :: items) = run (wr s it) items := rfl
theorem run_nil (s : WState) : run s [] = s := rfl
theorem run_append (s : WState) (a b : List WItem) : run s (a ++ b) = run (run s a) b := by
  simp [run, List.foldl_append]

/-- frames added by one iteration -/
theorem wr_out (s : WState) (it : WItem) :
    (wr s it).out = s.out ++ (if s.stopped then [] else (frameOf s it).toList) := by
  unfold wr
  by_cases h : s.stopped = true
  · simp [h]
  · simp only [h, Bool.false_eq_true, if_false]
    cases it with
    | ack id => simp [frameOf]
    | req c typ payload pid pv w =>
      by_cases h14 : typ = tCloseConnection <;> simp [frameOf, h14]
    | bad c typ dl pid w => simp [frameOf]
    | setVer v => simp [frameOf]

/-- the client's version only changes through `setVer` -/
theorem wr_version (s : WState) (it : WItem) (h : ∀ v, it ≠ .setVer v) : (wr s it).version = s.version := by
  unfold wr
  by_cases hs : s.stopped = true
  · simp [hs]
  · simp only [hs, Bool.false_eq_true, if_false]
    cases it with
    | ack id => simp
    | req c typ payload pid pv w => by_cases h14 : typ = tCloseConnection <;> simp [h14]
    | bad c typ dl pid w => simp
    | setVer v => exact absurd rfl (h v)

/-- every frame written while the client's version is `v` carries `stamp v typ` -/
theorem run_stamped (items : List WItem) (h : ∀ it ∈ items, ∀ v, it ≠ .setVer v) (s : WState) :
    ∃ extra, (run s items).out = s.out ++ extra ∧ (run s items).version = s.version ∧
      ∀ f ∈ extra, f.ver = stamp s.version f.typ := by
  induction items generalizing s with
  | nil => exact ⟨[], by simp [run], rfl, by simp⟩
  | cons it items ih =>
    have hit := h it List.mem_cons_self
    obtain ⟨extra, h1, h2, h3⟩ := ih (fun x hx => h x (List.mem_cons_of_mem _ hx)) (wr s it)
    rw [wr_version s it hit] at h2 h3
    refine ⟨(if s.stopped then [] else (frameOf s it).toList) ++ extra, ?_, h2, ?_⟩
    · rw [run_cons, h1, wr_out, List.append_assoc]
    · intro f hf
      rw [List.mem_append] at hf
      rcases hf with hf | hf
      · by_cases hs : s.stopped = true
        · simp [hs] at hf
        · simp only [hs, Bool.false_eq_true, if_false] at hf
          cases it with
          | ack id => simp [frameOf] at hf; subst hf; rfl
          | req c typ payload pid pv w => simp [frameOf] at hf; subst hf; rfl
          | bad c typ dl pid w => simp [frameOf] at hf
          | setVer v => simp [frameOf] at hf
      · exact h3 f hf

end LLRP

namespace LLRP

/-! ### header bytes of a valid frame -/

theorem put_valid (h : Header) (h1 : h.version < 8) (h2 : h.typ ≤ 1023) (h4 : h.payloadLen ≤ 4294967285) :
    h.put = put16 (h.version * 1024 + h.typ) ++ put32 (h.payloadLen + 10) ++ put32 h.id := by
  unfold Header.put
  have e1 : (h.version * 1024) % 65536 = h.version * 1024 := by omega
  have e2 : (h.payloadLen + Gen.HeaderSz) % 4294967296 = h.payloadLen + 10 := by
    simp only [Gen.HeaderSz]; omega
  rw [e1, e2, shl10_or _ _ (by omega)]

theorem put_length (h : Header) : h.put.length = 10 := by
  simp [Header.put, put16, put32]

/-- `Header.unmarshal` reads back exactly what `writeHeader` wrote, whatever follows -/
theorem unmarshal_put_append (h : Header) (h1 : h.version < 8) (h2 : h.typ ≤ 1023) (h4 : h.payloadLen ≤ 4294967285)
    (h5 : h.id < 4294967296) (rest : Bytes) : Header.unmarshal (writeHeader h ++ rest) = some h := by
  unfold writeHeader
  rw [put_valid h h1 h2 h4]
  simp only [put16, put32, List.cons_append, List.nil_append, Header.unmarshal, be32_put32, be16_put16, byte_toNat,
    Gen.HeaderSz]
  have e : ¬ ((h.payloadLen + 10) % 4294967296 < 10) := by omega
  rw [if_neg e]
  cases h with
  | mk v t p i =>
    simp only [Option.some.injEq, Header.mk.injEq] at *
    refine ⟨by omega, by omega, by omega, by omega⟩

theorem Frame.bytes_length (f : Frame) : f.bytes.length = 10 + f.payload.length := by
  simp [Frame.bytes, writeHeader, put_length]

/-- one step of the splitter on a valid frame followed by anything -/
theorem splitFrames_step (fuel : Nat) (f : Frame) (hv : f.Valid) (rest : Bytes) :
    splitFrames (fuel + 1) (f.bytes ++ rest) = (splitFrames fuel rest).map (f :: ·) := by
  obtain ⟨v1, v2, v3, v4⟩ := hv
  have hb : f.bytes ++ rest = writeHeader f.header ++ (f.payload ++ rest) := by simp [Frame.bytes]
  have hwl : (writeHeader f.header).length = 10 := put_length _
  have hun := unmarshal_put_append f.header v1 v2 v3 v4 (f.payload ++ rest)
  have hd : (writeHeader f.header ++ (f.payload ++ rest)).drop Gen.HeaderSz = f.payload ++ rest := by
    simp only [Gen.HeaderSz]
    rw [List.drop_append_of_le_length (by omega)]
    simp [List.drop_of_length_le, hwl]
  rw [hb]
  cases hcs : writeHeader f.header ++ (f.payload ++ rest) with
  | nil => have := congrArg List.length hcs; simp [hwl] at this
  | cons b bs =>
    conv => lhs; unfold splitFrames
    simp only []
    rw [← hcs, hun]
    simp only [hd]
    have hpl : f.header.payloadLen = f.payload.length := rfl
    simp only [hpl, List.length_append, Nat.le_add_right, if_true, List.take_left', List.drop_left']
    rfl

/-- splitting the concatenation of valid frames gives the frames back -/
theorem splitFrames_flatMap (fs : List Frame) (hv : ∀ f ∈ fs, f.Valid) :
    ∀ fuel, (fs.flatMap Frame.bytes).length < fuel → splitFrames fuel (fs.flatMap Frame.bytes) = some fs := by
  induction fs with
  | nil => intro fuel _; cases fuel <;> simp [splitFrames]
  | cons f fs ih =>
    intro fuel hfuel
    have hlen := Frame.bytes_length f
    simp only [List.flatMap_cons, List.length_append] at hfuel
    match fuel, hfuel with
    | fuel+1, hfuel =>
      simp only [List.flatMap_cons]
      rw [splitFrames_step fuel f (hv f List.mem_cons_self), ih (fun g hg => hv g (List.mem_cons_of_mem _ hg)) fuel (by omega)]
      rfl

theorem parseStream_flatMap (fs : List Frame) (hv : ∀ f ∈ fs, f.Valid) :
    parseStream (fs.flatMap Frame.bytes) = some fs :=
  splitFrames_flatMap fs hv _ (by omega)

end LLRP

namespace LLRP

/-! ### what one iteration does, field by field -/

def reqFrame (s : WState) (typ : Nat) (payload : Bytes) (pid : Nat) : Frame :=
  ⟨stamp s.version typ, typ, assignId s pid, payload⟩
def ackFrame (s : WState) (id : Nat) : Frame := ⟨stamp s.version tKeepAliveAck, tKeepAliveAck, id, []⟩

section fields
variable {s : WState} (hs : s.stopped = false)
include hs

theorem wr_req (c typ : Nat) (payload : Bytes) (pid pv : Nat) (w : Bool) :
    let s' := wr s (.req c typ payload pid pv w)
    s'.out = s.out ++ [reqFrame s typ payload pid] ∧ s'.reqOut = s.reqOut ++ [reqFrame s typ payload pid] ∧
    s'.ackOut = s.ackOut ∧ s'.bytes = s.bytes ++ (reqFrame s typ payload pid).bytes ∧ s'.version = s.version ∧
    s'.nextId = (if pid = 0 then (s.nextId + 1) % idMod else s.nextId) ∧
    s'.parked = decide (typ = tCloseConnection) ∧ s'.failed = false ∧
    s'.tokens = (if w then (c, assignId s pid) :: s.tokens else s.tokens) := by
  have hp : s.parked = false := by simp [WState.stopped] at hs; exact hs.1
  have hf : s.failed = false := by simp [WState.stopped] at hs; exact hs.2
  unfold wr
  simp only [hs, Bool.false_eq_true, if_false, reqFrame]
  by_cases h14 : typ = tCloseConnection
  · by_cases hp0 : pid = 0 <;> cases w <;> simp [h14, hp0, hp, hf, register, bumpId]
  · by_cases hp0 : pid = 0 <;> cases w <;> simp [h14, hp0, hp, hf, register, bumpId]

theorem wr_ack (id : Nat) :
    let s' := wr s (.ack id)
    s'.out = s.out ++ [ackFrame s id] ∧ s'.ackOut = s.ackOut ++ [ackFrame s id] ∧ s'.reqOut = s.reqOut ∧
    s'.bytes = s.bytes ++ (ackFrame s id).bytes ∧ s'.version = s.version ∧ s'.nextId = s.nextId ∧
    s'.parked = false ∧ s'.failed = false ∧ s'.tokens = s.tokens := by
  have hp : s.parked = false := by simp [WState.stopped] at hs; exact hs.1
  have hf : s.failed = false := by simp [WState.stopped] at hs; exact hs.2
  unfold wr
  simp [hs, ackFrame, hp, hf]

theorem wr_setVer (v : Nat) :
    let s' := wr s (.setVer v)
    s'.out = s.out ∧ s'.ackOut = s.ackOut ∧ s'.reqOut = s.reqOut ∧ s'.bytes = s.bytes ∧ s'.version = v ∧
    s'.nextId = s.nextId ∧ s'.parked = false ∧ s'.failed = false ∧ s'.tokens = s.tokens := by
  have hp : s.parked = false := by simp [WState.stopped] at hs; exact hs.1
  have hf : s.failed = false := by simp [WState.stopped] at hs; exact hs.2
  unfold wr
  simp [hs, hp, hf]
end fields

/-- an invariant of single iterations (for items satisfying `Q`) holds along every run -/
theorem run_inv (P : WState → Prop) (Q : WItem → Prop) (step : ∀ s it, Q it → P s → P (wr s it))
    (items : List WItem) (hq : ∀ it ∈ items, Q it) (s : WState) (h : P s) : P (run s items) := by
  induction items generalizing s with
  | nil => exact h
  | cons it items ih =>
    exact ih (fun x hx => hq x (List.mem_cons_of_mem _ hx)) _ (step s it (hq it List.mem_cons_self) h)

theorem stopped_cases (s : WState) : s.stopped = true ∨ s.stopped = false := by
  cases s.stopped <;> simp

/-! ### the bytes written are the frames written -/

def BytesInv (s : WState) : Prop := s.bytes = s.out.flatMap Frame.bytes

theorem bytesInv_step (s : WState) (it : WItem) (hq : it.WF) (h : BytesInv s) : BytesInv (wr s it) := by
  rcases stopped_cases s with hs | hs
  · rw [wr_of_stopped hs]; exact h
  · unfold BytesInv at *
    cases it with
    | ack id => obtain ⟨h1, _, _, h4, _⟩ := wr_ack hs id; rw [h1, h4, h]; simp
    | req c typ payload pid pv w => obtain ⟨h1, _, _, h4, _⟩ := wr_req hs c typ payload pid pv w; rw [h1, h4, h]; simp
    | bad c typ dl pid w => exact absurd hq (by simp [WItem.WF])
    | setVer v => obtain ⟨h1, _, _, h4, _⟩ := wr_setVer hs v; rw [h1, h4, h]

/-! ### every frame written fits its header -/

def ValidInv (s : WState) : Prop := s.version < 8 ∧ s.nextId < idMod ∧ ∀ f ∈ s.out, f.Valid

theorem stamp_lt (v typ : Nat) (h : v < 8) : stamp v typ < 8 := by
  unfold stamp; split <;> simp [Gen.Version1_1, h]

theorem validInv_step (s : WState) (it : WItem) (hq : it.WF) (h : ValidInv s) : ValidInv (wr s it) := by
  rcases stopped_cases s with hs | hs
  · rw [wr_of_stopped hs]; exact h
  · obtain ⟨hv, hn, hf⟩ := h
    cases it with
    | ack id =>
      obtain ⟨h1, _, _, _, h5, h6, _⟩ := wr_ack hs id
      refine ⟨by rw [h5]; exact hv, by rw [h6]; exact hn, ?_⟩
      rw [h1]; intro f hf'
      rcases List.mem_append.mp hf' with hf' | hf'
      · exact hf f hf'
      · simp at hf'; subst hf'
        exact ⟨stamp_lt _ tKeepAliveAck hv, by simp [ackFrame, tKeepAliveAck], by simp [ackFrame], hq⟩
    | req c typ payload pid pv w =>
      obtain ⟨h1, _, _, _, h5, h6, _⟩ := wr_req hs c typ payload pid pv w
      obtain ⟨q1, q2, q3⟩ := hq
      refine ⟨by rw [h5]; exact hv, ?_, ?_⟩
      · rw [h6]; split
        · exact Nat.mod_lt _ (by decide)
        · exact hn
      · rw [h1]; intro f hf'
        rcases List.mem_append.mp hf' with hf' | hf'
        · exact hf f hf'
        · simp at hf'; subst hf'
          refine ⟨stamp_lt _ typ hv, q1, q2, ?_⟩
          simp only [reqFrame, assignId]; split
          · exact hn
          · exact q3
    | bad c typ dl pid w => exact absurd hq (by simp [WItem.WF])
    | setVer v =>
      obtain ⟨h1, _, _, _, h5, h6, _⟩ := wr_setVer hs v
      exact ⟨by rw [h5]; exact hq, by rw [h6]; exact hn, by rw [h1]; exact hf⟩

/-! ### request frames and acknowledgement frames partition the output -/

def PartInv (s : WState) : Prop :=
  s.out.filter (fun f => f.typ != tKeepAliveAck) = s.reqOut ∧ s.out.filter (fun f => f.typ == tKeepAliveAck) = s.ackOut

/-- no caller sends a KeepAliveAck itself -/
def WItem.notAckTyp : WItem → Prop
  | .req _ typ _ _ _ _ => typ ≠ tKeepAliveAck
  | _ => True

theorem partInv_step (s : WState) (it : WItem) (hq : it.notAckTyp) (h : PartInv s) : PartInv (wr s it) := by
  rcases stopped_cases s with hs | hs
  · rw [wr_of_stopped hs]; exact h
  · obtain ⟨hr, ha⟩ := h
    unfold PartInv
    cases it with
    | ack id =>
      obtain ⟨h1, h2, h3, _⟩ := wr_ack hs id
      rw [h1, h2, h3, List.filter_append, List.filter_append, hr, ha]
      simp [ackFrame]
    | req c typ payload pid pv w =>
      obtain ⟨h1, h2, h3, _⟩ := wr_req hs c typ payload pid pv w
      have : typ ≠ tKeepAliveAck := hq
      rw [h1, h2, h3, List.filter_append, List.filter_append, hr, ha]
      simp [reqFrame, this]
    | bad c typ dl pid w =>
      have hb : (wr s (.bad c typ dl pid w)).out = s.out ∧ (wr s (.bad c typ dl pid w)).ackOut = s.ackOut ∧
          (wr s (.bad c typ dl pid w)).reqOut = s.reqOut := by unfold wr; simp [hs]
      rw [hb.1, hb.2.1, hb.2.2]; exact ⟨hr, ha⟩
    | setVer v =>
      obtain ⟨h1, h2, h3, _⟩ := wr_setVer hs v
      rw [h1, h2, h3]; exact ⟨hr, ha⟩

/-! ### message ids -/

/-- with `n0` the first id: the i-th request frame carries id (n0 + i) mod 2^32 -/
def IdInv (n0 : Nat) (s : WState) : Prop :=
  s.reqOut.map (·.id) = (List.range s.reqOut.length).map (fun i => (n0 + i) % idMod) ∧
  s.nextId = (n0 + s.reqOut.length) % idMod

def WItem.freshId : WItem → Prop
  | .req _ _ _ pid _ _ => pid = 0
  | .bad .. => False
  | _ => True

theorem idInv_step (n0 : Nat) (s : WState) (it : WItem) (hq : it.freshId) (h : IdInv n0 s) : IdInv n0 (wr s it) := by
  rcases stopped_cases s with hs | hs
  · rw [wr_of_stopped hs]; exact h
  · obtain ⟨hi, hn⟩ := h
    unfold IdInv
    cases it with
    | ack id => obtain ⟨_, _, h3, _, _, h6, _⟩ := wr_ack hs id; rw [h3, h6]; exact ⟨hi, hn⟩
    | req c typ payload pid pv w =>
      obtain ⟨_, h2, _, _, _, h6, _⟩ := wr_req hs c typ payload pid pv w
      have hp : pid = 0 := hq
      rw [h2, h6]
      simp only [hp, if_true, List.map_append, List.length_append, List.length_cons, List.length_nil, List.map_cons,
        List.map_nil, List.range_succ, hi]
      refine ⟨?_, ?_⟩
      · simp [reqFrame, assignId, hn]
      · rw [hn]; simp only [idMod]; omega
    | bad c typ dl pid w => exact absurd hq (by simp [WItem.freshId])
    | setVer v => obtain ⟨_, _, h3, _, _, h6, _⟩ := wr_setVer hs v; rw [h3, h6]; exact ⟨hi, hn⟩

theorem range_mod_nodup (n0 k : Nat) (hk : k ≤ idMod) : ((List.range k).map (fun i => (n0 + i) % idMod)).Nodup := by
  rw [List.Nodup, List.pairwise_map]
  have := List.pairwise_lt_range (n := k)
  refine List.Pairwise.imp_of_mem ?_ this
  intro a b ha hb hab
  have ha' := List.mem_range.mp ha
  have hb' := List.mem_range.mp hb
  simp only [idMod] at *
  omega

end LLRP

namespace LLRP

theorem wr_bad {s : WState} (hs : s.stopped = false) (c typ dl pid : Nat) (w : Bool) :
    let s' := wr s (.bad c typ dl pid w)
    s'.out = s.out ∧ s'.ackOut = s.ackOut ∧ s'.reqOut = s.reqOut ∧ s'.failed = true := by
  unfold wr
  simp [hs]

/-! ### nothing is written after CloseConnection -/

def CloseInv (s : WState) : Prop :=
  (s.parked = false → ∀ f ∈ s.out, f.typ ≠ tCloseConnection) ∧
  (∀ i f, s.out[i]? = some f → f.typ = tCloseConnection → i + 1 = s.out.length)

theorem closeInv_append (out : List Frame) (g : Frame) (h0 : ∀ f ∈ out, f.typ ≠ tCloseConnection) :
    ∀ i f, (out ++ [g])[i]? = some f → f.typ = tCloseConnection → i + 1 = (out ++ [g]).length := by
  intro i f hi ht
  by_cases hlt : i < out.length
  · rw [List.getElem?_append_left hlt] at hi
    exact absurd ht (h0 f (List.mem_of_getElem? hi))
  · rw [List.getElem?_append_right (by omega)] at hi
    have : i - out.length = 0 := by
      cases hd : i - out.length with
      | zero => rfl
      | succ n => rw [hd] at hi; simp at hi
    simp; omega

theorem closeInv_step (s : WState) (it : WItem) (h : CloseInv s) : CloseInv (wr s it) := by
  rcases stopped_cases s with hs | hs
  · rw [wr_of_stopped hs]; exact h
  · have hp : s.parked = false := by simp [WState.stopped] at hs; exact hs.1
    obtain ⟨h0, h1⟩ := h
    have h0 := h0 hp
    cases it with
    | ack id =>
      obtain ⟨e1, _, _, _, _, _, e7, _⟩ := wr_ack hs id
      constructor
      · intro _ f hf; rw [e1] at hf
        rcases List.mem_append.mp hf with hf | hf
        · exact h0 f hf
        · simp at hf; subst hf; simp [ackFrame, tKeepAliveAck, tCloseConnection]
      · rw [e1]; exact closeInv_append _ _ h0
    | req c typ payload pid pv w =>
      obtain ⟨e1, _, _, _, _, _, e7, _⟩ := wr_req hs c typ payload pid pv w
      constructor
      · intro hpk f hf; rw [e1] at hf
        rw [e7] at hpk
        rcases List.mem_append.mp hf with hf | hf
        · exact h0 f hf
        · simp at hf; subst hf; simpa [reqFrame] using hpk
      · rw [e1]; exact closeInv_append _ _ h0
    | bad c typ dl pid w =>
      obtain ⟨e1, _⟩ := wr_bad hs c typ dl pid w
      constructor
      · intro _; rw [e1]; exact h0
      · rw [e1]; exact h1
    | setVer v =>
      obtain ⟨e1, _⟩ := wr_setVer hs v
      constructor
      · intro _; rw [e1]; exact h0
      · rw [e1]; exact h1

/-! ### a token is only handed out together with the request's frame -/

def TokInv (s : WState) : Prop := ∀ p ∈ s.tokens, ∃ f ∈ s.reqOut, f.id = p.2

theorem tokInv_step (s : WState) (it : WItem) (hq : it.WF) (h : TokInv s) : TokInv (wr s it) := by
  rcases stopped_cases s with hs | hs
  · rw [wr_of_stopped hs]; exact h
  · unfold TokInv at *
    cases it with
    | ack id => obtain ⟨_, _, e3, _, _, _, _, _, e9⟩ := wr_ack hs id; rw [e3, e9]; exact h
    | req c typ payload pid pv w =>
      obtain ⟨_, e2, _, _, _, _, _, _, e9⟩ := wr_req hs c typ payload pid pv w
      rw [e2, e9]
      intro p hp
      have old : ∀ p ∈ s.tokens, ∃ f ∈ s.reqOut ++ [reqFrame s typ payload pid], f.id = p.2 := by
        intro p hp; obtain ⟨f, hf, hid⟩ := h p hp
        exact ⟨f, List.mem_append_left _ hf, hid⟩
      cases w with
      | false => exact old p (by simpa using hp)
      | true =>
        simp only [if_true, List.mem_cons] at hp
        rcases hp with hp | hp
        · subst hp; exact ⟨reqFrame s typ payload pid, by simp, rfl⟩
        · exact old p hp
    | bad c typ dl pid w => exact absurd hq (by simp [WItem.WF])
    | setVer v => obtain ⟨_, _, e3, _, _, _, _, _, e9⟩ := wr_setVer hs v; rw [e3, e9]; exact h

/-! ### the frames written are, in order, what a prefix of the dequeued items asked for -/

theorem dequeued_prefix (items : List WItem) (s : WState) : dequeued s items <+: items := by
  induction items generalizing s with
  | nil => simp [dequeued]
  | cons it items ih =>
    unfold dequeued
    split
    · exact List.nil_prefix
    · exact List.prefix_cons_inj it |>.mpr (ih _)

theorem run_sigs (items : List WItem) (s : WState) :
    (run s items).out.map Frame.sig = s.out.map Frame.sig ++ (dequeued s items).filterMap WItem.sig ∧
    (run s items).reqOut.map Frame.sig = s.reqOut.map Frame.sig ++ reqSigs (dequeued s items) ∧
    (run s items).ackOut.map (·.id) = s.ackOut.map (·.id) ++ ackIds (dequeued s items) ∧
    ((dequeued s items).length < items.length → (run s items).stopped = true) := by
  induction items generalizing s with
  | nil => exact ⟨by simp [run, dequeued], by simp [run, dequeued, reqSigs], by simp [run, dequeued, ackIds], by simp [dequeued]⟩
  | cons it items ih =>
    rcases stopped_cases s with hs | hs
    · refine ⟨?_, ?_, ?_, ?_⟩ <;> simp [run_of_stopped hs, hs, dequeued, reqSigs, ackIds]
    · obtain ⟨h1, h2, h3, h4⟩ := ih (wr s it)
      have hd : dequeued s (it :: items) = it :: dequeued (wr s it) items := by simp [dequeued, hs]
      rw [hd]
      refine ⟨?_, ?_, ?_, ?_⟩
      · rw [run_cons, h1, wr_out]
        cases it <;> simp [hs, frameOf, WItem.sig, Frame.sig, List.filterMap_cons]
      · rw [run_cons, h2]
        unfold reqSigs
        cases it with
        | ack id => obtain ⟨_, _, e3, _⟩ := wr_ack hs id; rw [e3]; simp [WItem.isReq, List.filter_cons]
        | req c typ payload pid pv w =>
          obtain ⟨_, e2, _⟩ := wr_req hs c typ payload pid pv w
          rw [e2]; simp [WItem.isReq, WItem.sig, Frame.sig, reqFrame, List.filterMap_cons, List.filter_cons]
        | bad c typ dl pid w => obtain ⟨_, _, e3, _⟩ := wr_bad hs c typ dl pid w; rw [e3]; simp [WItem.isReq, List.filter_cons]
        | setVer v => obtain ⟨_, _, e3, _⟩ := wr_setVer hs v; rw [e3]; simp [WItem.isReq, List.filter_cons]
      · rw [run_cons, h3]
        unfold ackIds
        cases it with
        | ack id => obtain ⟨_, e2, _⟩ := wr_ack hs id; rw [e2]; simp [WItem.ackId, ackFrame, List.filterMap_cons]
        | req c typ payload pid pv w =>
          obtain ⟨_, _, e3, _⟩ := wr_req hs c typ payload pid pv w
          rw [e3]; simp [WItem.ackId, List.filterMap_cons]
        | bad c typ dl pid w => obtain ⟨_, e2, _⟩ := wr_bad hs c typ dl pid w; rw [e2]; simp [WItem.ackId, List.filterMap_cons]
        | setVer v => obtain ⟨_, e2, _⟩ := wr_setVer hs v; rw [e2]; simp [WItem.ackId, List.filterMap_cons]
      · intro hlt; rw [run_cons]; exact h4 (by simp at hlt; omega)

end LLRP
