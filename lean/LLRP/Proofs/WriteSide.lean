import LLRP.Model.WriteSide
import LLRP.Proofs.Bytes
/-! Lemmas about the write-side fold `wr` (used by C05, C06, C07). Core Lean only. -/
namespace LLRP

/-! ### field projections of the small state updates -/
section proj
variable (s : WState) (w : Bool) (i c p : Nat) (f : Frame)

@[simp] theorem register_out : (register s w i c).out = s.out := by unfold register; split <;> rfl
@[simp] theorem register_bytes : (register s w i c).bytes = s.bytes := by unfold register; split <;> rfl
@[simp] theorem register_version : (register s w i c).version = s.version := by unfold register; split <;> rfl
@[simp] theorem register_nextId : (register s w i c).nextId = s.nextId := by unfold register; split <;> rfl
@[simp] theorem register_parked : (register s w i c).parked = s.parked := by unfold register; split <;> rfl
@[simp] theorem register_failed : (register s w i c).failed = s.failed := by unfold register; split <;> rfl
@[simp] theorem register_reqOut : (register s w i c).reqOut = s.reqOut := by unfold register; split <;> rfl
@[simp] theorem register_ackOut : (register s w i c).ackOut = s.ackOut := by unfold register; split <;> rfl
@[simp] theorem bumpId_out : (bumpId s p).out = s.out := by unfold bumpId; split <;> rfl
@[simp] theorem bumpId_bytes : (bumpId s p).bytes = s.bytes := by unfold bumpId; split <;> rfl
@[simp] theorem bumpId_version : (bumpId s p).version = s.version := by unfold bumpId; split <;> rfl
@[simp] theorem bumpId_parked : (bumpId s p).parked = s.parked := by unfold bumpId; split <;> rfl
@[simp] theorem bumpId_failed : (bumpId s p).failed = s.failed := by unfold bumpId; split <;> rfl
@[simp] theorem bumpId_reqOut : (bumpId s p).reqOut = s.reqOut := by unfold bumpId; split <;> rfl
@[simp] theorem bumpId_ackOut : (bumpId s p).ackOut = s.ackOut := by unfold bumpId; split <;> rfl
@[simp] theorem bumpId_tokens : (bumpId s p).tokens = s.tokens := by unfold bumpId; split <;> rfl
@[simp] theorem bumpId_awaiting : (bumpId s p).awaiting = s.awaiting := by unfold bumpId; split <;> rfl
@[simp] theorem emit_out : (emit s f).out = s.out ++ [f] := rfl
@[simp] theorem emit_bytes : (emit s f).bytes = s.bytes ++ f.bytes := rfl
@[simp] theorem emit_version : (emit s f).version = s.version := rfl
@[simp] theorem emit_nextId : (emit s f).nextId = s.nextId := rfl
@[simp] theorem emit_parked : (emit s f).parked = s.parked := rfl
@[simp] theorem emit_failed : (emit s f).failed = s.failed := rfl
@[simp] theorem emit_reqOut : (emit s f).reqOut = s.reqOut := rfl
@[simp] theorem emit_ackOut : (emit s f).ackOut = s.ackOut := rfl
@[simp] theorem emit_tokens : (emit s f).tokens = s.tokens := rfl
@[simp] theorem emit_awaiting : (emit s f).awaiting = s.awaiting := rfl
end proj

theorem wr_of_stopped {s : WState} (h : s.stopped = true) (it : WItem) : wr s it = s := by
  unfold wr; simp [h]

theorem run_of_stopped {s : WState} (h : s.stopped = true) (items : List WItem) : run s items = s := by
  induction items with
  | nil => rfl
  | cons it items ih => simp only [run, List.foldl_cons, wr_of_stopped h] at ih ⊢; exact ih

theorem run_cons (s : WState) (it : WItem) (items : List WItem) : run s (it :: items) = run (wr s it) items := rfl
theorem run_nil (s : WState) : run s [] = s := rfl
theorem run_append (s : WState) (a b : List WItem) : run s (a ++ b) = run (run s a) b := by
  simp [run, List.foldl_append]

/-- frames added by one iteration -/
theorem wr_out (s : WState) (it : WItem) :
    (wr s it).out = s.out ++ (if s.stopped then [] else (frameOf s it).toList) := by
  unfold wr
  by_cases h : s.stopped = true
  · simp [h]
  · simp only [h, Bool.false_eq_true, if_false]
    cases it with
    | ack id => simp [frameOf]
    | req c typ payload pid pv w =>
      by_cases h14 : typ = tCloseConnection <;> simp [frameOf, h14]
    | bad c typ dl pid w => simp [frameOf]
    | setVer v => simp [frameOf]

/-- the client's version only changes through `setVer` -/
theorem wr_version (s : WState) (it : WItem) (h : ∀ v, it ≠ .setVer v) : (wr s it).version = s.version := by
  unfold wr
  by_cases hs : s.stopped = true
  · simp [hs]
  · simp only [hs, Bool.false_eq_true, if_false]
    cases it with
    | ack id => simp
    | req c typ payload pid pv w => by_cases h14 : typ = tCloseConnection <;> simp [h14]
    | bad c typ dl pid w => simp
    | setVer v => exact absurd rfl (h v)

/-- every frame written while the client's version is `v` carries `stamp v typ` -/
theorem run_stamped (items : List WItem) (h : ∀ it ∈ items, ∀ v, it ≠ .setVer v) (s : WState) :
    ∃ extra, (run s items).out = s.out ++ extra ∧ (run s items).version = s.version ∧
      ∀ f ∈ extra, f.ver = stamp s.version f.typ := by
  induction items generalizing s with
  | nil => exact ⟨[], by simp [run], rfl, by simp⟩
  | cons it items ih =>
    have hit := h it List.mem_cons_self
    obtain ⟨extra, h1, h2, h3⟩ := ih (fun x hx => h x (List.mem_cons_of_mem _ hx)) (wr s it)
    rw [wr_version s it hit] at h2 h3
    refine ⟨(if s.stopped then [] else (frameOf s it).toList) ++ extra, ?_, h2, ?_⟩
    · rw [run_cons, h1, wr_out, List.append_assoc]
    · intro f hf
      rw [List.mem_append] at hf
      rcases hf with hf | hf
      · by_cases hs : s.stopped = true
        · simp [hs] at hf
        · simp only [hs, Bool.false_eq_true, if_false] at hf
          cases it with
          | ack id => simp [frameOf] at hf; subst hf; rfl
          | req c typ payload pid pv w => simp [frameOf] at hf; subst hf; rfl
          | bad c typ dl pid w => simp [frameOf] at hf
          | setVer v => simp [frameOf] at hf
      · exact h3 f hf

end LLRP
