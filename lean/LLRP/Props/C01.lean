import LLRP.Model.Codec
import LLRP.Proofs.DecodeFuel
import LLRP.Model.SchemaWF
import LLRP.Proofs.CodecRT
import LLRP.Gen.Schema
import LLRP.Gen.Structs
import LLRP.Gen.MsgTables
/-!
# C01 — Binary codec round-trips every message and parameter type

The central round-trip theorem is about the generic codec model instantiated with the regenerated table; the JSON
clause is a shape condition on the regenerated Go struct definitions (what `encoding/json` does with such shapes is
trusted and sampled by the correspondence's JSON leg).
-/
namespace LLRP.C01
open LLRP

/-! ## binary form: `decode ∘ encode = id` on well-formed values

`fits S c v` is "well-formed value of container `c`" (field ranges, counts and byte lengths < 2^16, bit-array byte
length, cardinalities incl. `1..n`, exactly one present member per choice group and it passes the encoder's "present?"
test, every TLV shorter than 2^16). `SchemaWF S` (Model/SchemaWF.lean) is the decidable condition on the table the proof
needs: field discipline (packed bytes, `rest` last), TLV ids < 1024, TV parameters fixed and slot-free, distinct type
ids inside a decoder group, FOLLOW-SET DISJOINTNESS of optional/loop groups, the generator's `min_size` a true lower
bound, fixed-size containers slot-free, and a bound on the number of decoder groups (decoder fuel). -/

/-- a successful decoding at ANY fuel is `decode`'s result (fuel independence, proved in Proofs/DecodeFuel for C11):
the round trip never needs to look at the concrete fuel `decode` starts with -/
theorem decode_of_fuel (S : Schema) (c : Container) (d : Bytes) (v : Val)
    (h : ∀ fd, 4 * d.length + 8 ≤ fd → decBody S fd c d = some v) : decode S c d = some v := by
  have h0 := h (4 * d.length + 8) (Nat.le_refl _)
  unfold decode decodeFuel
  refine decBody_fuel S _ (by omega) (slope_ok S) _ c d v h0 _ (Or.inr ?_)
  have := walk_groupsOf_le c
  omega

/-- ROUND TRIP: decoding the encoding of a well-formed value of any message or parameter type gives the value back -/
theorem decode_encode (S : Schema) (hS : SchemaWF S = true) (c : Container) (hc : c ∈ S) (v : Val)
    (hv : fits S c v = true) : decode S c (encode S c v) = some v :=
  decode_of_fuel S c _ v (decBody_encode S hS c hc v hv)

/-- re-encoding what was decoded reproduces the bytes -/
theorem reencode (S : Schema) (hS : SchemaWF S = true) (c : Container) (hc : c ∈ S) (v : Val)
    (hv : fits S c v = true) : (decode S c (encode S c v)).map (encode S c) = some (encode S c v) := by
  rw [decode_encode S hS c hc v hv]; rfl

/-- the regenerated table satisfies the condition (kernel evaluation over all 169 entries) -/
theorem schema_wf : SchemaWF Gen.schema = true := by decide +kernel

/-- the round trip for the codec of this repository -/
theorem decode_encode_gen (c : Container) (hc : c ∈ Gen.schema) (v : Val) (hv : fits Gen.schema c v = true) :
    decode Gen.schema c (encode Gen.schema c v) = some v :=
  decode_encode Gen.schema schema_wf c hc v hv

/-! ### non-vacuity: concrete nested values are well-formed -/

/-- a TagReportData (29 slots) from the list of its non-empty slots -/
def trd (present : List (Nat × Val)) : Val :=
  .node [] ((List.range 29).map fun i => (present.filter (·.1 == i)).map (·.2))

/-- ROAccessReport with two TagReportData: one with an EPC96, AntennaID, (signed) PeakRSSI, FirstSeenUTC and a
C1G2ReadOpSpecResult carrying two words; one with a 13-bit EPCData and a TagSeenCount -/
def exReport : Val :=
  .node [] [[trd [(1, .node [.bytes [0xe2, 0, 0x10, 0x20, 0x30, 0x40, 0x50, 0x60, 0x70, 0x80, 0x90, 0xa0]] []),
                  (5, .node [.num 3] []), (6, .node [.num (-61)] []), (8, .node [.num 1695999999123456] []),
                  (18, .node [.num 0, .num 7, .nums [0x1234, 0xabcd]] [])],
             trd [(0, .node [.bits 13 [0xab, 0xc8]] []), (12, .node [.num 65535] [])]],
            [], []]

example : fits Gen.schema Gen.m_ROAccessReport exReport = true := by decide +kernel
example : decode Gen.schema Gen.m_ROAccessReport (encode Gen.schema Gen.m_ROAccessReport exReport) = some exReport :=
  decode_encode_gen _ (by decide +kernel) _ (by decide +kernel)
example : (encode Gen.schema Gen.m_ROAccessReport exReport).length = 59 := by decide +kernel

/-- AddROSpec ▸ ROSpec ▸ (ROBoundarySpec ▸ start/stop trigger; AISpec ▸ stop trigger, InventoryParameterSpec) -/
def exAddROSpec : Val :=
  .node [] [[.node [.num 1, .num 0, .num 0]
    [[.node [] [[.node [.num 0] [[], []]], [.node [.num 0, .num 0] [[]]]]],
     [.node [.nums [1, 2]] [[.node [.num 0, .num 0] [[], []]], [.node [.num 1, .num 1] [[], []]], []]],
     [], [], [], []]]]

example : fits Gen.schema Gen.m_AddROSpec exAddROSpec = true := by decide +kernel
example : decode Gen.schema Gen.m_AddROSpec (encode Gen.schema Gen.m_AddROSpec exAddROSpec) = some exAddROSpec :=
  decode_encode_gen _ (by decide +kernel) _ (by decide +kernel)

/-- outside `fits` the round trip does fail: a TagReportData whose EPCData has 0 bits (known finding) -/
example : fits Gen.schema Gen.p_TagReportData (trd [(0, .node [.bits 0 []] [])]) = false := by decide +kernel

/-! ## JSON form: struct shapes that `encoding/json` maps losslessly -/

/-- kinds of Go types whose JSON encoding is lossless and unambiguous: bool, sized integers, string, byte slices
(base64), slices of those, structs, pointers to and slices of structs/named scalars -/
def jsonSafeKind (k : String) : Bool :=
  let base := ["bool", "byte", "uint8", "uint16", "uint32", "uint64", "int8", "int16", "int32", "int64", "string", "struct"]
  base.contains k ||
  base.any (fun b => k == "slice(" ++ b ++ ")" || k == "ptr(" ++ b ++ ")")

def noDup {α} [BEq α] : List α → Bool
  | [] => true
  | x :: xs => !xs.contains x && noDup xs

def jsonSafeStruct (s : Gen.GoStruct) : Bool :=
  (s.kind == "struct" || jsonSafeKind s.kind) &&
  s.fields.all (fun f => f.exported && !f.embedded && f.tag == "" && jsonSafeKind f.kind) &&
  -- no two field names equal under case folding (encoding/json matches keys case-insensitively)
  noDup (s.fields.map (fun f => f.name.toList.map Char.toLower))

/-- every generated struct has a JSON-safe shape -/
theorem json_safe : ∀ s ∈ Gen.structs, jsonSafeStruct s = true := by decide +kernel

/-- no generated type customises its JSON or text encoding -/
theorem no_custom_json :
    Gen.methods_MarshalJSON = [] ∧ Gen.methods_UnmarshalJSON = [] ∧
    Gen.methods_MarshalText = [] ∧ Gen.methods_UnmarshalText = [] := by decide

end LLRP.C01
