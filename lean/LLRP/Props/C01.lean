import LLRP.Model.Codec
import LLRP.Gen.Schema
import LLRP.Gen.Structs
import LLRP.Gen.MsgTables
/-!
# C01 — Binary codec round-trips every message and parameter type

The central round-trip theorem is about the generic codec model instantiated with the regenerated table; the JSON
clause is a shape condition on the regenerated Go struct definitions (what `encoding/json` does with such shapes is
trusted and sampled by the correspondence's JSON leg).
-/
namespace LLRP.C01
open LLRP

/-! ## JSON form: struct shapes that `encoding/json` maps losslessly -/

/-- kinds of Go types whose JSON encoding is lossless and unambiguous: bool, sized integers, string, byte slices
(base64), slices of those, structs, pointers to and slices of structs/named scalars -/
def jsonSafeKind (k : String) : Bool :=
  let base := ["bool", "byte", "uint8", "uint16", "uint32", "uint64", "int8", "int16", "int32", "int64", "string", "struct"]
  base.contains k ||
  base.any (fun b => k == "slice(" ++ b ++ ")" || k == "ptr(" ++ b ++ ")")

def noDup {α} [BEq α] : List α → Bool
  | [] => true
  | x :: xs => !xs.contains x && noDup xs

def jsonSafeStruct (s : Gen.GoStruct) : Bool :=
  (s.kind == "struct" || jsonSafeKind s.kind) &&
  s.fields.all (fun f => f.exported && !f.embedded && f.tag == "" && jsonSafeKind f.kind) &&
  -- no two field names equal under case folding (encoding/json matches keys case-insensitively)
  noDup (s.fields.map (fun f => f.name.toList.map Char.toLower))

/-- every generated struct has a JSON-safe shape -/
theorem json_safe : ∀ s ∈ Gen.structs, jsonSafeStruct s = true := by decide +kernel

/-- no generated type customises its JSON or text encoding -/
theorem no_custom_json :
    Gen.methods_MarshalJSON = [] ∧ Gen.methods_UnmarshalJSON = [] ∧
    Gen.methods_MarshalText = [] ∧ Gen.methods_UnmarshalText = [] := by decide

end LLRP.C01
