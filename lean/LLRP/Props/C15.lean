import LLRP.Model.Supervisor
/-!
# C15 — Connection supervision: retry forever, Down after two failures, Up on reconnect

All theorems are about the executable model `LLRP.Sup` (`Model/Supervisor.lean`) instantiated with what the translator
read from `internal/driver/device.go` (`Gen/Sup.lean`: loop shape, retry counts, form of the cancellation test), for
**all** scripts (lists of events of any length). The model is tied to the code by the differential run of
`harness/driver/zz_verif_c15_test.go`.

Clauses of the property and where they are proved:

* keeps trying until stopped, however many attempts fail — `never_gives_up`
* Down once two consecutive attempts have failed (a broken established connection counts) — `failure_count`, `down_after_two`
* Up when the reader next accepts a connection — `up_on_reconnect`
* reported states alternate and follow reachability — `reports_alternate`, `reports_follow_state`
* after Stop no further connections — `no_dial_after_stop` (and nothing further is reported: `stop_is_silent`)
* an address change redirects the next attempt — `next_dial_uses_latest_addr`
* a request made while disconnected is retried only because the client was closed, at most three times —
  `trysend_retries`, `trysend_stops`, `retry_calls_bounded`
-/
namespace LLRP.C15
open LLRP LLRP.Sup

/-! ## what the source looks like (regenerated on every run) -/

/-- the supervisor is `for ctx.Err() == nil { Slow.RetryWithCtx(ctx, Forever, f₁) }` with f₁ running
`Quick.RetryWithCtx(ctx, maxConnAttempts = 2, f₂)`; TrySend is `Quick.RetryWithCtx(ctx, maxSendAttempts = 3, …)` retrying
exactly the errors that wrap `ErrClientClosed` (and a missing client) -/
theorem source_shape :
    Gen.sup_loopCond = "ctx.Err() == nil" ∧ Gen.sup_outerPolicy = "Slow" ∧ Gen.sup_outerRetries = Gen.sup_Forever ∧
    Gen.sup_innerPolicy = "Quick" ∧ Gen.sup_innerRetries = 2 ∧ (Gen.sup_maxConnAttempts : Int) = Gen.sup_innerRetries ∧
    Gen.send_policy = "Quick" ∧ Gen.send_retries = 3 ∧ (Gen.sup_maxSendAttempts : Int) = Gen.send_retries ∧
    Gen.send_retryCond = "err != nil && errors.Is(err, llrp.ErrClientClosed)" ∧ Gen.send_noClientRetry = "true" :=
  ⟨rfl, rfl, rfl, rfl, rfl, rfl, rfl, rfl, rfl, rfl, rfl⟩

/-- what one attempt reports (the model's `Ev`: a failed dial, a failed or broken connection = a failed attempt; a
connection closed locally = a reset): the attempt function f₂ returns `true, err` when the dial fails and otherwise
`true, clientErr`, where `clientErr` is what `c.Connect(conn)` returned — reset to nil in exactly one case, when it
is `ErrClientClosed`. Every other way a connection ends (however long it lasted) is a failed attempt. -/
theorem attempt_rule :
    Gen.sup_attemptRetry = "true" ∧
    Gen.sup_attemptErr = ["err != nil => return true, err", " => c.Connect(conn)",
      "errors.Is(clientErr, llrp.ErrClientClosed) => nil", " => return true, clientErr"] :=
  ⟨rfl, rfl⟩

/-- f₁ recognises the cancelled context in the `*FError` of the inner retry (`errors.Is`, not `==`) -/
theorem stop_recognised : cfgSrc.stopByIs = true := rfl

/-! ## vocabulary of the statements -/

/-- the event is one connection attempt (one dial) -/
def isAttempt : Ev → Bool
  | .stop => false
  | .updateAddr _ => false
  | _ => true

/-- `Stop` is called during the event -/
def isStop : Ev → Bool
  | .stop => true
  | .connStop => true
  | _ => false

/-- the attempt receives the connection-success ReaderEventNotification -/
def connects : Ev → Bool
  | .dropped => true
  | .closedLocally => true
  | .connStop => true
  | .connUpdate _ => true
  | _ => false

/-- the attempt ends as a failed attempt (f₂ returns a non-nil error) -/
def fails (s : St) : Ev → Bool
  | .dialFail => true
  | .handshakeFail => true
  | .dropped => !s.poisoned
  | .connUpdate a => !s.poisoned && a == s.addr
  | _ => false

/-- an Up report is due -/
def upNow (s : St) (e : Ev) : Bool := !s.done && connects e && !s.isUp

/-- a Down report is due: a failed attempt that is the second in a row, while the device counts as up
(it was up before, or this very attempt connected) -/
def downNow (s : St) (e : Ev) : Bool := !s.done && fails s e && decide (s.qCalls ≠ 0) && (s.isUp || connects e)

def newReports (s : St) (e : Ev) : List Report :=
  (if upNow s e then [Report.up] else []) ++ (if downNow s e then [Report.down] else [])

/-- the address of the last address update in a script (`a` if none) -/
def lastAddr (a : Addr) : List Ev → Addr
  | [] => a
  | .updateAddr b :: r => lastAddr b r
  | .connUpdate b :: r => lastAddr b r
  | .dialFail :: r => lastAddr a r
  | .handshakeFail :: r => lastAddr a r
  | .dropped :: r => lastAddr a r
  | .closedLocally :: r => lastAddr a r
  | .connStop :: r => lastAddr a r
  | .stop :: r => lastAddr a r

/-- `rs` alternates, beginning with the opposite of `up` -/
def altFrom : Bool → List Report → Bool
  | _, [] => true
  | up, r :: rs => (r == (if up then Report.down else Report.up)) && altFrom (!up) rs

/-- the state last reported (`up` if nothing was reported) -/
def stateAfter : Bool → List Report → Bool
  | up, [] => up
  | _, r :: rs => stateAfter (r == Report.up) rs

/-! ## helper lemmas: the pieces of `step` -/

theorem inner_more (q : Nat) : retryMore cfgSrc.forever cfgSrc.innerRetries (q + 1) = decide (q = 0) := by
  have h1 : cfgSrc.innerRetries = 2 := rfl
  have h2 : cfgSrc.forever = -1 := rfl
  unfold retryMore; rw [h1, h2]
  by_cases h : q = 0
  · subst h; decide
  · simp [h]; omega

theorem outer_more (q : Nat) : retryMore cfgSrc.forever cfgSrc.outerRetries q = true := by
  have h1 : cfgSrc.outerRetries = -1 := rfl
  have h2 : cfgSrc.forever = -1 := rfl
  unfold retryMore; rw [h1, h2]; rfl

@[simp] theorem dial_done (s : St) : (dial s).done = s.done := rfl
@[simp] theorem dial_addr (s : St) : (dial s).addr = s.addr := rfl
@[simp] theorem dial_isUp (s : St) : (dial s).isUp = s.isUp := rfl
@[simp] theorem dial_reports (s : St) : (dial s).reports = s.reports := rfl
@[simp] theorem dial_dials (s : St) : (dial s).dials = s.dials ++ [s.addr] := rfl
@[simp] theorem dial_qCalls (s : St) : (dial s).qCalls = s.qCalls := rfl
@[simp] theorem dial_poisoned (s : St) : (dial s).poisoned = s.poisoned := rfl

@[simp] theorem onConnect_done (s : St) : (onConnect s).done = s.done := by unfold onConnect; split <;> rfl
@[simp] theorem onConnect_addr (s : St) : (onConnect s).addr = s.addr := by unfold onConnect; split <;> rfl
@[simp] theorem onConnect_dials (s : St) : (onConnect s).dials = s.dials := by unfold onConnect; split <;> rfl
@[simp] theorem onConnect_qCalls (s : St) : (onConnect s).qCalls = s.qCalls := by unfold onConnect; split <;> rfl
@[simp] theorem onConnect_poisoned (s : St) : (onConnect s).poisoned = s.poisoned := by unfold onConnect; split <;> rfl
@[simp] theorem onConnect_isUp (s : St) : (onConnect s).isUp = true := by unfold onConnect; split <;> simp_all
@[simp] theorem onConnect_reports (s : St) :
    (onConnect s).reports = s.reports ++ (if s.isUp then [] else [Report.up]) := by
  unfold onConnect; split <;> simp_all

@[simp] theorem reportDown_done (s : St) : (reportDown s).done = s.done := by unfold reportDown; split <;> rfl
@[simp] theorem reportDown_addr (s : St) : (reportDown s).addr = s.addr := by unfold reportDown; split <;> rfl
@[simp] theorem reportDown_dials (s : St) : (reportDown s).dials = s.dials := by unfold reportDown; split <;> rfl
@[simp] theorem reportDown_qCalls (s : St) : (reportDown s).qCalls = s.qCalls := by unfold reportDown; split <;> rfl
@[simp] theorem reportDown_isUp (s : St) : (reportDown s).isUp = false := by unfold reportDown; split <;> simp_all
@[simp] theorem reportDown_reports (s : St) :
    (reportDown s).reports = s.reports ++ (if s.isUp then [Report.down] else []) := by
  unfold reportDown; split <;> simp_all

@[simp] theorem afterOk_done (s : St) (c : Bool) : (afterOk s c).done = c := rfl
@[simp] theorem afterOk_addr (s : St) (c : Bool) : (afterOk s c).addr = s.addr := rfl
@[simp] theorem afterOk_dials (s : St) (c : Bool) : (afterOk s c).dials = s.dials := rfl
@[simp] theorem afterOk_isUp (s : St) (c : Bool) : (afterOk s c).isUp = s.isUp := rfl
@[simp] theorem afterOk_reports (s : St) (c : Bool) : (afterOk s c).reports = s.reports := rfl
@[simp] theorem afterOk_qCalls (s : St) (c : Bool) : (afterOk s c).qCalls = 0 := rfl

@[simp] theorem afterFail_done (cfg : Cfg) (s : St) : (afterFail cfg s).done = s.done := by
  unfold afterFail; simp only []; split
  · rfl
  · split <;> simp
@[simp] theorem afterFail_addr (cfg : Cfg) (s : St) : (afterFail cfg s).addr = s.addr := by
  unfold afterFail; simp only []; split
  · rfl
  · split <;> simp
@[simp] theorem afterFail_dials (cfg : Cfg) (s : St) : (afterFail cfg s).dials = s.dials := by
  unfold afterFail; simp only []; split
  · rfl
  · split <;> simp

theorem afterFail_reports (cfg : Cfg) (s : St) :
    (afterFail cfg s).reports =
      s.reports ++ (if retryMore cfg.forever cfg.innerRetries (s.qCalls + 1) = false ∧ s.isUp = true then [Report.down] else []) := by
  unfold afterFail; simp only []; split
  · simp_all
  · split <;> simp_all

theorem afterFail_isUp (cfg : Cfg) (s : St) :
    (afterFail cfg s).isUp = (retryMore cfg.forever cfg.innerRetries (s.qCalls + 1) && s.isUp) := by
  unfold afterFail; simp only []; split
  · simp_all
  · split <;> simp_all

theorem afterFail_qCalls (cfg : Cfg) (s : St) :
    (afterFail cfg s).qCalls = if retryMore cfg.forever cfg.innerRetries (s.qCalls + 1) then s.qCalls + 1 else 0 := by
  unfold afterFail; simp only []; split
  · simp_all
  · split <;> simp_all

@[simp] theorem onStop_done (cfg : Cfg) (s : St) : (onStop cfg s).done = true := by
  unfold onStop; split <;> rfl
@[simp] theorem onStop_dials (cfg : Cfg) (s : St) : (onStop cfg s).dials = s.dials := by
  unfold onStop; split
  · rfl
  · split <;> simp
@[simp] theorem onStop_addr (cfg : Cfg) (s : St) : (onStop cfg s).addr = s.addr := by
  unfold onStop; split
  · rfl
  · split <;> simp

theorem step_of_done (cfg : Cfg) (s : St) (e : Ev) (h : s.done = true) : step cfg s e = s := by
  simp [step, h]

theorem run_nil (cfg : Cfg) (s : St) : run cfg s [] = s := rfl
theorem run_cons (cfg : Cfg) (s : St) (e : Ev) (r : List Ev) : run cfg s (e :: r) = run cfg (step cfg s e) r := rfl
theorem run_append (cfg : Cfg) (s : St) (a b : List Ev) : run cfg s (a ++ b) = run cfg (run cfg s a) b := by
  simp [run, List.foldl_append]

theorem run_of_done (cfg : Cfg) (s : St) (evs : List Ev) (h : s.done = true) : run cfg s evs = s := by
  induction evs with
  | nil => rfl
  | cons e r ih => rw [run_cons, step_of_done cfg s e h]; exact ih

theorem step_stop_done (cfg : Cfg) (s : St) (e : Ev) (h : isStop e = true) : (step cfg s e).done = true := by
  by_cases hd : s.done = true
  · rw [step_of_done cfg s e hd]; exact hd
  · cases e <;> simp_all [step, isStop]

theorem step_keeps_going (cfg : Cfg) (s : St) (e : Ev) (h : isStop e = false) (hd : s.done = false) :
    (step cfg s e).done = false := by
  cases e <;> simp_all [step, isStop] <;> (try split) <;> (try split) <;> simp_all

theorem step_dials (cfg : Cfg) (s : St) (e : Ev) (hd : s.done = false) :
    (step cfg s e).dials = if isAttempt e then s.dials ++ [s.addr] else s.dials := by
  cases e <;> simp_all [step, isAttempt] <;> (try split) <;> (try split) <;> simp_all

theorem step_addr (cfg : Cfg) (s : St) (e : Ev) (hd : s.done = false) :
    (step cfg s e).addr = lastAddr s.addr [e] := by
  cases e <;> simp_all [step, lastAddr] <;> (try split) <;> (try split) <;> simp_all

theorem done_sticky (cfg : Cfg) (s : St) (e : Ev) (h : (step cfg s e).done = false) : s.done = false := by
  cases hd : s.done with
  | false => rfl
  | true => rw [step_of_done cfg s e hd] at h; rw [hd] at h; exact h

theorem run_done_sticky (cfg : Cfg) (s : St) (evs : List Ev) (h : (run cfg s evs).done = false) : s.done = false := by
  cases hd : s.done with
  | false => rfl
  | true => rw [run_of_done cfg s evs hd] at h; rw [hd] at h; exact h

/-! ## keeps trying -/

/-- **never gives up.** Whatever the outcomes are and however many attempts fail, as long as `Stop` is not called the
supervisor has not terminated and has dialled once for every attempt outcome in the script (so it is always ready for
the next one). Holds for any retry counts. -/
theorem never_gives_up (cfg : Cfg) (s : St) (evs : List Ev) (hs : s.done = false)
    (hn : ∀ e ∈ evs, isStop e = false) :
    (run cfg s evs).done = false ∧
    (run cfg s evs).dials.length = s.dials.length + (evs.filter isAttempt).length := by
  induction evs generalizing s with
  | nil => simp [run_nil, hs]
  | cons e r ih =>
    have he : isStop e = false := hn e (by simp)
    have hr : ∀ x ∈ r, isStop x = false := fun x hx => hn x (by simp [hx])
    have h1 := step_keeps_going cfg s e he hs
    have h2 := step_dials cfg s e hs
    obtain ⟨a, b⟩ := ih (step cfg s e) h1 hr
    rw [run_cons]
    refine ⟨a, ?_⟩
    rw [b, h2]
    by_cases ha : isAttempt e = true
    · simp [ha]; omega
    · simp [ha]

/-! ## Down after two consecutive failures, Up on reconnect -/

/-- **the retry nesting counts consecutive failures modulo two.** `qCalls` (calls of f₂ inside the running inner retry)
is 1 after a first failure, returns to 0 with the second one, is reset by any attempt that does not fail and is
untouched by control events. -/
theorem failure_count (s : St) (e : Ev) (hd : s.done = false) :
    (step cfgSrc s e).qCalls =
      if fails s e then (if s.qCalls = 0 then 1 else 0)
      else if isAttempt e then 0 else s.qCalls := by
  obtain ⟨addr, isUp, poisoned, q, sc, done, dials, reports⟩ := s
  simp only at hd
  subst hd
  cases e with
  | connUpdate a =>
    by_cases ha : a = addr <;> cases isUp <;> cases poisoned <;> rcases q with _ | q <;>
      simp [step, fails, isAttempt, afterFail, afterOk, onConnect, reportDown, dial, inner_more, outer_more, ha]
  | _ =>
    cases isUp <;> cases poisoned <;> rcases q with _ | q <;>
      simp [step, fails, isAttempt, afterFail, afterOk, onConnect, reportDown, dial, onStop, inner_more, outer_more] <;>
      (try (split <;> rfl))

/-- **what is reported, exactly.** One event adds to the reports: an Up iff the attempt saw the connection-success
event while the device was not up, then a Down iff the attempt failed, was the second failure in a row and the device
was up (or had just come up). Nothing else is ever reported; in particular `Stop` reports nothing. -/
theorem reports_exact (s : St) (e : Ev) : (step cfgSrc s e).reports = s.reports ++ newReports s e := by
  have hst := stop_recognised
  obtain ⟨addr, isUp, poisoned, q, sc, done, dials, reports⟩ := s
  cases done with
  | true => simp [step, newReports, upNow, downNow]
  | false =>
    cases e with
    | connUpdate a =>
      by_cases ha : a = addr <;> cases isUp <;> cases poisoned <;> rcases q with _ | q <;>
        simp [step, newReports, upNow, downNow, fails, connects, afterFail, afterOk, onConnect, reportDown, dial,
          inner_more, outer_more, ha]
    | _ =>
      cases isUp <;> cases poisoned <;> rcases q with _ | q <;>
        simp [step, newReports, upNow, downNow, fails, connects, afterFail, afterOk, onConnect, reportDown, dial, onStop,
          inner_more, outer_more, hst]

/-- **Down after two.** A Down report is made by an event exactly when that event is a failed attempt (refused dial,
bad handshake, or an established connection that broke), the previous attempt had failed as well (`qCalls ≠ 0`, see
`failure_count`) and the device counts as up; and then it is made once. -/
theorem down_after_two (s : St) (e : Ev) :
    (Report.down ∈ newReports s e ↔
      (s.done = false ∧ fails s e = true ∧ s.qCalls ≠ 0 ∧ (s.isUp = true ∨ connects e = true))) ∧
    (newReports s e).count Report.down ≤ 1 := by
  have hd : downNow s e = true ↔ (s.done = false ∧ fails s e = true ∧ s.qCalls ≠ 0 ∧ (s.isUp = true ∨ connects e = true)) := by
    simp [downNow, and_assoc]
  rw [← hd]
  unfold newReports
  cases upNow s e <;> cases downNow s e <;> decide

/-- **Up on reconnect.** An Up report is made exactly by an attempt that receives the connection-success event while
the device is not up; and then once. -/
theorem up_on_reconnect (s : St) (e : Ev) :
    (Report.up ∈ newReports s e ↔ (s.done = false ∧ connects e = true ∧ s.isUp = false)) ∧
    (newReports s e).count Report.up ≤ 1 := by
  have hu : upNow s e = true ↔ (s.done = false ∧ connects e = true ∧ s.isUp = false) := by
    simp [upNow, and_assoc]
  rw [← hu]
  unfold newReports
  cases upNow s e <;> cases downNow s e <;> decide

/-! ## reports alternate and follow the state -/

theorem altFrom_snoc (u : Bool) (rs : List Report) (r : Report) :
    altFrom u (rs ++ [r]) = (altFrom u rs && (r == (if stateAfter u rs then Report.down else Report.up))) := by
  induction rs generalizing u with
  | nil => cases u <;> cases r <;> rfl
  | cons x rs ih =>
    simp only [List.cons_append, altFrom, stateAfter, ih]
    cases u <;> cases x <;> first | rfl | simp

theorem stateAfter_snoc (u : Bool) (rs : List Report) (r : Report) :
    stateAfter u (rs ++ [r]) = (r == Report.up) := by
  induction rs generalizing u with
  | nil => simp [stateAfter]
  | cons x rs ih => simp only [List.cons_append, stateAfter, ih]

/-- the invariant: the reports so far alternate from the initial state, and `isUp` is the state last reported -/
def Inv (u : Bool) (s : St) : Prop := altFrom u s.reports = true ∧ s.isUp = stateAfter u s.reports

theorem inv_of_eq (u : Bool) (s t : St) (h : Inv u s) (h1 : t.reports = s.reports) (h2 : t.isUp = s.isUp) : Inv u t := by
  unfold Inv at *; rw [h1, h2]; exact h

theorem inv_onConnect (u : Bool) (s : St) (h : Inv u s) : Inv u (onConnect s) := by
  obtain ⟨a, b⟩ := h
  unfold Inv
  cases hu : s.isUp with
  | true =>
    have hr : (onConnect s).reports = s.reports := by simp [hu]
    rw [hr, onConnect_isUp, ← b, hu]; exact ⟨a, rfl⟩
  | false =>
    have hr : (onConnect s).reports = s.reports ++ [Report.up] := by simp [hu]
    rw [hr, onConnect_isUp, altFrom_snoc, stateAfter_snoc, a, ← b, hu]; exact ⟨by decide, by decide⟩

theorem inv_reportDown (u : Bool) (s : St) (h : Inv u s) : Inv u (reportDown s) := by
  obtain ⟨a, b⟩ := h
  unfold Inv
  cases hu : s.isUp with
  | false =>
    have hr : (reportDown s).reports = s.reports := by simp [hu]
    rw [hr, reportDown_isUp, ← b, hu]; exact ⟨a, rfl⟩
  | true =>
    have hr : (reportDown s).reports = s.reports ++ [Report.down] := by simp [hu]
    rw [hr, reportDown_isUp, altFrom_snoc, stateAfter_snoc, a, ← b, hu]; exact ⟨by decide, by decide⟩

theorem inv_afterFail (cfg : Cfg) (u : Bool) (s : St) (h : Inv u s) : Inv u (afterFail cfg s) := by
  unfold afterFail; simp only []; split
  · exact inv_of_eq u s _ h rfl rfl
  · split
    · exact inv_of_eq u (reportDown s) _ (inv_reportDown u s h) rfl rfl
    · exact inv_of_eq u (reportDown s) _ (inv_reportDown u s h) rfl rfl

theorem inv_onStop (cfg : Cfg) (u : Bool) (s : St) (h : Inv u s) : Inv u (onStop cfg s) := by
  unfold onStop; split
  · exact inv_of_eq u s _ h rfl rfl
  · split
    · exact inv_of_eq u s _ h rfl rfl
    · exact inv_of_eq u (reportDown s) _ (inv_reportDown u s h) rfl rfl

theorem inv_step (cfg : Cfg) (u : Bool) (s : St) (e : Ev) (h : Inv u s) : Inv u (step cfg s e) := by
  cases hd : s.done with
  | true => rw [step_of_done cfg s e hd]; exact h
  | false =>
    have hc : Inv u (onConnect (dial s)) := inv_onConnect u _ (inv_of_eq u s _ h rfl rfl)
    have hdl : Inv u (dial s) := inv_of_eq u s _ h rfl rfl
    cases e with
    | stop => simp only [step, hd, Bool.false_eq_true, ↓reduceIte]; exact inv_onStop cfg u s h
    | updateAddr a => simp only [step, hd, Bool.false_eq_true, ↓reduceIte]; exact inv_of_eq u s _ h rfl rfl
    | dialFail => simp only [step, hd, Bool.false_eq_true, ↓reduceIte]; exact inv_afterFail cfg u _ hdl
    | handshakeFail =>
      simp only [step, hd, Bool.false_eq_true, ↓reduceIte]; exact inv_afterFail cfg u _ (inv_of_eq u s _ h rfl rfl)
    | dropped =>
      simp only [step, hd, Bool.false_eq_true, ↓reduceIte]
      split
      · exact inv_of_eq u _ _ hc rfl rfl
      · exact inv_afterFail cfg u _ hc
    | closedLocally => simp only [step, hd, Bool.false_eq_true, ↓reduceIte]; exact inv_of_eq u _ _ hc rfl rfl
    | connStop => simp only [step, hd, Bool.false_eq_true, ↓reduceIte]; exact inv_of_eq u _ _ hc rfl rfl
    | connUpdate a =>
      simp only [step, hd, Bool.false_eq_true, ↓reduceIte]
      split
      · exact inv_of_eq u _ _ hc rfl rfl
      · split
        · exact inv_of_eq u _ _ hc rfl rfl
        · exact inv_afterFail cfg u _ hc

theorem inv_run (cfg : Cfg) (u : Bool) (s : St) (evs : List Ev) (h : Inv u s) : Inv u (run cfg s evs) := by
  induction evs generalizing s with
  | nil => exact h
  | cons e r ih => rw [run_cons]; exact ih _ (inv_step cfg u s e h)

/-- **reports alternate.** For every script the reported states alternate Down/Up, beginning with the opposite of the
operating state the device was created with. Holds for the source as written and as repaired (any `cfg`). -/
theorem reports_alternate (cfg : Cfg) (up : Bool) (evs : List Ev) :
    altFrom up (run cfg (init up) evs).reports = true :=
  (inv_run cfg up (init up) evs ⟨rfl, rfl⟩).1

/-- **reports follow the state.** The state reported last is the supervisor's own view of the device (`isUp`), which
`reports_exact` ties to reachability: up after a connection-success event, down after two consecutive failures. -/
theorem reports_follow_state (cfg : Cfg) (up : Bool) (evs : List Ev) :
    (run cfg (init up) evs).isUp = stateAfter up (run cfg (init up) evs).reports :=
  (inv_run cfg up (init up) evs ⟨rfl, rfl⟩).2

/-! ## Stop -/

/-- **no dial after Stop.** Whatever follows a `Stop` (during a wait or during a connection) changes nothing: no
further dial, no further report, and the supervisor has terminated. Holds for any `cfg`. -/
theorem no_dial_after_stop (cfg : Cfg) (s : St) (pre post : List Ev) (e : Ev) (he : isStop e = true) :
    run cfg s (pre ++ e :: post) = run cfg s (pre ++ [e]) ∧ (run cfg s (pre ++ [e])).done = true := by
  have h : (run cfg s (pre ++ [e])).done = true := by
    rw [run_append, run_cons, run_nil]; exact step_stop_done cfg _ e he
  refine ⟨?_, h⟩
  have : pre ++ e :: post = (pre ++ [e]) ++ post := by simp
  rw [this, run_append, run_of_done cfg _ post h]

/-- **Stop is silent.** A `Stop` that arrives while no connection is open reports nothing and dials nothing, wherever it
falls — in particular after a single failed attempt (the history `[dialFail, stop]` of the defect). This needs
`stop_recognised`; the model of the unrepaired source violates it (see the example at the end). -/
theorem stop_is_silent (s : St) (pre post : List Ev) :
    (run cfgSrc s (pre ++ Ev.stop :: post)).reports = (run cfgSrc s pre).reports ∧
    (run cfgSrc s (pre ++ Ev.stop :: post)).dials = (run cfgSrc s pre).dials := by
  have h := (no_dial_after_stop cfgSrc s pre post Ev.stop rfl).1
  rw [h, run_append, run_cons, run_nil]
  constructor
  · rw [reports_exact]; simp [newReports, upNow, downNow, connects, fails]
  · cases hd : (run cfgSrc s pre).done with
    | true => rw [step_of_done _ _ _ hd]
    | false => rw [step_dials _ _ _ hd]; simp [isAttempt]

/-! ## address changes -/

theorem lastAddr_cons (a : Addr) (e : Ev) (r : List Ev) : lastAddr a (e :: r) = lastAddr (lastAddr a [e]) r := by
  cases e <;> simp [lastAddr]

theorem run_addr (cfg : Cfg) (s : St) (pre : List Ev) (h : (run cfg s pre).done = false) :
    (run cfg s pre).addr = lastAddr s.addr pre := by
  induction pre generalizing s with
  | nil => rfl
  | cons e r ih =>
    rw [run_cons] at h ⊢
    have h1 : (step cfg s e).done = false := run_done_sticky cfg _ r h
    have h0 : s.done = false := done_sticky cfg s e h1
    rw [ih _ h, step_addr cfg s e h0, ← lastAddr_cons]

/-- **the next dial uses the latest address.** Every attempt of a supervisor that is still running dials the address
given by the most recent `UpdateAddr` before it (the initial address if there was none), whether that update arrived
while waiting or during a connection. -/
theorem next_dial_uses_latest_addr (cfg : Cfg) (s : St) (pre : List Ev) (e : Ev)
    (hd : (run cfg s pre).done = false) (ha : isAttempt e = true) :
    (run cfg s (pre ++ [e])).dials = (run cfg s pre).dials ++ [lastAddr s.addr pre] := by
  rw [run_append, run_cons, run_nil, step_dials cfg _ e hd, run_addr cfg s pre hd]
  simp [ha]

/-! ## TrySend -/

/-- `RetryWithCtx` never calls the function more than `max 1 retries` times (when `retries` is not `Forever`) -/
theorem retry_calls_bounded (forever retries : Int) (hne : retries ≠ forever) (calls : Nat) (l : List FRes) :
    (retryLoop forever retries calls l).1 ≤ max (calls + 1) retries.toNat := by
  induction l generalizing calls with
  | nil => simp [retryLoop]; omega
  | cons x r ih =>
    cases x with
    | ok => simp only [retryLoop]; exact Nat.le_max_left _ _
    | fatal => simp only [retryLoop]; exact Nat.le_max_left _ _
    | ctxEnd => simp only [retryLoop]; omega
    | again =>
      simp only [retryLoop]
      split
      · rename_i hm
        have := ih (calls + 1)
        have hlt : ((calls + 1 : Nat) : Int) < retries := by
          unfold retryMore at hm
          simp [hne] at hm
          exact hm
        omega
      · exact Nat.le_max_left _ _

/-- closed-client outcomes: the only ones `TrySend` retries -/
def closedKind : SendOut → Bool
  | .closed => true
  | .noClient => true
  | _ => false

/-- **TrySend retries only closed-client failures, at most three attempts.** For every sequence of per-attempt outcomes:
`TrySend` makes at most `maxSendAttempts = 3` attempts, and every attempt before the last one made had failed because the
client was closed (or had been discarded after closing). -/
theorem trysend_retries (outs : List SendOut) :
    (trySend outs).1 ≤ 3 ∧ ∀ k, k + 1 < (trySend outs).1 → (outs[k]?.map closedKind) = some true := by
  have h1 : retryMore Gen.sup_Forever Gen.send_retries 1 = true := by decide
  have h2 : retryMore Gen.sup_Forever Gen.send_retries 2 = true := by decide
  have h3 : retryMore Gen.sup_Forever Gen.send_retries 3 = false := by decide
  match outs with
  | [] => simp [trySend, retryLoop]
  | [a] => cases a <;> simp [trySend, retryLoop, sendRes, h1, closedKind]
  | [a, b] =>
    cases a <;> cases b <;> simp [trySend, retryLoop, sendRes, h1, h2, closedKind] <;>
      (intro k hk; have : k = 0 := by omega
       subst this; simp)
  | a :: b :: c :: rest =>
    cases a <;> cases b <;> cases c <;> simp [trySend, retryLoop, sendRes, h1, h2, h3, closedKind] <;>
      (intro k hk; have : k = 0 ∨ k = 1 := by omega
       rcases this with h | h <;> subst h <;> first | omega | simp)

/-- **TrySend stops at the first answer.** After fewer than three closed-client failures, a reply ends `TrySend` with
success and any other error ends it with that error; nothing is sent afterwards. -/
theorem trysend_stops (pre post : List SendOut) (o : SendOut) (hp : ∀ x ∈ pre, closedKind x = true)
    (hl : pre.length < 3) (ho : closedKind o = false) :
    trySend (pre ++ o :: post) = (pre.length + 1, if o = SendOut.ok then REnd.success else REnd.fatal) := by
  have h1 : retryMore Gen.sup_Forever Gen.send_retries 1 = true := by decide
  have h2 : retryMore Gen.sup_Forever Gen.send_retries 2 = true := by decide
  match pre, hp, hl with
  | [], _, _ => cases o <;> simp_all [trySend, retryLoop, sendRes, closedKind]
  | [a], hp, _ =>
    have ha := hp a (by simp)
    cases a <;> cases o <;> simp_all [trySend, retryLoop, sendRes, closedKind]
  | [a, b], hp, _ =>
    have ha := hp a (by simp)
    have hb := hp b (by simp)
    cases a <;> cases b <;> cases o <;> simp_all [trySend, retryLoop, sendRes, closedKind]
  | _ :: _ :: _ :: _, _, hl => simp at hl; omega

/-! ## non-vacuity and the defect -/

-- the supervisor as written (pointer comparison): one failed dial, then Stop, and the device is reported Down
example : (run cfgAsWritten (init true) [Ev.dialFail, Ev.stop]).reports = [Report.down] := by decide
-- … and as intended: silent
example : (run cfgIntended (init true) [Ev.dialFail, Ev.stop]).reports = [] := by decide
example : (run cfgIntended (init true) [Ev.dialFail, Ev.stop, Ev.dialFail]).dials = [0] := by decide
-- a Down needs two consecutive failures; an established connection that breaks counts; a reconnect reports Up
example : (run cfgIntended (init true) [Ev.dialFail, Ev.closedLocally, Ev.dialFail]).reports = [] := by decide
example : (run cfgIntended (init true) [Ev.dialFail, Ev.dropped, Ev.dropped]).reports = [Report.down, Report.up] := by decide
example : (run cfgIntended (init false) [Ev.dropped, Ev.handshakeFail]).reports = [Report.up, Report.down] := by decide
-- it never gives up: ten refused dials, ten dials, still running
example : (run cfgIntended (init true) (List.replicate 10 Ev.dialFail)).dials.length = 10 ∧
    (run cfgIntended (init true) (List.replicate 10 Ev.dialFail)).done = false := by decide
-- an address change redirects the next attempt (and the first connection at the new address is cut short because
-- UpdateAddr closed the idle client)
example : (run cfgIntended (init true) [Ev.dialFail, Ev.updateAddr 1, Ev.dropped, Ev.dropped]).dials = [0, 1, 1] := by decide
example : (run cfgIntended (init true) [Ev.connUpdate 1, Ev.dialFail]).dials = [0, 1] := by decide
-- the hypotheses of down_after_two / up_on_reconnect are satisfiable
example : downNow { addr := 0, isUp := true, qCalls := 1 } Ev.dialFail = true := by decide
example : upNow { addr := 0, isUp := false } Ev.dropped = true := by decide
-- TrySend: closed, closed, closed → three attempts; closed, other → two; ok → one
example : trySend [.closed, .closed, .closed, .closed] = (3, REnd.exhausted) := by decide
example : trySend [.closed, .other, .ok] = (2, REnd.fatal) := by decide
example : trySend [.noClient, .closed, .ok] = (3, REnd.success) := by decide

end LLRP.C15
