import LLRP.Model.Codec
import LLRP.Gen.Schema
import LLRP.Proofs.DecodeFuel
import LLRP.Proofs.DecodeSize
/-!
# C11 — Decoding arbitrary bytes always terminates with a value or an error

`decode` (LLRP.Model.Codec) mirrors the unmarshal templates with every read guarded; it is a total function (Lean
accepts its structural recursion on fuel), so "value or error" holds by construction for every byte string. What needs
proof is that the guards make progress (no infinite loop hidden behind the fuel) and that the consumed prefix is real.
The tie to the Go decoders is the adversarial correspondence (outcome class and value, per input).
-/
namespace LLRP.C11
open LLRP

/-- a successfully decoded parameter consumes at least one byte and at most what is there: the `for len(data) >= k`
loops of the decoders strictly shrink `data` on every iteration (no input can make them spin) -/
theorem decParam_progress (S : Schema) (fuel : Nat) (p : Container) (d : Bytes) (v : Val) (d' : Bytes)
    (h : decParam S fuel p d = some (v, d')) : d'.length < d.length := by
  cases fuel with
  | zero => simp [decParam] at h
  | succ fuel =>
    unfold decParam at h
    split at h
    · -- TLV
      split at h
      · rename_i b0 b1 l0 l1 rest
        simp only [] at h
        split at h
        · cases h
        · rename_i hlen
          simp only [Option.map_eq_some_iff] at h
          obtain ⟨_, _, heq⟩ := h
          simp only [Prod.mk.injEq] at heq
          obtain ⟨_, rfl⟩ := heq
          simp only [Bool.or_eq_true, decide_eq_true_eq, not_or, Nat.not_lt] at hlen
          simp only [List.length_drop, List.length_cons] at *
          omega
      · cases h
    · -- TV
      simp only [] at h
      split at h
      · rename_i hn
        simp only [Option.map_eq_some_iff] at h
        obtain ⟨_, _, heq⟩ := h
        simp only [Prod.mk.injEq] at heq
        obtain ⟨_, rfl⟩ := heq
        simp only [Bool.and_eq_true, decide_eq_true_eq] at hn
        simp only [List.length_drop]
        omega
      · cases h

/-- what remains after a decoded parameter is a suffix of the input: the decoder never invents or reorders bytes -/
theorem decParam_suffix (S : Schema) (fuel : Nat) (p : Container) (d : Bytes) (v : Val) (d' : Bytes)
    (h : decParam S fuel p d = some (v, d')) : ∃ n, d' = d.drop n ∧ 1 ≤ n ∧ n ≤ d.length := by
  cases fuel with
  | zero => simp [decParam] at h
  | succ fuel =>
    unfold decParam at h
    split at h
    · split at h
      · rename_i b0 b1 l0 l1 rest
        simp only [] at h
        split at h
        · cases h
        · rename_i hlen
          simp only [Option.map_eq_some_iff] at h
          obtain ⟨_, _, heq⟩ := h
          simp only [Prod.mk.injEq] at heq
          obtain ⟨_, rfl⟩ := heq
          simp only [Bool.or_eq_true, decide_eq_true_eq, not_or, Nat.not_lt] at hlen
          exact ⟨_, rfl, by omega, by omega⟩
      · cases h
    · simp only [] at h
      split at h
      · rename_i hn
        simp only [Option.map_eq_some_iff] at h
        obtain ⟨_, _, heq⟩ := h
        simp only [Prod.mk.injEq] at heq
        obtain ⟨_, rfl⟩ := heq
        simp only [Bool.and_eq_true, decide_eq_true_eq] at hn
        exact ⟨_, rfl, hn.2, hn.1⟩
      · cases h

/-! ## the result does not depend on the fuel cut-off

`decBody … decParam` recurse on explicit fuel and answer `none` when it runs out — the same answer as a decoding
error. The theorems below show that this is harmless: more fuel never changes a successful result, and from
`decodeFuel S c d = (2·S.maxSlots + 4)·|d| + 2·|c.slots| + 8` on (the fuel `decode` starts with) the result — value
**or** error — is the same for every fuel, i.e. an error is never an artefact of fuel exhaustion.
(One nesting level spends at most `#groups + #slots + 3 ≤ 2·#slots + 3` decrements, every nested body is at least one
byte shorter than the data it is cut from, and every loop iteration consumes at least one byte.)
A table-independent bound does not exist: see `fuel_needs_table`. -/

/-- more fuel never changes a successful result -/
theorem fuel_mono (S : Schema) (n : Nat) (c : Container) (d : Bytes) (v : Val)
    (h : decBody S n c d = some v) : ∀ m ≥ n, decBody S m c d = some v :=
  fun m hm => decBody_fuel S _ (by omega) (slope_ok S) n c d v h m (Or.inl hm)

theorem fuel_mono_groups (S : Schema) (n : Nat) (gs : List (List Slot)) (d : Bytes) (r : List (List Val) × Bytes)
    (h : decGroups S n gs d = some r) : ∀ m ≥ n, decGroups S m gs d = some r :=
  fun m hm => decGroups_fuel S _ (by omega) (slope_ok S) n gs d r h m (Or.inl hm)

theorem fuel_mono_singles (S : Schema) (n : Nat) (ss : List Slot) (d : Bytes) (r : List (List Val) × Bytes)
    (h : decSingles S n ss d = some r) : ∀ m ≥ n, decSingles S m ss d = some r :=
  fun m hm => decSingles_fuel S _ (by omega) (slope_ok S) n ss d r h m (Or.inl hm)

theorem fuel_mono_choice (S : Schema) (n : Nat) (g : List Slot) (d : Bytes) (r : List (List Val) × Bytes)
    (h : decChoice S n g d = some r) : ∀ m ≥ n, decChoice S m g d = some r :=
  fun m hm => decChoice_fuel S _ (by omega) (slope_ok S) n g d r h m (Or.inl hm)

theorem fuel_mono_loop (S : Schema) (n : Nat) (g : List Slot) (acc : List (List Val)) (d : Bytes) (k : Nat)
    (r : List (List Val) × Bytes) (h : decLoop S n g acc d k = some r) : ∀ m ≥ n, decLoop S m g acc d k = some r :=
  fun m hm => decLoop_fuel S _ (by omega) (slope_ok S) n g acc d k r h m (Or.inl hm)

theorem fuel_mono_param (S : Schema) (n : Nat) (p : Container) (d : Bytes) (r : Val × Bytes)
    (h : decParam S n p d = some r) : ∀ m ≥ n, decParam S m p d = some r := by
  intro m hm
  -- any slope that also pays for `p` itself (which need not be in the table)
  refine decParam_fuel S (2 * S.maxSlots + 4 + (walk (groupsOf p) + 3)) (by omega) ?_ n p d r (by omega) h m (Or.inl hm)
  intro ty q hq
  have := slope_ok S ty q hq
  omega

/-- a successful decoding at ANY fuel is `decode`'s result: proofs about `decode` never need to look at its fuel -/
theorem decode_of_decBody (S : Schema) (n : Nat) (c : Container) (d : Bytes) (v : Val)
    (h : decBody S n c d = some v) : decode S c d = some v := by
  unfold decode decodeFuel
  refine decBody_fuel S _ (by omega) (slope_ok S) n c d v h _ (Or.inr ?_)
  have := walk_groupsOf_le c
  omega

/-- **the decoder's answer is independent of the fuel cut-off**: from `decodeFuel S c d` on, every fuel gives
`decode`'s result, be it a value or an error -/
theorem decode_fuel (S : Schema) (c : Container) (d : Bytes) :
    ∀ n ≥ decodeFuel S c d, decBody S n c d = decode S c d := by
  intro n hn
  cases h : decBody S n c d with
  | some v => exact (decode_of_decBody S n c d v h).symm
  | none =>
    cases h' : decode S c d with
    | none => rfl
    | some v =>
      have := fuel_mono S _ c d v (by simpa [decode] using h') n hn
      rw [this] at h; cases h

/-- the bound, spelled out -/
theorem decode_fuel_bound (S : Schema) (c : Container) (d : Bytes) :
    decodeFuel S c d = (2 * S.maxSlots + 4) * d.length + 2 * c.slots.length + 8 := rfl

/-- in particular an error reported by `decode` is a genuine decoding error: no amount of fuel makes it go away -/
theorem decode_error_genuine (S : Schema) (c : Container) (d : Bytes) (h : decode S c d = none) :
    ∀ n, decBody S n c d = none := by
  intro n
  cases h' : decBody S n c d with
  | none => rfl
  | some v => rw [decode_of_decBody S n c d v h'] at h; cases h

/-- for the regenerated table the slope is 62 -/
theorem gen_maxSlots : Gen.schema.maxSlots = 29 := by decide +kernel

/-- a bound that ignores the table (such as the former `4·|d| + 8`) cannot work: a message with 8 alternating
optional / repeatable slots (8 groups) and the empty payload decodes to the empty value, but only from fuel 10 on -/
def manyGroups : Container :=
  { name := "M", typeId := 900, isMsg := true,
    fields := [],
    slots := [⟨"a", "L", true, false, none⟩, ⟨"b", "K", true, true, none⟩, ⟨"c", "L", true, false, none⟩,
      ⟨"d", "K", true, true, none⟩, ⟨"e", "L", true, false, none⟩, ⟨"f", "K", true, true, none⟩,
      ⟨"g", "L", true, false, none⟩, ⟨"h", "K", true, true, none⟩],
    responseTo := none }
def leafL : Container :=
  { name := "L", typeId := 300, isMsg := false,
    fields := [⟨"x", .scalar 2 8 0 false false false⟩],
    slots := [],
    responseTo := none }
def leafK : Container :=
  { name := "K", typeId := 301, isMsg := false,
    fields := [⟨"x", .scalar 2 8 0 false false false⟩],
    slots := [],
    responseTo := none }
theorem fuel_needs_table :
    decBody [leafL, leafK, manyGroups] (4 * ([] : Bytes).length + 8) manyGroups [] = none ∧
    (decBody [leafL, leafK, manyGroups] 10 manyGroups []).isSome = true ∧
    (decode [leafL, leafK, manyGroups] manyGroups []).isSome = true := by decide +kernel

/-! ## the decoded value is linear in the input

Every `decParam` call that contributes a parameter to the result consumed at least one byte that no other parameter at
the same level consumed (and a nested body is cut out of its parent's bytes), so a value decoded from `d` has at most
`d.length` parameters: the work and the allocation that end up in a successful result are bounded by the input length.
(A count of *all* `decParam` calls, failed ones included, would need an instrumented copy of the decoder; the failed
call is the last one at its level, so that count is at most one more per nesting level.) -/

/-- a parameter decoded from the head of `d`: its nodes are paid for by the bytes it consumed -/
theorem decParam_nodes (S : Schema) (n : Nat) (p : Container) (d : Bytes) (v : Val) (d' : Bytes)
    (h : decParam S n p d = some (v, d')) : v.nodes + d'.length ≤ d.length :=
  decParam_size S n p d v d' h

/-- **a successful decoding of `d` yields at most `d.length` parameters** (`Val.nodes` counts the root as well) -/
theorem decoded_params_le (S : Schema) (c : Container) (d : Bytes) (v : Val) (h : decode S c d = some v) :
    v.nodes ≤ d.length + 1 := by
  have := decBody_size S _ c d v h
  omega

example : (decode Gen.schema Gen.m_ROAccessReport
    [0, 240, 0, 25, 0x8d, 1, 2, 3, 4, 5, 6, 7, 8, 9, 10, 11, 12, 0x81, 0, 3, 0x86, 0xd0, 0x8a, 0, 1]).map Val.nodes = some 6 := by
  decide +kernel

/-- the empty input is rejected by every container that has a required part, accepted as the empty value otherwise:
non-vacuity of the decoder on the smallest input -/
example : (decode Gen.schema Gen.m_KeepAlive []).isSome = true := by decide +kernel
example : (decode Gen.schema Gen.m_ROAccessReport [0, 0xf0, 0, 0]).isNone = true := by decide +kernel

end LLRP.C11
