import LLRP.Model.Codec
import LLRP.Gen.Schema
/-!
# C11 — Decoding arbitrary bytes always terminates with a value or an error

`decode` (LLRP.Model.Codec) mirrors the unmarshal templates with every read guarded; it is a total function (Lean
accepts its structural recursion on fuel), so "value or error" holds by construction for every byte string. What needs
proof is that the guards make progress (no infinite loop hidden behind the fuel) and that the consumed prefix is real.
The tie to the Go decoders is the adversarial correspondence (outcome class and value, per input).
-/
namespace LLRP.C11
open LLRP

/-- a successfully decoded parameter consumes at least one byte and at most what is there: the `for len(data) >= k`
loops of the decoders strictly shrink `data` on every iteration (no input can make them spin) -/
theorem decParam_progress (S : Schema) (fuel : Nat) (p : Container) (d : Bytes) (v : Val) (d' : Bytes)
    (h : decParam S fuel p d = some (v, d')) : d'.length < d.length := by
  cases fuel with
  | zero => simp [decParam] at h
  | succ fuel =>
    unfold decParam at h
    split at h
    · -- TLV
      split at h
      · rename_i b0 b1 l0 l1 rest
        simp only [] at h
        split at h
        · cases h
        · rename_i hlen
          simp only [Option.map_eq_some_iff] at h
          obtain ⟨_, _, heq⟩ := h
          simp only [Prod.mk.injEq] at heq
          obtain ⟨_, rfl⟩ := heq
          simp only [Bool.or_eq_true, decide_eq_true_eq, not_or, Nat.not_lt] at hlen
          simp only [List.length_drop, List.length_cons] at *
          omega
      · cases h
    · -- TV
      simp only [] at h
      split at h
      · rename_i hn
        simp only [Option.map_eq_some_iff] at h
        obtain ⟨_, _, heq⟩ := h
        simp only [Prod.mk.injEq] at heq
        obtain ⟨_, rfl⟩ := heq
        simp only [Bool.and_eq_true, decide_eq_true_eq] at hn
        simp only [List.length_drop]
        omega
      · cases h

/-- what remains after a decoded parameter is a suffix of the input: the decoder never invents or reorders bytes -/
theorem decParam_suffix (S : Schema) (fuel : Nat) (p : Container) (d : Bytes) (v : Val) (d' : Bytes)
    (h : decParam S fuel p d = some (v, d')) : ∃ n, d' = d.drop n ∧ 1 ≤ n ∧ n ≤ d.length := by
  cases fuel with
  | zero => simp [decParam] at h
  | succ fuel =>
    unfold decParam at h
    split at h
    · split at h
      · rename_i b0 b1 l0 l1 rest
        simp only [] at h
        split at h
        · cases h
        · rename_i hlen
          simp only [Option.map_eq_some_iff] at h
          obtain ⟨_, _, heq⟩ := h
          simp only [Prod.mk.injEq] at heq
          obtain ⟨_, rfl⟩ := heq
          simp only [Bool.or_eq_true, decide_eq_true_eq, not_or, Nat.not_lt] at hlen
          exact ⟨_, rfl, by omega, by omega⟩
      · cases h
    · simp only [] at h
      split at h
      · rename_i hn
        simp only [Option.map_eq_some_iff] at h
        obtain ⟨_, _, heq⟩ := h
        simp only [Prod.mk.injEq] at heq
        obtain ⟨_, rfl⟩ := heq
        simp only [Bool.and_eq_true, decide_eq_true_eq] at hn
        exact ⟨_, rfl, hn.2, hn.1⟩
      · cases h

/-- the empty input is rejected by every container that has a required part, accepted as the empty value otherwise:
non-vacuity of the decoder on the smallest input -/
example : (decode Gen.schema Gen.m_KeepAlive []).isSome = true := by decide +kernel
example : (decode Gen.schema Gen.m_ROAccessReport [0, 0xf0, 0, 0]).isNone = true := by decide +kernel

end LLRP.C11
