import LLRP.Model.WriteMonitor
import LLRP.Proofs.WriteSide
import LLRP.Gen.Writers
import LLRP.Gen.Consts
import LLRP.Proofs.HeaderGen
/-!
# C05 — Outbound stream is a sequence of whole, correctly sized frames

The write side of the client is ONE goroutine (`single_writer`, decided over the writer table regenerated from the
source); what it writes is the fold `wr` over the items it dequeues, in dequeue order — whatever the interleaving of
senders, acknowledgements and cancellations that produced this order. All theorems are for arbitrary item lists: any
number of callers, any payload sizes up to the 32-bit limit, any placement of acknowledgements and version changes.
-/
namespace LLRP.C05
open LLRP

/-- the type codes the model uses are the regenerated constants -/
theorem consts :
    Gen.msgConsts.lookup "KeepAliveAck" = some tKeepAliveAck ∧ Gen.msgConsts.lookup "KeepAlive" = some tKeepAlive ∧
    Gen.msgConsts.lookup "CloseConnection" = some tCloseConnection ∧ Gen.HeaderSz = 10 := by decide

/-- the only functions that write to the connection are `writeHeader` and `handleOutgoing`; `writeHeader` is called
only by `handleOutgoing`; `handleOutgoing` is started exactly once, by `Connect` — so frames cannot interleave -/
theorem single_writer :
    (∀ w ∈ Gen.writers_direct, w.func = "Client.writeHeader" ∨ w.func = "Client.handleOutgoing") ∧
    (∀ w ∈ Gen.writers_callers, w.call = "writeHeader" → w.func = "Client.handleOutgoing") ∧
    (∀ w ∈ Gen.writers_callers, w.call = "handleOutgoing" → w.func = "Client.Connect") ∧
    (Gen.writers_callers.filter (·.call = "handleOutgoing")).length = 1 ∧
    (∀ w ∈ Gen.writers_callers, w.call = "writeHeader" ∨ w.call = "handleOutgoing") := by decide

/-- **The header bytes are the source's.** What `Client.writeHeader` — as go2lean translates it from reader.go on this run —
hands to the connection for a frame's header is exactly `writeHeader f.header`, the ten bytes `Frame.bytes` starts with;
the translation accepts the function only if that single `conn.Write` is its one effect (no second write, no retry, no
other call after it), so a header can not reach the wire twice or in part through this function. -/
theorem src_frame_header (f : Frame) (hr : f.header.InRange) :
    Gen.llrp_Client_writeHeader f.header.payloadLen f.header.id f.header.typ f.header.version =
      some (ints (writeHeader f.header)) :=
  gen_writeHeader_eq f.header hr

def AllWF (items : List WItem) : Prop := ∀ it ∈ items, it.WF

theorem wr_bytes_prefix (s : WState) (it : WItem) : s.bytes <+: (wr s it).bytes := by
  unfold wr
  split
  · exact List.prefix_refl _
  · cases it with
    | setVer v => exact List.prefix_refl _
    | ack id => simp [emit]
    | req caller typ payload pid pv wants =>
      simp only [emit, register, bumpId]
      split <;> (split <;> (split <;> simp))
    | bad caller typ declLen pid wants =>
      simp only [register, bumpId]
      split <;> (split <;> simp)

theorem run_bytes_prefix (items : List WItem) (s : WState) : s.bytes <+: (run s items).bytes := by
  induction items generalizing s with
  | nil => exact List.prefix_refl _
  | cons it rest ih => exact List.IsPrefix.trans (wr_bytes_prefix s it) (ih (wr s it))

/-- **A failing connection leaves a prefix of whole frames.** The write loop only ever appends: whatever it had written
when the connection failed (after `items`) is a prefix of what the complete run (`items ++ more`) writes, and that is a
concatenation of whole frames (`out_is_frames`). The harness judges a write that is cut short by a stalling or vanishing
peer with exactly this relation (`wr-prefix`). -/
theorem failed_stream_is_prefix (v : Nat) (items more : List WItem) :
    (run (WState.init v) items).bytes <+: (run (WState.init v) (items ++ more)).bytes := by
  rw [run_append]; exact run_bytes_prefix more _

/-- the bytes written are exactly the concatenation header ++ payload of the frames written; every frame fits its
header, is 10 + payload-length bytes long, and its header decodes to the frame's fields with length field
10 + payload length (`Header.unmarshal` subtracts the 10) -/
theorem out_is_frames (v : Nat) (hv : v < 8) (items : List WItem) (h : AllWF items) :
    (run (WState.init v) items).bytes = (run (WState.init v) items).out.flatMap Frame.bytes ∧
    ∀ f ∈ (run (WState.init v) items).out, f.Valid ∧ f.bytes.length = 10 + f.payload.length ∧
      ∀ rest, Header.unmarshal (f.bytes ++ rest) = some ⟨f.ver, f.typ, f.payload.length, f.id⟩ := by
  have hb := run_inv BytesInv WItem.WF bytesInv_step items h (WState.init v) rfl
  have hval := run_inv ValidInv WItem.WF validInv_step items h (WState.init v)
    ⟨hv, by simp [idMod], by simp⟩
  refine ⟨hb, ?_⟩
  intro f hf
  have fv := hval.2.2 f hf
  refine ⟨fv, Frame.bytes_length f, ?_⟩
  intro rest
  obtain ⟨v1, v2, v3, v4⟩ := fv
  have := unmarshal_put_append f.header v1 v2 v3 v4 (f.payload ++ rest)
  simpa [Frame.bytes, Frame.header] using this

/-- alignment: splitting the written stream with `Header.unmarshal` recovers exactly the frames written -/
theorem frames_parse_back (v : Nat) (hv : v < 8) (items : List WItem) (h : AllWF items) :
    parseStream (run (WState.init v) items).bytes = some (run (WState.init v) items).out := by
  obtain ⟨hb, hf⟩ := out_is_frames v hv items h
  rw [hb]
  exact parseStream_flatMap _ (fun f hf' => (hf f hf').1)

def AllFresh (items : List WItem) : Prop := ∀ it ∈ items, it.freshId

/-- when every message arrives with id 0 (all the exported API can do), the i-th request written carries id
i mod 2^32, whatever acknowledgements are interleaved: the first request gets 0, the next 1, … -/
theorem ids_exact (v : Nat) (items : List WItem) (h : AllFresh items) :
    (run (WState.init v) items).reqOut.map (·.id) =
      (List.range (run (WState.init v) items).reqOut.length).map (fun i => i % idMod) := by
  have := (run_inv (IdInv 0) WItem.freshId (idInv_step 0) items h (WState.init v) ⟨by simp, by simp [idMod]⟩).1
  simpa using this

theorem reqOut_length_le (s : WState) (items : List WItem) :
    (run s items).reqOut.length ≤ s.reqOut.length + (items.filter WItem.isReq).length := by
  have h2 := (run_sigs items s).2.1
  have hl := congrArg List.length h2
  simp only [List.length_map, List.length_append] at hl
  rw [hl]
  have h1 : (reqSigs (dequeued s items)).length ≤ ((dequeued s items).filter WItem.isReq).length := List.length_filterMap_le _ _
  have h3 : ((dequeued s items).filter WItem.isReq).length ≤ (items.filter WItem.isReq).length :=
    ((dequeued_prefix items s).sublist.filter _).length_le
  omega

/-- for up to 2^32 requests on one connection the ids given to requests are pairwise distinct. (With 32-bit ids
request number 2^32 necessarily reuses id 0 — `ids_exact`.) -/
theorem ids_distinct (v : Nat) (items : List WItem) (h : AllFresh items)
    (hn : (items.filter WItem.isReq).length ≤ idMod) :
    ((run (WState.init v) items).reqOut.map (·.id)).Nodup := by
  rw [ids_exact v items h]
  have hl := reqOut_length_le (WState.init v) items
  have := range_mod_nodup 0 (run (WState.init v) items).reqOut.length (by simp only [init_reqOut, List.length_nil] at hl; omega)
  simpa using this

/-- every request the loop dequeued contributes exactly one frame, carrying exactly its type and payload, in dequeue
order; the loop dequeues a prefix of what is offered (it stops after CloseConnection), so a request it never took
contributes nothing; the whole output is, frame for frame, what the dequeued items asked for -/
theorem each_request_once (v : Nat) (items : List WItem) :
    (run (WState.init v) items).reqOut.map Frame.sig = reqSigs (dequeued (WState.init v) items) ∧
    (run (WState.init v) items).out.map Frame.sig = (dequeued (WState.init v) items).filterMap WItem.sig ∧
    dequeued (WState.init v) items <+: items ∧
    ((dequeued (WState.init v) items).length < items.length → (run (WState.init v) items).stopped = true) := by
  obtain ⟨h1, h2, _, h4⟩ := run_sigs items (WState.init v)
  exact ⟨by simpa using h2, by simpa using h1, dequeued_prefix _ _, h4⟩

/-- a caller that was handed a token (the precondition of ever obtaining a reply) has its frame on the wire -/
theorem token_has_frame (v : Nat) (items : List WItem) (h : AllWF items) :
    ∀ p ∈ (run (WState.init v) items).tokens, ∃ f ∈ (run (WState.init v) items).reqOut, f.id = p.2 :=
  run_inv TokInv WItem.WF tokInv_step items h (WState.init v) (by simp [TokInv])

/-- a CloseConnection frame is the last thing ever written -/
theorem nothing_after_close (v : Nat) (items : List WItem) :
    ∀ i f, (run (WState.init v) items).out[i]? = some f → f.typ = tCloseConnection →
      i + 1 = (run (WState.init v) items).out.length :=
  (run_inv CloseInv (fun _ => True) (fun s it _ h => closeInv_step s it h) items (fun _ _ => trivial) (WState.init v)
    ⟨by simp, by simp⟩).2

/-- CloseConnection itself is written whole, payload included -/
theorem close_is_whole (v : Nat) (hv : v < 8) (c : Nat) (payload : Bytes) (hp : payload.length ≤ 4294967285) (w : Bool) :
    parseStream (run (WState.init v) [.req c tCloseConnection payload 0 1 w]).bytes =
      some [⟨v, tCloseConnection, 0, payload⟩] := by
  rw [frames_parse_back v hv _ (by intro it hit; simp at hit; subst hit; exact ⟨by decide, hp, by decide⟩)]
  simp [run, wr, WState.init, WState.stopped, emit, register, bumpId, assignId, stamp, tCloseConnection,
    tGetSupportedVersion, tSetProtocolVersion]
  cases w <;> simp

/-! ## the monitor accepts every run of the model -/

theorem countLe_of {α} [BEq α] (xs ys : List α) (h : ∀ x, xs.count x ≤ ys.count x) : countLe xs ys = true := by
  simp [countLe, h]

theorem noneAfterClose_of (fs : List Frame)
    (h : ∀ i f, fs[i]? = some f → f.typ = tCloseConnection → i + 1 = fs.length) : noneAfterClose fs = true := by
  induction fs with
  | nil => rfl
  | cons f rest ih =>
    unfold noneAfterClose
    by_cases ht : f.typ = tCloseConnection
    · have := h 0 f (by simp) ht
      simp at this
      simp [ht, this]
    · simp only [ht, if_false]
      exact ih (fun i g hg hgt => by have := h (i + 1) g (by simpa using hg) hgt; simp at this; omega)

def AllNotAck (items : List WItem) : Prop := ∀ it ∈ items, it.notAckTyp

/-- `checkWrite` accepts the byte stream of every model run, for every description of what was issued that is
consistent with the run: every request handed to the write loop was issued by someone (`hIssued`), the requests that
must be on the wire are among those the loop dequeued (`hMust`; a reply or a successful `SendNoWait` presupposes the
dequeue), acknowledgement items only carry ids of keep-alives received (`hKa`), and the acknowledgements claimed
written were dequeued (`hMustAck`). -/
theorem monitor_sound (v : Nat) (hv : v < 8) (items : List WItem)
    (hwf : AllWF items) (hfresh : AllFresh items) (hna : AllNotAck items)
    (hn : (items.filter WItem.isReq).length ≤ idMod)
    (issued : List Issued) (kaIds mustAck : List Nat)
    (hIssued : ∀ x, (reqSigs items).count x ≤ (issued.map Issued.sig).count x)
    (hMust : ∀ x, ((issued.filter (·.must)).map Issued.sig).count x ≤ (reqSigs (dequeued (WState.init v) items)).count x)
    (hKa : ∀ x, (ackIds items).count x ≤ kaIds.count x)
    (hMustAck : ∀ x, mustAck.count x ≤ (ackIds (dequeued (WState.init v) items)).count x) :
    checkWrite (run (WState.init v) items).bytes issued kaIds mustAck = .accept := by
  have hparse := frames_parse_back v hv items hwf
  obtain ⟨hreq, hack⟩ := run_inv PartInv WItem.notAckTyp partInv_step items
    (fun it hit => hna it hit) (WState.init v) ⟨by simp, by simp⟩
  obtain ⟨_, hsr, hsa, _⟩ := run_sigs items (WState.init v)
  simp only [init_reqOut, init_ackOut, List.map_nil, List.nil_append] at hsr hsa
  have hpre := dequeued_prefix items (WState.init v)
  have hfr : (run (WState.init v) items).out.filter isReqFrame = (run (WState.init v) items).reqOut := hreq
  have hfa : (run (WState.init v) items).out.filter isAckFrame = (run (WState.init v) items).ackOut := hack
  -- acknowledgement frames
  have c1 : ((run (WState.init v) items).ackOut.all fun f => f.payload.isEmpty) = true := by
    have : ∀ f ∈ (run (WState.init v) items).ackOut, f.payload = [] := by
      refine run_inv (fun s => ∀ f ∈ s.ackOut, f.payload = []) (fun _ => True) ?_ items (fun _ _ => trivial) _ (by simp)
      intro s it _ h
      rcases stopped_cases s with hs | hs
      · rw [wr_of_stopped hs]; exact h
      · cases it with
        | ack id =>
          obtain ⟨_, e2, _⟩ := wr_ack hs id; rw [e2]; intro f hf
          rcases List.mem_append.mp hf with hf | hf
          · exact h f hf
          · simp at hf; subst hf; rfl
        | req c typ payload pid pv w => obtain ⟨_, _, e3, _⟩ := wr_req hs c typ payload pid pv w; rw [e3]; exact h
        | bad c typ dl pid w => obtain ⟨_, e2, _⟩ := wr_bad hs c typ dl pid w; rw [e2]; exact h
        | setVer x => obtain ⟨_, e2, _⟩ := wr_setVer hs x; rw [e2]; exact h
    simp only [List.all_eq_true]; intro f hf; simp [this f hf]
  have subAck : (ackIds (dequeued (WState.init v) items)).Sublist (ackIds items) := hpre.sublist.filterMap _
  have c2 : countLe ((run (WState.init v) items).ackOut.map (·.id)) kaIds = true := by
    apply countLe_of; intro x; rw [hsa]
    exact Nat.le_trans (subAck.count_le x) (hKa x)
  have c3 : countLe mustAck ((run (WState.init v) items).ackOut.map (·.id)) = true := by
    apply countLe_of; intro x; rw [hsa]; exact hMustAck x
  -- request frames
  have subReq : (reqSigs (dequeued (WState.init v) items)).Sublist (reqSigs items) :=
    (hpre.sublist.filter _).filterMap _
  have c4 : countLe ((run (WState.init v) items).reqOut.map Frame.sig) (issued.map Issued.sig) = true := by
    apply countLe_of; intro x; rw [hsr]
    exact Nat.le_trans (subReq.count_le x) (hIssued x)
  have c5 : countLe ((issued.filter (·.must)).map Issued.sig) ((run (WState.init v) items).reqOut.map Frame.sig) = true := by
    apply countLe_of; intro x; rw [hsr]; exact hMust x
  have c6 := ids_distinct v items hfresh hn
  have c7 := noneAfterClose_of _ (nothing_after_close v items)
  unfold checkWrite
  simp only [hparse, hfr, hfa, c1, c2, c3, c4, c5, c6, c7, Bool.not_true, Bool.false_eq_true, if_false, decide_true]

/-! ## non-vacuity and the quirks, on concrete runs -/

/-- three callers and two acknowledgements: ids 0,1,2 for the requests, the reader's ids for the acks -/
example : ((run (WState.init 1) [.req 1 2 [7] 0 1 true, .ack 99, .req 2 3 [] 0 1 false, .ack 5, .req 3 1 [1, 2] 0 1 true]).out.map
    fun f => (f.typ, f.id)) = [(2, 0), (72, 99), (3, 1), (72, 5), (1, 2)] := by decide
/-- the monitor's verdict on a real model run, computed -/
example : checkWrite (run (WState.init 1) [.req 1 2 [7] 0 1 true, .ack 99, .req 2 14 [] 0 1 true, .req 3 1 [] 0 1 true]).bytes
    [⟨2, [7], true⟩, ⟨14, [], true⟩, ⟨1, [], false⟩] [99] [99] = .accept := by decide
/-- … and on damaged streams -/
example : checkWrite ((run (WState.init 1) [.req 1 2 [7] 0 1 true]).bytes.dropLast) [⟨2, [7], true⟩] [] [] = .reject "frames" := by decide
example : checkWrite (run (WState.init 1) [.req 1 2 [7] 0 1 true, .req 1 2 [7] 0 1 true]).bytes [⟨2, [7], true⟩] [] [] =
    .reject "request-unknown-or-repeated" := by decide
/-- a message that arrives with a preset id keeps it and may collide with an assigned one (unreachable through the
exported API, whose constructors leave the id 0) -/
example : ((run (WState.init 1) [.req 1 2 [] 0 1 true, .req 2 2 [] 1 1 true, .req 3 2 [] 0 1 true]).reqOut.map (·.id)) = [0, 1, 1] := by decide
/-- wrap-around: after id 2^32−1 comes 0 -/
example : ((run { (WState.init 1) with nextId := 4294967295 } [.req 1 2 [] 0 1 true, .req 2 2 [] 0 1 true]).reqOut.map (·.id)) =
    [4294967295, 0] := by decide
/-- a nil payload with a non-zero declared length (only constructible inside the package) leaves a bare header on the
wire and ends the loop -/
example : (run (WState.init 1) [.bad 1 2 5 0 true, .req 2 2 [] 0 1 true]).bytes.length = 10 ∧
    (run (WState.init 1) [.bad 1 2 5 0 true, .req 2 2 [] 0 1 true]).failed = true := by decide

end LLRP.C05
