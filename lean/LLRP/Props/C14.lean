import LLRP.Model.Command
import LLRP.Proofs.SeqTrySend
import LLRP.Gen.Sup
/-!
# C14 — Device commands map to the right LLRP request; keep-alive spec is enforced

All theorems are about `LLRP.Command` (hand-written model of `handleReadCommands`, `handleWriteCommands`, `TrySend`'s
`SetReaderConfig` rewriting). The model is tied to the source by
* `switch_matches_model`, `ka_is_half_timeout`, `codes_defined`: `decide`d over tables and constants regenerated
  from driver.go / device.go / pkg/llrp on every run (`Gen.cmdCasesT`, `Gen.drv_*`, `Gen.msgConsts`);
* the differential run of the real handlers against a scripted reader (checks/c14.py).
`Doc` is the README's command table; `wellFormed` is what the README requires of a command.
-/
namespace LLRP.C14
open LLRP LLRP.Command

/-! ## constants (T) -/

/-- every message name the model mentions is a `Msg…` constant of pkg/llrp, with the LLRP type number -/
theorem codes_defined :
    [code "GetReaderCapabilities", code "GetReaderConfig", code "GetROSpecs", code "GetAccessSpecs",
     code "SetReaderConfig", code "AddROSpec", code "AddAccessSpec", code "CustomMessage",
     code "EnableROSpec", code "StartROSpec", code "StopROSpec", code "DisableROSpec", code "DeleteROSpec",
     code "EnableAccessSpec", code "DisableAccessSpec", code "DeleteAccessSpec"]
      = [1, 2, 26, 44, 3, 20, 40, 1023, 24, 22, 23, 25, 21, 42, 43, 41] ∧
    [code "GetReaderCapabilitiesResponse", code "GetReaderConfigResponse", code "GetROSpecsResponse", code "GetAccessSpecsResponse",
     code "SetReaderConfigResponse", code "AddROSpecResponse", code "AddAccessSpecResponse",
     code "EnableROSpecResponse", code "StartROSpecResponse", code "StopROSpecResponse", code "DisableROSpecResponse", code "DeleteROSpecResponse",
     code "EnableAccessSpecResponse", code "DisableAccessSpecResponse", code "DeleteAccessSpecResponse"]
      = [11, 12, 36, 54, 13, 30, 50, 34, 32, 33, 35, 31, 52, 53, 51] := by decide

/-- The keep-alive period the service enforces is 30 s = 30 000 ms, periodic; the read timeout it gives the connection
(`llrp.WithTimeout(keepAliveInterval * maxMissedKAs)` in `NewLLRPDevice`) is 60 s: the period is half the timeout. -/
theorem ka_is_half_timeout :
    Gen.drv_keepAliveInterval = 30 * 1000000000 ∧ Gen.drv_maxMissedKAs = 2 ∧
    Gen.drv_clientTimeoutNs = 60 * 1000000000 ∧
    Gen.drv_keepAliveInterval * Gen.drv_maxMissedKAs = Gen.drv_clientTimeoutNs ∧
    2 * (kaMs * 1000000) = Gen.drv_clientTimeoutNs ∧
    kaMs = 30000 ∧ kaPeriodic = 1 := by decide

/-! ## the switch statements (T) -/

/-- Every case of the two switch statements (label, request structure, response structure), as extracted from the
source on this run, is a case of the model with the same structures, and the model has no other cases. -/
theorem switch_matches_model :
    (∀ r ∈ extractedRows, r ∈ modelRows) ∧ (∀ r ∈ modelRows, r ∈ extractedRows) ∧
    extractedRows.length = modelRows.length := by decide

/-- the two extractions of the switch statements (`readCmdCases`/`writeCmdCases` and `cmdCasesT`) list the same cases in
the same order -/
theorem cases_tables_agree :
    (Gen.readCmdCases ++ Gen.writeCmdCases).map (fun r => (r.outer, r.labels)) = Gen.cmdCasesT.map (fun r => (r.outer, r.labels)) ∧
    Gen.readCmdCases.length = (Gen.cmdCasesT.filter (fun r => r.fn == rdFn)).length := by decide

/-- the labelled cases are exactly the names the model classifies as non-default (all strings) -/
theorem read_default_iff (r : String) : readMsgName r = none ↔ r ∉ readResources := by
  unfold readMsgName readResources
  simp only [Gen.drv_ResourceReaderConfig, Gen.drv_ResourceReaderCap, Gen.drv_ResourceROSpec, Gen.drv_ResourceAccessSpec]
  by_cases h1 : r = "ReaderConfig"
  · subst h1; simp
  by_cases h2 : r = "ReaderCapabilities"
  · subst h2; simp
  by_cases h3 : r = "ROSpec"
  · subst h3; simp
  by_cases h4 : r = "AccessSpec"
  · subst h4; simp
  simp [h1, h2, h3, h4]

theorem write_default_iff (r : String) : classifyW r = .custom ↔ r ∉ writeResources := by
  unfold classifyW writeResources
  simp only [Gen.drv_ResourceReaderConfig, Gen.drv_ResourceROSpec, Gen.drv_ResourceAccessSpec, Gen.drv_ResourceROSpecID,
    Gen.drv_ResourceAccessSpecID]
  by_cases h1 : r = "ReaderConfig"
  · subst h1; simp
  by_cases h2 : r = "ROSpec"
  · subst h2; simp
  by_cases h3 : r = "AccessSpec"
  · subst h3; simp
  by_cases h4 : r = "ROSpecID"
  · subst h4; simp
  by_cases h5 : r = "AccessSpecID"
  · subst h5; simp
  simp [h1, h2, h3, h4, h5]

theorem action_default_iff (s : String) : classifyA s = none ↔ s ∉ Act.all.map Act.str := by
  unfold classifyA Act.all
  simp only [List.map, Act.str, Gen.drv_ActionEnable, Gen.drv_ActionStart, Gen.drv_ActionStop, Gen.drv_ActionDisable,
    Gen.drv_ActionDelete]
  by_cases h1 : s = "Enable"
  · subst h1; simp
  by_cases h2 : s = "Start"
  · subst h2; simp
  by_cases h3 : s = "Stop"
  · subst h3; simp
  by_cases h4 : s = "Disable"
  · subst h4; simp
  by_cases h5 : s = "Delete"
  · subst h5; simp
  simp [h1, h2, h3, h4, h5]

/-! ## classification lemmas -/

theorem classifyW_cases (r : String) :
    (r = "ReaderConfig" ∧ classifyW r = .readerConfig) ∨ (r = "ROSpec" ∧ classifyW r = .roSpec) ∨
    (r = "AccessSpec" ∧ classifyW r = .accessSpec) ∨ (r = "ROSpecID" ∧ classifyW r = .roSpecID) ∨
    (r = "AccessSpecID" ∧ classifyW r = .accessSpecID) ∨
    ((r ≠ "ReaderConfig" ∧ r ≠ "ROSpec" ∧ r ≠ "AccessSpec" ∧ r ≠ "ROSpecID" ∧ r ≠ "AccessSpecID") ∧ classifyW r = .custom) := by
  unfold classifyW
  simp only [Gen.drv_ResourceReaderConfig, Gen.drv_ResourceROSpec, Gen.drv_ResourceAccessSpec, Gen.drv_ResourceROSpecID,
    Gen.drv_ResourceAccessSpecID]
  by_cases h1 : r = "ReaderConfig"
  · subst h1; simp
  by_cases h2 : r = "ROSpec"
  · subst h2; simp
  by_cases h3 : r = "AccessSpec"
  · subst h3; simp
  by_cases h4 : r = "ROSpecID"
  · subst h4; simp
  by_cases h5 : r = "AccessSpecID"
  · subst h5; simp
  simp [h1, h2, h3, h4, h5]

theorem classifyA_cases (s : String) :
    (s = "Enable" ∧ classifyA s = some .enable) ∨ (s = "Start" ∧ classifyA s = some .start) ∨
    (s = "Stop" ∧ classifyA s = some .stop) ∨ (s = "Disable" ∧ classifyA s = some .disable) ∨
    (s = "Delete" ∧ classifyA s = some .delete) ∨
    ((s ≠ "Enable" ∧ s ≠ "Start" ∧ s ≠ "Stop" ∧ s ≠ "Disable" ∧ s ≠ "Delete") ∧ classifyA s = none) := by
  unfold classifyA
  simp only [Gen.drv_ActionEnable, Gen.drv_ActionStart, Gen.drv_ActionStop, Gen.drv_ActionDisable, Gen.drv_ActionDelete]
  by_cases h1 : s = "Enable"
  · subst h1; simp
  by_cases h2 : s = "Start"
  · subst h2; simp
  by_cases h3 : s = "Stop"
  · subst h3; simp
  by_cases h4 : s = "Disable"
  · subst h4; simp
  by_cases h5 : s = "Delete"
  · subst h5; simp
  simp [h1, h2, h3, h4, h5]

/-! ## reads -/

theorem readOne_doc (res : String) (r : Request) (h : readOne res = .ok r) :
    ∃ m, Doc.table false res none = some m ∧ r = { typ := code m, resp := code (m ++ "Response") } := by
  unfold readOne readMsgName at h
  simp only [Gen.drv_ResourceReaderConfig, Gen.drv_ResourceReaderCap, Gen.drv_ResourceROSpec, Gen.drv_ResourceAccessSpec] at h
  by_cases h1 : res = "ReaderConfig"
  · subst h1; simp at h; exact ⟨"GetReaderConfig", by decide, by rw [← h]; rfl⟩
  by_cases h2 : res = "ReaderCapabilities"
  · subst h2; simp at h; exact ⟨"GetReaderCapabilities", by decide, by rw [← h]; rfl⟩
  by_cases h3 : res = "ROSpec"
  · subst h3; simp at h; exact ⟨"GetROSpecs", by decide, by rw [← h]; rfl⟩
  by_cases h4 : res = "AccessSpec"
  · subst h4; simp at h; exact ⟨"GetAccessSpecs", by decide, by rw [← h]; rfl⟩
  simp [h1, h2, h3, h4] at h

theorem readOne_reject (res : String) : (∃ e, readOne res = .error e) ↔ Doc.table false res none = none := by
  unfold readOne readMsgName
  simp only [Gen.drv_ResourceReaderConfig, Gen.drv_ResourceReaderCap, Gen.drv_ResourceROSpec, Gen.drv_ResourceAccessSpec]
  by_cases h1 : res = "ReaderConfig"
  · subst h1; simp; decide
  by_cases h2 : res = "ReaderCapabilities"
  · subst h2; simp; decide
  by_cases h3 : res = "ROSpec"
  · subst h3; simp; decide
  by_cases h4 : res = "AccessSpec"
  · subst h4; simp; decide
  simp [h1, h2, h3, h4, Doc.table, Doc.find, Doc.reads]
  
/-! ## writes -/

/-- where the fields of a request come from -/
def Provenance (c : Cmd) (m : String) (r : Request) : Prop :=
  match c.params with
  | [p0] =>
    r.id = none ∧ r.payloadFrom = some 0 ∧
    ((∃ ka, p0.val = .obj true ka ∧ r.custom = none ∧ r.ka = (if m = "SetReaderConfig" then ka else none) ∧ m ≠ "CustomMessage") ∨
     (∃ s v st, p0.val = .str s true ∧ r.custom = some (v, st) ∧ r.ka = none ∧ m = "CustomMessage" ∧
        attr c.attrs "vendor" = .numeric v ∧ attr c.attrs "subtype" = .numeric st ∧ v ≤ 4294967295 ∧ st ≤ 255))
  | [p0, p1] => ∃ n, p0.val = .uint32 n ∧ p1.name = "Action" ∧ r.id = some n ∧ r.payloadFrom = none ∧ r.custom = none ∧ r.ka = none
  | _ => False

theorem objectMessage_ok (nm : String) (b : Bool) (p : PVal) (r : Request) (h : objectMessage nm b p = .ok r) :
    ∃ ka, p = .obj true ka ∧ r = { typ := code nm, resp := code (respName nm), payloadFrom := some 0, ka := if b then ka else none } := by
  unfold objectMessage objectParam at h
  cases p with
  | obj ok ka => cases ok <;> simp at h; exact ⟨ka, rfl, h.symm⟩
  | _ => simp at h

theorem uintAttr_ok (m : List (String × AttrVal)) (k : String) (n : Nat) (h : uintAttr m k = .ok n) : attr m k = .numeric n ∧ n < 2 ^ 64 := by
  unfold uintAttr at h
  cases ha : attr m k with
  | numeric x =>
    rw [ha] at h
    simp only at h
    by_cases hx : x < 2 ^ 64
    · rw [if_pos hx] at h; cases h; exact ⟨rfl, hx⟩
    · rw [if_neg hx] at h; cases h
  | _ => rw [ha] at h; cases h

theorem customMessage_ok (attrs : List (String × AttrVal)) (p : PVal) (r : Request) (h : customMessage attrs p = .ok r) :
    ∃ s v st, p = .str s true ∧ attr attrs "vendor" = .numeric v ∧ attr attrs "subtype" = .numeric st ∧ v ≤ 4294967295 ∧ st ≤ 255 ∧
      r = { typ := code "CustomMessage", resp := code (respName "CustomMessage"), custom := some (v, st), payloadFrom := some 0 } := by
  unfold customMessage at h
  cases hv : uintAttr attrs Gen.drv_AttribVendor with
  | error e => rw [hv] at h; cases h
  | ok v =>
    rw [hv] at h
    simp only at h
    by_cases hvr : v ≤ 4294967295
    · rw [if_pos hvr] at h
      cases hs : uintAttr attrs Gen.drv_AttribSubtype with
      | error e => rw [hs] at h; cases h
      | ok st =>
        rw [hs] at h
        simp only at h
        by_cases hsr : st ≤ 255
        · rw [if_pos hsr] at h
          cases p with
          | str s b =>
            cases b
            · cases h
            · simp only [Except.ok.injEq] at h
              exact ⟨s, v, st, rfl, (uintAttr_ok _ _ _ hv).1, (uintAttr_ok _ _ _ hs).1, hvr, hsr, h.symm⟩
          | _ => cases h
        · rw [if_neg hsr] at h; cases h
    · rw [if_neg hvr] at h; cases h

theorem idAction_ok (isRO : Bool) (ps : List Param) (r : Request) (h : idAction isRO ps = .ok r) :
    ∃ p0 p1 n s b a nm, ps = [p0, p1] ∧ p1.name = "Action" ∧ p0.val = .uint32 n ∧ p1.val = .str s b ∧ classifyA s = some a ∧
      idMsgName isRO a = some nm ∧ r = { typ := code nm, resp := code (respName nm), id := some n } := by
  unfold idAction at h
  match ps, h with
  | [p0, p1], h =>
    simp only at h
    by_cases hn : p1.name = Gen.drv_ResourceAction
    · rw [if_pos hn] at h
      cases h0 : p0.val with
      | uint32 n =>
        rw [h0] at h; simp only at h
        cases h1 : p1.val with
        | str s b =>
          rw [h1] at h; simp only at h
          cases ha : classifyA s with
          | none => rw [ha] at h; cases h
          | some a =>
            rw [ha] at h; simp only at h
            cases hm : idMsgName isRO a with
            | none => rw [hm] at h; cases h
            | some nm =>
              rw [hm] at h; simp only [Except.ok.injEq] at h
              exact ⟨p0, p1, n, s, b, a, nm, rfl, hn, h0, h1, ha, hm, h.symm⟩
        | _ => rw [h1] at h; cases h
      | _ => rw [h0] at h; cases h
    · rw [if_neg hn] at h; cases h
  | [], h => cases h
  | [_], h => cases h
  | _ :: _ :: _ :: _, h => cases h

theorem single_ok (n : Nat) (ps : List Param) (f : PVal → Except Reject Request) (r : Request) (h : single n ps f = .ok r) :
    n = 1 ∧ ∃ p0 rest, ps = p0 :: rest ∧ f p0.val = .ok r := by
  unfold single at h
  by_cases hn : n = 1
  · rw [if_pos hn] at h
    match ps, h with
    | [], h => cases h
    | p0 :: rest, h => exact ⟨hn, p0, rest, rfl, h⟩
  · rw [if_neg hn] at h; cases h

theorem doc_custom (r : String) (a : Option String)
    (h : r ≠ "ReaderConfig" ∧ r ≠ "ROSpec" ∧ r ≠ "AccessSpec" ∧ r ≠ "ROSpecID" ∧ r ≠ "AccessSpecID") :
    Doc.table true r a = some "CustomMessage" := by
  obtain ⟨h1, h2, h3, h4, h5⟩ := h
  simp [Doc.table, Doc.find, Doc.writes, Doc.reservedWrite, Doc.customMsg, h1, h2, h3, h4, h5]

theorem doc_id (isRO : Bool) (s : String) (a : Act) (nm : String) (ha : classifyA s = some a) (hm : idMsgName isRO a = some nm) :
    Doc.table true (if isRO then "ROSpecID" else "AccessSpecID") (some s) = some nm := by
  rcases classifyA_cases s with ⟨rfl, h⟩ | ⟨rfl, h⟩ | ⟨rfl, h⟩ | ⟨rfl, h⟩ | ⟨rfl, h⟩ | ⟨_, h⟩ <;> rw [h] at ha <;>
    simp at ha <;> subst ha <;> cases isRO <;> simp [idMsgName, roAction, accessAction] at hm <;> subst hm <;> decide

theorem writeCmd_cons (c : Cmd) (r0 : String) (rs : List String) (hq : c.reqs = r0 :: rs) :
    writeCmd c = if rs.length + 1 = c.params.length then writeCore (classifyW r0) (rs.length + 1) c.attrs c.params
      else .error .countMismatch := by
  unfold writeCmd; rw [hq]

/-- **follows_doc**: a write command that is translated is translated into the message the README assigns to
(resource, Action); the response expected is that message's response; the ID comes from the first parameter, the payload
from the first parameter's document / base64 bytes, vendor and subtype from the attributes. -/
theorem follows_doc (c : Cmd) (r : Request) (h : writeCmd c = .ok r) :
    ∃ m, Doc.table true c.res0 c.action = some m ∧ r.typ = code m ∧ r.resp = code (respName m) ∧ Provenance c m r := by
  match hq : c.reqs with
  | [] => unfold writeCmd at h; rw [hq] at h; cases h
  | r0 :: rs =>
    rw [writeCmd_cons c r0 rs hq] at h
    by_cases hl : rs.length + 1 = c.params.length
    · rw [if_pos hl] at h
      have hres : c.res0 = r0 := by simp [Cmd.res0, hq]
      rw [hres]
      have obj : ∀ nm b, single (rs.length + 1) c.params (objectMessage nm b) = .ok r → nm ≠ "CustomMessage" →
          r.typ = code nm ∧ r.resp = code (respName nm) ∧ (∀ a, c.action = a → True) ∧
          ∃ p0 ka, c.params = [p0] ∧ p0.val = .obj true ka ∧ r.id = none ∧ r.payloadFrom = some 0 ∧ r.custom = none ∧ r.ka = (if b then ka else none) := by
        intro nm b hs _
        obtain ⟨h1, p0, rest, hp, hf⟩ := single_ok _ _ _ _ hs
        obtain ⟨ka, hv, rfl⟩ := objectMessage_ok _ _ _ _ hf
        have : rest = [] := by
          have : rs.length = 0 := by omega
          rw [hp] at hl; simp at hl
          cases rest with
          | nil => rfl
          | cons _ _ => simp at hl; omega
        subst this
        exact ⟨rfl, rfl, fun _ _ => trivial, p0, ka, hp, hv, rfl, rfl, rfl, rfl⟩
      unfold writeCore at h
      rcases classifyW_cases r0 with ⟨rfl, hc⟩ | ⟨rfl, hc⟩ | ⟨rfl, hc⟩ | ⟨rfl, hc⟩ | ⟨rfl, hc⟩ | ⟨hne, hc⟩
      · rw [hc] at h
        obtain ⟨ht, hr, _, p0, ka, hp, hv, hi, hpl, hcu, hka⟩ := obj _ _ h (by decide)
        refine ⟨"SetReaderConfig", by simp [Doc.table, Doc.find, Doc.writes], ht, hr, ?_⟩
        simp only [Provenance, hp]
        exact ⟨hi, hpl, Or.inl ⟨ka, hv, hcu, by simpa using hka, by decide⟩⟩
      · rw [hc] at h
        obtain ⟨ht, hr, _, p0, ka, hp, hv, hi, hpl, hcu, hka⟩ := obj _ _ h (by decide)
        refine ⟨"AddROSpec", by simp [Doc.table, Doc.find, Doc.writes], ht, hr, ?_⟩
        simp only [Provenance, hp]
        exact ⟨hi, hpl, Or.inl ⟨ka, hv, hcu, by simpa using hka, by decide⟩⟩
      · rw [hc] at h
        obtain ⟨ht, hr, _, p0, ka, hp, hv, hi, hpl, hcu, hka⟩ := obj _ _ h (by decide)
        refine ⟨"AddAccessSpec", by simp [Doc.table, Doc.find, Doc.writes], ht, hr, ?_⟩
        simp only [Provenance, hp]
        exact ⟨hi, hpl, Or.inl ⟨ka, hv, hcu, by simpa using hka, by decide⟩⟩
      · rw [hc] at h
        obtain ⟨p0, p1, n, s, b, a, nm, hp, hn, h0, h1, ha, hm, rfl⟩ := idAction_ok _ _ _ h
        have hact : c.action = some s := by
          unfold Cmd.action; rw [hp]; cases p1; simp_all
        refine ⟨nm, ?_, rfl, rfl, ?_⟩
        · rw [hact]; exact doc_id true s a nm ha hm
        · simp [Provenance, hp, h0, hn]
      · rw [hc] at h
        obtain ⟨p0, p1, n, s, b, a, nm, hp, hn, h0, h1, ha, hm, rfl⟩ := idAction_ok _ _ _ h
        have hact : c.action = some s := by
          unfold Cmd.action; rw [hp]; cases p1; simp_all
        refine ⟨nm, ?_, rfl, rfl, ?_⟩
        · rw [hact]; exact doc_id false s a nm ha hm
        · simp [Provenance, hp, h0, hn]
      · rw [hc] at h
        obtain ⟨h1, p0, rest, hp, hf⟩ := single_ok _ _ _ _ h
        obtain ⟨s, v, st, hv, hav, has, hvr, hsr, rfl⟩ := customMessage_ok _ _ _ hf
        have : rest = [] := by
          rw [hp] at hl
          cases rest with
          | nil => rfl
          | cons _ _ => simp at hl; omega
        subst this
        refine ⟨"CustomMessage", doc_custom _ _ hne, rfl, rfl, ?_⟩
        simp [Provenance, hp, hv, hav, has]
        exact ⟨v, st, ⟨rfl, rfl⟩, rfl, rfl, hvr, hsr⟩
    · rw [if_neg hl] at h; cases h

/-! ## well-formed ⇔ accepted -/

theorem objectMessage_isOk (nm : String) (b : Bool) (v : PVal) : (∃ r, objectMessage nm b v = .ok r) ↔ isGoodObject v = true := by
  unfold objectMessage objectParam isGoodObject
  cases v with
  | obj ok ka => cases ok <;> simp
  | _ => simp

theorem goodAttr_iff (m : List (String × AttrVal)) (k : String) (max : Nat) (hmax : max < 2 ^ 64) :
    goodAttr m k max = true ↔ ∃ n, uintAttr m k = .ok n ∧ n ≤ max := by
  unfold goodAttr uintAttr
  cases h : attr m k with
  | numeric n =>
    simp only [decide_eq_true_eq]
    constructor
    · intro hn
      exact ⟨n, by rw [if_pos (by omega)], hn⟩
    · rintro ⟨x, hx, hle⟩
      by_cases hlt : n < 2 ^ 64
      · rw [if_pos hlt] at hx; cases hx; exact hle
      · rw [if_neg hlt] at hx; cases hx
  | _ => simp

theorem customMessage_isOk (attrs : List (String × AttrVal)) (v : PVal) :
    (∃ r, customMessage attrs v = .ok r) ↔
      (goodAttr attrs "vendor" 4294967295 && goodAttr attrs "subtype" 255 && isGoodBase64 v) = true := by
  simp only [Bool.and_eq_true]
  rw [goodAttr_iff _ _ _ (by decide), goodAttr_iff _ _ _ (by decide)]
  constructor
  · rintro ⟨r, h⟩
    obtain ⟨s, vd, st, hv, _, _, hvr, hsr, _⟩ := customMessage_ok _ _ _ h
    unfold customMessage at h
    cases hvu : uintAttr attrs Gen.drv_AttribVendor with
    | error e => rw [hvu] at h; cases h
    | ok x =>
      rw [hvu] at h; simp only at h
      by_cases hx : x ≤ 4294967295
      · rw [if_pos hx] at h
        cases hsu : uintAttr attrs Gen.drv_AttribSubtype with
        | error e => rw [hsu] at h; cases h
        | ok y =>
          rw [hsu] at h; simp only at h
          by_cases hy : y ≤ 255
          · exact ⟨⟨⟨x, hvu, hx⟩, ⟨y, hsu, hy⟩⟩, by rw [hv]; rfl⟩
          · rw [if_neg hy] at h; cases h
      · rw [if_neg hx] at h; cases h
  · rintro ⟨⟨⟨x, hvu, hx⟩, ⟨y, hsu, hy⟩⟩, hb⟩
    unfold customMessage
    have hvu' : uintAttr attrs Gen.drv_AttribVendor = .ok x := hvu
    have hsu' : uintAttr attrs Gen.drv_AttribSubtype = .ok y := hsu
    rw [hvu']; simp only; rw [if_pos hx, hsu']; simp only; rw [if_pos hy]
    cases v with
    | str s b => cases b <;> simp [isGoodBase64] at hb ⊢
    | _ => simp [isGoodBase64] at hb

theorem idAction_isOk (isRO : Bool) (p0 p1 : Param) :
    (∃ r, idAction isRO [p0, p1] = .ok r) ↔
      (p1.name == "Action" && isUint32 p0.val &&
        match p1.val with
        | .str s _ => (Doc.find ((if isRO then "ROSpecID" else "AccessSpecID"), s) Doc.actions).isSome
        | _ => false) = true := by
  unfold idAction
  simp only
  by_cases hn : p1.name = Gen.drv_ResourceAction
  · have hn' : p1.name = "Action" := hn
    rw [if_pos hn]
    cases h0 : p0.val with
    | uint32 n =>
      cases h1 : p1.val with
      | str s b =>
        simp only [hn', beq_self_eq_true, isUint32, Bool.true_and]
        rcases classifyA_cases s with ⟨rfl, h⟩ | ⟨rfl, h⟩ | ⟨rfl, h⟩ | ⟨rfl, h⟩ | ⟨rfl, h⟩ | ⟨⟨n1, n2, n3, n4, n5⟩, h⟩
        all_goals (rw [h]; cases isRO)
        all_goals simp [idMsgName, roAction, accessAction, Doc.find, Doc.actions, *]
      | _ => simp [isUint32]
    | _ => simp [isUint32]
  · rw [if_neg hn]
    have hn' : ¬ p1.name = "Action" := hn
    simp [hn']

theorem single_one (p : Param) (f : PVal → Except Reject Request) : single 1 [p] f = f p.val := by
  unfold single; simp

theorem single_ne (n : Nat) (ps : List Param) (f : PVal → Except Reject Request) (h : n ≠ 1) :
    single n ps f = .error .extraResources := by
  unfold single; rw [if_neg h]

theorem writeCore_extra (w : WRes) (n : Nat) (attrs : List (String × AttrVal)) (ps : List Param)
    (hn : n ≠ 1) (hp : ps.length ≠ 2) : ∃ e, writeCore w n attrs ps = .error e := by
  have hid : ∀ b, ∃ e, idAction b ps = .error e := by
    intro b
    unfold idAction
    match ps, hp with
    | [], _ => exact ⟨_, rfl⟩
    | [_], _ => exact ⟨_, rfl⟩
    | [_, _], hp => simp at hp
    | _ :: _ :: _ :: _, _ => exact ⟨_, rfl⟩
  cases w <;> simp only [writeCore, single_ne _ _ _ hn]
  all_goals first | exact hid _ | exact ⟨_, rfl⟩

/-- what the README requires is exactly what the write handler accepts -/
theorem wellFormed_write (reqs : List String) (attrs : List (String × AttrVal)) (params : List Param) :
    wellFormed ⟨true, reqs, attrs, params⟩ = true ↔ ∃ r, writeCmd ⟨true, reqs, attrs, params⟩ = .ok r := by
  match reqs, params with
  | [], ps => simp [wellFormed, writeCmd]
  | [r], [] => simp [wellFormed, writeCmd]
  | [r], _ :: _ :: _ => simp [wellFormed, writeCmd]
  | [r, r1], [] => simp [wellFormed, writeCmd]
  | [r, r1], [_] => simp [wellFormed, writeCmd]
  | [r, r1], _ :: _ :: _ :: _ => simp [wellFormed, writeCmd]
  | r :: r1 :: r2 :: rs, ps =>
    have hwf : wellFormed ⟨true, r :: r1 :: r2 :: rs, attrs, ps⟩ = false := by
      unfold wellFormed; simp
    rw [hwf]
    simp only [Bool.false_eq_true, false_iff, not_exists]
    intro x hx
    rw [writeCmd_cons _ r (r1 :: r2 :: rs) rfl] at hx
    simp only at hx
    by_cases hl : (r1 :: r2 :: rs).length + 1 = ps.length
    · rw [if_pos hl] at hx
      obtain ⟨e, he⟩ := writeCore_extra (classifyW r) ((r1 :: r2 :: rs).length + 1) attrs ps (by simp) (by simp at hl; omega)
      rw [he] at hx; cases hx
    · rw [if_neg hl] at hx; cases hx
  | [r], [p] =>
    rw [writeCmd_cons _ r [] rfl]
    simp only [List.length_nil, Nat.zero_add, List.length_cons, if_true]
    rcases classifyW_cases r with ⟨rfl, hc⟩ | ⟨rfl, hc⟩ | ⟨rfl, hc⟩ | ⟨rfl, hc⟩ | ⟨rfl, hc⟩ | ⟨⟨n1, n2, n3, n4, n5⟩, hc⟩
    · rw [hc]; simp only [writeCore, single_one, objectMessage_isOk]; simp [wellFormed]
    · rw [hc]; simp only [writeCore, single_one, objectMessage_isOk]; simp [wellFormed]
    · rw [hc]; simp only [writeCore, single_one, objectMessage_isOk]; simp [wellFormed]
    · rw [hc]; simp [writeCore, idAction, wellFormed]
    · rw [hc]; simp [writeCore, idAction, wellFormed]
    · rw [hc]; simp only [writeCore, single_one, customMessage_isOk]; simp [wellFormed, n1, n2, n3, n4, n5]
  | [r, r1], [p0, p1] =>
    rw [writeCmd_cons _ r [r1] rfl]
    simp only [List.length_cons, List.length_nil, Nat.zero_add, if_true]
    rcases classifyW_cases r with ⟨rfl, hc⟩ | ⟨rfl, hc⟩ | ⟨rfl, hc⟩ | ⟨rfl, hc⟩ | ⟨rfl, hc⟩ | ⟨⟨n1, n2, n3, n4, n5⟩, hc⟩
    · rw [hc]; simp [writeCore, single, wellFormed]
    · rw [hc]; simp [writeCore, single, wellFormed]
    · rw [hc]; simp [writeCore, single, wellFormed]
    · rw [hc]; simp only [writeCore]; rw [idAction_isOk]; simp [wellFormed]; intros; rfl
    · rw [hc]; simp only [writeCore]; rw [idAction_isOk]; simp [wellFormed]; intros; rfl
    · rw [hc]; simp [writeCore, single, wellFormed, n4, n5]

theorem readOne_isOk (res : String) : (∃ q, readOne res = .ok q) ↔ (Doc.find res Doc.reads).isSome = true := by
  unfold readOne readMsgName
  simp only [Gen.drv_ResourceReaderConfig, Gen.drv_ResourceReaderCap, Gen.drv_ResourceROSpec, Gen.drv_ResourceAccessSpec]
  by_cases h1 : res = "ReaderConfig"
  · subst h1; simp; decide
  by_cases h2 : res = "ReaderCapabilities"
  · subst h2; simp; decide
  by_cases h3 : res = "ROSpec"
  · subst h3; simp; decide
  by_cases h4 : res = "AccessSpec"
  · subst h4; simp; decide
  simp [h1, h2, h3, h4, Doc.find, Doc.reads]

theorem readAll_cons (r : String) (rs : List String) :
    readAll (r :: rs) = match readOne r with
      | .error e => .error e
      | .ok q => match readAll rs with
        | .error e => .error e
        | .ok qs => .ok (q :: qs) := rfl

theorem readAll_isOk (rs : List String) : (∃ qs, readAll rs = .ok qs) ↔ rs.all (fun r => (Doc.find r Doc.reads).isSome) = true := by
  induction rs with
  | nil => simp [readAll]
  | cons r rs ih =>
    simp only [List.all_cons, Bool.and_eq_true, ← ih, ← readOne_isOk]
    rw [readAll_cons]
    constructor
    · rintro ⟨qs, h⟩
      cases h1 : readOne r with
      | error e => rw [h1] at h; cases h
      | ok q =>
        rw [h1] at h; simp only at h
        cases h2 : readAll rs with
        | error e => rw [h2] at h; cases h
        | ok qs' => exact ⟨⟨q, rfl⟩, ⟨qs', rfl⟩⟩
    · rintro ⟨⟨q, h1⟩, ⟨qs, h2⟩⟩
      rw [h1]; simp only; rw [h2]; exact ⟨_, rfl⟩

theorem wellFormed_read (reqs : List String) (attrs : List (String × AttrVal)) (params : List Param) :
    wellFormed ⟨false, reqs, attrs, params⟩ = true ↔ ∃ rs, readCmd ⟨false, reqs, attrs, params⟩ = .ok rs := by
  unfold wellFormed readCmd
  simp only [Bool.not_false, if_true, Bool.and_eq_true, Bool.not_eq_true']
  cases reqs with
  | nil => simp
  | cons r rs =>
    rw [if_neg (by simp), readAll_isOk]; simp

/-- did the handler translate the command (`true`) or return an error (`false`) -/
def accepted (c : Cmd) : Bool :=
  if c.isWrite then (match writeCmd c with | .ok _ => true | .error _ => false)
  else (match readCmd c with | .ok _ => true | .error _ => false)

theorem wellFormed_iff_accepted (c : Cmd) : wellFormed c = accepted c := by
  obtain ⟨w, reqs, attrs, params⟩ := c
  cases w
  · have := wellFormed_read reqs attrs params
    unfold accepted; simp only [Bool.false_eq_true, if_false]
    cases h : readCmd ⟨false, reqs, attrs, params⟩ with
    | ok rs => simp only; exact this.mpr ⟨rs, h⟩
    | error e =>
      simp only
      cases hw : wellFormed ⟨false, reqs, attrs, params⟩ with
      | false => rfl
      | true => obtain ⟨rs, h'⟩ := this.mp hw; rw [h] at h'; cases h'
  · have := wellFormed_write reqs attrs params
    unfold accepted; simp only [if_true]
    cases h : writeCmd ⟨true, reqs, attrs, params⟩ with
    | ok rs => simp only; exact this.mpr ⟨rs, h⟩
    | error e =>
      simp only
      cases hw : wellFormed ⟨true, reqs, attrs, params⟩ with
      | false => rfl
      | true => obtain ⟨rs, h'⟩ := this.mp hw; rw [h] at h'; cases h'

/-- **malformed_rejected**: every command that is not well-formed in the README's sense — unknown or empty resource
(without usable attributes), unknown/empty/wrong-case action, wrong number of resources or parameters, ID that is not a
`uint32`, action that is not a string, missing / empty / non-string / non-numeric / out-of-range `vendor` or `subtype`,
document that is `null`, not an object or not decodable, parameter that is not base64 — is answered with an error. -/
theorem malformed_rejected (c : Cmd) (h : wellFormed c = false) :
    (c.isWrite = true → ∃ e, writeCmd c = .error e) ∧ (c.isWrite = false → ∃ e, readCmd c = .error e) := by
  have ha := wellFormed_iff_accepted c
  rw [h] at ha
  unfold accepted at ha
  constructor
  · intro hw
    rw [hw] at ha; simp only [if_true] at ha
    cases hc : writeCmd c with
    | ok r => rw [hc] at ha; cases ha
    | error e => exact ⟨e, rfl⟩
  · intro hw
    rw [hw] at ha; simp only [Bool.false_eq_true, if_false] at ha
    cases hc : readCmd c with
    | ok r => rw [hc] at ha; cases ha
    | error e => exact ⟨e, rfl⟩

/-- the converse: the handlers reject nothing the README allows -/
theorem wellformed_accepted (c : Cmd) (h : wellFormed c = true) :
    (c.isWrite = true → ∃ r, writeCmd c = .ok r) ∧ (c.isWrite = false → ∃ rs, readCmd c = .ok rs) := by
  have ha := wellFormed_iff_accepted c
  rw [h] at ha
  unfold accepted at ha
  constructor
  · intro hw
    rw [hw] at ha; simp only [if_true] at ha
    cases hc : writeCmd c with
    | ok r => exact ⟨r, rfl⟩
    | error e => rw [hc] at ha; cases ha
  · intro hw
    rw [hw] at ha; simp only [Bool.false_eq_true, if_false] at ha
    cases hc : readCmd c with
    | ok r => exact ⟨r, rfl⟩
    | error e => rw [hc] at ha; cases ha


/-! ## reads follow the documentation -/

/-- element-wise relation between the resources of a read command and the requests sent (core Lean has no `Forall₂`) -/
inductive Aligned {α β : Type} (R : α → β → Prop) : List α → List β → Prop where
  | nil : Aligned R [] []
  | cons {a b as bs} : R a b → Aligned R as bs → Aligned R (a :: as) (b :: bs)

theorem Aligned.length_eq {α β : Type} {R : α → β → Prop} {as : List α} {bs : List β} (h : Aligned R as bs) :
    as.length = bs.length := by
  induction h with
  | nil => rfl
  | cons _ _ ih => simp [ih]

theorem readAll_doc (rs : List String) (qs : List Request) (h : readAll rs = .ok qs) :
    Aligned (fun res q => ∃ m, Doc.table false res none = some m ∧ q = { typ := code m, resp := code (m ++ "Response") }) rs qs := by
  induction rs generalizing qs with
  | nil => unfold readAll at h; cases h; exact .nil
  | cons r rs ih =>
    rw [readAll_cons] at h
    cases h1 : readOne r with
    | error e => rw [h1] at h; cases h
    | ok q =>
      rw [h1] at h; simp only at h
      cases h2 : readAll rs with
      | error e => rw [h2] at h; cases h
      | ok qs' =>
        rw [h2] at h; cases h
        exact .cons (readOne_doc r q h1) (ih qs' h2)

/-- **follows_doc (reads)**: a read command that is translated yields, in order, one request per resource: the message the
README assigns to that resource, expecting that message's response, with no ID, custom field or parameter payload. -/
theorem follows_doc_read (c : Cmd) (qs : List Request) (h : readCmd c = .ok qs) :
    c.reqs ≠ [] ∧
    Aligned (fun res q => ∃ m, Doc.table false res none = some m ∧ q = { typ := code m, resp := code (m ++ "Response") }) c.reqs qs := by
  unfold readCmd at h
  by_cases he : c.reqs = []
  · rw [if_pos he] at h; cases h
  · rw [if_neg he] at h; exact ⟨he, readAll_doc _ _ h⟩

/-! ## every documented row is implemented -/

/-- a well-formed command for a row of the table -/
def witness (row : Bool × String × Option String × String) : Cmd :=
  match row with
  | (false, res, _, _) => ⟨false, [res], [], []⟩
  | (true, res, some a, _) => ⟨true, [res, "Action"], [], [⟨res, .uint32 7⟩, ⟨"Action", .str a false⟩]⟩
  | (true, res, none, m) =>
    if m = "CustomMessage" then ⟨true, [res], [("vendor", .numeric 25882), ("subtype", .numeric 21)], [⟨res, .str "AAAAAA==" true⟩]⟩
    else ⟨true, [res], [], [⟨res, .obj true none⟩]⟩

def rowImplemented (row : Bool × String × Option String × String) : Bool :=
  let c := witness row
  wellFormed c && c.isWrite == row.1 && c.res0 == row.2.1 && c.action == row.2.2.1 &&
  Doc.table row.1 row.2.1 row.2.2.1 == some row.2.2.2 &&
  (if row.1 then
    match writeCmd c with
    | .ok r => r.typ == code row.2.2.2 && r.typ != 0
    | .error _ => false
  else
    match readCmd c with
    | .ok [r] => r.typ == code row.2.2.2 && r.typ != 0
    | _ => false)

/-- **doc_covered**: for every row of the README's table (4 readable resources, 3 writable documents, 5 + 3 ID actions, the
custom message) there is a well-formed command with that resource and action which the handler translates into the
row's message. -/
theorem doc_covered : ∀ row ∈ Doc.rows, rowImplemented row = true := by decide

/-- the table has 16 rows -/
theorem doc_rows_count : Doc.rows.length = 16 := by decide

/-! ## nothing is sent for a rejected command -/

/-- the frames a command puts on the wire -/
def wire (c : Cmd) : List Request :=
  if c.isWrite then (match sendWrite c with | .ok r => [r] | .error _ => [])
  else (match sendRead c with | .ok rs => rs | .error _ => [])

/-- **never_request_on_reject**: a command answered with an error has put no request on the wire — in particular a read
command with an unknown resource anywhere in its list sends none of the requests of its known resources -/
theorem never_request_on_reject (c : Cmd) :
    ((∃ e, writeCmd c = .error e) → c.isWrite = true → wire c = []) ∧
    ((∃ e, readCmd c = .error e) → c.isWrite = false → wire c = []) ∧
    (c.isWrite = false → (∃ r ∈ c.reqs, Doc.table false r none = none) → wire c = []) := by
  refine ⟨?_, ?_, ?_⟩
  · rintro ⟨e, h⟩ hw
    unfold wire sendWrite; rw [hw, h]; rfl
  · rintro ⟨e, h⟩ hw
    unfold wire sendRead; rw [hw, h]; rfl
  · rintro hw ⟨r, hr, hd⟩
    have : wellFormed c = false := by
      obtain ⟨w, reqs, attrs, params⟩ := c
      simp only at hw hr; subst hw
      unfold wellFormed
      simp only [Bool.not_false, if_true, Bool.and_eq_false_iff]
      right
      simp only [List.all_eq_false, Bool.not_eq_true, Option.isSome_eq_false_iff, Option.isNone_iff_eq_none]
      refine ⟨r, hr, ?_⟩
      simpa [Doc.table] using hd
    obtain ⟨e, he⟩ := (malformed_rejected c this).2 hw
    unfold wire sendRead; rw [hw, he]; rfl

/-- malformed or not, one write command is at most one request; a read command of n resources is n requests or none -/
theorem wire_length (c : Cmd) : (c.isWrite = true → (wire c).length ≤ 1) ∧
    (c.isWrite = false → (wire c).length = c.reqs.length ∨ wire c = []) := by
  constructor
  · intro hw
    unfold wire; rw [hw]; simp only [if_true]
    cases sendWrite c <;> simp
  · intro hw
    unfold wire sendRead; rw [hw]; simp only [Bool.false_eq_true, if_false]
    cases h : readCmd c with
    | error e => right; rfl
    | ok rs =>
      left
      have := (follows_doc_read c rs h).2
      simp [Except.map, this.length_eq]

/-! ## keep-alive enforcement -/

/-- **ka_enforced**: whatever KeepAliveSpec (or none) a SetReaderConfig carries, after `TrySend`'s rewriting it carries
exactly (periodic, keepAliveInterval in ms) -/
theorem ka_enforced (r : Request) (h : r.typ = code "SetReaderConfig") : (enforceKA r).ka = some (kaPeriodic, kaMs) := by
  unfold enforceKA
  rw [if_pos h]
  match hk : r.ka with
  | none => rfl
  | some (t, i) =>
    simp only
    by_cases hc : i ≠ kaMs ∨ t ≠ kaPeriodic
    · rw [if_pos hc]
    · rw [if_neg hc]
      have h1 : i = kaMs := by
        by_cases hi : i = kaMs
        · exact hi
        · exact absurd (Or.inl hi) hc
      have h2 : t = kaPeriodic := by
        by_cases ht : t = kaPeriodic
        · exact ht
        · exact absurd (Or.inr ht) hc
      rw [hk, h1, h2]

/-- … and that value is (1, 30 000 ms) -/
theorem ka_enforced_value (r : Request) (h : r.typ = code "SetReaderConfig") : (enforceKA r).ka = some (1, 30000) := by
  rw [ka_enforced r h]; decide

/-- the rewriting touches only the KeepAliveSpec, and only of SetReaderConfig -/
theorem ka_only_setreaderconfig (r : Request) :
    (enforceKA r).typ = r.typ ∧ (enforceKA r).resp = r.resp ∧ (enforceKA r).id = r.id ∧ (enforceKA r).custom = r.custom ∧
    (enforceKA r).payloadFrom = r.payloadFrom ∧ (r.typ ≠ code "SetReaderConfig" → enforceKA r = r) := by
  unfold enforceKA
  by_cases h : r.typ = code "SetReaderConfig"
  · rw [if_pos h]
    match r.ka with
    | none => exact ⟨rfl, rfl, rfl, rfl, rfl, fun hn => absurd h hn⟩
    | some (t, i) =>
      simp only
      by_cases hc : i ≠ kaMs ∨ t ≠ kaPeriodic
      · rw [if_pos hc]; exact ⟨rfl, rfl, rfl, rfl, rfl, fun hn => absurd h hn⟩
      · rw [if_neg hc]; exact ⟨rfl, rfl, rfl, rfl, rfl, fun _ => rfl⟩
  · rw [if_neg h]; exact ⟨rfl, rfl, rfl, rfl, rfl, fun _ => rfl⟩

theorem ka_idempotent (r : Request) : enforceKA (enforceKA r) = enforceKA r := by
  by_cases h : r.typ = code "SetReaderConfig"
  · have h' : (enforceKA r).typ = code "SetReaderConfig" := by rw [(ka_only_setreaderconfig r).1]; exact h
    have hk := ka_enforced r h
    generalize enforceKA r = q at *
    unfold enforceKA
    rw [if_pos h', hk]
    simp
  · rw [(ka_only_setreaderconfig r).2.2.2.2.2 h, (ka_only_setreaderconfig r).2.2.2.2.2 h]

/-- **ka_on_every_write**: every SetReaderConfig a write command puts on the wire carries (periodic, 30 s), whether the
caller's document had no KeepAliveSpec, the same one, or any other trigger / interval -/
theorem ka_on_every_write (c : Cmd) (r : Request) (h : sendWrite c = .ok r) (ht : r.typ = code "SetReaderConfig") :
    r.ka = some (1, 30000) := by
  unfold sendWrite at h
  cases hw : writeCmd c with
  | error e => rw [hw] at h; cases h
  | ok q =>
    rw [hw] at h
    simp only [Except.map] at h
    cases h
    have hq : q.typ = code "SetReaderConfig" := by rw [← (ka_only_setreaderconfig q).1]; exact ht
    exact ka_enforced_value q hq

/-- requests other than SetReaderConfig never carry a KeepAliveSpec, and no read sends SetReaderConfig -/
theorem ka_nowhere_else (c : Cmd) (r : Request) (h : sendWrite c = .ok r) (ht : r.typ ≠ code "SetReaderConfig") : r.ka = none := by
  unfold sendWrite at h
  cases hw : writeCmd c with
  | error e => rw [hw] at h; cases h
  | ok q =>
    rw [hw] at h
    simp only [Except.map] at h
    cases h
    have hq : q.typ ≠ code "SetReaderConfig" := by rw [← (ka_only_setreaderconfig q).1]; exact ht
    rw [(ka_only_setreaderconfig q).2.2.2.2.2 hq]
    obtain ⟨m, hd, htyp, _, hp⟩ := follows_doc c q hw
    unfold Provenance at hp
    match hps : c.params, hp with
    | [p0], hp =>
      obtain ⟨_, _, hp⟩ := hp
      rcases hp with ⟨ka, _, _, hka, _⟩ | ⟨_, _, _, _, _, hka, _⟩
      · by_cases hm : m = "SetReaderConfig"
        · subst hm; exact absurd htyp hq
        · rw [hka, if_neg hm]
      · exact hka
    | [p0, p1], hp =>
      obtain ⟨n, _, _, _, _, _, hka⟩ := hp
      exact hka
    | [], hp => exact hp.elim
    | _ :: _ :: _ :: _, hp => exact hp.elim

/-! ## non-vacuity -/

-- well-formed commands of every kind exist and are translated
example : wire ⟨true, ["ReaderConfig"], [], [⟨"ReaderConfig", .obj true (some (0, 5))⟩]⟩ =
    [{ typ := 3, resp := 13, payloadFrom := some 0, ka := some (1, 30000) }] := by decide
example : wire ⟨true, ["ROSpecID", "Action"], [], [⟨"ROSpecID", .uint32 4294967295⟩, ⟨"Action", .str "Stop" false⟩]⟩ =
    [{ typ := 23, resp := 33, id := some 4294967295 }] := by decide
example : wire ⟨true, ["Impinj"], [("vendor", .numeric 25882), ("subtype", .numeric 21)], [⟨"Impinj", .str "AAAAAA==" true⟩]⟩ =
    [{ typ := 1023, resp := 1023, custom := some (25882, 21), payloadFrom := some 0 }] := by decide
example : wire ⟨false, ["ROSpec", "AccessSpec"], [], []⟩ = [{ typ := 26, resp := 36 }, { typ := 44, resp := 54 }] := by decide
-- malformed commands of several kinds exist and are rejected
example : wellFormed ⟨true, ["AccessSpecID", "Action"], [], [⟨"AccessSpecID", .uint32 1⟩, ⟨"Action", .str "Start" false⟩]⟩ = false := by decide
example : wellFormed ⟨true, ["Impinj"], [("vendor", .numeric 4294967296), ("subtype", .numeric 21)], [⟨"Impinj", .str "AAAA" true⟩]⟩ = false := by decide
example : wellFormed ⟨true, ["ReaderConfig"], [], [⟨"ReaderConfig", .null⟩]⟩ = false := by decide
example : wellFormed ⟨false, ["ROSpec", "ROSpecID"], [], []⟩ = false := by decide
example : wire ⟨false, ["ROSpec", "ROSpecID"], [], []⟩ = [] := by decide
-- the hypothesis of ka_enforced is satisfiable with every shape of KeepAliveSpec
example : (enforceKA { typ := code "SetReaderConfig", resp := 13, ka := some (0, 60000) }).ka = some (1, 30000) := by decide
example : (enforceKA { typ := code "SetReaderConfig", resp := 13, ka := none }).ka = some (1, 30000) := by decide
example : (enforceKA { typ := code "AddROSpec", resp := 30, ka := none }).ka = none := by decide

/-! ## `TrySend` as translated from the source

`Gen.driver_LLRPDevice_TrySend` is the go2seq translation of `LLRPDevice.TrySend` (regenerated from `device.go` on every
run); `SeqGlue.ksEnv` is a one-object heap for the request's KeepAliveSpec pointer (hand-written: what the pointer
operations mean). The enforced values are the regenerated constants. -/

/-- **the keep-alive clause at source level**: for every KeepAliveSpec the caller may have supplied — none, any trigger,
any interval — the SetReaderConfig the translated `TrySend` hands to the retried send carries the periodic spec of
`keepAliveInterval` milliseconds, and the send is attempted `maxSendAttempts` times through `retry.Quick` -/
theorem src_ka_enforced (spec : Option (Int × Int)) :
    (Gen.driver_LLRPDevice_TrySend (SeqGlue.ksEnv true) { spec := spec } () () ()).1.sent
      = some (some ((Gen.KATriggerPeriodic : Int), ((Gen.drv_keepAliveInterval / 1000000 : Nat) : Int))) ∧
    (Gen.driver_LLRPDevice_TrySend (SeqGlue.ksEnv true) { spec := spec } () () ()).1.attempts = (Gen.sup_maxSendAttempts : Int) := by
  have h := SeqGlue.src_trysend_enforces_ka spec
  simpa [SeqGlue.kaPeriodic, SeqGlue.kaIntervalMs, Gen.KATriggerPeriodic, Gen.drv_keepAliveInterval, Gen.sup_maxSendAttempts] using h

/-- a request of any other type is handed on untouched -/
theorem src_other_requests_untouched (spec : Option (Int × Int)) :
    (Gen.driver_LLRPDevice_TrySend (SeqGlue.ksEnv false) { spec := spec } () () ()).1.sent = some spec :=
  SeqGlue.src_trysend_other_untouched spec

end LLRP.C14
