import LLRP.Model.ReadStages
namespace LLRP.C04
end LLRP.C04
