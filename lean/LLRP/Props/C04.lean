import LLRP.Proofs.ReadSide
import LLRP.Proofs.SeqDispatchEq
/-!
# C04 — the inbound stream stays frame-aligned whatever handlers do

Theorems about the read-side fold `LLRP.ReadSide.rd` (model of `handleIncoming` / `passToHandler` / `handleGuarded`,
tied to reader.go by the C04 differential run). The peer's stream is `wire fs`: the concatenation of arbitrary
well-formed frames (any version, type, id, payload of any length below 2^32 − 10). Quantified over ALL handler tables,
ALL per-frame environments `env` (ids registered / cancelled before each lookup, handler reads `k` bytes or panics
after `k`, for every `k`) and ALL initial await sets.
-/
namespace LLRP.C04
open LLRP LLRP.ReadSide

/-- the model's constant is the library's `MsgCloseConnectionResponse` -/
theorem consts_match : Gen.msgConsts.lookup "CloseConnectionResponse" = some typCloseConnectionResponse := by decide

/-- frame `i` starts where frame `i-1` ended -/
def starts : List WFrame → Nat → List (Nat × Header)
  | [], _ => []
  | f :: fs, off => (off, f.hdr) :: starts fs (off + f.size)

/-- byte-level loop = frame-level specification, for every stream of well-formed frames -/
theorem rd_wire (cfg : Cfg) (env : Nat → Step) (a0 : List Nat) (fs : List WFrame) (hv : ∀ f ∈ fs, f.Valid) :
    rd cfg env a0 (wire fs) = specRun cfg env 0 0 a0 false fs :=
  rdLoop_wire cfg env fs hv _ 0 0 a0 false (Nat.lt_succ_self _)

theorem specRun_headers (cfg : Cfg) (env : Nat → Step) :
    ∀ fs i off aw closed, (specRun cfg env i off aw closed fs).headers = starts fs off := by
  intro fs
  induction fs with
  | nil => intros; rfl
  | cons f fs ih => intro i off aw closed; simp [specRun, starts, ih]

/-- **aligned**: for every handler behaviour and await set, the i-th header parsed is the header of frame i, found at
the sum of the lengths of the frames before it -/
theorem aligned (cfg : Cfg) (env : Nat → Step) (a0 : List Nat) (fs : List WFrame) (hv : ∀ f ∈ fs, f.Valid) :
    (rd cfg env a0 (wire fs)).headers = starts fs 0 := by
  rw [rd_wire cfg env a0 fs hv, specRun_headers]

theorem starts_length : ∀ fs off, (starts fs off).length = fs.length := by
  intro fs; induction fs with
  | nil => intro _; rfl
  | cons f fs ih => intro off; simp [starts, ih]

/-- the offsets in `starts`: the sum of the sizes (10 + payload length) of the preceding frames -/
theorem starts_get : ∀ (fs : List WFrame) (off i : Nat) (h : i < fs.length),
    (starts fs off)[i]? = some (off + ((fs.take i).map WFrame.size).sum, fs[i].hdr) := by
  intro fs
  induction fs with
  | nil => intro off i h; simp at h
  | cons f fs ih =>
    intro off i h
    cases i with
    | zero => simp [starts]
    | succ j =>
      have hj : j < fs.length := by simpa using h
      simp only [starts, List.getElem?_cons_succ, ih (off + f.size) j hj, List.take_succ_cons, List.map_cons,
        List.sum_cons, List.getElem_cons_succ, Nat.add_assoc]

/-- the deliveries the property demands, as a recursion over the frames (the await set evolves as in the code:
registrations and cancellations, then `delete` of the id looked up) -/
def deliveriesSpec (cfg : Cfg) (env : Nat → Step) : Nat → List Nat → List WFrame → List Delivery
  | _, _, [] => []
  | i, await, f :: fs =>
    let aw := awaitNow await (env i)
    expectedDeliveries cfg i f (isAwaited aw f.typ f.id) (env i).beh ++ deliveriesSpec cfg env (i + 1) (awaitAfter aw f.typ f.id) fs

theorem specRun_deliveries (cfg : Cfg) (env : Nat → Step) :
    ∀ fs i off aw closed, (specRun cfg env i off aw closed fs).deliveries = deliveriesSpec cfg env i aw fs := by
  intro fs
  induction fs with
  | nil => intros; rfl
  | cons f fs ih => intro i off aw closed; simp [specRun, deliveriesSpec, ih]

/-- **delivered_once**: the hand-overs of the whole run are, frame by frame and in order, exactly the entitled ones -/
theorem delivered_once (cfg : Cfg) (env : Nat → Step) (a0 : List Nat) (fs : List WFrame) (hv : ∀ f ∈ fs, f.Valid) :
    (rd cfg env a0 (wire fs)).deliveries = deliveriesSpec cfg env 0 a0 fs := by
  rw [rd_wire cfg env a0 fs hv, specRun_deliveries]

/-- what "the entitled ones" means for one frame: no party twice; the awaiting caller iff the id is awaited; the
handler registered for the type or else the default handler, iff there is one; each with the frame's header fields;
handlers are offered exactly the payload sent and consume `Beh.took` of it (`min k n` for a handler that reads `k`
 bytes, everything — or nothing if `n` is over the limit — for one that calls `UnmarshalTo` / `data()`); the caller gets exactly the payload, or — over
the buffering limit — a message without payload (which `SendMessage` turns into an error: C10 `oversize_is_error`) -/
theorem entitled_exactly_once (cfg : Cfg) (i : Nat) (f : WFrame) (aw : Bool) (beh : Beh) :
    ((expectedDeliveries cfg i f aw beh).map (·.party)).Nodup ∧
    (∀ d ∈ expectedDeliveries cfg i f aw beh, d.frame = i ∧ d.hdr = f.hdr) ∧
    ((∃ d ∈ expectedDeliveries cfg i f aw beh, d.party = .caller) ↔ aw = true) ∧
    (∀ p, p ≠ Party.caller → ((∃ d ∈ expectedDeliveries cfg i f aw beh, d.party = p) ↔ handlerParty cfg f.typ = some p)) ∧
    (∀ d ∈ expectedDeliveries cfg i f aw beh, d.party ≠ .caller →
        d.offered = some f.payload ∧ d.took = beh.took f.payload.length f.payload.length ∧ d.panicked = beh.isPanic) ∧
    (∀ d ∈ expectedDeliveries cfg i f aw beh, d.party = .caller →
        d.offered = if f.payload.length ≤ MaxBuf then some f.payload else none) := by
  cases aw <;> cases hhp : handlerParty cfg f.typ
  all_goals (try have hne := handlerParty_ne_caller _ _ _ hhp)
  all_goals simp [expectedDeliveries, hhp]
  all_goals (try (rename_i p; cases p <;> simp_all))
  all_goals (try (intro p hp hq; exact absurd hq.symm hp))

theorem specRun_unhandled (cfg : Cfg) (env : Nat → Step) :
    ∀ fs i off aw closed j, j ∈ (specRun cfg env i off aw closed fs).unhandled → i ≤ j ∧ j < i + fs.length := by
  intro fs
  induction fs with
  | nil => intro i off aw closed j h; simp [specRun] at h
  | cons f fs ih =>
    intro i off aw closed j h
    simp only [specRun, List.mem_append] at h
    rcases h with h | h
    · split at h
      · simp at h; subst h; simp
      · simp at h
    · have := ih _ _ _ _ _ h
      simp only [List.length_cons]; omega

theorem specRun_fin (cfg : Cfg) (env : Nat → Step) :
    ∀ fs i off aw closed, cfg.closing = false → (specRun cfg env i off aw closed fs).fin = .err := by
  intro fs
  induction fs with
  | nil => intro i off aw closed hc; simp [specRun, hc]
  | cons f fs ih => intro i off aw closed hc; simp [specRun, ih _ _ _ _ hc]

/-- **panic_survives**: whatever the handlers do — including panicking on any subset of the frames — every frame of the
stream is parsed (at its own first byte, by `aligned`), the loop is still serving when the stream ends, and it ends
with the ordinary end-of-stream error, not with a panic -/
theorem panic_survives (cfg : Cfg) (env : Nat → Step) (a0 : List Nat) (fs : List WFrame) (hv : ∀ f ∈ fs, f.Valid)
    (hc : cfg.closing = false) :
    (rd cfg env a0 (wire fs)).headers.length = fs.length ∧
    (rd cfg env a0 (wire fs)).consumed = (wire fs).length ∧
    (rd cfg env a0 (wire fs)).fin = .err := by
  refine ⟨?_, ?_, ?_⟩
  · rw [aligned cfg env a0 fs hv, starts_length]
  · rw [rd_wire cfg env a0 fs hv]
    have : ∀ fs i off aw closed, (specRun cfg env i off aw closed fs).consumed = off + (wire fs).length := by
      intro fs
      induction fs with
      | nil => intros; simp [specRun, wire]
      | cons f fs ih =>
        intro i off aw closed
        simp only [specRun, ih, wire_cons, List.length_append, WFrame.bytes_length]; omega
    simpa using this fs 0 0 a0 false
  · rw [rd_wire cfg env a0 fs hv]; exact specRun_fin cfg env fs _ _ _ _ hc

/-- **chunking_irrelevant**: the run depends on the TCP segments only through their concatenation -/
theorem chunking_irrelevant (cfg : Cfg) (env : Nat → Step) (a0 : List Nat) (c1 c2 : List Bytes)
    (h : c1.flatten = c2.flatten) : rdChunks cfg env a0 c1 = rdChunks cfg env a0 c2 := by
  unfold rdChunks; rw [h]

/-! ## non-vacuity -/

def exF1 : WFrame := ⟨1, 61, 7, [1, 2, 3]⟩      -- a report; its handler panics after one byte
def exF2 : WFrame := ⟨1, 12, 0, [9]⟩            -- a reply awaited by caller 0, whose type also has a handler
def exCfg : Cfg := { handlers := [61, 12], hasDefault := false }
def exEnv : Nat → Step := fun i => if i = 0 then { beh := .panics 1 } else { beh := .reads 5 }

example : exF1.Valid ∧ exF2.Valid := by decide
example : (rd exCfg exEnv [0] (wire [exF1, exF2])).headers = [(0, exF1.hdr), (13, exF2.hdr)] := by
  rw [aligned _ _ _ _ (by decide)]; rfl
example : (rd exCfg exEnv [0] (wire [exF1, exF2])).deliveries =
    [⟨0, .handler, exF1.hdr, some [1, 2, 3], 1, true⟩,
     ⟨1, .caller, exF2.hdr, some [9], 1, false⟩, ⟨1, .handler, exF2.hdr, some [9], 1, false⟩] := by
  rw [delivered_once _ _ _ _ (by decide)]; decide
example : rdChunks exCfg exEnv [0] [[4, 61], [0, 0, 0], (wire [exF1, exF2]).drop 5] = rd exCfg exEnv [0] (wire [exF1, exF2]) := by
  unfold rdChunks; congr 1

/-! ## the dispatcher model is the source

`Gen.llrp_Client_passToHandler` is the go2seq translation of `Client.passToHandler` (regenerated from `reader.go` on every
run, the deferred drain translated in place at every return). `SeqGlue.dispEnv cfg i beh` gives its calls their meaning
over a byte stream: `c.conn` is the remaining stream (`io.ReadFull`, `io.CopyN` and `io.Copy` through the
`io.LimitReader` consume it; running out of bytes is EOF, which `io.Copy` treats as success), the handlers are those of
`cfg`, a handler behaves as `beh` says, a send on the reply channel hands the message to the awaiting caller. -/

/-- **Source = model**: for every handler table, header, await-map content (`inMap`), handler behaviour and remaining
stream, what the translated `passToHandler` delivers (to whom, which bytes, how many taken), discards, allocates,
consumes from the stream and returns is exactly `ReadSide.dispatch` — the function the theorems above are about. -/
theorem src_dispatch (cfg : Cfg) (i : Nat) (h : Header) (inMap : Bool) (beh : Beh) (s : Bytes) :
    SeqGlue.outOf (Gen.llrp_Client_passToHandler (SeqGlue.dispEnv cfg i beh) { stream := s, awaited := inMap } h)
      = dispatch cfg i h (!unsolicited h.typ && inMap) beh s :=
  SeqGlue.src_dispatch_eq cfg i h inMap beh s

end LLRP.C04
